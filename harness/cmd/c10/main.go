// C10 harness — pipes copy exactly the matching events, once, in order, with provenance.
//
// Sections
//
//	corpus    witnesses of the open findings (F09 filter never applied; F10 racing first writes, parked replay) and
//	          minimised past failures, replayed first
//	history   system: generated histories on an in-process server (pipes created by CREATE PIPE and by
//	          pipe.Service.CreatePipe, several sources, batches, chunk roll-overs, concurrent writers to different
//	          sources, clean restarts, deletion) — the pipe partition vs SPEC (reference evaluation of S and F over the
//	          source partitions' content after creation) and vs MODEL (the Lean pipe LTS run on the same history)
//	parked    deterministic schedules through hook points: a writer parked between its journal write and its
//	          notification (racing first writes, a late notification moving LastKnwnPos backward); a worker parked before
//	          workerDone while data arrives (re-arm) — ppipe descriptor dump vs MODEL after every parked step
//	stress    (thorough) free-running racing first writes and back-to-back writes behind a reading worker
package main

import (
	"context"
	"encoding/json"
	"fmt"
	"io"
	"os"
	"runtime"
	"sort"
	"strconv"
	"strings"
	"sync"
	"sync/atomic"
	"syscall"
	"time"

	"github.com/logrange/logrange/api"
	"github.com/logrange/logrange/pkg/lql"
	"github.com/logrange/logrange/pkg/model"
	"github.com/logrange/logrange/pkg/model/field"
	"github.com/logrange/logrange/pkg/model/tag"
	"github.com/logrange/logrange/pkg/partition"
	"github.com/logrange/logrange/pkg/pipe"
	"github.com/logrange/logrange/pkg/utils/verifhook"
	"github.com/logrange/range/pkg/records"
	"github.com/logrange/range/pkg/records/journal"
	"verifharness/internal/lrsrv"
	"verifharness/internal/vh"
)

var (
	args vh.Args
	res  *vh.Result
)

// ---------------------------------------------------------------------------------------------
// the small condition languages the generator draws from, with reference evaluators (SPEC side)

// tcond is a source condition over tags.
type tcond struct {
	Kind string `json:"kind"` // all | eq | ne | like | and | or
	K    string `json:"k,omitempty"`
	V    string `json:"v,omitempty"`
	L    *tcond `json:"l,omitempty"`
	R    *tcond `json:"r,omitempty"`
}

func (c *tcond) lql() string {
	switch c.Kind {
	case "all":
		return ""
	case "eq":
		return c.K + "=" + c.V
	case "ne":
		return c.K + "!=" + c.V
	case "like":
		return c.K + " like " + strconv.Quote(c.V)
	case "and":
		return "(" + c.L.lql() + ") and (" + c.R.lql() + ")"
	case "or":
		return "(" + c.L.lql() + ") or (" + c.R.lql() + ")"
	case "not":
		return "not (" + c.L.lql() + ")"
	}
	return ""
}

// eval is the reference meaning: a missing tag compares as the empty string; like = prefix match for patterns `p*`.
func (c *tcond) eval(tags map[string]string) bool {
	switch c.Kind {
	case "all":
		return true
	case "eq":
		return tags[c.K] == c.V
	case "ne":
		return tags[c.K] != c.V
	case "like":
		return strings.HasPrefix(tags[c.K], strings.TrimSuffix(c.V, "*"))
	case "and":
		return c.L.eval(tags) && c.R.eval(tags)
	case "or":
		return c.L.eval(tags) || c.R.eval(tags)
	case "not":
		return !c.L.eval(tags)
	}
	return false
}

// fcond is a filter over events.
type fcond struct {
	Kind string `json:"kind"` // true | contains | tsgt | tslt | fldeq | fldne (field K compared with S)
	S    string `json:"s,omitempty"`
	N    int64  `json:"n,omitempty"`
	K    string `json:"k,omitempty"`
}

// kvValue is the reference reading of a field list rendered as k=v,k=v (the generator's values need no quoting): the
// value of the first pair named k, "" when there is none.
func kvValue(kv, k string) string {
	if kv == "" {
		return ""
	}
	for _, p := range strings.Split(kv, ",") {
		if i := strings.IndexByte(p, '='); i >= 0 && p[:i] == k {
			return p[i+1:]
		}
	}
	return ""
}

func (f fcond) lql() string {
	switch f.Kind {
	case "contains":
		return "msg contains " + strconv.Quote(f.S)
	case "tsgt":
		return fmt.Sprintf("ts > %d", f.N)
	case "tslt":
		return fmt.Sprintf("ts < %d", f.N)
	case "fldeq":
		return "fields:" + f.K + " = " + strconv.Quote(f.S)
	case "fldne":
		return "fields:" + f.K + " != " + strconv.Quote(f.S)
	case "nand":
		return fmt.Sprintf("not (msg contains %s and ts > %d)", strconv.Quote(f.S), f.N)
	}
	return ""
}

// eval is the reference meaning on the SOURCE event (its own fields; the tags the pipe appends are not part of it)
func (f fcond) eval(ts int64, msg, fields string) bool {
	switch f.Kind {
	case "nand":
		return !(strings.Contains(msg, f.S) && ts > f.N)
	case "fldeq":
		return kvValue(fields, f.K) == f.S
	case "fldne":
		return kvValue(fields, f.K) != f.S
	case "contains":
		return strings.Contains(msg, f.S)
	case "tsgt":
		return ts > f.N
	case "tslt":
		return ts < f.N
	}
	return true
}

func (f fcond) driver() string {
	switch f.Kind {
	case "contains":
		return "contains:" + vh.HxS(f.S)
	case "tsgt":
		return fmt.Sprintf("tsgt:%d", f.N)
	case "tslt":
		return fmt.Sprintf("tslt:%d", f.N)
	case "fldeq":
		return "fldeq:" + vh.HxS(f.K) + ":" + vh.HxS(f.S)
	case "fldne":
		return "fldne:" + vh.HxS(f.K) + ":" + vh.HxS(f.S)
	case "nand":
		return fmt.Sprintf("nand:%s:%d", vh.HxS(f.S), f.N)
	}
	return "true"
}

// ---------------------------------------------------------------------------------------------
// histories

type opT struct {
	Kind   string `json:"kind"` // write | conc | create | delete | restart | quiesce
	Src    int    `json:"src,omitempty"`
	N      int    `json:"n,omitempty"`
	Via    string `json:"via,omitempty"` // rpc | direct
	Fields string `json:"fields,omitempty"`
	// conc: one writer per listed source, each writing Batches batches of N events, all at once
	Srcs    []int `json:"srcs,omitempty"`
	Batches int   `json:"batches,omitempty"`
}

type history struct {
	Name     string              `json:"name"`
	S        tcond               `json:"s"`
	F        fcond               `json:"f"`
	Via      string              `json:"via"` // lql | api
	Chunk    int                 `json:"chunk,omitempty"`
	Sources  []map[string]string `json:"sources"`
	Ops      []opT               `json:"ops"`
	TsStep   int64               `json:"ts_step"`
	BigMsg   int                 `json:"big_msg,omitempty"` // pad messages to make chunks roll over
	NoFirstQ bool                `json:"no_first_quiesce,omitempty"`
	FlushMs  int                 `json:"flush_ms,omitempty"`
	// Others: an unrelated pipe exists from the beginning, so the notification cache is in use before the creation
	Others bool `json:"others,omitempty"`
}

type ev struct {
	Ts     int64
	Msg    string
	Fields string
}

func tagLine(t map[string]string) string {
	ks := make([]string, 0, len(t))
	for k := range t {
		ks = append(ks, k)
	}
	sort.Strings(ks)
	ps := make([]string, len(ks))
	for i, k := range ks {
		ps[i] = k + "=" + t[k]
	}
	return strings.Join(ps, ",")
}

type litIt struct {
	evs []model.LogEvent
	i   int
}

func (m *litIt) Next(ctx context.Context) { m.i++ }
func (m *litIt) Get(ctx context.Context) (model.LogEvent, tag.Line, error) {
	if m.i >= len(m.evs) {
		return model.LogEvent{}, "", io.EOF
	}
	return m.evs[m.i], "", nil
}
func (m *litIt) Release()                        {}
func (m *litIt) SetBackward(bool)                {}
func (m *litIt) CurrentPos() records.IteratorPos { return m.i }

func fieldParse(kv string) field.Fields { return field.Parse(kv) }

func goid() uint64 {
	var b [64]byte
	n := runtime.Stack(b[:], false)
	f := strings.Fields(string(b[:n]))
	if len(f) < 2 {
		return 0
	}
	id, _ := strconv.ParseUint(f[1], 10, 64)
	return id
}

// runner drives one server through one history
type runner struct {
	h        *history
	dir      string
	srv      *lrsrv.Srv
	opts     lrsrv.Opts
	seq      []int  // next sequence number per source
	written  [][]ev // acknowledged events per source, in write order (one writer per source at a time)
	created  []int  // events per source at creation
	deleted  []int  // events per source at deletion (-1 = not deleted)
	destTags string
	lines    []string // model driver requests
	pipeLive bool
	mu       sync.Mutex
	bounds   [][]int // per source: number of stored events after each acknowledged write (confirmation boundaries)
}

func (r *runner) mkEvents(src, n int, fields string) []ev {
	out := make([]ev, n)
	for i := range out {
		s := r.seq[src]
		r.seq[src]++
		tok := []string{"k7", "x", "zz", "x k7"}[s%4]
		pad := ""
		if r.h.BigMsg > 0 {
			pad = " " + strings.Repeat("p", r.h.BigMsg)
		}
		out[i] = ev{Ts: int64(s)*r.h.TsStep + int64(src), Msg: fmt.Sprintf("s%d#%d %s%s", src, s, tok, pad), Fields: fields}
	}
	return out
}

func (r *runner) write(src int, evs []ev, via string) error {
	tl := tagLine(r.h.Sources[src])
	if len(evs) == 0 {
		return nil
	}
	var err error
	if via == "direct" {
		les := make([]model.LogEvent, len(evs))
		for i, e := range evs {
			les[i] = model.LogEvent{Timestamp: e.Ts, Msg: []byte(e.Msg), Fields: fieldParse(e.Fields)}
		}
		err = r.srv.Parts.Write(context.Background(), tl, &litIt{evs: les}, false)
	} else {
		aes := make([]*api.LogEvent, len(evs))
		for i, e := range evs {
			aes[i] = &api.LogEvent{Timestamp: e.Ts, Message: e.Msg}
		}
		var wr api.WriteResult
		err = r.srv.Client.Write(context.Background(), tl, evs[0].Fields, aes, &wr)
		if err == nil {
			err = wr.Err
		}
	}
	if err == nil {
		r.mu.Lock()
		r.written[src] = append(r.written[src], evs...)
		if r.bounds != nil {
			r.bounds[src] = append(r.bounds[src], len(r.written[src]))
		}
		r.mu.Unlock()
	}
	return err
}

func evLine(e ev) string { return fmt.Sprintf("%d:%s:%s", e.Ts, vh.HxS(e.Msg), vh.HxS(e.Fields)) }

func (r *runner) modelWrite(src int, evs []ev) {
	ps := make([]string, len(evs))
	for i, e := range evs {
		ps[i] = evLine(e)
	}
	r.lines = append(r.lines, fmt.Sprintf("write %d %s", src, strings.Join(ps, " ")), fmt.Sprintf("cycle %d", src))
}

func readAll(srv *lrsrv.Srv, q string) ([]*api.LogEvent, error) {
	req := &api.QueryRequest{Query: q, Pos: "head", Limit: 5000}
	var out []*api.LogEvent
	for i := 0; i < 1000; i++ {
		qr, err := srv.Querier.Query(context.Background(), req)
		if err != nil && err != io.EOF { // the querier hands io.EOF through together with a valid result
			return out, err
		}
		if qr == nil {
			return out, fmt.Errorf("no result")
		}
		if len(qr.Events) == 0 {
			return out, nil
		}
		for _, e := range qr.Events {
			c := *e
			c.Message = string(append([]byte{}, e.Message...))
			c.Fields = string(append([]byte{}, e.Fields...))
			out = append(out, &c)
		}
		nr := qr.NextQueryRequest
		req = &nr
	}
	return out, fmt.Errorf("read did not end")
}

func (r *runner) destCount() int {
	if r.destTags == "" {
		return 0
	}
	return partCount(r.srv, r.destTags)
}

// chunkCounts reads the confirmed record count of every chunk of the partition straight from the journal (what
// partition.Service.GetParitionInfo does, without its detour through the time index: polling that from the harness is not
// part of this property and would interleave TsIndexer.SyncChunks with every write of the scenario).
func chunkCounts(srv *lrsrv.Srv, tags string) (ids []uint64, counts []int, err error) {
	src, _, err := srv.TIndex.GetJournal(tags)
	if err != nil {
		return nil, nil, err
	}
	defer srv.TIndex.Release(src)
	jrnl, err := srv.Journals.GetOrCreate(context.Background(), src)
	if err != nil {
		return nil, nil, err
	}
	cks, err := jrnl.Chunks().Chunks(context.Background())
	if err != nil {
		return nil, nil, err
	}
	for _, c := range cks {
		ids = append(ids, uint64(c.Id()))
		counts = append(counts, int(c.Count()))
	}
	return ids, counts, nil
}

func partCount(srv *lrsrv.Srv, tags string) int {
	_, cs, err := chunkCounts(srv, tags)
	if err != nil {
		return 0
	}
	n := 0
	for _, c := range cs {
		n += c
	}
	return n
}

func caughtUp(srv *lrsrv.Srv, name string) bool {
	ds, ok := srv.Pipes.VerifC10Descs(name)
	if !ok {
		return true
	}
	for _, d := range ds {
		if d.Pos.Less(d.LastKnwnPos) {
			return false
		}
	}
	return true
}

// quiesce waits until the pipe has copied everything it was notified about and its partition stopped growing.
// settled: every descriptor is caught up with what it was notified about, and — for a live pipe — every source the pipe
// listens to (reference evaluation of S) that was written after the creation has a descriptor standing at the end of the
// stored data. (A fixed sleep or "stable for 100 ms" is not enough on a loaded machine: the notificator or a worker can be
// late by hundreds of milliseconds.) A defect that keeps a position from advancing makes this wait run into its cap; the
// comparisons afterwards report it.
func (r *runner) settled() bool {
	if !caughtUp(r.srv, r.h.Name) {
		return false
	}
	if !r.pipeLive || r.created == nil {
		return true
	}
	ds, ok := r.srv.Pipes.VerifC10Descs(r.h.Name)
	if !ok {
		return true
	}
	for i, t := range r.h.Sources {
		r.mu.Lock()
		nw := len(r.written[i])
		r.mu.Unlock()
		if !r.h.S.eval(t) || nw <= r.created[i] {
			continue
		}
		found := false
		for _, d := range ds {
			if d.Tags == tagLine(t) {
				found = globalIdx(r.srv, tagLine(t), d.Pos) == nw
			}
		}
		if !found {
			return false
		}
	}
	return true
}

// quiesce waits until the pipe is settled and its partition has not grown for a number of consecutive polls (long cap).
func (r *runner) quiesce() {
	r.srv.FlushWait()
	// the cap is about progress, not about wall time: as long as the partition keeps growing the wait goes on (a loaded
	// machine can make a worker take many seconds); 12 s without any growth, or 90 s in all, end it
	start, lastChange := time.Now(), time.Now()
	last, stable := -1, 0
	need := 6
	if !r.pipeLive {
		need = 15
	}
	for time.Since(lastChange) < 12*time.Second && time.Since(start) < 90*time.Second {
		n := r.destCount()
		if n != last {
			lastChange = time.Now()
		}
		if n == last && r.settled() {
			stable++
			if stable >= need {
				return
			}
		} else {
			stable = 0
		}
		last = n
		time.Sleep(20 * time.Millisecond)
	}
}

type outcome struct {
	Expected [][]ev `json:"-"`
	Dest     [][]ev `json:"-"`
	Problems []string
}

func fieldsWithProv(orig, tl string) string {
	if orig == "" {
		return tl
	}
	return orig + "," + tl
}

// runHistory executes h on a fresh server and evaluates SPEC; the MODEL lines are answered afterwards in batch.
var f34Attributed int64

// report of one execution of a history (nothing goes to the result file before the wrapper has classified it)
type execReport struct {
	fails []vh.SpecFailure
	mms   []vh.Mismatch
}

// runHistory executes h and reports. A loss that has the shape of finding F34 (library tail-reader race: the saved position
// jumped over events that were never copied; everything else intact) is schedule-dependent by nature: the history is
// executed once more, and the loss is attributed to F34 only if it does NOT reproduce — a defect of the pipe code that
// loses events (a wrong start position, a skipped portion of a split write …) fails again and stays unattributed.
func runHistory(h *history, sec *vh.Section, section string) {
	rp := execHistory(h, sec, section, false)
	cand := false
	for _, f := range rp.fails {
		if f.Kind == "tail-skip" {
			cand = true
		}
	}
	if cand {
		again := execHistory(h, sec, section, true)
		if len(again.fails) > 0 || len(again.mms) > 0 {
			for i := range rp.fails {
				if rp.fails[i].Kind == "tail-skip" {
					rp.fails[i].Kind, rp.fails[i].Finding, rp.fails[i].ImplEqModel = "lost-event", "", false
					rp.fails[i].What += " — the loss reproduces when the same history is executed again, so it is not the schedule-dependent library race"
				}
			}
			rp.fails = append(rp.fails, again.fails...)
			rp.mms = append(rp.mms, again.mms...)
		} else if n := atomic.AddInt64(&f34Attributed, 1); n > 3 {
			// the library race is rare (about one lost run per thousand chunk confirmations): more than three such losses in one
			// run are too frequent to be it
			for i := range rp.fails {
				if rp.fails[i].Kind == "tail-skip" {
					rp.fails[i].Kind, rp.fails[i].Finding, rp.fails[i].ImplEqModel = "lost-event", "", false
					rp.fails[i].What += " — more than three losses of this shape in one run: too frequent for the rare library race"
				}
			}
		} else {
			res.Dist(sec, "F34-shaped loss, not reproduced by a second execution")
		}
	}
	for _, f := range rp.fails {
		res.SpecFail(f)
	}
	for _, m := range rp.mms {
		res.Mismatch(m)
	}
}

func execHistory(h *history, sec *vh.Section, section string, quiet bool) (rp *execReport) {
	rp = &execReport{}
	r := &runner{h: h, dir: lrsrv.NewDir()}
	defer os.RemoveAll(r.dir)
	// a slow flush keeps a starting worker's first end-of-data check away from the confirmation of the batch that
	// started it (the library's tail-reader race, finding F34); the stress section runs with the fast flush
	r.opts = lrsrv.Opts{MaxChunkSize: h.Chunk, WriteFlushMs: h.FlushMs}
	srv, err := lrsrv.Start(r.dir, r.opts)
	if err != nil {
		res.Note("%s: %v", section, err)
		return rp
	}
	r.srv = srv
	defer func() { r.srv.Stop() }()
	ns := len(h.Sources)
	r.seq, r.written, r.created, r.deleted = make([]int, ns), make([][]ev, ns), make([]int, ns), make([]int, ns)
	r.bounds = make([][]int, ns)
	for i := range r.deleted {
		r.deleted[i] = -1
	}
	if h.Others {
		if _, err := r.srv.Pipes.CreatePipe(pipe.Pipe{Name: h.Name + "o", TagsCond: "grp=nomatch"}); err != nil {
			res.Note("%s: creating the unrelated pipe failed: %v", section, err)
		}
	}
	r.lines = append(r.lines, fmt.Sprintf("reset %d %s %s", ns, b01(h.Others), h.F.driver()))
	for i, t := range h.Sources {
		r.lines = append(r.lines, fmt.Sprintf("src %d %s %s", i, b01(h.S.eval(t)), vh.HxS(","+tagLine(t))))
	}
	fail := func(kind, what, impl, spec string, finding string, eq bool) {
		rp.fails = append(rp.fails, vh.SpecFailure{Section: section, Kind: kind, Input: h, Impl: impl, Spec: spec, What: what, Finding: finding, ImplEqModel: eq})
	}
	firstAfterCreate := map[int]bool{}
	for _, o := range h.Ops {
		if !quiet {
			res.Dist(sec, "op="+o.Kind)
		}
		switch o.Kind {
		case "write":
			evs := r.mkEvents(o.Src, o.N, o.Fields)
			if err := r.write(o.Src, evs, o.Via); err != nil {
				res.Note("%s: write failed: %v", section, err)
				return rp
			}
			r.modelWrite(o.Src, evs)
			if r.pipeLive && !firstAfterCreate[o.Src] && !h.NoFirstQ {
				// the first write of a source after the creation is awaited alone (racing first writes: section parked / stress)
				firstAfterCreate[o.Src] = true
				r.quiesce()
			}
		case "conc":
			var wg sync.WaitGroup
			all := make([][][]ev, len(o.Srcs))
			for wi, s := range o.Srcs {
				for b := 0; b < o.Batches; b++ {
					all[wi] = append(all[wi], r.mkEvents(s, o.N, o.Fields))
				}
			}
			for wi, s := range o.Srcs {
				wg.Add(1)
				go func(wi, s int) {
					defer wg.Done()
					for _, evs := range all[wi] {
						via := "rpc"
						if (wi+len(evs))%2 == 0 {
							via = "direct"
						}
						if err := r.write(s, evs, via); err != nil {
							res.Note("%s: write failed: %v", section, err)
						}
					}
				}(wi, s)
			}
			wg.Wait()
			for wi, s := range o.Srcs {
				for _, evs := range all[wi] {
					r.modelWrite(s, evs)
				}
			}
		case "quiesce":
			r.quiesce()
		case "create":
			// everything written so far is acknowledged, flushed and its notification processed
			// no notification of an earlier write may still be in flight (it would be processed by the new pipe): the
			// write-event channel must have been empty for a number of consecutive polls
			r.srv.FlushWait()
			for empty, t0 := 0, time.Now(); empty < 8 && time.Since(t0) < 10*time.Second; {
				if r.srv.Parts.VerifC10WriteEventsQueued() == 0 {
					empty++
				} else {
					empty = 0
				}
				time.Sleep(15 * time.Millisecond)
			}
			for i := range r.created {
				r.created[i] = len(r.written[i])
			}
			var err error
			if h.Via == "lql" {
				q := "create pipe " + h.Name
				if s := h.S.lql(); s != "" {
					q += " from " + s
				}
				if f := h.F.lql(); f != "" {
					q += " where " + f
				}
				_, err = r.srv.Exec(q)
			} else {
				_, err = r.srv.Pipes.CreatePipe(pipe.Pipe{Name: h.Name, TagsCond: h.S.lql(), FltCond: h.F.lql()})
			}
			if err != nil {
				fail("create-failed", "creating the pipe failed", err.Error(), "created", "", false)
				return rp
			}
			d, err := r.srv.Pipes.GetPipe(h.Name)
			if err == nil {
				r.destTags = d.DestTags.Line().String()
			}
			r.pipeLive = true
			r.lines = append(r.lines, "create")
		case "delete":
			r.quiesce()
			for i := range r.deleted {
				r.deleted[i] = len(r.written[i])
			}
			var err error
			if h.Via == "lql" {
				_, err = r.srv.Exec("delete pipe " + h.Name)
			} else {
				err = r.srv.Pipes.DeletePipe(h.Name)
			}
			if err != nil {
				fail("delete-failed", "deleting the pipe failed", err.Error(), "deleted", "", false)
			}
			r.pipeLive = false
			time.Sleep(30 * time.Millisecond)
			r.lines = append(r.lines, "delete")
		case "restart":
			r.quiesce()
			r.srv.Stop()
			srv, err := lrsrv.Start(r.dir, r.opts)
			if err != nil {
				fail("restart-refused", "the server must start again after a clean stop", err.Error(), "starts", "", false)
				return rp
			}
			r.srv = srv
			r.lines = append(r.lines, "shutdown", "halt", "restart")
			if _, gerr := srv.Pipes.GetPipe(h.Name); (gerr == nil) != r.pipeLive {
				fail("registry-changed-by-restart", "after a clean restart the pipe exists iff it existed (and was not deleted) before", fmt.Sprintf("exists=%v", gerr == nil), fmt.Sprintf("exists=%v", r.pipeLive), "", false)
			}
		}
	}
	r.quiesce()

	// ---- observe
	dest := []*api.LogEvent{}
	if r.destTags != "" {
		dest, err = readAll(r.srv, "select from "+r.destTags)
		if err != nil {
			fail("pipe-partition-unreadable", "reading the pipe's partition fails", err.Error(), "readable", "", false)
			return rp
		}
	}
	proj := make([][]ev, ns)
	foreign := 0
	for _, e := range dest {
		var s, q int
		if _, err := fmt.Sscanf(e.Message, "s%d#%d ", &s, &q); err != nil || s < 0 || s >= ns {
			foreign++
			continue
		}
		proj[s] = append(proj[s], ev{Ts: e.Timestamp, Msg: e.Message, Fields: e.Fields})
	}
	// SPEC: the stored content of every source after creation (and before deletion), filtered by S and F
	expected := make([][]ev, ns)
	unfiltered := make([][]ev, ns)
	for i, t := range h.Sources {
		if len(r.written[i]) == 0 {
			continue
		}
		stored, err := readAll(r.srv, "select from {"+tagLine(t)+"}")
		if err != nil || len(stored) != len(r.written[i]) {
			res.Note("%s: source %d holds %d events, %d were acknowledged (err=%v) — C01's business, case skipped", section, i, len(stored), len(r.written[i]), err)
			return rp
		}
		if !h.S.eval(t) {
			continue
		}
		hi := len(stored)
		if r.deleted[i] >= 0 {
			hi = r.deleted[i]
		}
		for k := r.created[i]; k < hi; k++ {
			e := ev{Ts: stored[k].Timestamp, Msg: stored[k].Message, Fields: fieldsWithProv(stored[k].Fields, tagLine(t))}
			unfiltered[i] = append(unfiltered[i], e)
			if h.F.eval(e.Ts, e.Msg, stored[k].Fields) {
				expected[i] = append(expected[i], e)
			}
		}
	}
	// MODEL
	r.lines = append(r.lines, "pipe")
	for i := 0; i < ns; i++ {
		r.lines = append(r.lines, fmt.Sprintf("desc %d", i))
	}
	for i := 0; i < ns; i++ {
		r.lines = append(r.lines, fmt.Sprintf("proj %d", i))
	}
	ans, derr := vh.Batch(args.Driver, r.lines)
	if derr != nil {
		res.Fatal(args.Out, "driver: %v", derr)
	}
	// the registry: the pipe exists iff the model says it is live (creation, deletion, restarts through the registry file)
	{
		_, gerr := r.srv.Pipes.GetPipe(h.Name)
		implLive, modelLive := gerr == nil, strings.HasPrefix(ans[len(ans)-2*ns-1], "live")
		if implLive != modelLive {
			rp.mms = append(rp.mms, vh.Mismatch{Section: section, Function: "pipe registry at the end of the history", Input: h, Impl: fmt.Sprintf("exists=%v", implLive), Model: ans[len(ans)-2*ns-1]})
		}
	}
	// saved positions: after the final quiescence the descriptor of every source the live pipe listens to stands at the
	// end of what is stored — also when the last events were rejected by the filter (they are read once, not re-scanned)
	posAtEnd := make([]bool, ns) // the saved position of the source is known and stands at the end of the stored data
	if r.pipeLive {
		ds, _ := r.srv.Pipes.VerifC10Descs(h.Name)
		for i, t := range h.Sources {
			m := strings.Fields(ans[len(ans)-2*ns+i])
			implPos := "none"
			for _, d := range ds {
				if d.Tags == tagLine(t) {
					implPos = strconv.Itoa(globalIdx(r.srv, tagLine(t), d.Pos))
				}
			}
			modelPos := "none"
			if len(m) >= 1 && m[0] != "none" {
				modelPos = m[0]
			}
			if implPos != modelPos {
				rp.mms = append(rp.mms, vh.Mismatch{Section: section, Function: fmt.Sprintf("ppDesc.Pos of source %d at the final quiescence (global record index)", i), Input: h, Impl: implPos, Model: modelPos})
			}
			posAtEnd[i] = implPos == strconv.Itoa(len(r.written[i]))
			if implPos != "none" && implPos != strconv.Itoa(len(r.written[i])) {
				fail("position-not-advanced", fmt.Sprintf("source %d (%s): at quiescence the pipe's saved position is not the end of the stored data (events the filter rejects must be passed, not re-scanned)", i, tagLine(t)),
					implPos, strconv.Itoa(len(r.written[i])), "", implPos == modelPos)
			}
		}
	}
	// the positions FILE at the final quiescence: every saveState writes the whole map, so with no worker running the file
	// must hold, for every source, the position the pipe has in memory (a clean restart resumes from the file: an older
	// position there means events copied twice)
	if r.pipeLive {
		ds, _ := r.srv.Pipes.VerifC10Descs(h.Name)
		var file map[string]struct {
			Pos journal.Pos
		}
		data, ferr := os.ReadFile(pipe.VerifC07PipeFileName(r.srv.Cfg.PipesConfig.Dir, h.Name))
		if ferr == nil && json.Unmarshal(data, &file) == nil {
			for _, d := range ds {
				if fp, ok := file[d.Src]; ok && fp.Pos != d.Pos {
					// not a worker between its write and its saveState: look again a moment later
					time.Sleep(150 * time.Millisecond)
					ds2, _ := r.srv.Pipes.VerifC10Descs(h.Name)
					var file2 map[string]struct {
						Pos journal.Pos
					}
					data2, _ := os.ReadFile(pipe.VerifC07PipeFileName(r.srv.Cfg.PipesConfig.Dir, h.Name))
					json.Unmarshal(data2, &file2)
					still := false
					for _, d2 := range ds2 {
						if d2.Src == d.Src && d2.Pos == d.Pos && file2[d.Src].Pos == fp.Pos {
							still = true
						}
					}
					if !still {
						continue
					}
					fail("positions-file-stale", fmt.Sprintf("source %s: at quiescence the positions file holds an older position than the pipe (a clean restart would copy events again)", d.Tags),
						fmt.Sprint(fp.Pos), fmt.Sprint(d.Pos), "", false)
				}
			}
		}
	}
	implEqModel := true
	for i := 0; i < ns; i++ {
		m := ans[len(ans)-ns+i]
		impl := projLine(proj[i])
		if canonModel(m) != impl {
			implEqModel = false
			// a difference that is a known schedule-dependent loss is classified below; everything else is a mismatch
			if kind, _ := classifyLoss(proj[i], expected[i]); kind == "" || !posAtEnd[i] {
				rp.mms = append(rp.mms, vh.Mismatch{Section: section, Function: fmt.Sprintf("pipe LTS, source %d: content of the pipe partition", i), Input: h, Impl: clip(impl), Model: clip(canonModel(m))})
			}
		}
	}
	// classify IMPL vs SPEC
	nEv, nExp := 0, 0
	for i := 0; i < ns; i++ {
		nEv += len(r.written[i])
		nExp += len(expected[i])
	}
	key := ""
	if nExp > 0 && len(h.Ops) >= 3 {
		key = fmt.Sprintf("%s|%s|%v|%d", h.S.lql(), h.F.lql(), h.Ops, h.Chunk)
	}
	if !quiet {
		res.Eval(sec, key)
	}
	if !quiet {
		res.Dist(sec, fmt.Sprintf("S=%s", h.S.Kind))
	}
	if !quiet {
		res.Dist(sec, fmt.Sprintf("F=%s", h.F.Kind))
	}
	if !quiet {
		res.Dist(sec, fmt.Sprintf("via=%s", h.Via))
	}
	if h.Chunk > 0 {
		if !quiet {
			res.Dist(sec, "tiny-chunks")
		}
	}
	if h.Others {
		if !quiet {
			res.Dist(sec, "another-pipe-exists")
		}
	}
	if foreign > 0 {
		fail("foreign-event", "the pipe partition holds events that came from no source of the history", fmt.Sprint(foreign), "0", "", false)
	}
	for i := 0; i < ns; i++ {
		if projLine(proj[i]) == projLine(expected[i]) {
			continue
		}
		in := fmt.Sprintf("source %d (%s): ", i, tagLine(h.Sources[i]))
		// F09 (fixed by f08ebbf; a recurrence is tagged so that the check reports "the defect is back"): the difference is
		// exactly the events the filter rejects
		if h.F.Kind != "true" && projLine(proj[i]) == projLine(unfiltered[i]) {
			fail("filter-ignored", in+"the pipe partition holds events for which the pipe's filter is false",
				clip(projLine(proj[i])), clip(projLine(expected[i])), "F09", implEqModel)
			continue
		}
		ref := expected[i]
		kind, finding := classifyLoss(proj[i], ref)
		why := fmt.Sprintf(" [%d of %d expected events present; strict in-order subsequence: %v; saved position at the end of the source: %v", len(proj[i]), len(ref), kind != "", posAtEnd[i])
		if !posAtEnd[i] {
			kind = "" // the copy is not finished or the position is stuck: not a jump over events
		}
		if kind == "tail-skip" {
			ok := runsAtConfirmationBoundaries(r, i, proj[i], ref)
			why += fmt.Sprintf("; missing runs at confirmation boundaries: %v", ok)
			if !ok {
				kind = "" // the library race jumps from one confirmed count to a later one: whole batches (or their portions up to a chunk end)
			}
		}
		why += fmt.Sprintf("; missing source indices: %s]", missingSeqs(proj[i], ref))
		switch kind {
		case "tail-skip":
			fail("tail-skip", in+fmt.Sprintf("the pipe's saved position stands at the end of the source, yet %d of its events in %d contiguous run(s) were never copied; everything else is there once, in order, unaltered (a reader at the tail stepped over freshly confirmed records)", len(ref)-len(proj[i]), missingRuns(proj[i], ref)),
				clip(projLine(proj[i])), clip(projLine(ref)), finding, true)
		default:
			fail(diffKind(proj[i], ref), in+"the pipe partition differs from the events written after creation to a matching source that satisfy the filter (once, stored order, ts/msg unchanged, tags appended as fields)"+why,
				clip(projLine(proj[i])), clip(projLine(ref)), "", implEqModel)
		}
	}
	if !quiet {
		res.Sample(map[string]interface{}{"section": section, "pipe": h.Name, "S": h.S.lql(), "F": h.F.lql(), "ops": len(h.Ops), "events": nEv, "expected_in_pipe": nExp})
	}
	return rp
}

func b01(b bool) string {
	if b {
		return "1"
	}
	return "0"
}

func clip(s string) string {
	if len(s) > 1500 {
		return s[:700] + " … " + s[len(s)-700:]
	}
	return s
}

func projLine(es []ev) string {
	if len(es) == 0 {
		return "-"
	}
	ps := make([]string, len(es))
	for i, e := range es {
		ps[i] = evLine(e)
	}
	return strings.Join(ps, " ")
}

// canonModel renders the model's events like the implementation's: the model concatenates the KV rendering of the
// fields with ",<tags>"; an event without own fields then starts with the separator, which the KV rendering does not print.
func canonModel(m string) string {
	if m == "-" {
		return m
	}
	ps := strings.Fields(m)
	for i, p := range ps {
		f := strings.SplitN(p, ":", 3)
		if len(f) == 3 {
			fl := string(vh.UnHx(f[2]))
			fl = strings.TrimPrefix(fl, ",")
			ps[i] = f[0] + ":" + f[1] + ":" + vh.HxS(fl)
		}
	}
	return strings.Join(ps, " ")
}

// classifyLoss recognises the shape of finding F34 (library tail-reader race): got is want with one or more contiguous
// runs missing — a strict subsequence in the same order, nothing duplicated, added or altered. (The callers add the two
// other parts of the class: the saved position stands at the end of the source — a jump, not an unfinished copy —, and
// the loss does not reproduce when the history is executed again — schedule-dependent, not a defect of the pipe code.)
func classifyLoss(got, want []ev) (kind, finding string) {
	if len(got) >= len(want) || len(want) == 0 {
		return "", ""
	}
	j := 0
	for _, g := range got {
		for j < len(want) && want[j] != g {
			j++
		}
		if j == len(want) {
			return "", ""
		}
		j++
	}
	return "tail-skip", "F34"
}

// runsAtConfirmationBoundaries: every missing run begins and ends where a confirmation can begin and end — at the end of an
// acknowledged write batch or at the end of a chunk of the source (records become readable batch-wise: the chunk writer
// confirms under the lock a whole Write holds; a roll-over confirms the full chunk). Events the filter rejects are
// transparent. The sequence number in a message is the event's index in its source.
func runsAtConfirmationBoundaries(r *runner, src int, got, want []ev) bool {
	bset := map[int]bool{0: true}
	r.mu.Lock()
	for _, b := range r.bounds[src] {
		bset[b] = true
	}
	r.mu.Unlock()
	if _, cs, err := chunkCounts(r.srv, tagLine(r.h.Sources[src])); err == nil {
		n := 0
		for _, c := range cs {
			n += c
			bset[n] = true
		}
	}
	seqOf := func(e ev) int {
		var s, q int
		fmt.Sscanf(e.Msg, "s%d#%d ", &s, &q)
		return q
	}
	wanted := map[int]bool{}
	for _, w := range want {
		wanted[seqOf(w)] = true
	}
	atBoundaryBefore := func(x int) bool { // only unwanted (rejected / older than the pipe) events between a boundary and x
		for k := x; k >= 0; k-- {
			if bset[k] {
				return true
			}
			if k-1 >= 0 && wanted[k-1] {
				return false
			}
		}
		return true
	}
	total := len(r.written[src])
	atBoundaryAfter := func(x int) bool {
		for k := x; k <= total; k++ {
			if bset[k] {
				return true
			}
			if wanted[k] {
				return false
			}
		}
		return true
	}
	j, in, start, last := 0, false, 0, 0
	for _, w := range want {
		if j < len(got) && got[j] == w {
			j++
			if in {
				if !atBoundaryAfter(last + 1) {
					return false
				}
				in = false
			}
			continue
		}
		if !in {
			in, start = true, seqOf(w)
			if !atBoundaryBefore(start) {
				return false
			}
		}
		last = seqOf(w)
	}
	if in && !atBoundaryAfter(last+1) {
		return false
	}
	return true
}

// missingSeqs renders the source indices of the expected events that are not in got, as ranges
func missingSeqs(got, want []ev) string {
	have := map[string]bool{}
	for _, g := range got {
		have[g.Msg] = true
	}
	var parts []string
	start, prev := -1, -1
	flush := func() {
		if start >= 0 {
			parts = append(parts, fmt.Sprintf("%d-%d", start, prev))
		}
	}
	for _, w := range want {
		if have[w.Msg] {
			continue
		}
		var s, q int
		fmt.Sscanf(w.Msg, "s%d#%d ", &s, &q)
		if start >= 0 && q == prev+1 {
			prev = q
			continue
		}
		flush()
		start, prev = q, q
	}
	flush()
	if len(parts) > 12 {
		parts = append(parts[:12], "…")
	}
	return strings.Join(parts, ",")
}

func missingRuns(got, want []ev) int {
	runs, j, in := 0, 0, false
	for _, w := range want {
		if j < len(got) && got[j] == w {
			j++
			in = false
		} else if !in {
			runs++
			in = true
		}
	}
	return runs
}

func diffKind(got, want []ev) string {
	seen := map[string]int{}
	for _, e := range got {
		seen[e.Msg]++
	}
	for _, n := range seen {
		if n > 1 {
			return "duplicate"
		}
	}
	wantSet := map[string]ev{}
	for _, e := range want {
		wantSet[e.Msg] = e
	}
	for _, e := range got {
		w, ok := wantSet[e.Msg]
		if !ok {
			return "extra-event"
		}
		if w != e {
			return "altered-event"
		}
	}
	if len(got) < len(want) {
		return "lost-event"
	}
	return "reordered"
}

// ---------------------------------------------------------------------------------------------
// generator

var tagPool = []map[string]string{
	{"grp": "g1", "app": "a1"}, {"grp": "g1", "app": "a2"}, {"grp": "g2", "app": "a1"}, {"grp": "g2", "app": "b1"},
	{"grp": "g3"}, {"grp": "g1", "app": "b1", "host": "h1"},
}

// own fields of the written events; some carry a field named like a tag of the sources
var fieldsPool = []string{"", "f=1", "f=2,h=zz", "grp=zz,f=1", "app=a1"}

var sPool = []tcond{
	{Kind: "all"},
	{Kind: "eq", K: "grp", V: "g1"},
	{Kind: "ne", K: "grp", V: "g1"},
	{Kind: "like", K: "app", V: "a*"},
	{Kind: "or", L: &tcond{Kind: "eq", K: "grp", V: "g1"}, R: &tcond{Kind: "eq", K: "grp", V: "g3"}},
	{Kind: "and", L: &tcond{Kind: "eq", K: "grp", V: "g1"}, R: &tcond{Kind: "eq", K: "app", V: "a1"}},
	{Kind: "eq", K: "host", V: "h1"},
	// negated groups: the statement text is printed and re-parsed (CREATE PIPE stores the printed conditions; restart re-parses them)
	{Kind: "not", L: &tcond{Kind: "and", L: &tcond{Kind: "eq", K: "grp", V: "g1"}, R: &tcond{Kind: "eq", K: "app", V: "a1"}}},
	{Kind: "not", L: &tcond{Kind: "or", L: &tcond{Kind: "eq", K: "grp", V: "g2"}, R: &tcond{Kind: "like", K: "app", V: "b*"}}},
}

func genHistory(rng *vh.Rng, idx int, withFilter bool) *history {
	h := &history{Name: fmt.Sprintf("p%d", idx), TsStep: int64(rng.PickI([]int{1, 3, 10})), FlushMs: 40}
	if h.Name == "s" { // F33: a pipe named `s` keeps its positions in the registry's own file (C07)
		h.Name = "ps"
	}
	h.S = sPool[rng.Intn(len(sPool))]
	if withFilter {
		switch rng.Intn(7) {
		case 6:
			// a negated group: what the pipe stores is the PRINTED statement, parsed again
			h.F = fcond{Kind: "nand", S: rng.PickS([]string{"x", "k7"}), N: int64(rng.Range(2, 30))}
		case 4, 5:
			// a condition on a field that is also a tag of (some of) the sources: the tags the pipe appends must not count
			k := rng.PickS([]string{"grp", "app", "host"})
			v := rng.PickS([]string{"g1", "a1", "h1", "zz"})
			h.F = fcond{Kind: rng.PickS([]string{"fldeq", "fldne"}), K: k, S: v}
		case 3:
			// rejects everything, or everything from some point on: long runs of rejected events at the end of the sources
			if rng.Bool() {
				h.F = fcond{Kind: "contains", S: "qq-never"}
			} else {
				h.F = fcond{Kind: "tslt", N: int64(rng.Range(1, 12))}
			}
		case 0:
			h.F = fcond{Kind: "contains", S: rng.PickS([]string{"x", "k7", "zz"})}
		case 1:
			h.F = fcond{Kind: "tsgt", N: int64(rng.Range(0, 40))}
		case 2:
			h.F = fcond{Kind: "tslt", N: int64(rng.Range(5, 60))}
		}
	} else {
		h.F = fcond{Kind: "true"}
	}
	h.Via = rng.PickS([]string{"lql", "api"})
	h.Others = rng.Chance(1, 3)
	if rng.Chance(1, 3) {
		h.Chunk = rng.PickI([]int{2048, 4096, 6000})
		h.BigMsg = rng.PickI([]int{40, 100})
	}
	ns := rng.Range(1, 4)
	p := rng.Perm(len(tagPool))
	for i := 0; i < ns; i++ {
		h.Sources = append(h.Sources, tagPool[p[i]])
	}
	sizes := []int{1, 2, 5, 17, 40}
	if h.Chunk > 0 {
		sizes = []int{1, 5, 30, 60, 120}
	}
	wr := func() opT {
		return opT{Kind: "write", Src: rng.Intn(ns), N: rng.PickI(sizes), Via: rng.PickS([]string{"rpc", "direct"}), Fields: rng.PickS(fieldsPool)}
	}
	// writes before the creation (must not be copied)
	npre := rng.Intn(3)
	if h.Others {
		npre = rng.Range(1, 3)
	}
	for i := npre; i > 0; i-- {
		h.Ops = append(h.Ops, wr())
	}
	h.Ops = append(h.Ops, opT{Kind: "create"})
	nops := rng.Range(3, 8)
	deleted := false
	for i := 0; i < nops; i++ {
		switch x := rng.Intn(12); {
		case x < 6:
			h.Ops = append(h.Ops, wr())
			if rng.Chance(2, 3) {
				h.Ops = append(h.Ops, opT{Kind: "quiesce"})
			}
		case x < 8:
			// concurrent writers, one per source (sources already written once after the creation keep their start)
			perm := rng.Perm(ns)
			k := rng.Range(1, ns)
			o := opT{Kind: "conc", N: rng.PickI([]int{1, 3, 10}), Batches: rng.Range(1, 3), Fields: rng.PickS(fieldsPool)}
			for j := 0; j < k; j++ {
				// make sure the source's first write after creation happened alone
				h.Ops = append(h.Ops, opT{Kind: "write", Src: perm[j], N: 1, Via: "rpc"})
				o.Srcs = append(o.Srcs, perm[j])
			}
			h.Ops = append(h.Ops, opT{Kind: "quiesce"}, o, opT{Kind: "quiesce"})
		case x < 10:
			if !deleted {
				h.Ops = append(h.Ops, opT{Kind: "restart"})
			}
		default:
			if !deleted && i > 1 {
				h.Ops = append(h.Ops, opT{Kind: "delete"})
				deleted = true
			}
		}
	}
	if deleted {
		h.Ops = append(h.Ops, wr())
		if rng.Bool() {
			// a clean restart must not bring the deleted pipe back
			h.Ops = append(h.Ops, opT{Kind: "quiesce"}, opT{Kind: "restart"})
		}
		h.Ops = append(h.Ops, wr(), wr())
	}
	return h
}

func sectionHistory(rng *vh.Rng) {
	sec := res.Section("history", "system-correspondence",
		"generated histories on an in-process server: 1..4 sources from a tag pool, a pipe with a source condition from {all, =, !=, like, and, or} and a filter from {none, msg contains, ts >, ts <}, created by CREATE PIPE or pipe.Service.CreatePipe; writes before the creation, batches of 1..120 events over RPC and directly, tiny chunks (roll-overs), concurrent writers to different sources, clean restarts, deletion followed by writes; at quiescence the pipe partition is compared with SPEC (reference evaluation of S and F over the stored source events after creation; once, stored order, ts/msg unchanged, tags appended as fields) and with the Lean pipe LTS run on the same history; non-trivial = something must arrive in the pipe and at least 3 operations, distinct by definition and operation list")
	n, par := 72, 14
	if args.Thorough {
		n, par = 360, 14
	}
	var hs []*history
	for i := 0; i < n; i++ {
		hs = append(hs, genHistory(rng, i, i%3 == 2))
	}
	runPar(hs, par, func(h *history) { runHistory(h, sec, "history") })
	res.Done(sec)
}

func runPar(hs []*history, par int, f func(*history)) {
	var wg sync.WaitGroup
	sem := make(chan struct{}, par)
	for _, h := range hs {
		wg.Add(1)
		sem <- struct{}{}
		go func(h *history) {
			defer wg.Done()
			defer func() { <-sem }()
			f(h)
		}(h)
	}
	wg.Wait()
}

// ---------------------------------------------------------------------------------------------
// parked schedules

type parkedCase struct {
	Variant string `json:"variant"` // f10 | late-notification | rearm-write | rearm-none | rearm-two | rearm-other
	A       int    `json:"a"`       // size of the parked writer's batch / of the first batch
	B       int    `json:"b"`       // size of the other batch
}

// gates for goroutines parked at partition.write.beforeNotify, by goroutine id
var (
	gateMu sync.Mutex
	gates  = map[uint64]*gate{}
)

type gate struct {
	arrived chan struct{}
	release chan struct{}
}

func installWriteHook() { installGateHook("partition.write.beforeNotify") }

func installGateHook(point string) {
	verifhook.Set(point, func() {
		gateMu.Lock()
		g := gates[goid()]
		gateMu.Unlock()
		if g != nil {
			select {
			case <-g.arrived:
			default:
				close(g.arrived)
				<-g.release
			}
		}
	})
}

// runIndexRace: regression case of the server panic of repair a2ca477 (fixed by 7ea0278), found by this harness under
// load: a write is confirmed in the journal while its time-index notification (onWriteCIndex) has not run yet
// (writer parked at partition.write.beforeCIndex); TsIndexer.SyncChunks (here through GetParitionInfo) runs its first
// locked section and is parked at tmindex.syncChunks.betweenLocks; the writer is released. a2ca477 had dropped the "grown"
// entry and left an EMPTY chunk list for the partition in between, so the writer's onWrite indexed [-1] and the server
// died. Must pass: no panic, both calls return, the source holds every event, the pipe copies every event.
func runIndexRace(c parkedCase, sec *vh.Section) {
	dir := lrsrv.NewDir()
	srv, err := lrsrv.Start(dir, lrsrv.Opts{WriteFlushMs: 2})
	if err != nil {
		res.Note("index-race: %v", err)
		return
	}
	clean := true
	defer func() {
		if clean { // after a panic inside the index's locked section the server cannot be stopped any more
			srv.Stop()
		}
		os.RemoveAll(dir)
	}()
	name, tl := "pix", "app=a1,grp=gx"
	srv.Exec("create pipe " + name + " from grp=gx")
	d, _ := srv.Pipes.GetPipe(name)
	destTags := d.DestTags.Line().String()
	r := &runner{h: &history{Sources: []map[string]string{{"app": "a1", "grp": "gx"}}}, srv: srv, written: make([][]ev, 1)}
	e1 := mkEvs("a", 0, c.A)
	r.write(0, e1, "direct")
	waitDest(srv, destTags, c.A, 8*time.Second)
	settle(srv, name, tl, destTags)
	// writer 2: journal write done (and soon confirmed), index notification held
	e2 := mkEvs("b", c.A, c.B)
	g2 := &gate{arrived: make(chan struct{}), release: make(chan struct{})}
	done2 := make(chan string, 1)
	ready := make(chan struct{})
	go func() {
		gateMu.Lock()
		gates[goid()] = g2
		gateMu.Unlock()
		close(ready)
		p := vh.Recover(func() {
			les := make([]model.LogEvent, len(e2))
			for i, e := range e2 {
				les[i] = model.LogEvent{Timestamp: e.Ts, Msg: []byte(e.Msg)}
			}
			if err := srv.Parts.Write(context.Background(), tl, &litIt{evs: les}, false); err != nil {
				panic("write failed: " + err.Error())
			}
		})
		gateMu.Lock()
		delete(gates, goid())
		gateMu.Unlock()
		done2 <- p
	}()
	<-ready
	fail := func(kind, impl string) {
		res.SpecFail(vh.SpecFailure{Section: "parked", Kind: kind, Input: c, Impl: impl, Spec: "no panic; both calls return; source and pipe hold every event",
			What: "a write whose time-index notification is still pending, overtaken by TsIndexer.SyncChunks between its two locked sections"})
	}
	res.Eval(sec, fmt.Sprint(c))
	res.Dist(sec, c.Variant)
	select {
	case <-g2.arrived:
	case p := <-done2:
		fail("hook-not-reached", "the writer finished without passing partition.write.beforeCIndex: "+p)
		return
	case <-time.After(8 * time.Second):
		fail("hang", "the writer did not reach partition.write.beforeCIndex")
		close(g2.release)
		return
	}
	// wait until the second batch is confirmed in the journal: the chunk has "grown" beyond what the index accounts for
	deadline := time.Now().Add(8 * time.Second)
	for partCount(srv, tl) < c.A+c.B && time.Now().Before(deadline) {
		time.Sleep(2 * time.Millisecond)
	}
	// SyncChunks: first locked section, then parked
	g3 := &gate{arrived: make(chan struct{}), release: make(chan struct{})}
	done3 := make(chan string, 1)
	ready3 := make(chan struct{})
	go func() {
		gateMu.Lock()
		gates[goid()] = g3
		gateMu.Unlock()
		close(ready3)
		p := vh.Recover(func() { srv.Parts.GetParitionInfo(tl) })
		gateMu.Lock()
		delete(gates, goid())
		gateMu.Unlock()
		done3 <- p
	}()
	<-ready3
	select {
	case <-g3.arrived:
	case <-done3: // nothing to synchronise: it did not pass between the sections (fine, the race window was not entered)
	case <-time.After(8 * time.Second):
		fail("hang", "SyncChunks did not reach tmindex.syncChunks.betweenLocks")
	}
	// release the writer: its onWrite runs in the window
	close(g2.release)
	var p2 string
	select {
	case p2 = <-done2:
	case <-time.After(8 * time.Second):
		clean = false
		fail("hang", "the released writer did not return")
		return
	}
	if p2 != "" {
		clean = false
		fail("panic", "the writer's index notification panicked (in a server this kills the process): "+p2)
		return
	}
	close(g3.release)
	select {
	case p3 := <-done3:
		if p3 != "" {
			clean = false
			fail("panic", "SyncChunks panicked: "+p3)
			return
		}
	case <-time.After(8 * time.Second):
		clean = false
		fail("hang", "the released SyncChunks did not return")
		return
	}
	e3 := mkEvs("c", c.A+c.B, 1)
	r.write(0, e3, "rpc")
	want := c.A + c.B + 1
	waitDest(srv, destTags, want, 8*time.Second)
	settle(srv, name, tl, destTags)
	src, _ := readAll(srv, "select from {"+tl+"}")
	dest, _ := readAll(srv, "select from "+destTags)
	msgs := func(es []*api.LogEvent) string {
		var m []string
		for _, e := range es {
			m = append(m, e.Message)
		}
		return strings.Join(m, " ")
	}
	var spec []string
	for _, e := range append(append(append([]ev{}, e1...), e2...), e3...) {
		spec = append(spec, e.Msg)
	}
	if msgs(src) != strings.Join(spec, " ") || msgs(dest) != strings.Join(spec, " ") {
		res.SpecFail(vh.SpecFailure{Section: "parked", Kind: "lost-event", Input: c, Impl: "source: " + msgs(src) + " | pipe: " + msgs(dest), Spec: strings.Join(spec, " "),
			What: "after the index race the source partition or the pipe partition does not hold every event once, in order"})
	}
}

// parkedWrite starts a direct write in its own goroutine that parks between the journal write and the notification.
func parkedWrite(srv *lrsrv.Srv, tl string, evs []ev) (g *gate, done chan error) {
	g = &gate{arrived: make(chan struct{}), release: make(chan struct{})}
	done = make(chan error, 1)
	ready := make(chan struct{})
	go func() {
		gateMu.Lock()
		gates[goid()] = g
		gateMu.Unlock()
		close(ready)
		les := make([]model.LogEvent, len(evs))
		for i, e := range evs {
			les[i] = model.LogEvent{Timestamp: e.Ts, Msg: []byte(e.Msg)}
		}
		err := srv.Parts.Write(context.Background(), tl, &litIt{evs: les}, false)
		gateMu.Lock()
		delete(gates, goid())
		gateMu.Unlock()
		done <- err
	}()
	<-ready
	return
}

func globalIdx(srv *lrsrv.Srv, tl string, p journal.Pos) int {
	ids, cs, err := chunkCounts(srv, tl)
	if err != nil {
		return -1
	}
	n := 0
	for i, id := range ids {
		if id < uint64(p.CId) {
			n += cs[i]
		}
	}
	return n + int(p.Idx)
}

// descLine renders the pipe's descriptor of the (single) source like the driver's `desc`: "<pos> <lastKnown> <charged>"
func descLine(srv *lrsrv.Srv, name, tl string) string {
	ds, ok := srv.Pipes.VerifC10Descs(name)
	if !ok || len(ds) == 0 {
		return "none"
	}
	d := ds[0]
	return fmt.Sprintf("%d %d %s", globalIdx(srv, tl, d.Pos), globalIdx(srv, tl, d.LastKnwnPos), b01(d.Charged))
}

func modelDesc(m string) string {
	f := strings.Fields(m)
	if len(f) < 3 {
		return m
	}
	return strings.Join(f[:3], " ")
}

func waitDest(srv *lrsrv.Srv, destTags string, n int, d time.Duration) int {
	deadline := time.Now().Add(d)
	got := 0
	for {
		got = partCount(srv, destTags)
		if got >= n || time.Now().After(deadline) {
			return got
		}
		time.Sleep(10 * time.Millisecond)
	}
}

// settle polls until every descriptor of the pipe is caught up, its descriptor dump and the size of its partition have not
// changed for a number of consecutive polls (long cap: a loaded machine delays the notificator and the workers).
func settle(srv *lrsrv.Srv, name, _ string, destTags string) bool {
	srv.FlushWait()
	start, lastChange := time.Now(), time.Now()
	last, stable := "", 0
	for time.Since(lastChange) < 10*time.Second && time.Since(start) < 60*time.Second {
		ds, _ := srv.Pipes.VerifC10Descs(name)
		dl := make([]string, len(ds))
		for i, d := range ds {
			dl[i] = fmt.Sprint(d.Src, d.Pos, d.LastKnwnPos, d.Charged)
		}
		sort.Strings(dl)
		cur := fmt.Sprintf("%d|%v", waitDest(srv, destTags, 0, 0), dl)
		if cur == last && caughtUp(srv, name) {
			stable++
			if stable >= 12 {
				return true
			}
		} else {
			stable = 0
		}
		if cur != last {
			lastChange = time.Now()
		}
		last = cur
		time.Sleep(20 * time.Millisecond)
	}
	return false
}

func mkEvs(prefix string, from, n int) []ev {
	out := make([]ev, n)
	for i := range out {
		out[i] = ev{Ts: int64(from + i), Msg: fmt.Sprintf("%s%d", prefix, from+i)}
	}
	return out
}

func evsLine(es []ev) string {
	ps := make([]string, len(es))
	for i, e := range es {
		ps[i] = evLine(e)
	}
	return strings.Join(ps, " ")
}

// runParkedWriter: variants f10 and late-notification (hook partition.write.beforeNotify)
func runParkedWriter(c parkedCase, sec *vh.Section) {
	dir := lrsrv.NewDir()
	defer os.RemoveAll(dir)
	srv, err := lrsrv.Start(dir, lrsrv.Opts{WriteFlushMs: 40})
	if err != nil {
		res.Note("parked: %v", err)
		return
	}
	defer srv.Stop()
	name, tl := "pk", "app=a1,grp=g1"
	if _, err := srv.Exec("create pipe " + name + " from grp=g1"); err != nil {
		res.Note("parked: create pipe: %v", err)
		return
	}
	d, _ := srv.Pipes.GetPipe(name)
	destTags := d.DestTags.Line().String()
	lines := []string{"reset 1 0 true", "src 0 1 " + vh.HxS(tl), "create"}
	var impl []string // implementation's descriptor after each parked step, aligned with `desc 0` requests
	var descReq []int
	step := func(ls ...string) { lines = append(lines, ls...) }
	obs := func() {
		impl = append(impl, descLine(srv, name, tl))
		lines = append(lines, "desc 0")
		descReq = append(descReq, len(lines)-1)
	}
	pre := 0
	if c.Variant == "late-notification" {
		// the source already has a descriptor: one batch copied
		e0 := mkEvs("z", 0, 2)
		r := &runner{h: &history{Sources: []map[string]string{{"app": "a1", "grp": "g1"}}}, srv: srv, written: make([][]ev, 1)}
		r.write(0, e0, "direct")
		waitDest(srv, destTags, 2, 8*time.Second)
		settle(srv, name, tl, destTags)
		step("write 0 "+evsLine(e0), "enqueue 0", "notify", "wopen 0", "wcopy 0 1000000", "wsave 0")
		pre = 2
		obs()
	}
	evA, evB := mkEvs("a", pre, c.A), mkEvs("b", pre+c.A, c.B)
	// writer A: journal write done, notification not yet published
	gA, doneA := parkedWrite(srv, tl, evA)
	select {
	case <-gA.arrived:
	case <-time.After(5 * time.Second):
		res.Note("parked: writer A did not reach the hook")
		close(gA.release)
		return
	}
	// a live worker (late-notification variant) is woken by the flush and copies without any notification
	if pre > 0 {
		waitDest(srv, destTags, pre+c.A, 8*time.Second)
	}
	settle(srv, name, tl, destTags)
	step("write 0 "+evsLine(evA), "wcopy 0 1000000", "wsave 0")
	obs()
	// writer B: complete write, its notification overtakes A's
	r := &runner{h: &history{Sources: []map[string]string{{"app": "a1", "grp": "g1"}}}, srv: srv, written: make([][]ev, 1)}
	bDone := make(chan error, 1)
	go func() { bDone <- r.write(0, evB, "direct") }()
	select {
	case err := <-bDone:
		if err != nil {
			res.Note("parked: write B: %v", err)
		}
	case <-time.After(3 * time.Second):
		// writer B cannot overtake writer A: the writers of one partition store and publish one after the other (a repair of
		// F10 serialises them). Then there is no window: A is released, both notifications arrive in stored order, and only
		// the SPEC is evaluated (all three batches must arrive).
		res.Dist(sec, "writer B waits for writer A's publication: no window")
		close(gA.release)
		<-doneA
		if err := <-bDone; err != nil {
			res.Note("parked: write B: %v", err)
		}
		evC := mkEvs("c", pre+c.A+c.B, 1)
		r.write(0, evC, "direct")
		total := pre + c.A + c.B + 1
		waitDest(srv, destTags, total, 8*time.Second)
		settle(srv, name, tl, destTags)
		dest, _ := readAll(srv, "select from "+destTags)
		var got, spec []string
		for _, e := range dest {
			got = append(got, e.Message)
		}
		if pre > 0 {
			spec = append(spec, "z0", "z1")
		}
		for _, e := range append(append(append([]ev{}, evA...), evB...), evC...) {
			spec = append(spec, e.Msg)
		}
		res.Eval(sec, fmt.Sprint(c))
		res.Dist(sec, c.Variant)
		if strings.Join(got, " ") != strings.Join(spec, " ") {
			res.SpecFail(vh.SpecFailure{Section: "parked", Kind: "lost-event", Input: c, Impl: strings.Join(got, " "), Spec: strings.Join(spec, " "),
				What: "two writers' batches to a source of a pipe, published in stored order: every event must arrive once, in stored order"})
		}
		return
	}
	want := pre + c.A + c.B // what SPEC demands in the pipe partition at the end
	// the worker copies what B's notification covers (and, when a descriptor existed, everything it sees)
	if pre > 0 {
		waitDest(srv, destTags, want, 8*time.Second)
	} else {
		waitDest(srv, destTags, c.B, 8*time.Second)
	}
	settle(srv, name, tl, destTags)
	step("write 0 "+evsLine(evB), "enqueue 1", "notify", "wopen 0", "wcopy 0 1000000", "wsave 0")
	obs()
	// release A: its notification arrives late
	close(gA.release)
	<-doneA
	settle(srv, name, tl, destTags)
	step("enqueue 0", "notify")
	obs()
	// a later write: only it is copied, nothing of the lost batch arrives
	evC := mkEvs("c", pre+c.A+c.B, 1)
	r.write(0, evC, "direct")
	want++
	if pre > 0 {
		waitDest(srv, destTags, want, 8*time.Second)
	} else {
		waitDest(srv, destTags, c.B+1, 8*time.Second)
	}
	settle(srv, name, tl, destTags)
	step("write 0 "+evsLine(evC), "enqueue 0", "notify", "wcopy 0 1000000", "wsave 0")
	obs()
	dest, _ := readAll(srv, "select from "+destTags)
	var got []string
	for _, e := range dest {
		got = append(got, e.Message)
	}
	var spec []string
	if pre > 0 {
		spec = append(spec, "z0", "z1")
	}
	for _, e := range append(append(append([]ev{}, evA...), evB...), evC...) {
		spec = append(spec, e.Msg)
	}
	lines = append(lines, "proj 0")
	ans, derr := vh.Batch(args.Driver, lines)
	if derr != nil {
		res.Fatal(args.Out, "driver: %v", derr)
	}
	eq := true
	for i, ri := range descReq {
		if modelDesc(ans[ri]) != impl[i] {
			eq = false
			res.Mismatch(vh.Mismatch{Section: "parked", Function: fmt.Sprintf("ppDesc after parked step %d (pos lastKnown charged)", i), Input: c, Impl: impl[i], Model: modelDesc(ans[ri])})
		}
	}
	var mproj []string
	if ans[len(ans)-1] != "-" {
		for _, p := range strings.Fields(ans[len(ans)-1]) {
			f := strings.SplitN(p, ":", 3)
			mproj = append(mproj, string(vh.UnHx(f[1])))
		}
	}
	if strings.Join(mproj, " ") != strings.Join(got, " ") {
		eq = false
		res.Mismatch(vh.Mismatch{Section: "parked", Function: "pipe LTS: content of the pipe partition", Input: c, Impl: strings.Join(got, " "), Model: strings.Join(mproj, " ")})
	}
	res.Eval(sec, fmt.Sprint(c))
	res.Dist(sec, c.Variant)
	if strings.Join(got, " ") != strings.Join(spec, " ") {
		finding := ""
		// class of F10: the source had no descriptor, two first writes raced, the later one was notified first, and
		// exactly the earlier batch is missing
		if c.Variant == "f10" && strings.Join(got, " ") == strings.Join(spec[c.A:], " ") {
			finding = "F10"
		}
		res.SpecFail(vh.SpecFailure{Section: "parked", Kind: "lost-first-batch", Input: c, Impl: strings.Join(got, " "), Spec: strings.Join(spec, " "),
			Model: strings.Join(mproj, " "), ImplEqModel: eq, Finding: finding,
			What: "two writers' first batches to a new source of a pipe: the batch whose notification is published second is never copied"})
	}
}

// runRearm: K scenarios in lock-step; each has one worker that times out and is parked before workerDone
func runRearm(cases []parkedCase, sec *vh.Section) {
	type sc struct {
		c        parkedCase
		srv      *lrsrv.Srv
		dir      string
		destTags string
		lines    []string
		impl     []string
		descReq  []int
		r        *runner
		base     int
	}
	name, tl, tl2 := "pr", "app=a1,grp=g1", "app=a2,grp=g1"
	arrived := make(chan struct{}, 64)
	release := make(chan struct{})
	verifhook.Set("pipe.worker.beforeDone", func() {
		arrived <- struct{}{}
		<-release
	})
	var scs []*sc
	for _, c := range cases {
		s := &sc{c: c, dir: lrsrv.NewDir()}
		srv, err := lrsrv.Start(s.dir, lrsrv.Opts{WriteFlushMs: 40})
		if err != nil {
			res.Note("rearm: %v", err)
			continue
		}
		s.srv = srv
		srv.Exec("create pipe " + name + " from grp=g1 and app=a1")
		d, _ := srv.Pipes.GetPipe(name)
		s.destTags = d.DestTags.Line().String()
		s.lines = []string{"reset 2 0 true", "src 0 1 " + vh.HxS(tl), "src 1 0 " + vh.HxS(tl2), "create"}
		s.r = &runner{h: &history{Sources: []map[string]string{{"app": "a1", "grp": "g1"}, {"app": "a2", "grp": "g1"}}}, srv: srv, written: make([][]ev, 2)}
		e0 := mkEvs("z", 0, c.A)
		s.r.write(0, e0, "direct")
		s.lines = append(s.lines, "write 0 "+evsLine(e0), "enqueue 0", "notify", "wopen 0", "wcopy 0 1000000", "wsave 0")
		s.base = c.A
		scs = append(scs, s)
	}
	defer func() {
		for _, s := range scs {
			s.srv.Stop()
			os.RemoveAll(s.dir)
		}
	}()
	for _, s := range scs {
		waitDest(s.srv, s.destTags, s.base, 3*time.Second)
	}
	// every worker waits 10 s for new data, then reaches the hook
	got := 0
	timeout := time.After(16 * time.Second)
	for got < len(scs) {
		select {
		case <-arrived:
			got++
		case <-timeout:
			res.Note("rearm: only %d of %d workers reached pipe.worker.beforeDone", got, len(scs))
			close(release)
			verifhook.Set("pipe.worker.beforeDone", nil)
			return
		}
	}
	obs := func(s *sc) {
		s.impl = append(s.impl, descLine(s.srv, name, tl))
		s.lines = append(s.lines, "desc 0")
		s.descReq = append(s.descReq, len(s.lines)-1)
	}
	wantExtra := make([]int, len(scs))
	for i, s := range scs {
		s.lines = append(s.lines, "wtimeout 0")
		obs(s)
		switch s.c.Variant {
		case "rearm-write":
			e := mkEvs("n", s.base, s.c.B)
			s.r.write(0, e, "direct")
			s.lines = append(s.lines, "write 0 "+evsLine(e), "enqueue 0", "notify")
			wantExtra[i] = s.c.B
		case "rearm-two":
			e1, e2 := mkEvs("n", s.base, s.c.B), mkEvs("m", s.base+s.c.B, 1)
			s.r.write(0, e1, "direct")
			s.r.write(0, e2, "rpc")
			s.lines = append(s.lines, "write 0 "+evsLine(e1), "enqueue 0", "notify", "write 0 "+evsLine(e2), "enqueue 0", "notify")
			wantExtra[i] = s.c.B + 1
		case "rearm-other":
			e := mkEvs("o", 0, s.c.B)
			s.r.write(1, e, "direct") // a source the pipe does not listen to
			s.lines = append(s.lines, "write 1 "+evsLine(e), "enqueue 0", "notify")
		case "rearm-none":
		}
		s.srv.FlushWait()
	}
	time.Sleep(150 * time.Millisecond)
	for _, s := range scs {
		obs(s) // notified while the old worker is still charged: LastKnwnPos moved, no new worker
	}
	verifhook.Set("pipe.worker.beforeDone", nil)
	t0 := time.Now()
	close(release)
	// every scenario's latency is measured on its own (in parallel), from the common release
	ns, lats := make([]int, len(scs)), make([]time.Duration, len(scs))
	var mwg sync.WaitGroup
	for i, s := range scs {
		mwg.Add(1)
		go func(i int, s *sc) {
			defer mwg.Done()
			ns[i] = waitDest(s.srv, s.destTags, s.base+wantExtra[i], 3*time.Second)
			lats[i] = time.Since(t0)
		}(i, s)
	}
	mwg.Wait()
	time.Sleep(150 * time.Millisecond)
	for i, s := range scs {
		n, lat := ns[i], lats[i]
		s.lines = append(s.lines, "wdone 0", "wopen 0", "wcopy 0 1000000", "wsave 0")
		obs(s)
		res.Eval(sec, fmt.Sprint(s.c))
		res.Dist(sec, s.c.Variant)
		if n != s.base+wantExtra[i] || lat > 2500*time.Millisecond {
			res.SpecFail(vh.SpecFailure{Section: "parked", Kind: "stranded-data", Input: s.c, Impl: fmt.Sprintf("%d events in the pipe partition %v after workerDone", n, lat),
				Spec: fmt.Sprintf("%d events promptly, without a later write", s.base+wantExtra[i]),
				What: "events written while a pipe worker was finishing were not copied without a later write"})
		}
		ans, derr := vh.Batch(args.Driver, s.lines)
		if derr != nil {
			res.Fatal(args.Out, "driver: %v", derr)
		}
		for k, ri := range s.descReq {
			if modelDesc(ans[ri]) != s.impl[k] {
				res.Mismatch(vh.Mismatch{Section: "parked", Function: fmt.Sprintf("ppDesc after parked step %d (pos lastKnown charged)", k), Input: s.c, Impl: s.impl[k], Model: modelDesc(ans[ri])})
			}
		}
	}
}

func sectionParked(rng *vh.Rng, corpus []parkedCase) {
	sec := res.Section("parked", "system-correspondence",
		"deterministic schedules: (a) writer A parked at partition.write.beforeNotify after its journal write, writer B's complete write overtakes it, then A's notification is released, then a later write — for a new source (racing first writes) and for a source that already has a descriptor (LastKnwnPos moves backward, nothing is lost); (b) a worker parked at pipe.worker.beforeDone after its 10 s wait while 0, 1 or 2 batches arrive for its source or for another source, then released: the data must be copied promptly without a later write. After every parked step the ppipe descriptor (Pos, LastKnwnPos as global record indices, wCharged) is compared with the Lean LTS run on the same labels; at the end the pipe partition with MODEL and SPEC. non-trivial = every case")
	installWriteHook()
	var ws []parkedCase
	ws = append(ws, corpus...)
	sizes := [][2]int{{3, 2}, {1, 1}, {5, 1}, {1, 4}}
	n := 3
	if args.Thorough {
		n = 12
	}
	for i := 0; i < n; i++ {
		s := sizes[rng.Intn(len(sizes))]
		ws = append(ws, parkedCase{Variant: "f10", A: s[0], B: s[1]}, parkedCase{Variant: "late-notification", A: s[0], B: s[1]})
	}
	// the index race (regression case of the a2ca477 panic): its own hook points, one case at a time
	installGateHook("partition.write.beforeCIndex")
	installGateHook("tmindex.syncChunks.betweenLocks")
	for _, c := range ws {
		if c.Variant == "index-race" {
			runIndexRace(c, sec)
		}
	}
	runIndexRace(parkedCase{Variant: "index-race", A: 3, B: 2}, sec)
	verifhook.Set("partition.write.beforeCIndex", nil)
	verifhook.Set("tmindex.syncChunks.betweenLocks", nil)
	var wg sync.WaitGroup
	sem := make(chan struct{}, 8)
	for _, c := range ws {
		if c.Variant == "index-race" {
			continue
		}
		if !strings.HasPrefix(c.Variant, "rearm") {
			wg.Add(1)
			sem <- struct{}{}
			go func(c parkedCase) {
				defer wg.Done()
				defer func() { <-sem }()
				runParkedWriter(c, sec)
			}(c)
		}
	}
	wg.Wait()
	verifhook.Set("partition.write.beforeNotify", nil)
	var rs []parkedCase
	for _, c := range corpus {
		if strings.HasPrefix(c.Variant, "rearm") {
			rs = append(rs, c)
		}
	}
	k := 2
	if args.Thorough {
		k = 5
	}
	for i := 0; i < k; i++ {
		for _, v := range []string{"rearm-write", "rearm-none", "rearm-two", "rearm-other"} {
			rs = append(rs, parkedCase{Variant: v, A: rng.Range(1, 4), B: rng.Range(1, 5)})
		}
	}
	runRearm(rs, sec)
	res.Done(sec)
}

// ---------------------------------------------------------------------------------------------
// life cycle: a pipe re-created under the name of a deleted one; a pipe whose sources are another pipe's partition

var createdAtCount int64 // churn: events stored in the source when the pipe was last deleted (= not younger than the next creation)

// notifBarrier: a barrier through the pipe service's notificator. The write-event channel is FIFO and has ONE consumer, which
// handles an event completely (getPipesForSource + every onWriteEvent) before it takes the next. An auxiliary pipe listens to
// a partition of its own; pass() writes one event there and waits until the auxiliary pipe's descriptor shows it: every write
// event published before pass() was called has then been handled completely — also one the notificator had already taken
// from the channel (which "channel empty for n polls" cannot see: on a loaded machine the goroutine can be descheduled
// between taking the event and looking up the pipes, and a pipe created in between gets a descriptor from an OLD write).
type notifBarrier struct {
	srv *lrsrv.Srv
	n   int
}

const (
	auxPipeName = "zzaux"
	auxTags     = "sentinel=yes"
)

func newNotifBarrier(srv *lrsrv.Srv) *notifBarrier {
	if _, err := srv.Pipes.CreatePipe(pipe.Pipe{Name: auxPipeName, TagsCond: auxTags}); err != nil {
		res.Note("notifBarrier: %v", err)
	}
	return &notifBarrier{srv: srv}
}

func (b *notifBarrier) pass(cap time.Duration) bool {
	b.n++
	le := []model.LogEvent{{Timestamp: int64(b.n), Msg: []byte(fmt.Sprintf("sentinel%d", b.n))}}
	if err := b.srv.Parts.Write(context.Background(), auxTags, &litIt{evs: le}, false); err != nil {
		res.Note("notifBarrier: write: %v", err)
		return false
	}
	for t0 := time.Now(); time.Since(t0) < cap; time.Sleep(2 * time.Millisecond) {
		ds, ok := b.srv.Pipes.VerifC10Descs(auxPipeName)
		if ok && len(ds) > 0 && globalIdx(b.srv, auxTags, ds[0].LastKnwnPos) >= b.n {
			return true
		}
	}
	return false
}

type lifecycleCase struct {
	Variant string `json:"variant"`        // recreate-parked | recreate-free | recreate-after-removal | chain-named | chain-all | client-writes-pipe-partition
	Name    string `json:"name,omitempty"` // pipe name of the recreate variants (default pr); names the file-name escaping has to treat
}

func msgsOf(es []*api.LogEvent) []string {
	m := make([]string, len(es))
	for i, e := range es {
		m[i] = e.Message
	}
	return m
}

func runLifecycle(c lifecycleCase, sec *vh.Section) {
	dir := lrsrv.NewDir()
	defer os.RemoveAll(dir)
	srv, err := lrsrv.Start(dir, lrsrv.Opts{WriteFlushMs: 40})
	if err != nil {
		res.Note("lifecycle: %v", err)
		return
	}
	defer srv.Stop()
	tl := "app=a1,grp=g1"
	r := &runner{h: &history{Sources: []map[string]string{{"app": "a1", "grp": "g1"}}}, srv: srv, written: make([][]ev, 1)}
	res.Eval(sec, c.Variant)
	res.Dist(sec, c.Variant)
	destOf := func(name string) string {
		d, _ := srv.Pipes.GetPipe(name)
		return d.DestTags.Line().String()
	}
	switch c.Variant {
	case "stop-behind-first-batch", "stop-behind-later-batch":
		// a clean stop while the pipe is behind: the batch is stored and notified but not yet readable (600 ms flush), the
		// worker waits for it; Shutdown cancels the worker (the journals are synced at shutdown). After the restart the
		// events are in the source; nothing is written any more.
		srv.Stop()
		srv2, err := lrsrv.Start(dir, lrsrv.Opts{WriteFlushMs: 600})
		if err != nil {
			res.Note("lifecycle: %v", err)
			return
		}
		srv = srv2
		r.srv = srv
		name := "ps"
		srv.Pipes.CreatePipe(pipe.Pipe{Name: name, TagsCond: "grp=g1"})
		dest := destOf(name)
		n0 := 0
		if c.Variant == "stop-behind-later-batch" {
			r.write(0, mkEvs("e", 0, 3), "direct")
			waitDest(srv, dest, 3, 8*time.Second)
			settle(srv, name, tl, dest)
			n0 = 3
		}
		r.write(0, mkEvs("e", n0, 3), "direct")
		time.Sleep(60 * time.Millisecond) // notified; not flushed
		before := descLine(srv, name, tl)
		srv.Stop()
		srv3, err := lrsrv.Start(dir, lrsrv.Opts{WriteFlushMs: 40})
		if err != nil {
			res.Note("lifecycle: restart: %v", err)
			return
		}
		srv = srv3
		r.srv = srv
		after := descLine(srv, name, tl)
		stored := len(mustRead(srv, "select from {"+tl+"}"))
		got1 := waitDest(srv, dest, n0+3, 2500*time.Millisecond) // no write: the pipe must catch up by itself
		r.write(0, mkEvs("e", n0+3, 1), "direct")                // a later write
		waitDest(srv, dest, n0+4, 4*time.Second)
		settle(srv, name, tl, dest)
		got2 := msgsOf(mustRead(srv, "select from "+dest))
		var want []string
		for i := 0; i < n0+4; i++ {
			want = append(want, fmt.Sprintf("e%d", i))
		}
		if stored != n0+3 {
			res.Note("lifecycle: the source holds %d events after the restart, %d were acknowledged (C01/C07)", stored, n0+3)
			return
		}
		if got1 != n0+3 || strings.Join(got2, " ") != strings.Join(want, " ") {
			kind := "stranded-after-restart"
			if strings.Join(got2, " ") != strings.Join(want, " ") {
				kind = "lost-after-restart"
			}
			res.SpecFail(vh.SpecFailure{Section: "lifecycle", Kind: kind, Input: c,
				Impl: fmt.Sprintf("descriptor at the stop: %s, after the restart: %s; %d of %d events in the pipe partition 2.5 s after the restart without a write; after a later write: %v", before, after, got1, n0+3, got2),
				Spec: fmt.Sprintf("%v — the first %d without waiting for a later write", want, n0+3), ImplEqModel: true, Finding: "F79",
				What: "a clean stop while the pipe is behind its source (a notified batch not yet copied): after the restart nothing starts a worker; the events are copied only when a later write to that partition arrives — and a first batch whose descriptor was never saved is never copied"})
		}
	case "stop-first-notification-unpublished", "stop-later-notification-unpublished":
		// a write overlaps the stop of the service: the records are stored (and flushed), the writer is held right before it
		// publishes its write event (hook partition.write.beforeNotify), the service stops, the writer goes on — its event reaches
		// nobody (the notificator is gone). After the restart the acknowledged records are in the source.
		//   later:  the pipe has a descriptor of the source → the catch-up at start (repair f54d781 of F79) finds Pos behind the
		//           end and copies them: control, must pass;
		//   first:  the pipe has never heard of the source → nothing to catch up with; a later write defines the start, the
		//           records of the overlapping write are never copied (the rest of F79's class; the model's
		//           cex_queued_first_notification_still_lost with the event unpublished instead of queued).
		installWriteHook()
		name := "pu"
		srv.Pipes.CreatePipe(pipe.Pipe{Name: name, TagsCond: "grp=g1"})
		dest := destOf(name)
		n0 := 0
		if c.Variant == "stop-later-notification-unpublished" {
			r.write(0, mkEvs("e", 0, 2), "direct")
			waitDest(srv, dest, 2, 8*time.Second)
			settle(srv, name, tl, dest)
			n0 = 2
		}
		g, doneW := parkedWrite(srv, tl, mkEvs("e", n0, 3))
		select {
		case <-g.arrived:
		case <-time.After(8 * time.Second):
			res.Note("lifecycle/%s: the writer did not reach partition.write.beforeNotify", c.Variant)
			close(g.release)
			return
		}
		for t0 := time.Now(); partCount(srv, tl) < n0+3 && time.Since(t0) < 8*time.Second; {
			time.Sleep(5 * time.Millisecond)
		}
		before := descLine(srv, name, tl)
		stopped := vh.WithTimeout(30*time.Second, func() { srv.Stop() })
		close(g.release)
		var werr error
		select {
		case werr = <-doneW:
		case <-time.After(10 * time.Second):
			res.SpecFail(vh.SpecFailure{Section: "lifecycle", Kind: "hang", Input: c, Impl: "the write held before its publication did not return within 10 s after the service stopped", Spec: "returns", What: "a write overlapping the stop of the service hangs"})
			return
		}
		if !stopped {
			res.SpecFail(vh.SpecFailure{Section: "lifecycle", Kind: "hang", Input: c, Impl: "the service did not stop within 30 s while a writer was held before its publication", Spec: "stops", What: "stopping the service hangs"})
			return
		}
		srvU, err := lrsrv.Start(dir, lrsrv.Opts{WriteFlushMs: 40})
		if err != nil {
			res.Note("lifecycle/%s: restart: %v", c.Variant, err)
			return
		}
		srv = srvU
		r.srv = srv
		after := descLine(srv, name, tl)
		storedU := len(mustRead(srv, "select from {"+tl+"}"))
		got1 := waitDest(srv, dest, n0+3, 2500*time.Millisecond)
		settle(srv, name, tl, dest)
		r.write(0, mkEvs("e", n0+3, 1), "direct")
		waitDest(srv, dest, n0+4, 4*time.Second)
		settle(srv, name, tl, dest)
		got2 := msgsOf(mustRead(srv, "select from "+dest))
		var wantU []string
		for i := 0; i < n0+4; i++ {
			wantU = append(wantU, fmt.Sprintf("e%d", i))
		}
		res.Dist(sec, fmt.Sprintf("%s: write returned %v; source holds %d after the restart; descriptor %s -> %s", c.Variant, werr, storedU, before, after))
		if werr != nil || storedU != n0+3 {
			// the overlapping write was not acknowledged, or its records are not there: nothing the pipe has to answer for
			res.Note("lifecycle/%s: write err=%v, %d of %d records in the source after the restart: no verdict", c.Variant, werr, storedU, n0+3)
			return
		}
		if got1 != n0+3 || strings.Join(got2, " ") != strings.Join(wantU, " ") {
			kind, finding := "stranded-after-restart", "F79"
			if strings.Join(got2, " ") != strings.Join(wantU, " ") {
				kind = "lost-after-restart"
			}
			if c.Variant == "stop-first-notification-unpublished" && before == "none" {
				// class: the source has no descriptor when the service stops and a write event of it is unpublished/queued
				kind, finding = "first-notification-lost-at-stop", "F-C10-901"
			}
			res.SpecFail(vh.SpecFailure{Section: "lifecycle", Kind: kind, Input: c,
				Impl: fmt.Sprintf("descriptor at the stop: %s, after the restart: %s; %d of %d events in the pipe partition 2.5 s after the restart without a write; after a later write: %v", before, after, got1, n0+3, got2),
				Spec: fmt.Sprintf("%v", wantU), ImplEqModel: true, Finding: finding,
				What: "a write to a source the pipe has no descriptor for overlaps a clean stop (records stored and acknowledged, write event not handled before the notificator ended): after the restart nothing tells the pipe about them; the next write defines the pipe's start in that source and the earlier records are never copied"})
		}
	case "concurrent-saves":
		// four sources of one pipe written at the same moment, round after round: their workers are woken by the same flush and
		// run saveState at about the same time. saveState writes the WHOLE map: after every round, with all workers idle, the
		// positions file must hold for every source the position the pipe has in memory — a file that is behind would make a
		// clean restart copy events again.
		name := "pcs"
		srv.Pipes.CreatePipe(pipe.Pipe{Name: name, TagsCond: "grp=g1"})
		dest := destOf(name)
		fn := pipe.VerifC07PipeFileName(srv.Cfg.PipesConfig.Dir, name)
		const nsrc = 4
		stale := ""
		rounds := 25
		for round := 0; round < rounds && stale == ""; round++ {
			start := make(chan struct{})
			var wg sync.WaitGroup
			for i := 0; i < nsrc; i++ {
				wg.Add(1)
				go func(i int) {
					defer wg.Done()
					<-start
					le := []model.LogEvent{{Timestamp: int64(round), Msg: []byte(fmt.Sprintf("c%d-%d", i, round))}}
					srv.Parts.Write(context.Background(), fmt.Sprintf("app=c%d,grp=g1", i), &litIt{evs: le}, false)
				}(i)
			}
			close(start)
			wg.Wait()
			waitDest(srv, dest, nsrc*(round+1), 10*time.Second)
			for t0 := time.Now(); !caughtUp(srv, name) && time.Since(t0) < 10*time.Second; {
				time.Sleep(5 * time.Millisecond)
			}
			// two looks 60 ms apart: a worker between its write and its saveState is not a stale file
			for look := 0; look < 2; look++ {
				ds, _ := srv.Pipes.VerifC10Descs(name)
				var file map[string]struct{ Pos journal.Pos }
				data, _ := os.ReadFile(fn)
				json.Unmarshal(data, &file)
				cur := ""
				for _, d := range ds {
					if fp, ok := file[d.Src]; ok && fp.Pos != d.Pos {
						cur += fmt.Sprintf("round %d, source %s: file %v, pipe %v; ", round, d.Tags, fp.Pos, d.Pos)
					}
				}
				if cur == "" || (look == 1 && cur != stale) {
					stale = ""
					break
				}
				stale = cur
				time.Sleep(60 * time.Millisecond)
			}
		}
		res.Dist(sec, fmt.Sprintf("concurrent-saves: stale=%v", stale != ""))
		if stale != "" {
			res.SpecFail(vh.SpecFailure{Section: "lifecycle", Kind: "positions-file-stale", Input: c, Impl: stale, Spec: "the file holds the pipe's positions",
				What: "workers of several sources of one pipe saving at the same time: with every worker idle the positions file holds an older position than the pipe — after a clean restart the events in between are copied again"})
		}
	case "truncate-behind", "truncate-copied", "delete-source":
		// the source partition is truncated (whole chunks removed from its head) or deleted while a pipe reads it.
		// truncate-behind: the pipe is BEHIND the removed region — batch 2 is stored and confirmed but its notification is held
		// (writer parked at partition.write.beforeNotify), the head chunks up to and including the first chunks of batch 2 are
		// removed, the writer is released: the worker's saved position lies in a chunk that no longer exists.
		// truncate-copied: only chunks the pipe has copied are removed, then more is written.
		// delete-source: everything is removed (the partition is deleted if nobody holds it), then more is written with the same tags.
		// Demanded: no crash, no hang; the pipe partition = batch 1, then the events of batch 2 that survived the truncation,
		// then batch 3 — each once, stored order, unaltered.
		srv.Stop()
		srvT, err := lrsrv.Start(dir, lrsrv.Opts{WriteFlushMs: 40, MaxChunkSize: 2048})
		if err != nil {
			res.Note("lifecycle: %v", err)
			return
		}
		srv = srvT
		r.srv = srv
		installWriteHook()
		name := "pt"
		srv.Pipes.CreatePipe(pipe.Pipe{Name: name, TagsCond: "grp=g1"})
		dest := destOf(name)
		big := func(from, n int) []ev {
			out := make([]ev, n)
			for i := range out {
				out[i] = ev{Ts: int64(from + i), Msg: fmt.Sprintf("t%03d %s", from+i, strings.Repeat("p", 150))}
			}
			return out
		}
		short := func(es []*api.LogEvent) []string {
			m := make([]string, len(es))
			for i, e := range es {
				m[i] = strings.Fields(e.Message)[0]
			}
			return m
		}
		chunkSizes := func() (ids []uint64, counts []int, sizes []uint64) {
			src, _, err := srv.TIndex.GetJournal(tl)
			if err != nil {
				res.Note("lifecycle/%s: tag index: %v", c.Variant, err)
				return
			}
			defer srv.TIndex.Release(src)
			jrnl, err := srv.Journals.GetOrCreate(context.Background(), src)
			if err != nil {
				res.Note("lifecycle/%s: journal: %v", c.Variant, err)
				return
			}
			cks, err := jrnl.Chunks().Chunks(context.Background())
			if err != nil {
				res.Note("lifecycle/%s: chunks: %v", c.Variant, err)
			}
			for _, ck := range cks {
				ids = append(ids, uint64(ck.Id()))
				counts = append(counts, int(ck.Count()))
				sizes = append(sizes, uint64(ck.Size()))
			}
			return
		}
		b1 := big(0, 30)
		r.write(0, b1, "direct")
		waitDest(srv, dest, 30, 10*time.Second)
		settle(srv, name, tl, dest)
		stored := 30
		var g *gate
		var doneW chan error
		if c.Variant == "truncate-behind" {
			g, doneW = parkedWrite(srv, tl, big(30, 40))
			select {
			case <-g.arrived:
			case <-time.After(8 * time.Second):
				res.Note("lifecycle/%s: the writer did not reach partition.write.beforeNotify", c.Variant)
				close(g.release)
				return
			}
			stored = 70
			for t0 := time.Now(); partCount(srv, tl) < stored && time.Since(t0) < 8*time.Second; {
				time.Sleep(5 * time.Millisecond)
			}
		}
		_, counts, sizes := chunkSizes()
		keep := map[string]int{"truncate-behind": 2, "truncate-copied": 1, "delete-source": 0}[c.Variant]
		if len(counts) <= keep+1 && keep > 0 {
			res.Note("lifecycle/%s: only %d chunks — nothing to truncate", c.Variant, len(counts))
			if g != nil {
				close(g.release)
			}
			return
		}
		maxSize, removed := uint64(0), 0
		for i := range counts {
			if i >= len(counts)-keep {
				maxSize += sizes[i]
			} else {
				removed += counts[i]
			}
		}
		if maxSize == 0 {
			maxSize = 1
		}
		tcond, _ := lql.ParseSource("grp=g1")
		truncOK := vh.WithTimeout(30*time.Second, func() {
			srv.Parts.Truncate(context.Background(), partition.TruncateParams{TagsExpr: tcond, MaxSrcSize: maxSize, MaxDBSize: 1 << 50}, nil)
		})
		_, countsAfter, _ := chunkSizes()
		left := 0
		for _, n := range countsAfter {
			left += n
		}
		res.Dist(sec, fmt.Sprintf("%s: %d chunks / %d events before, %d chunks / %d events after (%d events removed)", c.Variant, len(counts), stored, len(countsAfter), left, stored-left))
		if !truncOK {
			res.SpecFail(vh.SpecFailure{Section: "lifecycle", Kind: "hang", Input: c, Impl: "Truncate did not return within 30 s", Spec: "returns", What: "truncating a source partition a pipe reads hangs"})
			return
		}
		removed = stored - left
		if g != nil {
			close(g.release)
			<-doneW
		}
		var want []string
		for i := 0; i < 30; i++ {
			want = append(want, fmt.Sprintf("t%03d", i))
		}
		if c.Variant == "truncate-behind" {
			from := removed
			if from < 30 {
				from = 30
			}
			for i := from; i < 70; i++ {
				want = append(want, fmt.Sprintf("t%03d", i))
			}
			waitDest(srv, dest, len(want), 10*time.Second)
			settle(srv, name, tl, dest)
		}
		mid := short(mustRead(srv, "select from "+dest))
		r.write(0, big(100, 5), "direct")
		for i := 100; i < 105; i++ {
			want = append(want, fmt.Sprintf("t%03d", i))
		}
		waitDest(srv, dest, len(want), 10*time.Second)
		settle(srv, name, tl, dest)
		got := short(mustRead(srv, "select from "+dest))
		ds, _ := srv.Pipes.VerifC10Descs(name)
		// oracle: `want` (what certainly has to be there: batch 1, the events of batch 2 that survived the truncation, batch 3) is
		// a subsequence of `got`, `got` is strictly increasing in the written numbering (once, stored order) and holds only
		// written events. Events of removed chunks MAY be copied (a reader that holds the journal still reads them: observed).
		kind := ""
		last, wi := -1, 0
		for _, m := range got {
			n, err := strconv.Atoi(strings.TrimPrefix(m, "t"))
			written := err == nil && ((n >= 0 && n < stored) || (n >= 100 && n < 105))
			switch {
			case !written:
				kind = "extra-event"
			case n == last:
				kind = "duplicate-event"
			case n < last:
				kind = "order-violated"
			}
			last = n
			if wi < len(want) && m == want[wi] {
				wi++
			}
		}
		if kind == "" && wi < len(want) {
			kind = "lost-event"
		}
		res.Dist(sec, fmt.Sprintf("%s: %d events of removed chunks copied all the same", c.Variant, len(got)-len(want)))
		if kind != "" {
			res.SpecFail(vh.SpecFailure{Section: "lifecycle", Kind: kind, Input: c,
				Impl: fmt.Sprintf("%d events removed from the head of the source (%d stored before); pipe partition before the last write: %d events, at the end: %v; descriptors: %d", removed, stored, len(mid), clip(strings.Join(got, " ")), len(ds)),
				Spec: "at least, in this order: " + clip(strings.Join(want, " ")),
				What: "a source partition truncated (or deleted and written again) under a live pipe: the pipe partition must hold what it had copied, then at least the events that survived the truncation, then the later events — each once, in stored order, nothing else"})
		}
	case "churn":
		// rounds of delete + immediate re-create under one name while a writer keeps the source busy (workers are mid-write
		// or waiting at every deletion); every other round the clean-up is held for a moment. Watchdog: nothing may hang or
		// panic; a re-created pipe must know nothing about the source; after an acknowledged deletion whose clean-up has
		// run, the positions file must be gone and stay gone.
		name := "pc"
		stopW := make(chan struct{})
		var pauseW, inWrite int32
		var wwg sync.WaitGroup
		wwg.Add(1)
		go func() {
			defer wwg.Done()
			for i := 0; ; i++ {
				select {
				case <-stopW:
					return
				default:
				}
				if atomic.LoadInt32(&pauseW) == 1 {
					time.Sleep(2 * time.Millisecond)
					i--
					continue
				}
				atomic.StoreInt32(&inWrite, 1)
				if atomic.LoadInt32(&pauseW) == 0 {
					r.write(0, mkEvs("w", i*4, 4), []string{"direct", "rpc"}[i%2])
				} else {
					i--
				}
				atomic.StoreInt32(&inWrite, 0)
				time.Sleep(3 * time.Millisecond)
			}
		}()
		fileName := pipe.VerifC07PipeFileName(srv.Cfg.PipesConfig.Dir, name)
		var reached int32
		hold := int32(0)
		verifhook.Set("pipe.delete.beforeRemove", func() {
			if atomic.LoadInt32(&hold) == 1 {
				time.Sleep(8 * time.Millisecond)
			}
			atomic.StoreInt32(&reached, 1)
		})
		defer verifhook.Set("pipe.delete.beforeRemove", nil)
		inherit, inheritEarly, fileBack, undrained := 0, 0, 0, 0
		barrier := newNotifBarrier(srv)
		watchdog := func(what string, f func()) bool {
			p := ""
			ok := vh.WithTimeout(60*time.Second, func() { p = vh.Recover(f) })
			if !ok || p != "" {
				if p == "" {
					// which goroutines of the pipe package are where?
					buf := make([]byte, 1<<22)
					n := runtime.Stack(buf, true)
					var keep []string
					for _, g := range strings.Split(string(buf[:n]), "\n\n") {
						if strings.Contains(g, "pkg/pipe.") && !strings.Contains(g, "worker).run") && !strings.Contains(g, "pipesCleaner") {
							ls := strings.Split(g, "\n")
							if len(ls) > 9 {
								ls = ls[:9]
							}
							keep = append(keep, strings.Join(ls, " | "))
						}
					}
					p = "goroutines in pkg/pipe: " + strings.Join(keep, " || ")
					if len(p) > 6000 {
						p = p[:6000]
					}
				}
				res.SpecFail(vh.SpecFailure{Section: "lifecycle", Kind: map[bool]string{true: "panic", false: "hang"}[ok], Input: c, Impl: what + ": " + p, Spec: "returns", What: "deleting and re-creating a pipe under load hangs or panics"})
				return false
			}
			return true
		}
		rounds := 30
		for i := 0; i < rounds; i++ {
			// odd rounds: the writer pauses after the deletion was acknowledged and the write-event channel drains before the
			// re-creation, so a descriptor right after CreatePipe can only have been loaded from the positions file; even
			// rounds: everything keeps running (safety only: a notification in flight may legitimately create a descriptor)
			paused := i%2 == 1
			drained := false
			if paused {
				atomic.StoreInt32(&pauseW, 1)
				for t0 := time.Now(); atomic.LoadInt32(&inWrite) == 1 && time.Since(t0) < 30*time.Second; {
					time.Sleep(2 * time.Millisecond)
				}
				// every notification of the (now silent) writer has been handled completely — while no pipe `pc` exists
				drained = atomic.LoadInt32(&inWrite) == 0 && barrier.pass(30*time.Second)
				if !drained {
					undrained++
				}
			}
			reachedBefore := atomic.LoadInt32(&reached) == 1
			_, statErr := os.Stat(fileName)
			fileThere := statErr == nil && i > 0 // the deleted pipe's positions file exists when the re-creation starts
			if !watchdog("CreatePipe", func() { srv.Pipes.CreatePipe(pipe.Pipe{Name: name, TagsCond: "grp=g1"}) }) {
				break
			}
			if paused {
				if dl := descLine(srv, name, tl); dl != "none" && drained {
					inherit++
					if !reachedBefore || fileThere {
						// the clean-up had not reached the removal yet, or it had and the file was there again (a worker that
						// finished its write after the deletion saved its state): both ways into the class of F74
						inheritEarly++
					}
				}
				atomic.StoreInt32(&pauseW, 0)
			}
			time.Sleep(time.Duration(2+i%3*4) * time.Millisecond)
			atomic.StoreInt32(&hold, int32(i%2))
			atomic.StoreInt32(&reached, 0)
			if !watchdog("DeletePipe", func() { srv.Pipes.DeletePipe(name) }) {
				break
			}
			r.mu.Lock()
			atomic.StoreInt64(&createdAtCount, int64(len(r.written[0])))
			r.mu.Unlock()
			if i%5 == 4 {
				// let the clean-up and any finishing worker run, then the file must be gone for good
				time.Sleep(120 * time.Millisecond)
				if _, err := os.Stat(fileName); err == nil {
					fileBack++
				}
			}
		}
		close(stopW)
		wwg.Wait()
		res.Dist(sec, fmt.Sprintf("churn: inherited=%d (in the class of F74: %d) file-back=%d", inherit, inheritEarly, fileBack))
		if undrained > 0 {
			res.Note("lifecycle/churn: %d paused round(s) without a verdict (the notificator did not pass the barrier within 30 s)", undrained)
		}
		if inherit > 0 || fileBack > 0 {
			// both ways into F74 (re-creation before the clean-up removed the file; a finishing worker's saveState bringing the
			// file back) are closed by 84f34ca: any recurrence is tagged
			finding := "F74"
			res.SpecFail(vh.SpecFailure{Section: "lifecycle", Kind: "recreated-pipe-inherits-positions", Input: c,
				Impl: fmt.Sprintf("%d of %d pipes re-created with the writer paused and the write-event channel drained had a descriptor of the source right after CreatePipe (%d of them before the clean-up reached the removal, or with the file brought back by a finishing worker); positions file present %d times 120 ms after an acknowledged deletion", inherit, rounds/2, inheritEarly, fileBack),
				Spec: "none", Finding: finding,
				What: "delete + immediate re-create under one name while workers are busy: the new pipe inherits the deleted pipe's positions, or the deleted pipe's positions file comes back"})
		}
	case "recreate-parked", "recreate-free", "recreate-after-removal":
		name := "pr"
		if c.Name != "" {
			name = c.Name
		}
		res.Dist(sec, fmt.Sprintf("name=%q", name))
		barrier := newNotifBarrier(srv)
		if _, err := srv.Pipes.CreatePipe(pipe.Pipe{Name: name, TagsCond: "grp=g1"}); err != nil {
			res.Note("lifecycle: create %q: %v", name, err)
			return
		}
		dest := destOf(name)
		r.write(0, mkEvs("e", 0, 3), "direct")
		waitDest(srv, dest, 3, 8*time.Second)
		settle(srv, name, tl, dest)
		release := make(chan struct{})
		arrived := make(chan struct{}, 4)
		var cleanupReached int32 // the clean-up goroutine has passed the point right before the removal of the positions file
		if c.Variant == "recreate-parked" {
			// the deleted pipe's clean-up goroutine (`go p.delete()`) is held before it removes the positions file
			verifhook.Set("pipe.delete.beforeRemove", func() { arrived <- struct{}{}; <-release })
			defer verifhook.Set("pipe.delete.beforeRemove", nil)
		} else {
			// free-running: only observe whether the clean-up got there before the re-creation started
			verifhook.Set("pipe.delete.beforeRemove", func() { atomic.StoreInt32(&cleanupReached, 1) })
			defer verifhook.Set("pipe.delete.beforeRemove", nil)
		}
		delDone := make(chan error, 1)
		go func() { delDone <- srv.Pipes.DeletePipe(name) }()
		acked := false
		waitAck := func(d time.Duration) {
			if acked {
				return
			}
			select {
			case err := <-delDone:
				acked = true
				if err != nil {
					res.Note("lifecycle: DeletePipe: %v", err)
				}
			case <-time.After(d):
			}
		}
		if c.Variant != "recreate-parked" {
			waitAck(10 * time.Second)
			if !acked {
				res.SpecFail(vh.SpecFailure{Section: "lifecycle", Kind: "hang", Input: c, Impl: "DeletePipe did not return within 10 s", Spec: "returns", What: "DeletePipe hangs"})
				return
			}
		}
		switch c.Variant {
		case "recreate-parked":
			select {
			case <-arrived:
			case <-time.After(5 * time.Second):
				res.Note("lifecycle: the clean-up did not reach pipe.delete.beforeRemove")
			}
			// is the deletion acknowledged while its clean-up is held? (asynchronous clean-up: yes — the window of F74; a
			// clean-up that runs before the acknowledgement: no — then there is no such window: release it and go on)
			waitAck(300 * time.Millisecond)
			if !acked {
				res.Dist(sec, "clean-up runs before DeletePipe acknowledges: no window")
				close(release)
				release = nil
				waitAck(10 * time.Second)
				if !acked {
					res.SpecFail(vh.SpecFailure{Section: "lifecycle", Kind: "hang", Input: c, Impl: "DeletePipe did not return within 10 s after its clean-up was released", Spec: "returns", What: "DeletePipe hangs"})
					return
				}
			}
			// written while no pipe exists
			r.write(0, mkEvs("e", 3, 2), "direct")
			srv.FlushWait()
		case "recreate-after-removal":
			time.Sleep(150 * time.Millisecond) // the clean-up has certainly run
			r.write(0, mkEvs("e", 3, 2), "direct")
			srv.FlushWait()
		}
		// the same name again: a NEW pipe, created now — after every notification of the writes so far has been handled (while no
		// pipe of that name existed), so that whatever the new pipe knows right after CreatePipe can only come from a file
		if !barrier.pass(30 * time.Second) {
			res.Note("lifecycle/%s: the notificator did not pass the barrier within 30 s: no verdict", c.Variant)
			if release != nil && c.Variant == "recreate-parked" {
				close(release)
			}
			return
		}
		cleanupFirst := atomic.LoadInt32(&cleanupReached) == 1
		if _, err := srv.Pipes.CreatePipe(pipe.Pipe{Name: name, TagsCond: "grp=g1"}); err != nil {
			res.Note("lifecycle: re-create: %v", err)
			return
		}
		inherited := descLine(srv, name, tl) // what the new pipe knows about the source before any notification
		if c.Variant == "recreate-parked" && release != nil {
			close(release)
			time.Sleep(100 * time.Millisecond)
		}
		created := len(r.written[0])
		r.write(0, mkEvs("e", created, 1), "direct")
		waitDest(srv, dest, 3+1, 8*time.Second)
		settle(srv, name, tl, dest)
		got := msgsOf(mustRead(srv, "select from "+dest))
		want := []string{"e0", "e1", "e2", fmt.Sprintf("e%d", created)}
		// MODEL: the incarnation LTS (Model/PipeLtsInc.lean) on the same schedule — the descriptor right after the
		// re-creation and the pipe's partition over both incarnations
		{
			lines := []string{"reset 1 0 true", "src 0 1 " + vh.HxS(tl), "create", "write 0 " + evsLine(mkEvs("e", 0, 3)), "cycle 0", "delete"}
			if created > 3 {
				lines = append(lines, "write 0 "+evsLine(mkEvs("e", 3, created-3)), "enqueue 0", "notify")
			}
			lines = append(lines, "recreate", "desc 0", "write 0 "+evsLine(mkEvs("e", created, 1)), "cycle 0", "partition", "inc")
			ans, derr := vh.Batch(args.Driver, lines)
			if derr != nil {
				res.Fatal(args.Out, "driver: %v", derr)
			}
			mDesc, mPart := modelDesc(ans[len(ans)-5]), ans[len(ans)-2]
			var mMsgs []string
			for _, p := range strings.Fields(mPart) {
				if f := strings.Split(p, ":"); len(f) == 3 {
					mMsgs = append(mMsgs, string(vh.UnHx(f[1])))
				}
			}
			if mDesc != inherited || strings.Join(mMsgs, " ") != strings.Join(got, " ") {
				res.Mismatch(vh.Mismatch{Section: "lifecycle", Function: "incarnation LTS: descriptor right after the re-creation | the pipe's partition", Input: c,
					Impl: fmt.Sprintf("%s | %v", inherited, got), Model: fmt.Sprintf("%s | %v (%s)", mDesc, mMsgs, ans[len(ans)-1])})
			}
		}
		if strings.Join(got, " ") != strings.Join(want, " ") || inherited != "none" {
			finding := ""
			// class of F74: a pipe created under the name of a deleted pipe BEFORE that pipe's asynchronous clean-up has removed
			// its positions file (the clean-up goroutine is parked). Inheritance after the clean-up has run is something else.
			// F74 (fixed by 84f34ca: the clean-up runs before DeletePipe acknowledges, saveState refuses for a deleted pipe): any
			// position a re-created pipe knows before its first notification is tagged, so that the check reports "the defect
			// is back" (cleanupFirst only goes into the evidence)
			_ = cleanupFirst
			if inherited != "none" {
				finding = "F74"
			}
			res.SpecFail(vh.SpecFailure{Section: "lifecycle", Kind: "recreated-pipe-inherits-positions", Input: c,
				Impl: fmt.Sprintf("pipe partition: %v; descriptor of the source right after the re-creation: %s", got, inherited), Spec: fmt.Sprintf("%v; no descriptor", want),
				ImplEqModel: false, Finding: finding,
				What: "a pipe created under the name of a deleted pipe loads that pipe's positions file: it copies events written before it was created (while no pipe existed)"})
		}
	case "chain-named", "chain-all", "client-writes-pipe-partition":
		srv.Pipes.CreatePipe(pipe.Pipe{Name: "pa", TagsCond: "grp=g1"})
		destA := destOf("pa")
		cond := destA // the tags of pa's partition as a source condition
		if c.Variant == "chain-all" {
			cond = ""
		}
		if _, err := srv.Pipes.CreatePipe(pipe.Pipe{Name: "pb", TagsCond: cond}); err != nil {
			res.Mismatch(vh.Mismatch{Section: "lifecycle", Function: "a source condition naming a pipe's partition", Input: c, Impl: err.Error(), Model: "accepted"})
			return
		}
		destB := destOf("pb")
		if c.Variant == "client-writes-pipe-partition" {
			// control: a CLIENT writes into pa's partition — pb copies that
			var wr api.WriteResult
			srv.Client.Write(context.Background(), destA, "", []*api.LogEvent{{Timestamp: 1, Message: "c0"}, {Timestamp: 2, Message: "c1"}}, &wr)
			waitDest(srv, destB, 2, 8*time.Second)
			settle(srv, "pb", "", destB)
			got := msgsOf(mustRead(srv, "select from "+destB))
			if strings.Join(got, " ") != "c0 c1" {
				res.SpecFail(vh.SpecFailure{Section: "lifecycle", Kind: "lost-event", Input: c, Impl: fmt.Sprint(got), Spec: "[c0 c1]", What: "events a client writes into a pipe's partition are not copied by a pipe listening to that partition"})
			}
			return
		}
		r.write(0, mkEvs("e", 0, 3), "direct")
		waitDest(srv, destA, 3, 8*time.Second)
		settle(srv, "pa", tl, destA)
		// give pb every chance
		waitDest(srv, destB, 3, 1500*time.Millisecond)
		settle(srv, "pb", "", destB)
		gotA := msgsOf(mustRead(srv, "select from "+destA))
		gotB := msgsOf(mustRead(srv, "select from "+destB))
		// by the letter of C10: pb's partition receives the events written after its creation to partitions whose tags satisfy
		// its condition — pa's partition does (and, for the empty condition, the source itself)
		var want []string
		if c.Variant == "chain-all" {
			want = []string{"e0", "e1", "e2", "e0", "e1", "e2"} // from the source and from pa's partition (any interleaving)
		} else {
			want = []string{"e0", "e1", "e2"}
		}
		sg, sw := append([]string{}, gotB...), append([]string{}, want...)
		sort.Strings(sg)
		sort.Strings(sw)
		if strings.Join(gotA, " ") != "e0 e1 e2" {
			res.SpecFail(vh.SpecFailure{Section: "lifecycle", Kind: "lost-event", Input: c, Impl: fmt.Sprint(gotA), Spec: "[e0 e1 e2]", What: "the first pipe did not copy its source"})
		} else if strings.Join(sg, " ") != strings.Join(sw, " ") {
			res.SpecFail(vh.SpecFailure{Section: "lifecycle", Kind: "pipe-output-not-piped", Input: c,
				Impl: fmt.Sprintf("pb's partition: %v (pa's partition: %v)", gotB, gotA), Spec: fmt.Sprintf("%v (any interleaving of the two sources)", want),
				ImplEqModel: true, Finding: "F75",
				What: "a pipe whose source condition is satisfied by another pipe's partition never copies what that pipe writes there (pipe workers write with noEvent = true), although a client's writes into the same partition are copied"})
		}
	}
}

func mustRead(srv *lrsrv.Srv, q string) []*api.LogEvent {
	es, err := readAll(srv, q)
	if err != nil {
		return nil
	}
	return es
}

func sectionLifecycle(corpus []lifecycleCase) {
	sec := res.Section("lifecycle", "spec-search",
		"(a) a pipe deleted and created again under the same name: with the deleted pipe's clean-up goroutine parked before it removes the positions file (hook pipe.delete.beforeRemove), free-running right after DeletePipe returned, and after the clean-up has run; events written while no pipe existed must never be copied and the new pipe must know nothing about the source before its first notification; (b) a pipe whose source condition names another pipe's partition, or is empty: what the first pipe writes there vs what a client writes there; runs one case at a time (process-global hook); non-trivial = every case")
	seen := map[string]bool{}
	cs := []lifecycleCase{}
	all := append(corpus, lifecycleCase{Variant: "churn"}, lifecycleCase{Variant: "stop-behind-first-batch"}, lifecycleCase{Variant: "stop-behind-later-batch"}, lifecycleCase{Variant: "recreate-parked"}, lifecycleCase{Variant: "recreate-free"}, lifecycleCase{Variant: "recreate-after-removal"},
		lifecycleCase{Variant: "chain-named"}, lifecycleCase{Variant: "chain-all"}, lifecycleCase{Variant: "client-writes-pipe-partition"},
		lifecycleCase{Variant: "truncate-behind"}, lifecycleCase{Variant: "truncate-copied"}, lifecycleCase{Variant: "delete-source"}, lifecycleCase{Variant: "concurrent-saves"}, lifecycleCase{Variant: "stop-first-notification-unpublished"}, lifecycleCase{Variant: "stop-later-notification-unpublished"})
	// (names whose tag line needs quoting — blanks, non-ASCII — are C08's business: the pipe's partition could not be queried)
	for _, n := range []string{"p_r", "p:r", "p/r", "p.dat", "p-r"} {
		all = append(all, lifecycleCase{Variant: "recreate-after-removal", Name: n})
	}
	for _, c := range all {
		if !seen[c.Variant+"|"+c.Name] {
			seen[c.Variant+"|"+c.Name] = true
			cs = append(cs, c)
		}
	}
	// only the recreate variants use the (process-global) hook of the clean-up goroutine: they run one at a time; the others
	// delete no pipe and run beside them
	var wg sync.WaitGroup
	for _, c := range cs {
		if !strings.HasPrefix(c.Variant, "recreate") && c.Variant != "churn" {
			wg.Add(1)
			go func(c lifecycleCase) { defer wg.Done(); runLifecycle(c, sec) }(c)
		}
	}
	for _, c := range cs {
		if strings.HasPrefix(c.Variant, "recreate") || c.Variant == "churn" {
			runLifecycle(c, sec)
		}
	}
	wg.Wait()
	res.Done(sec)
}

// ---------------------------------------------------------------------------------------------
// record sizes: the pipe makes every record longer (provenance fields); the journal can serve records up to MaxRecordSize

type recsizeCase struct {
	Max     int    `json:"max"`      // JournalControllerConfig.MaxRecordSize of the server
	SrcSize int    `json:"src_size"` // record size of the big source event (model.LogEvent.WritableSize)
	Fields  string `json:"fields,omitempty"`
}

func varintLen(n int) int {
	l := 1
	for n >= 128 {
		n >>= 7
		l++
	}
	return l
}

// recordSize is the reference arithmetic of model.LogEvent.WritableSize: header, timestamp, length-prefixed message,
// and — only when there are fields — the length-prefixed binary field list
func recordSize(msgLen, fieldsLen int) int {
	n := 1 + 8 + varintLen(msgLen) + msgLen
	if fieldsLen > 0 {
		n += varintLen(fieldsLen) + fieldsLen
	}
	return n
}

// runRecsize: three events to a source of a pipe, the middle one with a record of c.SrcSize bytes (accepted by the ingestor
// iff it fits MaxRecordSize). The source must read back whatever was acknowledged; the pipe partition must stay readable and
// hold the copies of everything acknowledged.
func runRecsize(c recsizeCase, sec *vh.Section) {
	dir := lrsrv.NewDir()
	defer os.RemoveAll(dir)
	srv, err := lrsrv.Start(dir, lrsrv.Opts{MaxRecordSize: c.Max, WriteFlushMs: 40})
	if err != nil {
		res.Note("recsize: %v", err)
		return
	}
	defer srv.Stop()
	name, tl := "pz", "app=a1,grp=g1"
	if _, err := srv.Exec("create pipe " + name + " from grp=g1"); err != nil {
		res.Note("recsize: %v", err)
		return
	}
	d, _ := srv.Pipes.GetPipe(name)
	destTags := d.DestTags.Line().String()
	ownFields := fieldParse(c.Fields)
	prov := fieldParse(tl)
	// message length for the wanted record size
	msgLen := -1
	for l := 0; l <= c.SrcSize; l++ {
		if recordSize(l, len(ownFields)) == c.SrcSize {
			msgLen = l
		}
	}
	if msgLen < 0 {
		res.Note("recsize: no message length gives a record of %d bytes", c.SrcSize)
		return
	}
	big := "big " + strings.Repeat("x", msgLen-4)
	le := model.LogEvent{Msg: []byte(big), Fields: ownFields}
	if le.WritableSize() != c.SrcSize {
		res.Mismatch(vh.Mismatch{Section: "recsize", Function: "model.LogEvent.WritableSize vs the reference arithmetic", Input: c, Impl: fmt.Sprint(le.WritableSize()), Model: fmt.Sprint(c.SrcSize)})
		return
	}
	dstSize := recordSize(msgLen, len(ownFields)+len(prov))
	var wr api.WriteResult
	evs := []*api.LogEvent{{Timestamp: 1, Message: "first"}, {Timestamp: 2, Message: big}, {Timestamp: 3, Message: "third"}}
	werr := srv.Client.Write(context.Background(), tl, c.Fields, evs, &wr)
	if werr == nil {
		werr = wr.Err
	}
	res.Eval(sec, fmt.Sprint(c))
	fits, copyFits := c.SrcSize <= c.Max, dstSize <= c.Max
	res.Dist(sec, fmt.Sprintf("source fits=%v copy fits=%v", fits, copyFits))
	// MODEL (Props.C10: stored size of the copy = source size + provenance, nothing checks it)
	ans, derr := vh.Batch(args.Driver, []string{fmt.Sprintf("recsize %d %d %d", msgLen, len(ownFields), len(prov))})
	if derr != nil {
		res.Fatal(args.Out, "driver: %v", derr)
	}
	if ans[0] != fmt.Sprintf("%d %d", c.SrcSize, dstSize) {
		res.Mismatch(vh.Mismatch{Section: "recsize", Function: "record size of a source event and of its copy", Input: c, Impl: fmt.Sprintf("%d %d", c.SrcSize, dstSize), Model: ans[0]})
	}
	if (werr == nil) != fits {
		res.SpecFail(vh.SpecFailure{Section: "recsize", Kind: "oversize-acceptance", Input: c, Impl: fmt.Sprintf("write error: %v", werr), Spec: fmt.Sprintf("accepted iff the record fits (%v)", fits),
			What: "the ingestor must accept a packet iff every record can be read back (C01)"})
		return
	}
	if werr != nil {
		return // rejected as a whole: nothing to copy
	}
	waitDest(srv, destTags, 3, 8*time.Second)
	settle(srv, name, tl, destTags)
	src, serr := readAll(srv, "select from {"+tl+"}")
	dest, derr2 := readAll(srv, "select from "+destTags)
	if serr != nil || len(src) != 3 {
		res.SpecFail(vh.SpecFailure{Section: "recsize", Kind: "source-unreadable", Input: c, Impl: fmt.Sprintf("%d events, err=%v", len(src), serr), Spec: "3 events", What: "the acknowledged events do not read back from the source (C01)"})
		return
	}
	ok := derr2 == nil && len(dest) == 3 && dest[0].Message == "first" && dest[1].Message == big && dest[2].Message == "third"
	if !ok {
		finding := ""
		// class of F52: the source record fits, its copy with the provenance fields does not; the model stores it all the same
		if fits && !copyFits {
			finding = "F52"
		}
		res.SpecFail(vh.SpecFailure{Section: "recsize", Kind: "pipe-partition-unreadable", Input: c,
			Impl:  fmt.Sprintf("reading the pipe partition: %d events, err=%v (source record %d bytes, its copy %d bytes, MaxRecordSize %d)", len(dest), derr2, c.SrcSize, dstSize, c.Max),
			Spec:  "the three copies, readable",
			Model: ans[0], ImplEqModel: true, Finding: finding,
			What: "a source record that fits MaxRecordSize but whose copy with the provenance fields does not: the pipe stores it unchecked and every read of the pipe's partition fails from then on"})
	}
}

func sectionRecsize(corpus []recsizeCase) {
	sec := res.Section("recsize", "spec-search",
		"a pipe over a source on a server with a small MaxRecordSize (300): three events, the middle one with a record of every size around the limit (the copy grows by the encoded provenance fields and, for an event without own fields, by the length prefix of the field list), with and without own fields; the ingestor accepts iff the source record fits; the source reads back; the pipe partition must stay readable with the three copies; record sizes vs the reference arithmetic, model.LogEvent.WritableSize and the Lean model; non-trivial = every case")
	cs := append([]recsizeCase{}, corpus...)
	for _, sz := range []int{270, 284, 285, 286, 297, 299, 300, 301} {
		cs = append(cs, recsizeCase{Max: 300, SrcSize: sz})
	}
	for _, sz := range []int{280, 286, 287, 300} {
		cs = append(cs, recsizeCase{Max: 300, SrcSize: sz, Fields: "f=1"})
	}
	var wg sync.WaitGroup
	for _, c := range cs {
		wg.Add(1)
		go func(c recsizeCase) { defer wg.Done(); runRecsize(c, sec) }(c)
	}
	wg.Wait()
	res.Done(sec)
}

// ---------------------------------------------------------------------------------------------
// a deleted pipe must leave no running machinery behind

type respawnCase struct {
	Variant string `json:"variant"` // stranded (Pos < LastKnwnPos at deletion) | caughtup
}

func cpuTime() time.Duration {
	var ru syscall.Rusage
	syscall.Getrusage(syscall.RUSAGE_SELF, &ru)
	return time.Duration(ru.Utime.Nano() + ru.Stime.Nano())
}

// runRespawn: a pipe is deleted while its descriptor is behind LastKnwnPos (the notified batch is not yet flushed, the
// worker waits for it). Afterwards nothing of the pipe may run: workers reaching pipe.worker.beforeDone are counted for
// one second (the hook is process-global: this section runs alone), together with the CPU time of the process.
func runRespawn(c respawnCase, sec *vh.Section) {
	dir := lrsrv.NewDir()
	defer os.RemoveAll(dir)
	srv, err := lrsrv.Start(dir, lrsrv.Opts{WriteFlushMs: 600})
	if err != nil {
		res.Note("respawn: %v", err)
		return
	}
	defer srv.Stop()
	name, tl := "pd", "app=a1,grp=g1"
	if _, err := srv.Pipes.CreatePipe(pipe.Pipe{Name: name, TagsCond: "grp=g1"}); err != nil {
		res.Note("respawn: %v", err)
		return
	}
	var hits int64
	verifhook.Set("pipe.worker.beforeDone", func() { atomic.AddInt64(&hits, 1) })
	defer verifhook.Set("pipe.worker.beforeDone", nil)
	r := &runner{h: &history{Sources: []map[string]string{{"app": "a1", "grp": "g1"}}}, srv: srv, written: make([][]ev, 1)}
	r.write(0, mkEvs("e", 0, 3), "direct")
	if c.Variant == "caughtup" {
		time.Sleep(1500 * time.Millisecond) // flushed and copied: Pos = LastKnwnPos
	} else {
		time.Sleep(50 * time.Millisecond) // notified, not flushed: the worker waits, Pos < LastKnwnPos
	}
	desc := descLine(srv, name, tl)
	if err := srv.Pipes.DeletePipe(name); err != nil {
		res.Note("respawn: %v", err)
		return
	}
	time.Sleep(100 * time.Millisecond)
	h0, c0, t0 := atomic.LoadInt64(&hits), cpuTime(), time.Now()
	time.Sleep(time.Second)
	h1, c1, dt := atomic.LoadInt64(&hits), cpuTime(), time.Since(t0)
	respawns := h1 - h0
	cpu := float64(c1-c0) / float64(dt)
	// MODEL: after delete, is the cycle wtimeout/wdone of the source still enabled again and again?
	lines := []string{"reset 1 0 true", "src 0 1 " + vh.HxS(tl), "create", "write 0 " + evsLine(mkEvs("e", 0, 3)), "enqueue 0", "notify", "wopen 0"}
	if c.Variant == "caughtup" {
		lines = append(lines, "wcopy 0 100", "wsave 0")
	}
	lines = append(lines, "delete")
	for i := 0; i < 5; i++ {
		lines = append(lines, "wtimeout 0", "wdone 0", "wopen 0")
	}
	ans, derr := vh.Batch(args.Driver, lines)
	if derr != nil {
		res.Fatal(args.Out, "driver: %v", derr)
	}
	modelSpins := ans[len(ans)-2] == "ok" // the fifth wdone after the deletion is still enabled
	res.Eval(sec, c.Variant)
	res.Dist(sec, c.Variant)
	res.Sample(map[string]interface{}{"section": "respawn", "variant": c.Variant, "descriptor_at_delete": desc, "workers_finishing_per_second_after_delete": respawns, "cpu_cores_busy": fmt.Sprintf("%.2f", cpu)})
	implSpins := respawns > 20
	if implSpins != modelSpins {
		res.Mismatch(vh.Mismatch{Section: "respawn", Function: "worker respawn cycle after DeletePipe", Input: c, Impl: fmt.Sprintf("%d workers/s", respawns), Model: fmt.Sprintf("cycle enabled=%v", modelSpins)})
	}
	if implSpins {
		finding := ""
		// class: the pipe was deleted while a descriptor had Pos < LastKnwnPos. Fixed by 69cc67a (startWorker tests the pipe's
		// context): a recurrence is still tagged, so that the check reports "the defect is back"
		if c.Variant == "stranded" {
			finding = "F49"
		}
		res.SpecFail(vh.SpecFailure{Section: "respawn", Kind: "busy-loop", Input: c, Impl: fmt.Sprintf("%d workers started and finished in 1 s after the deletion, %.2f CPU cores busy (descriptor at deletion: %s)", respawns, cpu, desc),
			Spec: "no worker runs for a deleted pipe", Model: fmt.Sprintf("cycle enabled=%v", modelSpins), ImplEqModel: implSpins == modelSpins, Finding: finding,
			What: "after DeletePipe a descriptor with Pos < LastKnwnPos makes workerDone start a worker whose context is already cancelled, again and again, until the server stops"})
	}
}

func sectionRespawn(corpus []respawnCase) {
	sec := res.Section("respawn", "spec-search",
		"a pipe deleted while its descriptor is behind LastKnwnPos (batch notified, not yet flushed: 600 ms flush) and, as control, after it caught up; for one second after the deletion the workers passing pipe.worker.beforeDone are counted and the CPU time of the process is measured; compared with the Lean LTS (is wtimeout/wdone/wopen of the source still enabled after delete); runs alone because the hook is process-global; non-trivial = every case")
	cs := append([]respawnCase{}, corpus...)
	cs = append(cs, respawnCase{Variant: "caughtup"})
	if len(corpus) == 0 {
		cs = append(cs, respawnCase{Variant: "stranded"})
	}
	for _, c := range cs {
		runRespawn(c, sec)
	}
	res.Done(sec)
}

// ---------------------------------------------------------------------------------------------
// stress (thorough): free-running racing first writes; back-to-back writes behind a reading worker

func sectionStress(rng *vh.Rng) {
	sec := res.Section("stress", "stress",
		"free-running goroutines, no parking: new sources first written by 2..4 writers at once (class of F10), and back-to-back batches to one source while its worker reads right behind the writer with tiny chunks (class of F34); a loss is attributed only if it falls in the narrow class (a missing whole first batch of a racing writer; one contiguous run inside the data), everything else is a violation; non-trivial = every case")
	n := 40
	var hs []*history
	for i := 0; i < n; i++ {
		h := &history{Name: fmt.Sprintf("q%d", i), S: tcond{Kind: "all"}, F: fcond{Kind: "true"}, Via: "api", TsStep: 1, NoFirstQ: true, FlushMs: 2,
			Sources: []map[string]string{{"grp": "g1", "app": "a1"}}}
		if i%2 == 0 {
			h.Chunk, h.BigMsg = 4096, 60
		}
		h.Ops = append(h.Ops, opT{Kind: "create"}, opT{Kind: "write", Src: 0, N: 1, Via: "rpc"}, opT{Kind: "quiesce"})
		for b := rng.Range(5, 25); b > 0; b-- {
			h.Ops = append(h.Ops, opT{Kind: "write", Src: 0, N: rng.PickI([]int{1, 7, 40, 90}), Via: rng.PickS([]string{"rpc", "direct"})})
		}
		hs = append(hs, h)
	}
	runPar(hs, 12, func(h *history) { runHistory(h, sec, "stress") })
	// racing first writes
	for i := 0; i < 60; i++ {
		runRacingFirst(rng.Range(2, 4), sec)
	}
	res.Done(sec)
}

func runRacingFirst(k int, sec *vh.Section) {
	dir := lrsrv.NewDir()
	defer os.RemoveAll(dir)
	srv, err := lrsrv.Start(dir, lrsrv.Opts{WriteFlushMs: 40})
	if err != nil {
		return
	}
	defer srv.Stop()
	srv.Pipes.CreatePipe(pipe.Pipe{Name: "rf", TagsCond: "grp=g1"})
	d, _ := srv.Pipes.GetPipe("rf")
	destTags := d.DestTags.Line().String()
	nsrc := 6
	var wg sync.WaitGroup
	for s := 0; s < nsrc; s++ {
		for w := 0; w < k; w++ {
			wg.Add(1)
			go func(s, w int) {
				defer wg.Done()
				r := &runner{h: &history{Sources: []map[string]string{{"grp": "g1", "app": fmt.Sprintf("r%d", s)}}}, srv: srv, written: make([][]ev, 1)}
				r.write(0, mkEvs(fmt.Sprintf("s%dw%d-", s, w), 0, 3), "direct")
			}(s, w)
		}
	}
	wg.Wait()
	waitDest(srv, destTags, nsrc*k*3, 1500*time.Millisecond)
	if !settle(srv, "rf", "", destTags) {
		// the machine is too busy to tell a finished copy from an unfinished one: no verdict on this case
		res.Dist(sec, "racing-first: inconclusive (not settled within 10 s)")
		res.Note("stress: a racing-first case did not settle within 10 s (machine load) — no verdict")
		return
	}
	dest, _ := readAll(srv, "select from "+destTags)
	got := map[string]int{}
	for _, e := range dest {
		got[e.Message[:strings.Index(e.Message, "-")]]++
	}
	// stored order of the batches per source: the class of F10 loses only batches stored before the first copied one
	prefixOnly := true
	jumped := true // every source with a non-prefix loss has its saved position at the end of its data: a jump over whole batches
	ds, _ := srv.Pipes.VerifC10Descs("rf")
	detail := []string{}
	for s := 0; s < nsrc; s++ {
		stored, _ := readAll(srv, fmt.Sprintf("select from {app=r%d,grp=g1}", s))
		seenCopied := false
		anyCopied := false
		for _, e := range stored {
			k := e.Message[:strings.Index(e.Message, "-")]
			if got[k] > 0 {
				seenCopied, anyCopied = true, true
			} else if seenCopied {
				prefixOnly = false
			}
			if len(detail) == 0 || detail[len(detail)-1] != fmt.Sprintf("%s:%d", k, got[k]) {
				detail = append(detail, fmt.Sprintf("%s:%d", k, got[k]))
			}
		}
		if !anyCopied {
			prefixOnly = false
		}
		// is this source's loss F10-shaped (a prefix of whole batches before the first copied one)?
		srcPrefix, seen := anyCopied, false
		for _, e := range stored {
			k := e.Message[:strings.Index(e.Message, "-")]
			if got[k] > 0 {
				seen = true
			} else if seen {
				srcPrefix = false
			}
		}
		if !srcPrefix {
			atEnd := false
			tl := fmt.Sprintf("app=r%d,grp=g1", s)
			for _, d := range ds {
				if d.Tags == tl && globalIdx(srv, tl, d.Pos) == len(stored) {
					atEnd = true
				}
			}
			if !atEnd {
				jumped = false
			}
		}
	}
	res.Eval(sec, fmt.Sprint("racing", k, len(dest)))
	res.Dist(sec, "racing-first")
	missing := []string{}
	bad := false
	for s := 0; s < nsrc; s++ {
		for w := 0; w < k; w++ {
			key := fmt.Sprintf("s%dw%d", s, w)
			switch got[key] {
			case 3:
			case 0:
				missing = append(missing, key)
			default:
				bad = true
			}
		}
	}
	if bad || len(dest) > nsrc*k*3 {
		res.SpecFail(vh.SpecFailure{Section: "stress", Kind: "partial-or-duplicate-batch", Input: map[string]interface{}{"writers": k}, Impl: fmt.Sprint(got), Spec: "every batch whole, once",
			What: "racing first writes: a batch was copied partially or more than once"})
	} else if len(missing) > 0 {
		finding, kind := "", "lost-first-batch"
		if prefixOnly {
			finding = "F10"
		} else if jumped && atomic.AddInt64(&f34Attributed, 1) <= 3 {
			// not the shape of F10 (batches are missing behind a copied one, or a source has nothing copied), only whole
			// batches are missing and the pipe's saved position of every such source stands at the end of its data: the
			// cursor jumped over batches confirmed while the (starting) worker was at end-of-data — the library race. A free
			// race cannot be executed again; the rate guard (three per run) applies.
			finding, kind = "F34", "tail-skip"
			prefixOnly = true
		}
		res.SpecFail(vh.SpecFailure{Section: "stress", Kind: kind, Input: map[string]interface{}{"writers": k, "missing": missing}, Impl: fmt.Sprintf("%d events; batches in stored order with the number of their events copied: %v", len(dest), detail), Spec: fmt.Sprint(nsrc * k * 3),
			ImplEqModel: prefixOnly, Finding: finding, What: "racing first writes to a new source: a whole first batch of one writer is never copied"})
	}
}

// ---------------------------------------------------------------------------------------------
// the reference evaluators of this harness against the real builders (which C05/C06 verify): a disagreement means the
// SPEC oracle of this harness is wrong for that condition

func sectionOracle() {
	sec := res.Section("oracle", "unit-correspondence", "self-check of the harness' reference evaluators: every source condition of the pool on every tag set of the pool against lql.BuildTagsExpFunc, every filter of the generator's family on sample events against lql.BuildWhereExpFunc (exhaustive over the pools); non-trivial = every pair")
	sec.Exhaustive = true
	for i := range sPool {
		c := &sPool[i]
		f, err := lql.BuildTagsExpFunc(c.lql())
		if err != nil {
			res.Mismatch(vh.Mismatch{Section: "oracle", Function: "source condition does not parse", Input: c.lql(), Impl: err.Error(), Model: "parses"})
			continue
		}
		for _, t := range tagPool {
			ts, _ := tag.Parse(tagLine(t))
			res.Eval(sec, c.lql()+"|"+tagLine(t))
			if f(ts) != c.eval(t) {
				res.Mismatch(vh.Mismatch{Section: "oracle", Function: "reference evaluation of the source condition", Input: c.lql() + " on " + tagLine(t), Impl: fmt.Sprint(f(ts)), Model: fmt.Sprint(c.eval(t))})
			}
		}
	}
	var fs []fcond
	for _, s := range []string{"x", "k7", "zz"} {
		fs = append(fs, fcond{Kind: "contains", S: s})
	}
	for n := int64(0); n <= 60; n += 7 {
		fs = append(fs, fcond{Kind: "tsgt", N: n}, fcond{Kind: "tslt", N: n})
	}
	// conditions on a field whose name is also a tag of the sources (the pipe appends the tags as fields AFTER filtering)
	for _, k := range []string{"grp", "app", "f", "host"} {
		for _, v := range []string{"g1", "a1", "1", ""} {
			fs = append(fs, fcond{Kind: "fldeq", K: k, S: v}, fcond{Kind: "fldne", K: k, S: v})
		}
	}
	for _, sx := range []string{"x", "k7"} {
		for n := int64(0); n <= 40; n += 9 {
			fs = append(fs, fcond{Kind: "nand", S: sx, N: n})
		}
	}
	for _, fc := range fs {
		f, err := lql.BuildWhereExpFunc(fc.lql())
		if err != nil {
			res.Mismatch(vh.Mismatch{Section: "oracle", Function: "filter does not parse", Input: fc.lql(), Impl: err.Error(), Model: "parses"})
			continue
		}
		for s := 0; s < 64; s++ {
			msg := fmt.Sprintf("s1#%d %s", s, []string{"k7", "x", "zz", "x k7"}[s%4])
			kv := fieldsPool[s%len(fieldsPool)]
			le := &model.LogEvent{Timestamp: int64(s), Msg: []byte(msg), Fields: fieldParse(kv)}
			res.Eval(sec, fmt.Sprint(fc, s))
			if f(le) != fc.eval(int64(s), msg, kv) {
				res.Mismatch(vh.Mismatch{Section: "oracle", Function: "reference evaluation of the filter", Input: fmt.Sprintf("%s on ts=%d msg=%q fields=%q", fc.lql(), s, msg, kv), Impl: fmt.Sprint(f(le)), Model: fmt.Sprint(fc.eval(int64(s), msg, kv))})
			}
		}
	}
	res.Done(sec)
}

// ---------------------------------------------------------------------------------------------

type corpusDoc struct {
	Section string          `json:"section"`
	Input   json.RawMessage `json:"input"`
}

var corpusRespawn []respawnCase
var corpusRecsize []recsizeCase
var corpusLifecycle []lifecycleCase

func sectionCorpus() (parked []parkedCase) {
	sec := res.Section("corpus", "corpus", "witnesses of the open findings and minimised past failures (corpus/C10/*.json), replayed first: histories through the same runner as section history, parked cases in section parked")
	var hs []*history
	for _, f := range vh.CorpusFiles(args.Corpus) {
		var d corpusDoc
		if err := vh.ReadJSON(f, &d); err != nil {
			res.Note("corpus: %s: %v", f, err)
			continue
		}
		switch d.Section {
		case "history", "stress", "corpus":
			h := new(history)
			if json.Unmarshal(d.Input, h) == nil && len(h.Ops) > 0 {
				hs = append(hs, h)
			}
		case "parked":
			var c parkedCase
			if json.Unmarshal(d.Input, &c) == nil {
				parked = append(parked, c)
			}
		case "respawn":
			var c respawnCase
			if json.Unmarshal(d.Input, &c) == nil {
				corpusRespawn = append(corpusRespawn, c)
			}
		case "recsize":
			var c recsizeCase
			if json.Unmarshal(d.Input, &c) == nil {
				corpusRecsize = append(corpusRecsize, c)
			}
		case "lifecycle":
			var c lifecycleCase
			if json.Unmarshal(d.Input, &c) == nil {
				corpusLifecycle = append(corpusLifecycle, c)
			}
		}
	}
	runPar(hs, 12, func(h *history) { runHistory(h, sec, "corpus") })
	res.Done(sec)
	return
}

func replay(path string) {
	var d corpusDoc
	if err := vh.ReadJSON(path, &d); err != nil {
		res.Fatal(args.Out, "replay: %v", err)
	}
	switch d.Section {
	case "history", "stress", "corpus":
		var h history
		json.Unmarshal(d.Input, &h)
		sec := res.Section("history", "replay", "replay of one recorded history")
		runHistory(&h, sec, "history")
	case "lifecycle":
		var c lifecycleCase
		json.Unmarshal(d.Input, &c)
		sec := res.Section("lifecycle", "replay", "replay of one life-cycle case")
		runLifecycle(c, sec)
	case "recsize":
		var c recsizeCase
		json.Unmarshal(d.Input, &c)
		sec := res.Section("recsize", "replay", "replay of one record size")
		runRecsize(c, sec)
	case "respawn":
		var c respawnCase
		json.Unmarshal(d.Input, &c)
		sec := res.Section("respawn", "replay", "replay of one deletion")
		runRespawn(c, sec)
	case "parked":
		var c parkedCase
		json.Unmarshal(d.Input, &c)
		sec := res.Section("parked", "replay", "replay of one parked schedule")
		if c.Variant == "index-race" {
			installGateHook("partition.write.beforeCIndex")
			installGateHook("tmindex.syncChunks.betweenLocks")
			runIndexRace(c, sec)
		} else if strings.HasPrefix(c.Variant, "rearm") {
			runRearm([]parkedCase{c}, sec)
		} else {
			installWriteHook()
			runParkedWriter(c, sec)
		}
	default:
		res.Note("replay: unknown section %q", d.Section)
	}
	for _, m := range res.Mismatches {
		fmt.Printf("MISMATCH %s impl=%s model=%s\n", m.Function, m.Impl, m.Model)
	}
	for _, f := range res.SpecFailures {
		fmt.Printf("SPEC-FAILURE kind=%s finding=%s %s\n  impl=%s\n  spec=%s\n", f.Kind, f.Finding, f.What, f.Impl, f.Spec)
	}
	res.Write(args.Out)
}

func main() {
	args = vh.ParseArgs()
	res = vh.NewResult("C10", args)
	if !verifhook.Enabled {
		res.Fatal(args.Out, "the harness must be built with -tags verif")
	}
	if args.Replay != "" {
		replay(args.Replay)
		return
	}
	rng := vh.NewRng(args.Seed)
	// VERIF_SECTIONS=a,b restricts the run to the named sections (development aid; the check never sets it)
	only := os.Getenv("VERIF_SECTIONS")
	want := func(n string) bool { return only == "" || strings.Contains(","+only+",", ","+n+",") }
	if want("oracle") {
		sectionOracle()
	}
	var parked []parkedCase
	if want("corpus") {
		parked = sectionCorpus()
	}
	if want("history") {
		sectionHistory(rng.Fork("history"))
	}
	if want("parked") {
		sectionParked(rng.Fork("parked"), parked)
	}
	if want("recsize") {
		sectionRecsize(corpusRecsize)
	}
	if want("lifecycle") {
		sectionLifecycle(corpusLifecycle)
	}
	if want("respawn") {
		sectionRespawn(corpusRespawn)
	}
	if args.Thorough && want("stress") {
		sectionStress(rng.Fork("stress"))
	}
	res.Write(args.Out)
}
