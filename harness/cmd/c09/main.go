// C09 harness — TRUNCATE removes only whole oldest chunks, within the requested bounds.
//
// Sections
//
//	corpus    recorded inputs (known-finding witnesses, past failures), replayed first
//	chooser   unit: partition.Service.truncate on fabricated chunk lists (export_verif.go) vs the Lean chooser
//	          (exhaustive small domain + random, incl. uint64 wrap) vs the property's clauses
//	system    real server, partitions built with a tiny MaxChunkSize, TRUNCATE statements through the RPC Execute
//	          API: DRYRUN, then the real run; reports, layouts and full reads before/after vs the Lean model of the
//	          whole command (every visiting order) vs the property's clauses evaluated on what was observed
//	reader    a paged read positioned inside chunks that a TRUNCATE removes: uncached (must continue at the first
//	          remaining event) and server-held cursor (finding F26)
//	writer    a writer appends to a partition while TRUNCATE runs: nothing but whole oldest chunks may disappear
//	hull      unit: the chunk time hull the time index keeps (chkInfo creation + update) vs the Lean hull model vs "covers every write"
//	sizerace  (hook) a write confirmed right after truncate's snapshot of the sizes (regression of the fixed finding F43)
//	droprace  (hook) a write into a NEW chunk between truncate's snapshot and deleteJournal's exclusive lock: the partition must stay
//	bucket    the dropped partition shares its two-character parent folder with an unselected one: files, layout, content of the
//	          unselected ones are the same after DRYRUN, run, graceful stop + restart
package main

import (
	"context"
	"encoding/json"
	"flag"
	"fmt"
	"os"
	"os/exec"
	"path/filepath"
	"regexp"
	"runtime/debug"
	"sort"
	"strconv"
	"strings"
	"sync"
	"sync/atomic"
	"syscall"
	"time"

	"github.com/logrange/logrange/api"
	"github.com/logrange/logrange/pkg/model"
	"github.com/logrange/logrange/pkg/partition"
	"github.com/logrange/logrange/pkg/tmindex"
	"github.com/logrange/logrange/pkg/utils"
	"github.com/logrange/logrange/pkg/utils/verifhook"
	"verifharness/internal/lrsrv"
	"verifharness/internal/vh"
)

var (
	args vh.Args
	res  *vh.Result
)

const maxU64 = ^uint64(0)

// ---------------------------------------------------------------------------------------------
// chooser (unit)

type chooserCase struct {
	Dry    bool                   `json:"dry"`
	Max    uint64                 `json:"max"`
	Min    uint64                 `json:"min"`
	Before int64                  `json:"before"`
	JSize  uint64                 `json:"jsize"`
	Chunks []partition.VerifChunk `json:"chunks"`
}

func (c chooserCase) line() string {
	var sb strings.Builder
	fmt.Fprintf(&sb, "choose %s %d %d %d %d %d", b01(c.Dry), c.Max, c.Min, c.Before, c.JSize, len(c.Chunks))
	for _, k := range c.Chunks {
		fmt.Fprintf(&sb, " %d %d %d", k.Id, k.Size, k.MaxTs)
	}
	return sb.String()
}

func b01(b bool) string {
	if b {
		return "1"
	}
	return "0"
}

// implChooser runs the real truncate and prints the result in the model's vocabulary: "<n> <removed> <ids left>"
func implChooser(c chooserCase) (n int, removed uint64, deleted []uint64, out string) {
	tp := partition.TruncateParams{DryRun: c.Dry, MaxSrcSize: c.Max, MinSrcSize: c.Min, OldestTs: c.Before}
	var err error
	// a panic of the code under test is an answer ("panic: …") that differs from the model's, not the end of the harness
	if pn := vh.Recover(func() { n, removed, deleted, err = partition.VerifTruncate(tp, c.JSize, c.Chunks) }); pn != "" {
		return 0, 0, nil, "panic: " + pn
	}
	if err != nil {
		return 0, 0, nil, "err"
	}
	del := map[uint64]bool{}
	for _, d := range deleted {
		del[d] = true
	}
	left := []string{}
	for _, k := range c.Chunks {
		if !del[k.Id] {
			left = append(left, strconv.FormatUint(k.Id, 10))
		}
	}
	l := "-"
	if len(left) > 0 {
		l = strings.Join(left, ",")
	}
	return n, removed, deleted, fmt.Sprintf("%d %d %s", n, removed, l)
}

// modelChooserAnswer drops the bySize/byTime fields of the driver's answer
func modelChooserAnswer(a string) string {
	f := strings.Fields(a)
	if len(f) != 5 {
		return a
	}
	return f[0] + " " + f[1] + " " + f[4]
}

// specChooser evaluates the property's clauses on what the implementation did (only meaningful when jsize is the
// sum of the chunk sizes, i.e. a consistent snapshot). Returns (kind, what) of the first failing clause.
func specChooser(c chooserCase, n int, removed uint64, deleted []uint64) (string, string) {
	if n < 0 || n > len(c.Chunks) {
		return "not-whole-chunks", fmt.Sprintf("n=%d out of range", n)
	}
	if c.Dry && len(deleted) > 0 {
		return "dryrun-changed-state", fmt.Sprintf("DRYRUN deleted chunks %v", deleted)
	}
	if !c.Dry {
		if len(deleted) != n {
			return "not-oldest-prefix", fmt.Sprintf("reported %d chunks, deleted %v", n, deleted)
		}
		for i, d := range deleted {
			if d != c.Chunks[i].Id {
				return "not-oldest-prefix", fmt.Sprintf("deleted %v is not the oldest %d chunks", deleted, n)
			}
		}
	}
	total := uint64(0)
	for _, k := range c.Chunks {
		total += uint64(k.Size)
	}
	size := total
	for i := 0; i < n; i++ {
		k := c.Chunks[i]
		bySize := c.Max > 0 && size > c.Max
		byTime := c.Before > 0 && k.MaxTs < c.Before
		if !bySize && !byTime {
			if c.Before > 0 && k.MaxTs == c.Before {
				return "removed-not-older", fmt.Sprintf("chunk #%d (newest ts %d) removed by BEFORE %d", i, k.MaxTs, c.Before)
			}
			return "removed-without-rule", fmt.Sprintf("chunk #%d (size %d, newest ts %d, partition size %d) removed; neither above MAXSIZE nor older than BEFORE", i, k.Size, k.MaxTs, size)
		}
		size -= uint64(k.Size)
		if size < c.Min {
			return "below-minsize", fmt.Sprintf("removal of chunk #%d leaves %d < MINSIZE %d", i, size, c.Min)
		}
	}
	if removed != total-size {
		return "report-size-wrong", fmt.Sprintf("reported %d removed bytes, the %d chunks hold %d", removed, n, total-size)
	}
	return "", ""
}

func sectionChooser(rng *vh.Rng, corpus []corpusEntry) {
	sec := res.Section("chooser", "unit-correspondence",
		"partition.Service.truncate on fabricated journals (export_verif.go) vs the Lean chooser vs the property's clauses. Exhaustive: 0..4 chunks, sizes 1..3, newest timestamps non-decreasing in 1..5 (steps 0/1), MAXSIZE 0..6, MINSIZE 0..6, BEFORE 0..6, DRYRUN alternating; plus 5-chunk layouts sampled; plus random cases with zero-size chunks, non-monotone timestamps, Size() answers that differ from the sum of the chunk sizes and operands next to 2^64 (uint64 wrap). non-trivial = at least one chunk chosen, distinct by input")
	sec.Exhaustive = true
	var cases []chooserCase
	consistent := []bool{}
	add := func(c chooserCase, cons bool) { cases = append(cases, c); consistent = append(consistent, cons) }
	for _, e := range corpus {
		if e.Section == "chooser" {
			var c chooserCase
			if json.Unmarshal(e.Input, &c) == nil {
				sum := uint64(0)
				for _, k := range c.Chunks {
					sum += uint64(k.Size)
				}
				add(c, sum == c.JSize)
			}
		}
	}
	// exhaustive layouts
	var layouts [][]partition.VerifChunk
	var gen func(k int, cur []partition.VerifChunk)
	gen = func(k int, cur []partition.VerifChunk) {
		layouts = append(layouts, append([]partition.VerifChunk{}, cur...))
		if len(cur) == k {
			return
		}
	}
	var build func(maxK int, cur []partition.VerifChunk)
	build = func(maxK int, cur []partition.VerifChunk) {
		layouts = append(layouts, append([]partition.VerifChunk{}, cur...))
		if len(cur) == maxK {
			return
		}
		for sz := int64(1); sz <= 3; sz++ {
			var tss []int64
			if len(cur) == 0 {
				tss = []int64{1, 2}
			} else {
				last := cur[len(cur)-1].MaxTs
				tss = []int64{last, last + 1}
			}
			for _, ts := range tss {
				build(maxK, append(cur, partition.VerifChunk{Id: uint64(10 + 3*len(cur)), Size: sz, MaxTs: ts}))
			}
		}
	}
	_ = gen
	build(4, nil)
	cnt := 0
	for _, lay := range layouts {
		sum := uint64(0)
		for _, k := range lay {
			sum += uint64(k.Size)
		}
		for mx := uint64(0); mx <= 6; mx++ {
			for mn := uint64(0); mn <= 6; mn++ {
				for bf := int64(0); bf <= 6; bf++ {
					cnt++
					if !args.Thorough && len(lay) == 4 && cnt%2 == 0 {
						continue // quick tier: every second case of the largest layouts
					}
					add(chooserCase{Dry: cnt%3 == 0, Max: mx, Min: mn, Before: bf, JSize: sum, Chunks: lay}, true)
				}
			}
		}
	}
	// sampled 5-chunk layouts and random cases
	nr := 20000
	if args.Thorough {
		nr = 200000
	}
	for i := 0; i < nr; i++ {
		k := rng.Range(0, 5)
		if i%2 == 0 {
			k = 5
		}
		var lay []partition.VerifChunk
		ts := int64(rng.Range(1, 3))
		sum := uint64(0)
		id := uint64(rng.Range(1, 5))
		for j := 0; j < k; j++ {
			sz := int64(rng.Range(1, 4))
			if rng.Chance(1, 12) {
				sz = 0
			}
			if rng.Chance(1, 10) {
				ts -= int64(rng.Range(1, 2)) // non-monotone hull
			} else {
				ts += int64(rng.Range(0, 2))
			}
			lay = append(lay, partition.VerifChunk{Id: id, Size: sz, MaxTs: ts})
			id += uint64(rng.Range(1, 3))
			sum += uint64(sz)
		}
		c := chooserCase{Dry: rng.Chance(1, 3), Max: uint64(rng.Range(0, 12)), Min: uint64(rng.Range(0, 8)), Before: int64(rng.Range(-1, int(ts)+2)), JSize: sum, Chunks: lay}
		cons := true
		switch rng.Intn(10) {
		case 0: // the journal's Size() was read before a write was confirmed / after a chunk appeared
			c.JSize = uint64(int64(sum) + int64(rng.Range(-3, 3)))
			if int64(sum)+int64(rng.Range(-3, 3)) < 0 {
				c.JSize = 0
			}
			cons = c.JSize == sum
		case 1: // operands next to 2^64
			c.Max = maxU64 - uint64(rng.Range(0, 3))
			c.Min = maxU64 - uint64(rng.Range(0, 5))
		case 2:
			c.Min = maxU64 - uint64(rng.Range(0, 3))
		}
		add(c, cons)
	}
	lines := make([]string, len(cases))
	for i, c := range cases {
		lines[i] = c.line()
	}
	outs, err := vh.Batch(args.Driver, lines)
	if err != nil {
		res.Fatal(args.Out, "driver: %v", err)
	}
	for i, c := range cases {
		n, removed, deleted, impl := implChooser(c)
		mdl := modelChooserAnswer(outs[i])
		key := ""
		if n > 0 {
			key = lines[i]
		}
		res.Eval(sec, key)
		mf := strings.Fields(outs[i])
		if len(mf) == 5 {
			res.Dist(sec, fmt.Sprintf("chunks=%d bySize>0=%v byTime>0=%v", len(c.Chunks), mf[2] != "0", mf[3] != "0"))
		}
		eq := impl == mdl
		if !eq {
			res.Mismatch(vh.Mismatch{Section: "chooser", Function: "partition.Service.truncate", Input: c, Impl: impl, Model: mdl})
		}
		// since fix b1a5e66 the answer of Journal.Size() is irrelevant: the clauses are evaluated on every case
		if kind, what := specChooser(c, n, removed, deleted); kind != "" {
			f := vh.SpecFailure{Section: "chooser", Kind: kind, Input: c, Impl: impl, Spec: "see what", Model: mdl, ImplEqModel: eq, What: what}
			if kind == "removed-not-older" {
				f.Finding = "F21" // a fixed finding: reported as a violation ("the defect is back")
			}
			twinOK := false
			if !consistent[i] {
				twin := c
				twin.JSize = 0
				for _, k := range c.Chunks {
					twin.JSize += uint64(k.Size)
				}
				tn, tr, td, _ := implChooser(twin)
				tk, _ := specChooser(twin, tn, tr, td)
				twinOK = tk == ""
			}
			if twinOK {
				// class of the fixed finding F43: the failure exists only because Size() answered something else than the sum
				// of the chunk sizes the loops read (the same chunks with a consistent answer are handled correctly)
				f.Finding = "F43"
				f.Kind = "size-snapshot-" + kind
				f.What = fmt.Sprintf("Journal.Size() answered %d, the chunk sizes sum to another value: %s", c.JSize, what)
			}
			res.SpecFail(f)
		}
	}
	res.Sample(map[string]interface{}{"section": "chooser", "input": cases[len(cases)/2], "model": outs[len(cases)/2]})
	res.Done(sec)
}

// ---------------------------------------------------------------------------------------------
// system

type evSpec struct {
	Ts  int64 `json:"ts"`
	Pad int   `json:"pad"` // extra message bytes
}

type partSpec struct {
	Tags    string     `json:"tags"`
	Batches [][]evSpec `json:"batches"`
}

type stmtSpec struct {
	Source string  `json:"source"` // text after TRUNCATE [DRYRUN]; "" = all partitions
	Sel    []int   `json:"sel"`    // indices of the partitions the source condition matches (by construction)
	Min    *uint64 `json:"min,omitempty"`
	Max    *uint64 `json:"max,omitempty"`
	Before *int64  `json:"before,omitempty"`
	MaxDB  *uint64 `json:"maxdb,omitempty"`
}

func (s stmtSpec) text(dry bool) string {
	q := "truncate"
	if dry {
		q += " dryrun"
	}
	if s.Source != "" {
		q += " " + s.Source
	}
	if s.Min != nil {
		q += fmt.Sprintf(" minsize %d", *s.Min)
	}
	if s.Max != nil {
		q += fmt.Sprintf(" maxsize %d", *s.Max)
	}
	if s.Before != nil {
		q += fmt.Sprintf(" before \"%d\"", *s.Before)
	}
	if s.MaxDB != nil {
		q += fmt.Sprintf(" maxdbsize %d", *s.MaxDB)
	}
	return q
}

type readerSpec struct {
	Part   int  `json:"part"`
	Limit  int  `json:"limit"`
	Cached bool `json:"cached"`
	Ranged bool `json:"ranged,omitempty"` // SELECT … RANGE: the reader is a partition.JIterator / chkSelector, not the library iterator
}

type sysCase struct {
	MaxChunk  int         `json:"max_chunk"`
	Parts     []partSpec  `json:"parts"`
	Stmts     []stmtSpec  `json:"stmts"`
	Reader    *readerSpec `json:"reader,omitempty"` // page 1 before the first real run, page 2 after it
	SkipDry   bool        `json:"skip_dry,omitempty"`
	DryRepeat int         `json:"dry_repeat,omitempty"` // run every DRYRUN this many times (Go map order differs per call)
	AimSeed   int64       `json:"aim_seed,omitempty"`   // generator only: aim the statements at the layout once it has been built
}

type chunkObs struct {
	Id    uint64
	Size  int64
	MaxTs int64 // newest timestamp the time index claims
	Seqs  []int
	Tss   []int64
}

type partObs struct {
	Exists bool
	Src    string // the partition's source id (the tie-break of the MAXDBSIZE pass orders by it)
	Chunks []chunkObs
	Read   []string // messages of a full read through the query API (or one element "ERR …")
}

func (p partObs) size() uint64 {
	s := uint64(0)
	for _, c := range p.Chunks {
		s += uint64(c.Size)
	}
	return s
}

func (p partObs) seqs() []int {
	var r []int
	for _, c := range p.Chunks {
		r = append(r, c.Seqs...)
	}
	return r
}

func (p partObs) layout() string {
	if !p.Exists {
		return "absent"
	}
	var sb strings.Builder
	for _, c := range p.Chunks {
		fmt.Fprintf(&sb, "[%d %dB ts<=%d %v]", c.Id, c.Size, c.MaxTs, c.Seqs)
	}
	return sb.String() + " read=" + strings.Join(p.Read, ",")
}

func seqOf(msg string) int {
	n, _ := strconv.Atoi(strings.TrimLeft(strings.SplitN(msg, "_", 2)[0], "0"))
	return n
}

func fullRead(srv *lrsrv.Srv, tags string) []string {
	var out []string
	qr := &api.QueryRequest{Query: "select from {" + tags + "}", Limit: 1000}
	for i := 0; i < 50; i++ {
		r := &api.QueryResult{}
		if err := srv.Client.Query(context.Background(), qr, r); err != nil {
			return append(out, "ERR "+err.Error())
		}
		if r.Err != nil {
			return append(out, "ERR "+r.Err.Error())
		}
		if len(r.Events) == 0 {
			return out
		}
		for _, e := range r.Events {
			out = append(out, e.Message)
		}
		nq := r.NextQueryRequest
		qr = &nq
	}
	return out
}

// observe reads the layout of one partition directly from the journal (chunk ids, confirmed sizes, records) and
// through the query API. A missing partition is not created.
func observe(srv *lrsrv.Srv, tags string) partObs {
	var po partObs
	src, _, err := srv.TIndex.GetJournal(tags)
	if err != nil {
		return po
	}
	po.Exists = true
	po.Src = src
	ctx := context.Background()
	j, err := srv.Journals.GetOrCreate(ctx, src)
	if err == nil {
		cks, _ := j.Chunks().Chunks(ctx)
		for _, c := range cks {
			co := chunkObs{Id: uint64(c.Id()), Size: c.Size()}
			if ri, err := srv.TsIdx.GetRecordsInfo(src, c.Id()); err == nil {
				co.MaxTs = ri.MaxTs
			}
			it, err := c.Iterator()
			if err == nil {
				for {
					rec, err := it.Get(ctx)
					if err != nil {
						break
					}
					var le model.LogEvent
					le.Unmarshal(rec, true)
					co.Seqs = append(co.Seqs, seqOf(string(le.Msg)))
					co.Tss = append(co.Tss, le.Timestamp)
					it.Next(ctx)
				}
				it.Close()
			}
			po.Chunks = append(po.Chunks, co)
		}
	}
	srv.TIndex.Release(src)
	po.Read = fullRead(srv, tags)
	return po
}

func observeAll(srv *lrsrv.Srv, c sysCase) []partObs {
	r := make([]partObs, len(c.Parts))
	for i, p := range c.Parts {
		r[i] = observe(srv, p.Tags)
	}
	return r
}

type repLine struct {
	Tags    string
	After   uint64
	Diff    uint64
	Chunks  int
	Deleted bool
	Exact   bool
}

var reRep = regexp.MustCompile(`^\s*([0-9.]+) (\w+)\(([0-9.]+) (\w+)\)\s+([0-9,\-]+)\(([0-9,\-]+)\)\s+(\d+)\((YES|NO)\)\s+(\S.*)$`)

func parseReport(out string) (lines []repLine, affected int, ok bool) {
	ok = true
	affected = -1
	for _, l := range strings.Split(out, "\n") {
		if m := reRep.FindStringSubmatch(l); m != nil {
			a, _ := strconv.ParseFloat(m[1], 64)
			d, _ := strconv.ParseFloat(m[3], 64)
			ch, _ := strconv.Atoi(m[7])
			rl := repLine{Tags: strings.TrimSpace(m[9]), After: uint64(a), Diff: uint64(d), Chunks: ch, Deleted: m[8] == "YES", Exact: m[2] == "B" && m[4] == "B"}
			if !rl.Exact {
				ok = false
			}
			lines = append(lines, rl)
		} else if strings.Contains(l, "source(s) affected") {
			fmt.Sscanf(strings.TrimSpace(l), "%d source(s) affected", &affected)
		}
	}
	if affected != len(lines) {
		ok = false
	}
	return
}

func optU(p *uint64) string {
	if p == nil {
		return "none"
	}
	return strconv.FormatUint(*p, 10)
}
func optI(p *int64) string {
	if p == nil {
		return "none"
	}
	return strconv.FormatInt(*p, 10)
}

// tagsKey normalises a tag line for matching report lines with partitions ("{g=t,p=1}" / "g=t,p=1")
func tagsKey(s string) string {
	s = strings.TrimSpace(s)
	s = strings.TrimPrefix(s, "{")
	s = strings.TrimSuffix(s, "}")
	parts := strings.Split(s, ",")
	for i := range parts {
		parts[i] = strings.ReplaceAll(strings.TrimSpace(parts[i]), "\"", "")
	}
	sort.Strings(parts)
	return strings.Join(parts, ",")
}

// modelLine builds the `run` request from an observed layout; chunk ids are renamed to 1-based indices
func modelLine(c sysCase, st stmtSpec, dry bool, before []partObs, users []int) string {
	var sb strings.Builder
	np := 0
	for _, p := range before {
		if p.Exists {
			np++
		}
	}
	fmt.Fprintf(&sb, "run %s %s %s %s %s %d", b01(dry), optU(st.Max), optU(st.Min), optI(st.Before), optU(st.MaxDB), np)
	for i, p := range before {
		if !p.Exists {
			continue
		}
		sel := false
		for _, s := range st.Sel {
			if s == i {
				sel = true
			}
		}
		fmt.Fprintf(&sb, " %d %s %d %d", i+1, b01(sel), users[i], len(p.Chunks))
		for k, ch := range p.Chunks {
			fmt.Fprintf(&sb, " %d %d %d", k+1, ch.Size, ch.MaxTs)
		}
	}
	return sb.String()
}

// implOutcome prints the report and (for a real run) the layout afterwards in the model's vocabulary
func implOutcome(c sysCase, rep []repLine, before, after []partObs, withDB bool) string {
	idx := map[string]int{}
	for i, p := range c.Parts {
		idx[tagsKey(p.Tags)] = i
	}
	var rs []string
	type r struct {
		src int
		s   string
	}
	var rr []r
	for _, l := range rep {
		i, ok := idx[tagsKey(l.Tags)]
		if !ok {
			rr = append(rr, r{999, "unknown-partition:" + l.Tags})
			continue
		}
		rr = append(rr, r{i + 1, fmt.Sprintf("%d:%d:%d:%d:%s", i+1, l.After+l.Diff, l.After, l.Chunks, b01(l.Deleted))})
	}
	sort.Slice(rr, func(a, b int) bool { return rr[a].src < rr[b].src })
	for _, x := range rr {
		rs = append(rs, x.s)
	}
	out := "R " + dash(strings.Join(rs, ","))
	if withDB {
		var ds []string
		for i, p := range after {
			if !p.Exists {
				continue
			}
			pos := map[uint64]int{}
			for k, ch := range before[i].Chunks {
				pos[ch.Id] = k + 1
			}
			var ids []string
			for _, ch := range p.Chunks {
				if k, ok := pos[ch.Id]; ok {
					ids = append(ids, strconv.Itoa(k))
				} else {
					ids = append(ids, fmt.Sprintf("new%d", ch.Id))
				}
			}
			ds = append(ds, fmt.Sprintf("%d=%s", i+1, dash(strings.Join(ids, "."))))
		}
		out += " D " + dash(strings.Join(ds, ","))
	}
	return out
}

func dash(s string) string {
	if s == "" {
		return "-"
	}
	return s
}

type modelAns struct {
	Tie      bool
	Outcomes []string // full outcome strings "R … D … P …"
}

func parseModelAns(a string) modelAns {
	var m modelAns
	parts := strings.Split(a, " ; ")
	m.Tie = strings.HasPrefix(parts[0], "tie=1")
	m.Outcomes = parts[1:]
	return m
}

// field returns the part of an outcome after the marker (R, D or P) up to the next marker
func field(outcome, marker string) string {
	f := strings.Fields(outcome)
	for i := 0; i+1 < len(f); i += 2 {
		if f[i] == marker {
			return f[i+1]
		}
	}
	return ""
}

// phases parses "src:n1:n2,…"
func phases(p string) map[int][2]int {
	r := map[int][2]int{}
	if p == "-" || p == "" {
		return r
	}
	for _, x := range strings.Split(p, ",") {
		f := strings.Split(x, ":")
		if len(f) == 3 {
			s, _ := strconv.Atoi(f[0])
			a, _ := strconv.Atoi(f[1])
			b, _ := strconv.Atoi(f[2])
			r[s] = [2]int{a, b}
		}
	}
	return r
}

func isSuffix(after, before []int) bool {
	if len(after) > len(before) {
		return false
	}
	off := len(before) - len(after)
	for i := range after {
		if before[off+i] != after[i] {
			return false
		}
	}
	return true
}

func readSeqs(read []string) ([]int, string) {
	var r []int
	for _, m := range read {
		if strings.HasPrefix(m, "ERR ") {
			return r, m
		}
		r = append(r, seqOf(m))
	}
	return r, ""
}

type sysResult struct {
	Case     sysCase        `json:"case"`  // the case as executed (statements aimed at the layout)
	Lines    []string       `json:"lines"` // model requests
	StmtIdx  []int          `json:"stmt_idx"`
	Dry      []bool         `json:"dry"`
	ImplOuts []string       `json:"impl_outs"`
	Befores  [][]partObs    `json:"befores"`
	Afters   [][]partObs    `json:"afters"`
	Reps     [][]repLine    `json:"reps"`
	Users    [][]int        `json:"users"`
	ReaderP2 *readerOutcome `json:"reader_p2,omitempty"`
	Err      string         `json:"err,omitempty"`
	Skip     string         `json:"skip,omitempty"`
	Crash    bool           `json:"crash,omitempty"` // the case killed or hung its worker: reported as a failure with its input
}

type readerOutcome struct {
	Page1    []int
	Page2    []int
	Err      string
	Expected []int
	Removed  bool // the chunk the reader stood in was removed
	Cached   bool
	Ranged   bool
	Stale    []int // what an iterator that still serves the removed chunk would deliver
}

func buildLayout(srv *lrsrv.Srv, c sysCase) error {
	seq := 1
	for _, p := range c.Parts {
		for _, b := range p.Batches {
			var evs []*api.LogEvent
			for _, e := range b {
				evs = append(evs, &api.LogEvent{Timestamp: e.Ts, Message: fmt.Sprintf("%04d_%s", seq, strings.Repeat("x", e.Pad))})
				seq++
			}
			var wr api.WriteResult
			if err := srv.Client.Write(context.Background(), p.Tags, "", evs, &wr); err != nil {
				return err
			}
			if wr.Err != nil {
				return wr.Err
			}
		}
	}
	srv.FlushWait()
	for _, p := range c.Parts {
		want := 0
		for _, b := range p.Batches {
			want += len(b)
		}
		settle(srv, p.Tags, want)
	}
	return nil
}

// settle waits until every written record of the partition is confirmed (count and sizes as the readers and the
// truncation see them) and the numbers have stopped moving: the flush timer can be late on a loaded machine.
func settle(srv *lrsrv.Srv, tags string, want int) {
	src, _, err := srv.TIndex.GetJournal(tags)
	if err != nil {
		return
	}
	defer srv.TIndex.Release(src)
	ctx := context.Background()
	j, err := srv.Journals.GetOrCreate(ctx, src)
	if err != nil {
		return
	}
	sig := func() (string, bool) {
		cks, _ := j.Chunks().Chunks(ctx)
		var sb strings.Builder
		n := 0
		ok := true
		for _, c := range cks {
			fmt.Fprintf(&sb, "%d:%d:%d ", c.Id(), c.Size(), c.Count())
			n += int(c.Count())
			if c.Size() == 0 && want != 0 {
				ok = false
			}
		}
		return sb.String(), ok && (want < 0 || n == want)
	}
	last := ""
	for i := 0; i < 1000; i++ {
		// acknowledged records become visible at the next flush; do not depend on the flush timer being on time
		j.Sync()
		s, ok := sig()
		if ok && s == last {
			return
		}
		last = s
		time.Sleep(3 * time.Millisecond)
	}
}

// runSys executes one case on a fresh server. Everything observed is returned; SPEC clauses that need no model
// are evaluated here, the ones that need the model's phase attribution in judgeSys.
func runSys(c sysCase) (r sysResult) {
	dir := lrsrv.NewDir()
	defer os.RemoveAll(dir)
	srv, err := lrsrv.Start(dir, lrsrv.Opts{MaxChunkSize: c.MaxChunk})
	if err != nil {
		r.Err = err.Error()
		return
	}
	defer srv.Stop()
	if err := buildLayout(srv, c); err != nil {
		r.Err = "write: " + err.Error()
		return
	}
	if c.AimSeed != 0 {
		if why := aimCase(vh.NewRng(c.AimSeed), &c, observeAll(srv, c)); why != "" {
			r.Skip = why
			return
		}
		c.AimSeed = 0
	}
	r.Case = c
	users := make([]int, len(c.Parts))
	var rq *api.QueryRequest
	var ro *readerOutcome
	for si, st := range c.Stmts {
		before := observeAll(srv, c)
		for rep := 0; !c.SkipDry && rep < 1+c.DryRepeat; rep++ {
			out, err := srv.Exec(st.text(true))
			if err != nil {
				r.Err = "dry run failed: " + err.Error()
				return
			}
			rep, _, _ := parseReport(out)
			mid := observeAll(srv, c)
			r.Lines = append(r.Lines, modelLine(c, st, true, before, users))
			r.StmtIdx = append(r.StmtIdx, si)
			r.Dry = append(r.Dry, true)
			r.ImplOuts = append(r.ImplOuts, implOutcome(c, rep, before, mid, false))
			r.Befores = append(r.Befores, before)
			r.Afters = append(r.Afters, mid)
			r.Reps = append(r.Reps, rep)
			r.Users = append(r.Users, append([]int{}, users...))
		}
		if si == 0 && c.Reader != nil {
			// page 1: the reader stops inside some chunk
			ro = &readerOutcome{Cached: c.Reader.Cached, Ranged: c.Reader.Ranged}
			q := &api.QueryRequest{Query: "select from {" + c.Parts[c.Reader.Part].Tags + "}", Limit: c.Reader.Limit}
			if c.Reader.Ranged {
				q.Query += ` range ["1":"1000000000"]`
			}
			if c.Reader.Cached {
				q.WaitTimeout = 1
			}
			qr := &api.QueryResult{}
			if err := srv.Client.Query(context.Background(), q, qr); err != nil || qr.Err != nil {
				r.Err = fmt.Sprint("reader page 1: ", err, qr.Err)
				return
			}
			for _, e := range qr.Events {
				ro.Page1 = append(ro.Page1, seqOf(e.Message))
			}
			nq := qr.NextQueryRequest
			rq = &nq
			if c.Reader.Cached {
				users[c.Reader.Part]++
			}
		}
		out, err := srv.Exec(st.text(false))
		if err != nil {
			r.Err = "truncate failed: " + err.Error()
			return
		}
		rep, _, _ := parseReport(out)
		time.Sleep(8 * time.Millisecond) // asynchronous chunk close + file removal
		if si == 0 && ro != nil {
			// page 2, before anything else touches the partition
			time.Sleep(30 * time.Millisecond)
			qr := &api.QueryResult{}
			rq.Limit = 3
			if err := srv.Client.Query(context.Background(), rq, qr); err != nil {
				ro.Err = err.Error()
			} else if qr.Err != nil {
				ro.Err = qr.Err.Error()
			}
			for _, e := range qr.Events {
				ro.Page2 = append(ro.Page2, seqOf(e.Message))
			}
		}
		after := observeAll(srv, c)
		if si == 0 && ro != nil {
			all := before[c.Reader.Part].seqs()
			rest := after[c.Reader.Part].seqs()
			// expected: the first events not yet delivered that still exist
			last := 0
			if len(ro.Page1) > 0 {
				last = ro.Page1[len(ro.Page1)-1]
			}
			for _, s := range rest {
				if s > last && len(ro.Expected) < 3 {
					ro.Expected = append(ro.Expected, s)
				}
			}
			for _, s := range all {
				if s > last && len(ro.Stale) < 3 {
					ro.Stale = append(ro.Stale, s)
				}
			}
			// was the chunk holding the next undelivered event removed?
			for _, ch := range before[c.Reader.Part].Chunks {
				for _, s := range ch.Seqs {
					if s == last+1 || (len(all) > 0 && last == all[len(all)-1] && s == last) {
						still := false
						for _, a := range after[c.Reader.Part].Chunks {
							if a.Id == ch.Id {
								still = true
							}
						}
						ro.Removed = !still
					}
				}
			}
			r.ReaderP2 = ro
		}
		r.Lines = append(r.Lines, modelLine(c, st, false, before, users))
		r.StmtIdx = append(r.StmtIdx, si)
		r.Dry = append(r.Dry, false)
		r.ImplOuts = append(r.ImplOuts, implOutcome(c, rep, before, after, true))
		r.Befores = append(r.Befores, before)
		r.Afters = append(r.Afters, after)
		r.Reps = append(r.Reps, rep)
		r.Users = append(r.Users, append([]int{}, users...))
	}
	return
}

// judgeSys compares one case with the model's answers and evaluates the property's clauses.
func judgeSys(secName string, sec *vh.Section, c sysCase, r sysResult, answers []string) {
	fail := func(kind, what, impl, spec, mdl string, eq bool, finding string) {
		res.SpecFail(vh.SpecFailure{Section: secName, Kind: kind, Input: c, Impl: impl, Spec: spec, Model: mdl, ImplEqModel: eq, Finding: finding, What: what})
	}
	if r.Err != "" {
		if r.Crash {
			res.SpecFail(vh.SpecFailure{Section: secName, Kind: "crash-or-hang", Input: c, Impl: r.Err, Spec: "the statement completes", What: "the case killed or hung the process it ran in: " + r.Err})
		} else {
			res.Note("%s: case could not run: %s", secName, r.Err)
		}
		return
	}
	nontrivial := false
	// the model orders equal latest timestamps by source id and is given the partition index as id: source ids are
	// handed out by a process-wide counter and the partitions were created in index order, so the orders agree
	for k := range r.Lines {
		last := ""
		for _, p := range r.Befores[k] {
			if p.Exists {
				if p.Src <= last {
					res.Note("%s: source ids are not in creation order (%q after %q): case not compared", secName, p.Src, last)
					return
				}
				last = p.Src
			}
		}
	}
	type dryObs struct {
		rep []repLine
		eq  bool
		ma  modelAns
	}
	var dries []dryObs
	for k := range r.Lines {
		st := c.Stmts[r.StmtIdx[k]]
		before, after, rep := r.Befores[k], r.Afters[k], r.Reps[k]
		ma := parseModelAns(answers[k])
		if len(ma.Outcomes) != 1 {
			// since the tie-break by source id the model's outcome must not depend on the visiting order
			res.Mismatch(vh.Mismatch{Section: secName, Function: "MODEL: outcome depends on the visiting order", Input: c, Impl: r.ImplOuts[k], Model: strings.Join(ma.Outcomes, " ; ")})
		}
		// IMPL ~ MODEL: the implementation's outcome must be the model's outcome for some visiting order
		eq := false
		matched := ""
		for _, o := range ma.Outcomes {
			cmp := "R " + field(o, "R")
			if !r.Dry[k] {
				cmp += " D " + field(o, "D")
			}
			if cmp == r.ImplOuts[k] {
				eq = true
				matched = o
			}
		}
		if !eq {
			res.Mismatch(vh.Mismatch{Section: secName, Function: "Admin.Execute(" + st.text(r.Dry[k]) + ")", Input: c, Impl: r.ImplOuts[k], Model: strings.Join(ma.Outcomes, " ; ")})
			if len(ma.Outcomes) > 0 {
				matched = ma.Outcomes[0]
			}
		}
		ph := phases(field(matched, "P"))
		if r.Dry[k] {
			// DRYRUN changes nothing
			for i := range before {
				if before[i].layout() != after[i].layout() {
					fail("dryrun-changed-state", fmt.Sprintf("%s changed partition %s", st.text(true), c.Parts[i].Tags), after[i].layout(), before[i].layout(), matched, eq, "")
				}
			}
			dries = append(dries, dryObs{rep, eq, ma})
			continue
		}
		users := r.Users[k]
		// failures of the removal rules are reported after the DRYRUN comparison of the same statement: when a repaired
		// DRYRUN defect is back it is the more specific diagnosis and should be the replay the check names
		var deferred []vh.SpecFailure
		failLater := func(kind, what, impl, spec, mdl string, eq bool, finding string) {
			deferred = append(deferred, vh.SpecFailure{Section: secName, Kind: kind, Input: c, Impl: impl, Spec: spec, Model: mdl, ImplEqModel: eq, Finding: finding, What: what})
		}
		// what the real run removed, per partition
		actual := map[int]removal{}
		for i := range before {
			if !before[i].Exists {
				continue
			}
			sel := false
			for _, s := range st.Sel {
				if s == i {
					sel = true
				}
			}
			b, a := before[i], after[i]
			bs, as := b.seqs(), a.seqs()
			if !sel {
				if b.layout() != a.layout() {
					fail("unselected-changed", fmt.Sprintf("%s changed partition %s, which does not match the source condition", st.text(false), c.Parts[i].Tags), a.layout(), b.layout(), matched, eq, "")
				}
				continue
			}
			if !isSuffix(as, bs) {
				fail("not-a-suffix", fmt.Sprintf("%s: content of %s afterwards is not a suffix of its content before", st.text(false), c.Parts[i].Tags), fmt.Sprint(as), fmt.Sprint(bs), matched, eq, "")
				continue
			}
			// the user-level read agrees with the stored content
			rs, rerr := readSeqs(a.Read)
			if rerr != "" || fmt.Sprint(rs) != fmt.Sprint(as) {
				fail("read-after-truncate", fmt.Sprintf("%s: a full read of %s afterwards does not return the remaining events", st.text(false), c.Parts[i].Tags), fmt.Sprint(a.Read), fmt.Sprint(as), matched, eq, "")
			}
			// whole chunks from the old end
			rm := len(b.Chunks) - len(a.Chunks)
			ok := rm >= 0
			for k2 := 0; ok && k2 < len(a.Chunks); k2++ {
				if a.Chunks[k2].Id != b.Chunks[rm+k2].Id || fmt.Sprint(a.Chunks[k2].Seqs) != fmt.Sprint(b.Chunks[rm+k2].Seqs) {
					ok = false
				}
			}
			if !ok {
				fail("not-whole-chunks", fmt.Sprintf("%s: the chunks of %s afterwards are not its newest chunks from before", st.text(false), c.Parts[i].Tags), a.layout(), b.layout(), matched, eq, "")
				continue
			}
			if rm > 0 || !a.Exists {
				nontrivial = true
				var by uint64
				nd := 0 // chunks holding data: a chunk without a single confirmed byte (a write request without events
				// leaves one) holds nothing that could be removed; it disappears with its empty partition and is not counted
				for k2 := 0; k2 < rm; k2++ {
					by += uint64(b.Chunks[k2].Size)
					if b.Chunks[k2].Size > 0 || len(b.Chunks[k2].Seqs) > 0 {
						nd++
					}
				}
				actual[i] = removal{nd, by, !a.Exists}
			}
			// each removed chunk needs a rule
			size := b.size()
			n1 := rm
			if p, ok := ph[i+1]; ok && eq {
				n1 = p[0]
			}
			for k2 := 0; k2 < rm; k2++ {
				ch := b.Chunks[k2]
				if ch.Size == 0 && len(ch.Seqs) == 0 {
					continue // no event is removed with it (allowed only as part of dropping an empty partition, checked below)
				}
				newest := int64(-1 << 62)
				for _, t := range ch.Tss {
					if t > newest {
						newest = t
					}
				}
				bySize := st.Max != nil && *st.Max > 0 && size > *st.Max
				byTime := st.Before != nil && *st.Before > 0 && newest < *st.Before
				phase2 := st.MaxDB != nil && eq && k2 >= n1
				what := fmt.Sprintf("%s: chunk #%d of %s (size %d, newest ts %d, partition size %d before removing it)", st.text(false), k2, c.Parts[i].Tags, ch.Size, newest, size)
				if !bySize && !byTime {
					switch {
					case phase2:
						failLater("size-clause-global", what+" removed by the MAXDBSIZE pass although the partition is not above MAXSIZE and the chunk is not older than BEFORE", a.layout(), b.layout(), matched, eq, "F32")
					case st.Before != nil && newest == *st.Before && ch.MaxTs == *st.Before && (st.MaxDB == nil || (eq && k2 < n1)):
						failLater("removed-not-older", what+" removed by BEFORE although its newest event is exactly t", a.layout(), b.layout(), matched, eq, "F21")
					default:
						failLater("removed-without-rule", what+" removed; neither above MAXSIZE nor older than BEFORE", a.layout(), b.layout(), matched, eq, "")
					}
				}
				size -= uint64(ch.Size)
				if st.Min != nil && size < *st.Min {
					if phase2 {
						failLater("below-minsize-global", what+fmt.Sprintf(": the MAXDBSIZE pass leaves %d < MINSIZE", size), a.layout(), b.layout(), matched, eq, "F32")
					} else {
						failLater("below-minsize", what+fmt.Sprintf(": the removal leaves %d < MINSIZE", size), a.layout(), b.layout(), matched, eq, "")
					}
				}
			}
			// an empty chunk goes only together with its (then empty) partition
			if a.Exists && rm > 0 && b.Chunks[rm-1].Size == 0 && len(b.Chunks[rm-1].Seqs) == 0 && len(a.Chunks) > 0 {
				res.Dist(sec, "an empty chunk in front of data was removed")
			}
			// dropped entirely only when empty and unused
			if !a.Exists && users[i] > 0 {
				fail("dropped-in-use", fmt.Sprintf("%s dropped partition %s while a reader holds it", st.text(false), c.Parts[i].Tags), a.layout(), b.layout(), matched, eq, "")
			}
		}
		// DRYRUN reported what the real run then removed
		for _, dobs := range dries {
			dryRep, dryEq, dryModel := dobs.rep, dobs.eq, dobs.ma
			idx := map[string]int{}
			for i, p := range c.Parts {
				idx[tagsKey(p.Tags)] = i
			}
			dry := map[int]repLine{}
			for _, l := range dryRep {
				if i, ok := idx[tagsKey(l.Tags)]; ok {
					dry[i] = l
				}
			}
			bothEq := eq && dryEq
			overcount30 := false // class of F30 in the model's dry run: a partition reduced by phase I and then taken by phase II
			for _, o := range dryModel.Outcomes {
				for _, p := range phases(field(o, "P")) {
					if p[0] > 0 && p[1] > 0 {
						overcount30 = true
					}
				}
			}
			for i := range before {
				d, okd := dry[i]
				a, oka := actual[i]
				desc := fmt.Sprintf("%s: partition %s", st.text(true), c.Parts[i].Tags)
				switch {
				case okd && oka && d.Diff == a.bytes && d.Chunks == a.chunks && d.Deleted == a.gone:
				case okd && oka && d.Diff == a.bytes && d.Deleted == a.gone && d.Chunks > a.chunks && overcount30 && st.MaxDB != nil:
					fail("dryrun-chunk-overcount", desc+fmt.Sprintf(": DRYRUN reports %d chunks, the run removes %d (same bytes)", d.Chunks, a.chunks), fmt.Sprint(d), fmt.Sprint(a), strings.Join(dryModel.Outcomes, " ; "), bothEq, "F30")
				case (okd != oka || d.Diff != a.bytes || d.Deleted != a.gone) && (ma.Tie || dryModel.Tie) && st.MaxDB != nil && users[i] == 0:
					fail("dryrun-tie", desc+": DRYRUN and the run pick different partitions among candidates with equal latest timestamps", fmt.Sprint(okd, d), fmt.Sprint(oka, a), strings.Join(dryModel.Outcomes, " ; "), bothEq, "F31")
				case !okd && !oka:
				case !okd && oka && a.gone && st.MaxDB != nil && bothEq && inUseEmptied(actual, users, rep, c):
					// class of the FIXED finding F77 (46009da; a recurrence is reported as "the defect is back"): the pass emptied a partition somebody holds, could not drop it, did not report or
					// subtract it, and went on to the next partition, which the dry run had not announced
					fail("dryrun-in-use-divergence", desc+": the run drops a partition the dry run did not announce, after silently emptying a partition that is in use", fmt.Sprint(okd, d), fmt.Sprint(oka, a), strings.Join(dryModel.Outcomes, " ; "), bothEq, "F77")
				case okd && !oka && users[i] > 0 && d.Deleted:
					// the dry run announces the removal of a partition that is in use; the run then refuses: outside the
					// property's claim (no statement can know future users) — counted, not a failure
					res.Dist(sec, "dry-run announced a drop the run refused (partition in use)")
				case okd && oka && users[i] > 0 && d.Diff == a.bytes && d.Chunks == a.chunks && d.Deleted && !a.gone:
					res.Dist(sec, "dry-run announced a drop the run refused (partition in use)")
				default:
					fail("dryrun-differs", desc+": DRYRUN report differs from what the run removed", fmt.Sprint(okd, d), fmt.Sprint(oka, a), strings.Join(dryModel.Outcomes, " ; "), bothEq, "")
				}
			}
		}
		dries = nil
		for _, f := range deferred {
			res.SpecFail(f)
		}
	}
	key := ""
	if nontrivial {
		b, _ := json.Marshal(c)
		key = string(b)
	}
	res.Eval(sec, key)
	// reader
	if ro := r.ReaderP2; ro != nil {
		okRead := ro.Err == "" && fmt.Sprint(ro.Page2) == fmt.Sprint(ro.Expected)
		res.Dist(sec, fmt.Sprintf("reader cached=%v ranged=%v inside-removed=%v continues=%v", ro.Cached, ro.Ranged, ro.Removed, okRead))
		if !okRead {
			// MODEL (Props.C09.cex_open_handle_after_truncate / reader_continues): a cursor the server holds keeps its chunk
			// handle; after the chunk is closed every Get fails with ClosedState (or, before that, serves removed records)
			finding := ""
			mdl := "continues at the first remaining event"
			eq := false
			if ro.Cached && ro.Removed {
				finding = "F26"
				mdl = "open handle on a removed chunk: ClosedState or stale records"
				stale := ro.Err == "" && len(ro.Page2) > 0 && len(ro.Page2) <= len(ro.Stale) && fmt.Sprint(ro.Page2) == fmt.Sprint(ro.Stale[:len(ro.Page2)])
				eq = strings.Contains(ro.Err, "closed") || stale
				if !eq {
					finding = "" // some other wrong answer (skipped or repeated events): not the open-handle class
				}
			}
			fail("reader-does-not-continue", fmt.Sprintf("page 2 of a read positioned after event %v inside removed data", ro.Page1), fmt.Sprintf("events=%v err=%q", ro.Page2, ro.Err), fmt.Sprintf("events=%v", ro.Expected), mdl, eq, finding)
		}
	}
}

// inUseEmptied: some partition that is held by somebody else lost chunks in this run, still exists, and the run's own
// report has no line for it
type removal struct {
	chunks int
	bytes  uint64
	gone   bool
}

func inUseEmptied(actual map[int]removal, users []int, rep []repLine, c sysCase) bool {
	for i, a := range actual {
		if users[i] > 0 && a.chunks > 0 && !a.gone {
			reported := false
			for _, l := range rep {
				if tagsKey(l.Tags) == tagsKey(c.Parts[i].Tags) {
					reported = true
				}
			}
			if !reported {
				return true
			}
		}
	}
	return false
}

func u64p(v uint64) *uint64 { return &v }
func i64p(v int64) *int64   { return &v }

// genSys builds one case: 1..4 partitions in two groups, 1..6 chunks each, boundary-directed parameters
func genSys(rng *vh.Rng, withReader bool) sysCase {
	c := sysCase{MaxChunk: rng.PickI([]int{60, 90, 120})}
	np := rng.Range(1, 4)
	ts := int64(rng.Range(1, 3)) * 10
	tieTs := int64(0)
	for i := 0; i < np; i++ {
		g := "t"
		if i == 3 || (np >= 2 && i == np-1 && rng.Chance(1, 3)) {
			g = "u"
		}
		p := partSpec{Tags: fmt.Sprintf("g=%s,p=%d", g, i+1)}
		if !rng.Chance(1, 3) {
			ts = int64(rng.Range(1, 3)) * 10 // partitions overlap in time
		}
		nb := rng.Range(1, 4)
		for b := 0; b < nb; b++ {
			n := rng.Range(1, 7)
			var evs []evSpec
			for k := 0; k < n; k++ {
				if rng.Chance(1, 2) {
					ts += int64(rng.Range(0, 3))
				}
				if rng.Chance(1, 25) {
					ts -= 2 // a late event: the chunk's hull is wider than its last event
					if ts < 1 {
						ts = 1
					}
				}
				evs = append(evs, evSpec{Ts: ts, Pad: rng.PickI([]int{0, 0, 0, 3, 9, 17})})
			}
			// one later batch in four straddles what the partition holds so far: it carries an event older than everything
			// and, not at its end, an event newer than everything (out-of-order ingestion). When it is the last batch landing
			// in a chunk the chunk's hull must have grown on BOTH sides (tmindex chkInfo.update).
			if b > 0 && n >= 3 && rng.Chance(1, 4) {
				lo, hi := evs[0].Ts, evs[0].Ts
				for _, pb := range p.Batches {
					for _, e := range pb {
						if e.Ts < lo {
							lo = e.Ts
						}
						if e.Ts > hi {
							hi = e.Ts
						}
					}
				}
				if lo > 2 {
					evs[0].Ts = lo - int64(rng.Range(1, 2))
					evs[rng.Range(1, n-2)].Ts = hi + int64(rng.Range(2, 9))
				}
			}
			// one batch in five is peaked: its youngest event is followed by older ones (merged / forwarded logs), so the
			// chunk's true maximum is not at its end and BEFORE must go by the maximum, not by the last event
			if n >= 3 && rng.Chance(1, 5) {
				evs[rng.Range(0, n-2)].Ts += int64(rng.Range(2, 9))
			}
			p.Batches = append(p.Batches, evs)
		}
		// a partition created by a write request that carried no events: it exists and holds no data
		if i >= 1 && !withReader && rng.Chance(1, 6) {
			p.Batches = [][]evSpec{{}}
			c.Parts = append(c.Parts, p)
			continue
		}
		// aim at finding F31: make the newest timestamps of two partitions equal
		if tieTs != 0 && rng.Chance(1, 2) {
			last := p.Batches[len(p.Batches)-1]
			if last[len(last)-1].Ts <= tieTs {
				last[len(last)-1].Ts = tieTs
			}
		}
		lb := p.Batches[len(p.Batches)-1]
		tieTs = lb[len(lb)-1].Ts
		c.Parts = append(c.Parts, p)
	}
	ns := 1
	if rng.Chance(1, 3) {
		ns = 2
	}
	for s := 0; s < ns; s++ {
		c.Stmts = append(c.Stmts, stmtSpec{}) // parameters are aimed at the observed layout by aimStmt
	}
	if withReader {
		c.Reader = &readerSpec{Part: 0, Limit: rng.Range(1, 6), Cached: rng.Chance(1, 3), Ranged: rng.Bool()}
	}
	return c
}

// tagMatches evaluates the few source forms the generator uses, by construction of the tags
func selOf(c sysCase, form int, k int) (string, []int) {
	all := []int{}
	for i := range c.Parts {
		all = append(all, i)
	}
	switch form {
	case 0:
		return "", all
	case 1:
		return "{" + c.Parts[k].Tags + "}", []int{k}
	case 2:
		var s []int
		for i, p := range c.Parts {
			if strings.HasPrefix(p.Tags, "g=t,") {
				s = append(s, i)
			}
		}
		return "g=t", s
	case 3:
		return fmt.Sprintf("p=%d OR p=%d", k+1, (k+1)%len(c.Parts)+1), uniq([]int{k, (k + 1) % len(c.Parts)})
	default:
		return "g=nosuch", nil
	}
}

func uniq(x []int) []int {
	sort.Ints(x)
	var r []int
	for i, v := range x {
		if i == 0 || v != x[i-1] {
			r = append(r, v)
		}
	}
	return r
}

// aimStmt chooses the statement's parameters from boundary values of the layout that will exist: chunk-size prefix
// sums ±1 for MINSIZE/MAXSIZE/MAXDBSIZE, newest timestamps of chunks (equal, ±1) for BEFORE.
func aimStmt(rng *vh.Rng, c sysCase, lay []partObs) stmtSpec {
	var st stmtSpec
	form := rng.PickI([]int{0, 0, 1, 2, 2, 3, 4})
	if form == 4 && !rng.Chance(1, 4) {
		form = 2
	}
	st.Source, st.Sel = selOf(c, form, rng.Intn(len(c.Parts)))
	var sizes, tss []int64
	total := int64(0)
	for _, p := range lay {
		acc := int64(0)
		ps := int64(p.size())
		total += ps
		sizes = append(sizes, ps)
		for _, ch := range p.Chunks {
			acc += ch.Size
			sizes = append(sizes, acc, ps-acc, ch.Size)
			if len(ch.Tss) > 0 {
				mx := ch.Tss[0]
				for _, t := range ch.Tss {
					if t > mx {
						mx = t
					}
				}
				second := int64(-1 << 62) // second-newest distinct timestamp of the chunk
				for _, t := range ch.Tss {
					if t < mx && t > second {
						second = t
					}
				}
				tss = append(tss, ch.Tss[len(ch.Tss)-1], ch.MaxTs, ch.Tss[0], mx, mx)
				if second > 0 {
					// a bound in (second-newest, newest]: only the chunk's single newest event decides
					tss = append(tss, second+1, second+1, (second+mx+1)/2)
				}
			}
		}
	}
	sizes = append(sizes, total, 0, 1)
	pickSize := func() uint64 {
		v := sizes[rng.Intn(len(sizes))] + int64(rng.PickI([]int{-1, 0, 0, 0, 1}))
		if v < 0 {
			v = 0
		}
		return uint64(v)
	}
	if rng.Chance(3, 5) {
		st.Max = u64p(pickSize())
	}
	if rng.Chance(2, 5) {
		st.Min = u64p(pickSize())
		if st.Max != nil && *st.Min >= *st.Max && rng.Chance(3, 4) {
			st.Min = u64p(*st.Max / uint64(rng.Range(2, 4)))
		}
	}
	if rng.Chance(1, 2) && len(tss) > 0 {
		st.Before = i64p(tss[rng.Intn(len(tss))] + int64(rng.PickI([]int{-1, 0, 0, 0, 1})))
	}
	if st.Before != nil && len(st.Sel) > 0 && rng.Chance(1, 4) {
		// a partition that is already smaller than MINSIZE must not lose anything to BEFORE either
		st.Min = u64p(lay[st.Sel[rng.Intn(len(st.Sel))]].size() + uint64(rng.Range(1, 60)))
		if rng.Bool() {
			st.Max = nil
		}
	}
	if rng.Chance(1, 3) {
		st.MaxDB = u64p(pickSize())
		if rng.Chance(1, 3) {
			st.MaxDB = u64p(uint64(total) / uint64(rng.Range(1, 3)))
		}
	}
	return st
}

// aimCase aims the statements (and the reader) of a generated case at the layout that was built
func aimCase(rng *vh.Rng, c *sysCase, lay []partObs) string {
	for _, p := range lay {
		if p.size() >= 1000 {
			return "a partition of 1000 bytes or more: the report would not print its sizes exactly"
		}
	}
	for i := range c.Stmts {
		c.Stmts[i] = aimStmt(rng, *c, lay)
	}
	if c.Reader != nil {
		// stand inside one of the first chunks and make the statement remove it
		p := lay[c.Reader.Part]
		if len(p.Chunks) < 2 {
			c.Reader = nil
			return ""
		}
		n := len(p.seqs())
		if c.Reader.Limit >= n {
			c.Reader.Limit = 1
		}
		c.Stmts = c.Stmts[:1]
		st := &c.Stmts[0]
		st.Source, st.Sel = selOf(*c, 1, c.Reader.Part)
		st.Min, st.MaxDB, st.Before = nil, nil, nil
		keep := rng.Range(1, len(p.Chunks)-1) // newest chunks that stay
		var ks int64
		for _, ch := range p.Chunks[len(p.Chunks)-keep:] {
			ks += ch.Size
		}
		st.Max = u64p(uint64(ks))
		if rng.Bool() {
			st.Min = u64p(uint64(ks))
			st.Max = u64p(uint64(ks) + 1)
		}
		// one case in five removes everything under the reader: a partition somebody holds must stay (empty), not be dropped
		switch rng.Intn(10) {
		case 0:
			last := p.Chunks[len(p.Chunks)-1]
			st.Min, st.Max, st.Before = nil, nil, i64p(last.MaxTs+1)
		case 1:
			st.Min, st.Max, st.MaxDB = nil, nil, u64p(0)
		}
	}
	return ""
}

// runCases executes system cases in worker subprocesses of this binary (batches of 50): the journal library keeps the
// descriptors of every chunk file open until the process ends, so one process cannot host thousands of small servers.
func runCases(cases []sysCase) []sysResult {
	var all []sysResult
	const batch = 50
	for from := 0; from < len(cases); from += batch {
		to := from + batch
		if to > len(cases) {
			to = len(cases)
		}
		in, _ := os.CreateTemp("", "c09cases")
		json.NewEncoder(in).Encode(cases[from:to])
		in.Close()
		outf := in.Name() + ".out"
		cmd := exec.Command(os.Args[0], "-worker", in.Name(), "-worker-out", outf)
		cmd.Stderr = os.Stderr
		err := cmd.Run()
		var rs []sysResult
		if err == nil {
			err = vh.ReadJSON(outf, &rs)
		}
		os.Remove(in.Name())
		os.Remove(outf)
		if err != nil || len(rs) != to-from {
			if to-from == 1 {
				// this very case killed its worker (a panic in a goroutine of the server under test, a deadlock …)
				rs = []sysResult{{Case: cases[from], Err: fmt.Sprintf("the worker subprocess running this case died: %v", err), Crash: true}}
			} else {
				// isolate the case: run the batch again one case per subprocess
				rs = nil
				for k := from; k < to; k++ {
					rs = append(rs, runCases(cases[k:k+1])...)
				}
			}
		}
		all = append(all, rs...)
	}
	return all
}

func workerMain(inPath, outPath string) {
	var cases []sysCase
	if err := vh.ReadJSON(inPath, &cases); err != nil {
		fmt.Fprintln(os.Stderr, "worker:", err)
		os.Exit(3)
	}
	outs := make([]sysResult, len(cases))
	var wg sync.WaitGroup
	sem := make(chan struct{}, 12)
	for i := range cases {
		wg.Add(1)
		sem <- struct{}{}
		go func(i int) {
			defer wg.Done()
			defer func() { <-sem }()
			if !vh.WithTimeout(120*time.Second, func() {
				if pn := vh.Recover(func() { outs[i] = runSys(cases[i]) }); pn != "" {
					outs[i] = sysResult{Case: cases[i], Err: "panic in the harness goroutine: " + pn, Crash: true}
				}
			}) {
				outs[i] = sysResult{Case: cases[i], Err: "case did not finish within 120 s", Crash: true}
			}
		}(i)
	}
	wg.Wait()
	b, _ := json.Marshal(outs)
	os.WriteFile(outPath, b, 0644)
}

func runSysSection(name, kind, rule string, cases []sysCase) {
	sec := res.Section(name, kind, rule)
	outs := runCases(cases)
	var lines []string
	for _, o := range outs {
		lines = append(lines, o.Lines...)
	}
	ans, err := vh.Batch(args.Driver, lines)
	if err != nil {
		res.Fatal(args.Out, "driver: %v", err)
	}
	k := 0
	for _, o := range outs {
		if o.Skip != "" {
			res.Dist(sec, "skipped: "+o.Skip)
			continue
		}
		judgeSys(name, sec, o.Case, o, ans[k:k+len(o.Lines)])
		k += len(o.Lines)
		for _, st := range o.Case.Stmts {
			res.Dist(sec, fmt.Sprintf("src=%v max=%v min=%v before=%v maxdb=%v", st.Source != "", st.Max != nil, st.Min != nil, st.Before != nil, st.MaxDB != nil))
		}
	}
	res.Done(sec)
}

func genCases(rng *vh.Rng, n int, withReader bool) []sysCase {
	cases := make([]sysCase, n)
	for i := 0; i < n; i++ {
		r := rng.Fork(fmt.Sprint("case", i))
		cases[i] = genSys(r, withReader)
		cases[i].AimSeed = int64(r.U64()>>1) | 1
	}
	return cases
}

// ---------------------------------------------------------------------------------------------
// writer: appends while TRUNCATE runs

func sectionWriter(rng *vh.Rng) {
	sec := res.Section("writer", "spec-search",
		"one partition of 3..6 chunks; a goroutine appends batches while TRUNCATE statements (MAXSIZE/MINSIZE/BEFORE/MAXDBSIZE) run; afterwards the content must be (what was there ++ what was appended) minus whole oldest chunks: no appended event lost, order kept. non-trivial = at least one chunk removed while the writer was active")
	n := 40
	if args.Thorough {
		n = 300
	}
	var wg sync.WaitGroup
	sem := make(chan struct{}, 8)
	for i := 0; i < n; i++ {
		r := rng.Fork(fmt.Sprint("w", i))
		wg.Add(1)
		sem <- struct{}{}
		go func(i int, r *vh.Rng) {
			defer wg.Done()
			defer func() { <-sem }()
			writerCase(sec, r)
		}(i, r)
	}
	wg.Wait()
	res.Done(sec)
}

func writerCase(sec *vh.Section, rng *vh.Rng) {
	dir := lrsrv.NewDir()
	defer os.RemoveAll(dir)
	srv, err := lrsrv.Start(dir, lrsrv.Opts{MaxChunkSize: 100})
	if err != nil {
		res.Note("writer: %v", err)
		return
	}
	defer srv.Stop()
	tags := "g=w,p=1"
	seq := 1
	unacked := map[int]bool{}
	write := func(n int) error {
		var evs []*api.LogEvent
		for k := 0; k < n; k++ {
			evs = append(evs, &api.LogEvent{Timestamp: int64(seq), Message: fmt.Sprintf("%04d_", seq)})
			seq++
		}
		var wr api.WriteResult
		err := srv.Client.Write(context.Background(), tags, "", evs, &wr)
		if err == nil {
			err = wr.Err
		}
		if err != nil {
			// not acknowledged: these events may or may not exist afterwards; the oracle ignores them
			for _, e := range evs {
				unacked[seqOf(e.Message)] = true
			}
		}
		return err
	}
	for b := 0; b < rng.Range(3, 6); b++ {
		write(rng.Range(3, 8))
	}
	srv.FlushWait()
	before := observe(srv, tags)
	stop := make(chan struct{})
	done := make(chan struct{})
	go func() {
		defer close(done)
		for {
			select {
			case <-stop:
				return
			default:
			}
			write(rng.Range(1, 4))
			time.Sleep(time.Duration(rng.Range(0, 2)) * time.Millisecond)
		}
	}()
	var stmts []string
	for s := 0; s < rng.Range(1, 3); s++ {
		q := "truncate {" + tags + "}"
		switch rng.Intn(4) {
		case 0:
			q += fmt.Sprintf(" maxsize %d", rng.Range(50, 400))
		case 1:
			q += fmt.Sprintf(" minsize %d maxsize %d", rng.Range(20, 150), rng.Range(151, 400))
		case 2:
			q += fmt.Sprintf(" before \"%d\"", rng.Range(2, 30))
		case 3:
			q += fmt.Sprintf(" maxdbsize %d", rng.Range(50, 300))
		}
		stmts = append(stmts, q)
		srv.Exec(q)
		time.Sleep(time.Duration(rng.Range(1, 5)) * time.Millisecond)
	}
	close(stop)
	<-done
	srv.FlushWait()
	settle(srv, tags, -1)
	// the last batch may still be on its way to "confirmed" (the flush timer is late on a loaded machine), and the
	// asynchronous chunk removal may not have finished: wait until the stored content and a full read agree
	var after partObs
	for try := 0; try < 100; try++ {
		after = observe(srv, tags)
		rs, rerr := readSeqs(after.Read)
		if rerr == "" && fmt.Sprint(rs) == fmt.Sprint(after.seqs()) {
			break
		}
		time.Sleep(30 * time.Millisecond)
		settle(srv, tags, -1)
	}
	written := make([]int, 0, seq)
	for s := 1; s < seq; s++ {
		if !unacked[s] {
			written = append(written, s)
		}
	}
	var as []int
	for _, s := range after.seqs() {
		if !unacked[s] {
			as = append(as, s)
		}
	}
	if len(unacked) > 0 {
		res.Dist(sec, "cases with write requests that were refused while TRUNCATE ran")
	}
	removed := len(written) - len(as)
	key := ""
	if removed > 0 {
		key = fmt.Sprint(stmts, before.layout())
	}
	res.Eval(sec, key)
	in := map[string]interface{}{"stmts": stmts, "before": before.layout(), "written": seq - 1}
	if !isSuffix(as, written) {
		res.SpecFail(vh.SpecFailure{Section: "writer", Kind: "not-a-suffix", Input: in, Impl: fmt.Sprint(as), Spec: "a suffix of 1.." + strconv.Itoa(seq-1),
			What: "with a concurrent writer the partition's content after TRUNCATE is not (old content ++ appended events) minus an old prefix"})
		return
	}
	rs0, rerr := readSeqs(after.Read)
	var rs []int
	for _, s := range rs0 {
		if !unacked[s] {
			rs = append(rs, s)
		}
	}
	if rerr != "" || fmt.Sprint(rs) != fmt.Sprint(as) {
		res.SpecFail(vh.SpecFailure{Section: "writer", Kind: "read-after-truncate", Input: in, Impl: fmt.Sprint(after.Read), Spec: fmt.Sprint(as),
			What: "a full read after TRUNCATE with a concurrent writer does not return the remaining events"})
	}
	// the removed prefix must end at a chunk boundary of the layout before, or lie inside chunks created by the writer
	oldN := len(before.seqs())
	if removed > 0 && removed < oldN {
		acc, okb := 0, false
		for _, ch := range before.Chunks[:len(before.Chunks)-1] { // the last chunk may have grown
			acc += len(ch.Seqs)
			if acc == removed {
				okb = true
			}
		}
		if !okb && removed < oldN-len(before.Chunks[len(before.Chunks)-1].Seqs) {
			res.SpecFail(vh.SpecFailure{Section: "writer", Kind: "not-whole-chunks", Input: in, Impl: fmt.Sprint(removed), Spec: before.layout(),
				What: "the removed events do not end at a chunk boundary"})
		}
	}
}

// ---------------------------------------------------------------------------------------------
// corpus / replay

type corpusEntry struct {
	Section string          `json:"section"`
	Input   json.RawMessage `json:"input"`
	file    string
}

func loadCorpus() []corpusEntry {
	var r []corpusEntry
	for _, f := range vh.CorpusFiles(args.Corpus) {
		var e corpusEntry
		if vh.ReadJSON(f, &e) == nil && e.Section != "" {
			e.file = f
			r = append(r, e)
		}
	}
	return r
}

func sysCasesOf(corpus []corpusEntry, section string) []sysCase {
	var r []sysCase
	for _, e := range corpus {
		if e.Section == section {
			var c sysCase
			if json.Unmarshal(e.Input, &c) == nil && len(c.Parts) > 0 {
				r = append(r, c)
			}
		}
	}
	return r
}

const sysRule = "1..4 partitions (two tag groups) of 1..6 chunks built with MaxChunkSize 60/90/120, events identified by sequence numbers; 1..2 TRUNCATE statements per case through the RPC Execute API, each as DRYRUN and then for real; parameters aimed at the layout (chunk-size prefix sums ±1 for MINSIZE/MAXSIZE/MAXDBSIZE, newest/oldest chunk timestamps ±1 and equal for BEFORE), sources: none, exact tags, tag group, OR of two, no match. IMPL report+layout must equal the Lean model's outcome for some visiting order; SPEC clauses on observed contents: suffix, whole oldest chunks, every removed chunk justified by MAXSIZE/BEFORE, size-driven removal never below MINSIZE, unselected partitions byte-equal, drop only when empty and unused, DRYRUN changes nothing and announces what the run removes. non-trivial = the real run removed something, distinct by case"

func replay(path string) {
	var e corpusEntry
	if err := vh.ReadJSON(path, &e); err != nil {
		res.Fatal(args.Out, "replay: %v", err)
	}
	switch e.Section {
	case "chooser":
		sectionChooserOnly([]corpusEntry{e})
	case "system", "reader", "corpus":
		cs := sysCasesOf([]corpusEntry{{Section: "x", Input: e.Input}}, "x")
		runSysSection(e.Section, "replay", "replay of one recorded case", cs)
		for _, s := range res.SpecFailures {
			fmt.Printf("SPEC-FAIL %s finding=%q impl_eq_model=%v: %s\n", s.Kind, s.Finding, s.ImplEqModel, s.What)
		}
		for _, m := range res.Mismatches {
			fmt.Printf("MISMATCH %s\n  impl : %s\n  model: %s\n", m.Function, m.Impl, m.Model)
		}
	case "sizerace":
		sectionSizeRace()
	case "droprace":
		sectionDropRace()
	case "beforerace":
		sectionBeforeRace()
	case "trunc2race":
		sectionTrunc2Race()
	case "restartleft":
		sectionRestartLeft()
	case "unflushed":
		sectionUnflushed()
	case "lightfill":
		sectionLightFill()
	case "bucket":
		sectionBucket()
	case "heldwide":
		sectionHeldWide()
	case "hull":
		sectionHull()
	default:
		res.Note("replay: section %q has no single-input replay; re-run the check with the recorded seed", e.Section)
	}
	res.Write(args.Out)
}

func sectionChooserOnly(es []corpusEntry) {
	sec := res.Section("chooser", "replay", "replay of recorded chooser inputs")
	for _, e := range es {
		var c chooserCase
		if json.Unmarshal(e.Input, &c) != nil {
			continue
		}
		outs, err := vh.Batch(args.Driver, []string{c.line()})
		if err != nil {
			res.Fatal(args.Out, "driver: %v", err)
		}
		n, removed, deleted, impl := implChooser(c)
		mdl := modelChooserAnswer(outs[0])
		res.Eval(sec, c.line())
		fmt.Printf("%s\n  impl : %s\n  model: %s\n", c.line(), impl, mdl)
		if impl != mdl {
			res.Mismatch(vh.Mismatch{Section: "chooser", Function: "partition.Service.truncate", Input: c, Impl: impl, Model: mdl})
		}
		if kind, what := specChooser(c, n, removed, deleted); kind != "" {
			f := vh.SpecFailure{Section: "chooser", Kind: kind, Input: c, Impl: impl, Model: mdl, ImplEqModel: impl == mdl, What: what}
			if kind == "removed-not-older" {
				f.Finding = "F21"
			}
			res.SpecFail(f)
			fmt.Println("  SPEC-FAIL", kind, what)
		}
	}
	res.Done(sec)
}

// ---------------------------------------------------------------------------------------------
// hull: the chunk's time hull as the time index maintains it (tmindex chkInfo creation + update)

func sectionHull() {
	sec := res.Section("hull", "unit-correspondence",
		"the [MinTs,MaxTs] hull a chunk gets from a sequence of 1..4 write notifications, each a [min,max] pair with 1 <= min <= max <= 5 (exhaustive: 15 + 15^2 + 15^3 + 15^4 sequences): real chkInfo creation + chkInfo.update (pkg/tmindex/export_c09_verif.go) vs the Lean hull model vs SPEC (the hull covers every notification: BEFORE compares its MaxTs). non-trivial = a later notification extends the hull, distinct by sequence")
	sec.Exhaustive = true
	defer res.Done(sec)
	var pairs [][2]int64
	for a := int64(1); a <= 5; a++ {
		for b := a; b <= 5; b++ {
			pairs = append(pairs, [2]int64{a, b})
		}
	}
	var seqs [][][2]int64
	var gen func(cur [][2]int64, k int)
	gen = func(cur [][2]int64, k int) {
		if len(cur) > 0 {
			seqs = append(seqs, append([][2]int64{}, cur...))
		}
		if len(cur) == k {
			return
		}
		for _, p := range pairs {
			gen(append(cur, p), k)
		}
	}
	gen(nil, 4)
	lines := make([]string, len(seqs))
	for i, sq := range seqs {
		var sb strings.Builder
		fmt.Fprintf(&sb, "hull %d", len(sq))
		for _, p := range sq {
			fmt.Fprintf(&sb, " %d %d", p[0], p[1])
		}
		lines[i] = sb.String()
	}
	outs, err := vh.Batch(args.Driver, lines)
	if err != nil {
		res.Fatal(args.Out, "driver: %v", err)
	}
	for i, sq := range seqs {
		var mn, mx int64
		impl := ""
		if pn := vh.Recover(func() { mn, mx, _ = tmindex.VerifChunkHull(sq) }); pn != "" {
			impl = "panic: " + pn
		} else {
			impl = fmt.Sprintf("%d %d", mn, mx)
		}
		key := ""
		if mn != sq[0][0] || mx != sq[0][1] {
			key = lines[i]
		}
		res.Eval(sec, key)
		if impl != outs[i] {
			res.Mismatch(vh.Mismatch{Section: "hull", Function: "tmindex.chkInfo.update", Input: map[string]interface{}{"notifications": sq}, Impl: impl, Model: outs[i]})
		}
		for _, p := range sq {
			if p[0] < mn || p[1] > mx {
				res.SpecFail(vh.SpecFailure{Section: "hull", Kind: "hull-not-covering", Input: map[string]interface{}{"notifications": sq}, Impl: impl,
					Spec: "covers every notification", Model: outs[i], ImplEqModel: impl == outs[i],
					What: fmt.Sprintf("after the write notifications %v the chunk's hull is [%d,%d]: it does not cover [%d,%d], so BEFORE t with t in (%d,%d] would remove a chunk holding an event not older than t", sq, mn, mx, p[0], p[1], mx, p[1])})
				break
			}
		}
	}
}

// ---------------------------------------------------------------------------------------------
// droprace: a write into a NEW chunk between truncate's snapshot and deleteJournal's exclusive lock

func sectionDropRace() {
	if !verifhook.Enabled {
		return
	}
	sec := res.Section("droprace", "spec-search",
		"deterministic replay of one interleaving per statement form (BEFORE newer than everything / MAXSIZE 1 / MAXDBSIZE 0): the partition holds exactly one FULL chunk, so TRUNCATE removes every chunk it sees and goes on to drop the partition; the truncating goroutine is parked right after its snapshot (hook partition.truncate.sized), a second client writes one event - it lands in a NEW chunk -, waits for the flush and has released the partition; then the truncation continues. Afterwards the partition must exist and a full read must return exactly that event: a partition is dropped only when it holds no data (deleteJournal re-checks the size under the exclusive lock)")
	defer res.Done(sec)
	for _, form := range []string{"before", "maxsize", "maxdbsize"} {
		dropRaceCase(sec, form)
	}
}

// holdersOutcome asks the model driver for the outcome of a trace of the product system (Model/TruncateHolders.lean: tag index
// protocol x acknowledged bytes x deleteJournal statement by statement, with the regenerated shape facts) and reduces it to
// "dropped" / "kept:<confirmed bytes of source 0>"
func holdersOutcome(trace string) (string, string) {
	outs, err := vh.Batch(args.Driver, []string{"holders " + trace})
	if err != nil || len(outs) != 1 {
		return "driver-error", fmt.Sprint(err)
	}
	raw := strings.TrimSpace(outs[0])
	drops, live := "", ""
	for _, f := range strings.Fields(raw) {
		if strings.HasPrefix(f, "drops=") {
			drops = strings.TrimPrefix(f, "drops=")
		}
		if strings.HasPrefix(f, "live=") {
			live = strings.TrimPrefix(f, "live=")
		}
	}
	if drops != "-" && drops != "" {
		return "dropped", raw
	}
	for _, l := range strings.Split(live, ",") {
		f := strings.Split(l, ":")
		if len(f) == 4 && f[0] == "0" {
			return "kept:" + f[1], raw
		}
	}
	return "absent", raw
}

func dropRaceCase(sec *vh.Section, form string) {
	const maxChunk = 100
	dir := lrsrv.NewDir()
	defer os.RemoveAll(dir)
	srv, err := lrsrv.Start(dir, lrsrv.Opts{MaxChunkSize: maxChunk})
	if err != nil {
		res.Note("droprace: %v", err)
		return
	}
	defer srv.Stop()
	tags := "g=d,p=1"
	write := func(seq int) {
		var wr api.WriteResult
		srv.Client.Write(context.Background(), tags, "", []*api.LogEvent{{Timestamp: int64(seq), Message: fmt.Sprintf("%04d_", seq)}}, &wr)
	}
	// fill exactly one chunk: event by event until its confirmed size reaches MaxChunkSize
	n := 0
	for n < 40 {
		n++
		write(n)
		srv.FlushWait()
		settle(srv, tags, n)
		o := observe(srv, tags)
		if len(o.Chunks) != 1 {
			res.Note("droprace: layout is not one chunk: %s", o.layout())
			return
		}
		if o.Chunks[0].Size >= maxChunk {
			break
		}
	}
	before := observe(srv, tags)
	parked := make(chan struct{})
	release := make(chan struct{})
	// MAXDBSIZE: the pass that drops the partition is phase II, whose inner truncate is the SECOND call for this
	// partition (phase I's call chooses nothing here); parking at the first one would put the write before the
	// snapshot that counts, and the pass takes whatever the partition holds then (finding F32's territory)
	parkAt := int32(1)
	if form == "maxdbsize" {
		parkAt = 2
	}
	var calls int32
	verifhook.Set("partition.truncate.sized", func() {
		if atomic.AddInt32(&calls, 1) == parkAt {
			close(parked)
			<-release
		}
	})
	defer verifhook.Set("partition.truncate.sized", nil)
	q := "truncate {" + tags + "}"
	switch form {
	case "before":
		q += fmt.Sprintf(" before \"%d\"", n+50)
	case "maxsize":
		q += " maxsize 1"
	case "maxdbsize":
		q += " maxdbsize 0"
	}
	var out string
	var xerr error
	fin := make(chan struct{})
	go func() {
		defer close(fin)
		r, err := srv.Admin.Execute(api.ExecRequest{Query: q})
		out, xerr = r.Output, err
	}()
	late := n + 400
	select {
	case <-parked:
	case <-time.After(3 * time.Second):
		res.Note("droprace(%s): the hook partition.truncate.sized was not reached", form)
		close(release)
		<-fin
		return
	}
	if !vh.WithTimeout(5*time.Second, func() { write(late); srv.FlushWait(); settle(srv, tags, n+1) }) {
		res.Note("droprace(%s): the concurrent write did not complete while the truncation was parked", form)
	}
	mid := observe(srv, tags)
	close(release)
	<-fin
	time.Sleep(15 * time.Millisecond)
	after := observe(srv, tags)
	res.Eval(sec, q)
	res.Dist(sec, fmt.Sprintf("form=%s new-chunk=%v", form, len(mid.Chunks) == 2))
	in := map[string]interface{}{"stmt": q, "before": before.layout(), "at_hook": fmt.Sprintf("one event (%d) written, flushed and released; layout then: %s", late, mid.layout()),
		"interleaving": "truncate snapshot | write into a new chunk, flush, release | DeleteChunks, deleteJournal"}
	if len(mid.Chunks) != 2 {
		res.Note("droprace(%s): the racing write did not open a new chunk (%s): interleaving not exercised", form, mid.layout())
		return
	}
	// IMPL vs MODEL among holders: writer 1 fills the chunk and lets go, TRUNCATE (actor 2) holds the partition, writer 3 writes
	// and lets go at the hook, TRUNCATE removes what its snapshot held, then deleteJournal statement by statement
	{
		s0, w := before.size(), mid.Chunks[1].Size
		trace := fmt.Sprintf("goc,1,7,1 w,1,0,%d fl,0 rel,1,0 gt,2,0,1 goc,3,7,0 w,3,0,%d fl,0 rel,3,0 rm,2,0,%d,0 djl,2,0 djc,2 djd,2 dju,2 rel,2,0", s0, w, s0)
		mo, raw := holdersOutcome(trace)
		io := "dropped"
		if after.Exists {
			io = fmt.Sprintf("kept:%d", after.size())
		}
		if mo != io {
			res.Mismatch(vh.Mismatch{Section: "droprace", Function: "deleteJournal among holders (Model/TruncateHolders.lean) for " + q, Input: in, Impl: io, Model: mo + " <- " + raw})
		}
	}
	rs, rerr := readSeqs(after.Read)
	if xerr != nil || !after.Exists || rerr != "" || fmt.Sprint(rs) != fmt.Sprint([]int{late}) {
		// MODEL (Props.C09.drop_only_without_data_at_lock / cex_drop_without_recheck): with the size re-check under the
		// exclusive lock the drop is refused; the driver answers what deleteJournal does with and without it
		outs, _ := vh.Batch(args.Driver, []string{fmt.Sprintf("dropat 0 1 %d %d %d", mid.Chunks[1].Id%1000000, mid.Chunks[1].Size, late)})
		res.SpecFail(vh.SpecFailure{Section: "droprace", Kind: "dropped-with-data", Input: in,
			Impl: fmt.Sprintf("exists=%v read=%v report=%q err=%v", after.Exists, after.Read, strings.TrimSpace(out), xerr), Spec: fmt.Sprintf("partition exists, read = [%d]", late),
			Model: strings.Join(outs, ""), ImplEqModel: false,
			What: "a partition that received (and acknowledged) an event between truncate's snapshot and deleteJournal's exclusive lock was dropped with that event in it"})
	}
}

// ---------------------------------------------------------------------------------------------
// beforerace: an append to the LAST chunk between truncate's time loop and DeleteChunks (needs the hook point
// partition.truncate.chosen right before the DeleteChunks call; without it the section records that and does nothing)

func sectionBeforeRace() {
	if !verifhook.Enabled {
		return
	}
	sec := res.Section("beforerace", "spec-search",
		"deterministic replay of one interleaving (only when /repo has the hook point partition.truncate.chosen before the DeleteChunks call of truncate): one partition, one chunk that is NOT full, TRUNCATE BEFORE t with t newer than everything; parked after the loops chose the chunk, a second client appends one event with a timestamp >= t to that chunk (acknowledged, flushed, released); then DeleteChunks runs. The property's BEFORE clause wants the chunk kept, or at least that event")
	defer res.Done(sec)
	dir := lrsrv.NewDir()
	defer os.RemoveAll(dir)
	srv, err := lrsrv.Start(dir, lrsrv.Opts{MaxChunkSize: 4000})
	if err != nil {
		res.Note("beforerace: %v", err)
		return
	}
	defer srv.Stop()
	tags := "g=b,p=1"
	write := func(seq int) {
		var wr api.WriteResult
		srv.Client.Write(context.Background(), tags, "", []*api.LogEvent{{Timestamp: int64(seq), Message: fmt.Sprintf("%04d_", seq)}}, &wr)
	}
	for i := 1; i <= 3; i++ {
		write(i)
	}
	srv.FlushWait()
	settle(srv, tags, 3)
	before := observe(srv, tags)
	parked := make(chan struct{})
	release := make(chan struct{})
	var once sync.Once
	verifhook.Set("partition.truncate.chosen", func() {
		once.Do(func() {
			close(parked)
			<-release
		})
	})
	defer verifhook.Set("partition.truncate.chosen", nil)
	q := "truncate {" + tags + "} before \"50\""
	var out string
	var xerr error
	fin := make(chan struct{})
	go func() {
		defer close(fin)
		r, err := srv.Admin.Execute(api.ExecRequest{Query: q})
		out, xerr = r.Output, err
	}()
	select {
	case <-parked:
	case <-fin:
		res.Dist(sec, "hook point partition.truncate.chosen absent: interleaving not exercised")
		return
	case <-time.After(10 * time.Second):
		res.Note("beforerace: neither the hook nor the end of the statement within 10 s")
		close(release)
		return
	}
	if !vh.WithTimeout(10*time.Second, func() { write(400); srv.FlushWait(); settle(srv, tags, 4) }) {
		res.Note("beforerace: the concurrent write did not complete while the truncation was parked")
	}
	mid := observe(srv, tags)
	close(release)
	<-fin
	time.Sleep(15 * time.Millisecond)
	after := observe(srv, tags)
	res.Eval(sec, q)
	in := map[string]interface{}{"stmt": q, "before": before.layout(), "at_hook": "event 400 (timestamp 400 >= 50) appended to the chosen chunk, flushed, released: " + mid.layout(),
		"interleaving": "truncate: snapshot, loops choose the only chunk | append to that chunk | DeleteChunks, deleteJournal"}
	kept := false
	for _, m := range after.Read {
		if seqOf(m) == 400 {
			kept = true
		}
	}
	if !kept {
		// MODEL (Props.C09.cex_before_race): truncateAt on a snapshot whose last chunk has grown removes the grown chunk
		res.SpecFail(vh.SpecFailure{Section: "beforerace", Kind: "before-race-lost-newer-event", Input: in,
			Impl: fmt.Sprintf("exists=%v read=%v report=%q err=%v", after.Exists, after.Read, strings.TrimSpace(out), xerr), Spec: "event 400 (not older than BEFORE 50) is still readable",
			Model: "truncateAt removes the grown chunk (cex_before_race)", ImplEqModel: len(after.Read) == 0, Finding: "F-C09-R1",
			What: "an event NOT older than t, appended (and acknowledged) to the partition's last chunk after truncate's time loop chose that chunk and before DeleteChunks, is removed with the chunk by TRUNCATE BEFORE t"})
	}
}

// ---------------------------------------------------------------------------------------------
// trunc2race: two TRUNCATE statements overlap on one partition (hook partition.truncate.chosen)

func datFiles(dir string) int {
	n := 0
	filepath.Walk(dir, func(p string, info os.FileInfo, err error) error {
		if err == nil && !info.IsDir() && strings.HasSuffix(p, ".dat") && strings.Contains(p, string(filepath.Separator)+"db"+string(filepath.Separator)) {
			n++
		}
		return nil
	})
	return n
}

func sectionTrunc2Race() {
	if !verifhook.Enabled {
		return
	}
	sec := res.Section("trunc2race", "spec-search",
		"deterministic replay of one interleaving: a partition of three chunks; statement B (TRUNCATE MAXSIZE keeping the newest chunk) is parked after it chose the two oldest chunks (hook partition.truncate.chosen); statement A, the same text, runs to completion and its asynchronous chunk removal has finished (the chunk files are gone); then B continues. Both statements must complete (no panic) and the newest chunk's events must be what is left")
	defer res.Done(sec)
	dir := lrsrv.NewDir()
	defer os.RemoveAll(dir)
	srv, err := lrsrv.Start(dir, lrsrv.Opts{MaxChunkSize: 100})
	if err != nil {
		res.Note("trunc2race: %v", err)
		return
	}
	defer srv.Stop()
	tags := "g=x,p=1"
	var evs []*api.LogEvent
	for i := 1; i <= 15; i++ {
		evs = append(evs, &api.LogEvent{Timestamp: int64(i), Message: fmt.Sprintf("%04d_", i)})
	}
	var wr api.WriteResult
	srv.Client.Write(context.Background(), tags, "", evs, &wr)
	srv.FlushWait()
	settle(srv, tags, 15)
	before := observe(srv, tags)
	if len(before.Chunks) != 3 {
		res.Note("trunc2race: layout is not three chunks: %s", before.layout())
		return
	}
	keep := before.Chunks[2]
	q := fmt.Sprintf("truncate {%s} maxsize %d", tags, keep.Size)
	parked := make(chan struct{})
	release := make(chan struct{})
	var calls int32
	verifhook.Set("partition.truncate.chosen", func() {
		if atomic.AddInt32(&calls, 1) == 1 {
			close(parked)
			<-release
		}
	})
	defer verifhook.Set("partition.truncate.chosen", nil)
	var panB, panA, stackB string
	finB := make(chan struct{})
	go func() {
		defer close(finB)
		defer func() {
			if r := recover(); r != nil {
				panB = fmt.Sprint(r)
				stackB = string(debug.Stack())
			}
		}()
		srv.Admin.Execute(api.ExecRequest{Query: q})
	}()
	select {
	case <-parked:
	case <-finB:
		res.Dist(sec, "hook point partition.truncate.chosen not reached: interleaving not exercised")
		return
	case <-time.After(10 * time.Second):
		res.Note("trunc2race: statement B neither parked nor finished within 10 s")
		return
	}
	finA := make(chan struct{})
	go func() {
		defer close(finA)
		pa := vh.Recover(func() { srv.Admin.Execute(api.ExecRequest{Query: q}) })
		panA = pa
	}()
	serialized := false
	select {
	case <-finA:
		// A's chunks are closed and their files removed asynchronously: wait until only the kept chunk's file is left
		for i := 0; i < 400 && datFiles(dir) > 1; i++ {
			time.Sleep(10 * time.Millisecond)
		}
		time.Sleep(20 * time.Millisecond)
	case <-time.After(2 * time.Second):
		// A waits for B: the statements are serialised (4d9dcd4, the repair of the statement-vs-statement path of F56); the interleaving cannot happen
		serialized = true
	}
	close(release)
	select {
	case <-finB:
	case <-time.After(20 * time.Second):
		panB = "statement B did not finish within 20 s after its release"
	}
	select {
	case <-finA:
	case <-time.After(20 * time.Second):
		panA = "statement A did not finish within 20 s after B's release"
	}
	if serialized {
		res.Dist(sec, "statement A did not run while B was parked: TRUNCATE statements are serialised")
	} else {
		res.Dist(sec, "statement A completed while B was parked")
	}
	res.Eval(sec, q)
	in := map[string]interface{}{"stmt_A": q, "stmt_B": q, "before": before.layout(),
		"interleaving": "B: snapshot, loops choose chunks 1-2, parked | A: whole statement, chunks 1-2 closed and their files removed | B: DeleteChunks(cks[1].Id(), …)"}
	if panA != "" || panB != "" {
		// class of the FIXED finding F56 (4d9dcd4, statement vs statement; a recurrence is reported as "the defect is back"): a chunk object taken from Chunks() before a concurrent DeleteChunks closed it is dereferenced
		// (chunkWrapper.Id/Size/Count read cw.chunk, which closeInternal sets to nil, without the wrapper's lock)
		f := vh.SpecFailure{Section: "trunc2race", Kind: "panic-on-removed-chunk", Input: in, Impl: fmt.Sprintf("A: %q B: %q", panA, panB), Spec: "both statements complete",
			Model: "outside the model (the model's chunks are values)", ImplEqModel: false,
			What: "a TRUNCATE that overlaps another one on the same partition panics (nil pointer) when it touches a chunk the other statement has already removed; on a server this ends the process"}
		if strings.Contains(panB, "nil pointer") && panA == "" && strings.Contains(stackB, "ctrlr.(*chunkWrapper)") {
			f.Finding = "F56"
			f.ImplEqModel = true // the class is a crash of the implementation; there is no model outcome to differ from
		}
		res.SpecFail(f)
		return
	}
	after := observe(srv, tags)
	if fmt.Sprint(after.seqs()) != fmt.Sprint(keep.Seqs) {
		res.SpecFail(vh.SpecFailure{Section: "trunc2race", Kind: "not-a-suffix", Input: in, Impl: after.layout(), Spec: fmt.Sprint(keep.Seqs),
			What: "after two overlapping TRUNCATE statements the partition does not hold exactly the newest chunk"})
	}
}

// ---------------------------------------------------------------------------------------------
// restartleft: a graceful stop after a TRUNCATE acknowledgement whose chunk files are not removed yet, then a restart

func sectionRestartLeft() {
	sec := res.Section("restartleft", "spec-search",
		"one partition of three chunks; a reader holds a record of the oldest chunk (an open chunk iterator after Get: the chunk's asynchronous close-and-remove waits for it); TRUNCATE MAXSIZE keeps the newest chunk and is acknowledged, the content is the newest chunk's events; the server is stopped gracefully and the data directory is copied at that moment (what a process exiting there leaves behind); a server started on the copy must return the same content - content after a TRUNCATE stays a suffix across a restart, removed events do not come back")
	defer res.Done(sec)
	dir := lrsrv.NewDir()
	img := dir + ".img"
	defer os.RemoveAll(dir)
	defer os.RemoveAll(img)
	srv, err := lrsrv.Start(dir, lrsrv.Opts{MaxChunkSize: 100})
	if err != nil {
		res.Note("restartleft: %v", err)
		return
	}
	tags := "g=s,p=1"
	var evs []*api.LogEvent
	for i := 1; i <= 15; i++ {
		evs = append(evs, &api.LogEvent{Timestamp: int64(i), Message: fmt.Sprintf("%04d_", i)})
	}
	var wr api.WriteResult
	srv.Client.Write(context.Background(), tags, "", evs, &wr)
	srv.FlushWait()
	settle(srv, tags, 15)
	before := observe(srv, tags)
	if len(before.Chunks) != 3 {
		srv.Stop()
		res.Note("restartleft: layout is not three chunks: %s", before.layout())
		return
	}
	// the slow reader
	ctx := context.Background()
	var held interface{ Close() error }
	if src, _, err := srv.TIndex.GetJournal(tags); err == nil {
		if j, err := srv.Journals.GetOrCreate(ctx, src); err == nil {
			if cks, _ := j.Chunks().Chunks(ctx); len(cks) == 3 {
				if it, err := cks[0].Iterator(); err == nil {
					it.Get(ctx)
					held = it
				}
			}
		}
		srv.TIndex.Release(src)
	}
	q := fmt.Sprintf("truncate {%s} maxsize %d", tags, before.Chunks[2].Size)
	out, xerr := srv.Exec(q)
	afterTrunc := fullRead(srv, tags)
	filesAtAck := datFiles(dir)
	srv.Stop()
	filesAtStop := datFiles(dir)
	exec.Command("cp", "-a", dir, img).Run()
	if held != nil {
		held.Close()
	}
	res.Eval(sec, q)
	res.Dist(sec, fmt.Sprintf("chunk data files: 3 before, %d at the acknowledgement, %d after the graceful stop", filesAtAck, filesAtStop))
	in := map[string]interface{}{"stmt": q, "before": before.layout(), "reader": "an open chunk iterator holding a record of the oldest chunk", "after_truncate": afterTrunc,
		"then": "graceful stop; copy of the data directory; start on the copy; select from {" + tags + "}"}
	want, _ := readSeqs(afterTrunc)
	if xerr != nil || fmt.Sprint(want) != fmt.Sprint(before.Chunks[2].Seqs) {
		res.SpecFail(vh.SpecFailure{Section: "restartleft", Kind: "not-a-suffix", Input: in, Impl: fmt.Sprint(afterTrunc, xerr), Spec: fmt.Sprint(before.Chunks[2].Seqs), What: "TRUNCATE with a reader inside the oldest chunk: content afterwards is not the newest chunk " + strings.TrimSpace(out)})
		return
	}
	srv2, err := lrsrv.Start(img, lrsrv.Opts{MaxChunkSize: 100})
	if err != nil {
		res.SpecFail(vh.SpecFailure{Section: "restartleft", Kind: "restart-refused", Input: in, Impl: err.Error(), Spec: "starts", What: "the server does not start on the directory a graceful stop after TRUNCATE left"})
		return
	}
	defer srv2.Stop()
	got, gerr := readSeqs(fullRead(srv2, tags))
	if gerr != "" || fmt.Sprint(got) != fmt.Sprint(want) {
		// class of finding F57: chunk files of removed chunks were still in the directory when the server stopped
		f := vh.SpecFailure{Section: "restartleft", Kind: "removed-events-reappear-after-restart", Input: in, Impl: fmt.Sprintf("%v %s", got, gerr), Spec: fmt.Sprint(want),
			Model: "outside the model (no persistence of the removal)", ImplEqModel: true,
			What: fmt.Sprintf("events a TRUNCATE had removed (and whose removal it had acknowledged) are back after a graceful stop and restart: %d chunk data files were still on disk when the server stopped", filesAtStop)}
		if filesAtStop > 1 && isSuffix(want, got) && gerr == "" {
			f.Finding = "F57"
		}
		res.SpecFail(f)
	}
}

// ---------------------------------------------------------------------------------------------
// bucket: the dropped partition shares its two-character parent folder with a partition that is not selected

// folderOf answers the partition's folder on disk ("" when the partition does not exist)
func folderOf(srv *lrsrv.Srv, tags string) string {
	src, _, err := srv.TIndex.GetJournal(tags)
	if err != nil {
		return ""
	}
	defer srv.TIndex.Release(src)
	j, err := srv.Journals.GetOrCreate(context.Background(), src)
	if err != nil {
		return ""
	}
	return j.Chunks().LocalFolder()
}

// diskList lists the regular files below dir as "relative path:size", sorted
func diskList(dir string) []string {
	var out []string
	filepath.Walk(dir, func(p string, fi os.FileInfo, err error) error {
		if err == nil && fi.Mode().IsRegular() {
			rel, _ := filepath.Rel(dir, p)
			out = append(out, fmt.Sprintf("%s:%d", rel, fi.Size()))
		}
		return nil
	})
	sort.Strings(out)
	return out
}

func sectionBucket() {
	sec := res.Section("bucket", "spec-search",
		"three partitions: the selected one S (6 events in 2 chunks, or no events at all), a partition N1 that does not match the source condition and lives in the SAME two-character parent folder as S (the journal controller stores a partition in <dir>/<last two characters of its id>/<id>; ids are burnt from the process-wide counter until the next one lands in S's folder), and a partition N2 in another folder; TRUNCATE DRYRUN, then TRUNCATE of S in a form that drops it (MAXSIZE 1 / BEFORE / MAXDBSIZE 0 / no bounds on the empty S). N1 and N2 do not match the source condition: their files on disk (names and sizes), their chunk layout and their content must be the same after the DRYRUN, after the run, and after a graceful stop and restart on the same directory")
	defer res.Done(sec)
	type form struct {
		stmt  string
		empty bool
	}
	for _, fm := range []form{{" maxsize 1", false}, {" before \"100000\"", false}, {" maxdbsize 0", false}, {"", true}} {
		bucketCase(sec, fm.stmt, fm.empty)
	}
}

func bucketCase(sec *vh.Section, stmt string, empty bool) {
	dir := lrsrv.NewDir()
	defer os.RemoveAll(dir)
	opts := lrsrv.Opts{MaxChunkSize: 100}
	srv, err := lrsrv.Start(dir, opts)
	if err != nil {
		res.Note("bucket: %v", err)
		return
	}
	stopped := false
	defer func() {
		if !stopped {
			srv.Stop()
		}
	}()
	write := func(tags string, from, n int) bool {
		var evs []*api.LogEvent
		for k := 0; k < n; k++ {
			evs = append(evs, &api.LogEvent{Timestamp: int64(from + k), Message: fmt.Sprintf("%04d_", from+k)})
		}
		var wr api.WriteResult
		err := srv.Client.Write(context.Background(), tags, "", evs, &wr)
		return err == nil && wr.Err == nil
	}
	sTags, n2Tags := "g=k,p=1", "g=k,p=2"
	nS := 6
	if empty {
		nS = 0
	}
	if !write(sTags, 1, nS) || !write(n2Tags, 101, 7) {
		res.Note("bucket: building the layout failed")
		return
	}
	sDir := folderOf(srv, sTags)
	if sDir == "" {
		res.Note("bucket: the selected partition has no folder")
		return
	}
	// the twin: burn ids of the process-wide counter until the next partition lands in S's parent folder. Readers
	// (cursors) take ids from the same counter, so nothing else runs meanwhile; a miss is retried with another partition
	n1Tags := ""
	for try := 0; try < 4 && n1Tags == ""; try++ {
		want, _ := strconv.ParseUint(filepath.Base(filepath.Dir(sDir)), 16, 64)
		for i := 0; i < 600; i++ {
			if ((utils.NextSimpleId()>>16)+1)&0xFF == want {
				break
			}
		}
		tg := fmt.Sprintf("g=k,p=%d", 10+try)
		if !write(tg, 201, 9) {
			res.Note("bucket: writing the twin failed")
			return
		}
		if d := folderOf(srv, tg); d != "" && filepath.Dir(d) == filepath.Dir(sDir) && d != sDir {
			n1Tags = tg
		}
	}
	if n1Tags == "" {
		res.Note("bucket: no partition in the selected one's parent folder after 4 attempts")
		return
	}
	srv.FlushWait()
	settle(srv, sTags, nS)
	settle(srv, n1Tags, 9)
	settle(srv, n2Tags, 7)
	others := []string{n1Tags, n2Tags}
	type snap struct {
		obs  partObs
		disk []string
	}
	look := func(s *lrsrv.Srv) []snap {
		var r []snap
		for _, tg := range others {
			settle(s, tg, -1)
			sn := snap{obs: observe(s, tg)}
			if d := folderOf(s, tg); d != "" {
				sn.disk = diskList(d)
			}
			r = append(r, sn)
		}
		return r
	}
	before := look(srv)
	sBefore := observe(srv, sTags)
	q := "truncate {" + sTags + "}" + stmt
	dq := strings.Replace(q, "truncate ", "truncate dryrun ", 1)
	in := map[string]interface{}{"selected": sTags + ": " + sBefore.layout(), "same_parent_folder": n1Tags + ": " + before[0].obs.layout(), "other_folder": n2Tags + ": " + before[1].obs.layout(),
		"folders": []string{sDir, folderOf(srv, n1Tags), folderOf(srv, n2Tags)}, "stmts": []string{dq, q}, "then": "graceful stop; restart on the same directory; select from each"}
	res.Eval(sec, q)
	same := func(when string, now []snap, disk bool) bool {
		for i, tg := range others {
			where := "another folder"
			if i == 0 {
				where = "the parent folder of the selected partition"
			}
			if fmt.Sprint(now[i].obs.seqs()) != fmt.Sprint(before[i].obs.seqs()) || strings.Join(now[i].obs.Read, ",") != strings.Join(before[i].obs.Read, ",") || now[i].obs.Exists != before[i].obs.Exists {
				res.SpecFail(vh.SpecFailure{Section: "bucket", Kind: "unselected-changed", Input: in, Impl: fmt.Sprintf("%s %s: %s", when, tg, now[i].obs.layout()), Spec: before[i].obs.layout(),
					What: fmt.Sprintf("%s: partition %s (in %s) does not match the source condition of %q, yet its content changed", when, tg, where, q)})
				return false
			}
			if disk && strings.Join(now[i].disk, " ") != strings.Join(before[i].disk, " ") {
				res.SpecFail(vh.SpecFailure{Section: "bucket", Kind: "unselected-files-changed", Input: in, Impl: fmt.Sprintf("%s %s: files %v", when, tg, now[i].disk), Spec: fmt.Sprintf("files %v", before[i].disk),
					What: fmt.Sprintf("%s: partition %s (in %s) does not match the source condition of %q, yet its files on disk changed (the server still answers from the descriptors it holds; the events are gone once the files have to be opened again)", when, tg, where, q)})
				return false
			}
		}
		return true
	}
	if _, err := srv.Exec(dq); err != nil {
		res.Note("bucket: %s: %v", dq, err)
	}
	if !same("after "+dq, look(srv), true) {
		return
	}
	out, xerr := srv.Exec(q)
	// the chunk files of S go asynchronously; its folder goes in deleteJournal, before the statement is acknowledged
	time.Sleep(20 * time.Millisecond)
	sAfter := observe(srv, sTags)
	if xerr != nil || sAfter.Exists {
		res.Dist(sec, "the selected partition was not dropped")
	} else {
		res.Dist(sec, "the selected partition was dropped")
	}
	in["report"] = strings.TrimSpace(out)
	if !same("after "+q, look(srv), true) {
		return
	}
	srv.Stop()
	stopped = true
	srv2, err := lrsrv.Start(dir, opts)
	if err != nil {
		res.SpecFail(vh.SpecFailure{Section: "bucket", Kind: "restart-refused", Input: in, Impl: err.Error(), Spec: "starts", What: "the server does not start on the directory a graceful stop after TRUNCATE left"})
		return
	}
	defer srv2.Stop()
	same("after "+q+", a graceful stop and a restart", look(srv2), false)
}

// ---------------------------------------------------------------------------------------------
// heldwide: partitions held by server-cached cursors, a refused 50-partition SELECT in between, then a TRUNCATE that empties them

func sectionHeldWide() {
	sec := res.Section("heldwide", "spec-search",
		"50 partitions of two events each; two server-held cursors (WaitTimeout > 0, page 1 of limit 1) over 25 of them each, so every partition is held by a cached reader; a SELECT over all 50 is refused (the limit of partitions per query is 50) - a refused query must give back exactly what it acquired; then TRUNCATE {all} MAXSIZE 1 removes every chunk: a partition is dropped only when nobody uses it, so all 50 must still exist under the same source id (emptied, reported with deleted = NO); IMPL vs the holders model (Model/TruncateHolders.lean): writer, cursor holds, balanced refused query, TRUNCATE holds, removes, deleteJournal refuses. Afterwards one event is written to every partition and read back uncached; page 2 of the cursors is recorded (F26 class), not judged")
	defer res.Done(sec)
	dir := lrsrv.NewDir()
	defer os.RemoveAll(dir)
	srv, err := lrsrv.Start(dir, lrsrv.Opts{MaxChunkSize: 4000})
	if err != nil {
		res.Note("heldwide: %v", err)
		return
	}
	defer srv.Stop()
	ctx := context.Background()
	const n = 50
	tagsOf := func(i int) string {
		k := "a"
		if i >= n/2 {
			k = "b"
		}
		return fmt.Sprintf("g=h,k=%s,p=%d", k, i+1)
	}
	for i := 0; i < n; i++ {
		var wr api.WriteResult
		evs := []*api.LogEvent{{Timestamp: int64(10 + i), Message: fmt.Sprintf("%04d_", 2*i+1)}, {Timestamp: int64(11 + i), Message: fmt.Sprintf("%04d_", 2*i+2)}}
		if err := srv.Client.Write(ctx, tagsOf(i), "", evs, &wr); err != nil || wr.Err != nil {
			res.Note("heldwide: write failed: %v %v", err, wr.Err)
			return
		}
	}
	srv.FlushWait()
	srcs := make([]string, n)
	for i := 0; i < n; i++ {
		settle(srv, tagsOf(i), 2)
		if src, _, err := srv.TIndex.GetJournal(tagsOf(i)); err == nil {
			srcs[i] = src
			srv.TIndex.Release(src)
		}
	}
	// the two cached readers
	var next []*api.QueryRequest
	for _, k := range []string{"a", "b"} {
		q := &api.QueryRequest{Query: "select from {g=h,k=" + k + "}", Limit: 1, WaitTimeout: 5}
		qr := &api.QueryResult{}
		if err := srv.Client.Query(ctx, q, qr); err != nil || qr.Err != nil || len(qr.Events) != 1 {
			res.Note("heldwide: page 1 of the cached reader over k=%s failed: %v %v (%d events)", k, err, qr.Err, len(qr.Events))
			return
		}
		nq := qr.NextQueryRequest
		next = append(next, &nq)
	}
	// the refused wide query (uncached)
	wide := &api.QueryResult{}
	werr := srv.Client.Query(ctx, &api.QueryRequest{Query: "select from {g=h}", Limit: 1}, wide)
	refused := werr != nil || wide.Err != nil
	q := "truncate {g=h} maxsize 1"
	var out string
	var xerr error
	pan := vh.Recover(func() { out, xerr = srv.Exec(q) })
	time.Sleep(20 * time.Millisecond)
	rep, _, _ := parseReport(out)
	res.Eval(sec, q)
	res.Dist(sec, fmt.Sprintf("wide select refused=%v", refused))
	in := map[string]interface{}{"partitions": "g=h,k=a,p=1..25 and g=h,k=b,p=26..50, two events each", "held_by": []string{"select from {g=h,k=a} limit 1 (WaitTimeout 5, cursor kept by the server)", "select from {g=h,k=b} limit 1 (WaitTimeout 5)"},
		"then": []string{"select from {g=h} limit 1  (50 partitions: refused)", q}, "wide_select": fmt.Sprint(werr, " ", wide.Err)}
	var dropped []string
	deletedYes := 0
	for i := 0; i < n; i++ {
		src, _, err := srv.TIndex.GetJournal(tagsOf(i))
		if err != nil {
			dropped = append(dropped, tagsOf(i))
			continue
		}
		srv.TIndex.Release(src)
		if src != srcs[i] {
			dropped = append(dropped, tagsOf(i)+" (re-created as "+src+")")
		}
	}
	for _, r := range rep {
		if r.Deleted {
			deletedYes++
		}
	}
	// MODEL: one partition among holders — writer 1, cached cursor 2, the refused query 3 acquires and gives back, TRUNCATE 4
	mo, raw := holdersOutcome("goc,1,7,1 w,1,0,38 fl,0 rel,1,0 gt,2,0,1 gt,3,0,1 rel,3,0 gt,4,0,1 rm,4,0,38,0 djl,4,0 djc,4 djd,4 dju,4 rel,4,0")
	io := "kept:0"
	if len(dropped) > 0 {
		io = "dropped"
	}
	if mo != io {
		res.Mismatch(vh.Mismatch{Section: "heldwide", Function: "deleteJournal among holders (Model/TruncateHolders.lean): a partition held by a cached cursor, after a refused wide query", Input: in, Impl: io + " " + strings.Join(dropped, "; "), Model: mo + " <- " + raw})
	}
	if pan != "" || xerr != nil || len(dropped) > 0 || deletedYes > 0 {
		res.SpecFail(vh.SpecFailure{Section: "heldwide", Kind: "dropped-in-use", Input: in,
			Impl: fmt.Sprintf("dropped=%v report lines with deleted=YES: %d err=%v panic=%q", dropped, deletedYes, xerr, pan), Spec: "all 50 partitions exist under their source ids, no report line says deleted",
			Model: mo, ImplEqModel: mo == io,
			What: "a partition that a server-held cursor still uses was dropped by TRUNCATE after a refused 50-partition SELECT (the refused query gave a partition back once too often, so it looked unused)"})
		return
	}
	// the partitions are usable: one more event each, read back uncached
	bad := 0
	for i := 0; i < n; i++ {
		var wr api.WriteResult
		srv.Client.Write(ctx, tagsOf(i), "", []*api.LogEvent{{Timestamp: int64(1000 + i), Message: fmt.Sprintf("%04d_", 500+i)}}, &wr)
	}
	srv.FlushWait()
	for i := 0; i < n; i++ {
		settle(srv, tagsOf(i), 1)
		if got, _ := readSeqs(fullRead(srv, tagsOf(i))); fmt.Sprint(got) != fmt.Sprint([]int{500 + i}) {
			bad++
			in["read_back"] = fmt.Sprintf("%s: %v", tagsOf(i), got)
		}
	}
	if bad > 0 {
		res.SpecFail(vh.SpecFailure{Section: "heldwide", Kind: "held-partition-unusable", Input: in, Impl: fmt.Sprintf("%d partitions do not return the event written after the TRUNCATE", bad), Spec: "every partition returns exactly its new event",
			What: "a partition emptied (not dropped) by TRUNCATE while a cursor holds it does not serve an event written afterwards"})
	}
	for i, rq := range next {
		qr := &api.QueryResult{}
		rq.Limit = 3
		rq.WaitTimeout = 0
		err := srv.Client.Query(ctx, rq, qr)
		res.Dist(sec, fmt.Sprintf("page 2 of cached reader %d: %d events err=%v", i+1, len(qr.Events), err != nil || qr.Err != nil))
	}
}

// ---------------------------------------------------------------------------------------------
// unflushed: a TRUNCATE right after an acknowledged write, inside the flush period

func sectionUnflushed() {
	sec := res.Section("unflushed", "spec-search",
		"a server with a long flush period (WriteFlushMs 400); one write request into a NEW partition is acknowledged; a TRUNCATE follows at once - without bounds, with a MAXSIZE the partition is far below, as DRYRUN + real run; after the flush period the partition must exist and hold the acknowledged events (a partition is dropped only when it holds no data; acknowledged events are data)")
	defer res.Done(sec)
	for _, form := range []string{"", " maxsize 100000", " before \"1\""} {
		dir := lrsrv.NewDir()
		srv, err := lrsrv.Start(dir, lrsrv.Opts{MaxChunkSize: 4000, WriteFlushMs: 400})
		if err != nil {
			res.Note("unflushed: %v", err)
			os.RemoveAll(dir)
			continue
		}
		tags := "g=f,p=1"
		var evs []*api.LogEvent
		for i := 1; i <= 3; i++ {
			evs = append(evs, &api.LogEvent{Timestamp: int64(100 + i), Message: fmt.Sprintf("%04d_", i)})
		}
		var wr api.WriteResult
		werr := srv.Client.Write(context.Background(), tags, "", evs, &wr)
		q := "truncate {" + tags + "}" + form
		dry, _ := srv.Exec(strings.Replace(q, "truncate ", "truncate dryrun ", 1))
		out, xerr := srv.Exec(q)
		time.Sleep(550 * time.Millisecond)
		settle(srv, tags, -1)
		after := observe(srv, tags)
		res.Eval(sec, q)
		in := map[string]interface{}{"flush_ms": 400, "write": "3 events into the new partition " + tags + ", acknowledged", "then_at_once": []string{strings.Replace(q, "truncate ", "truncate dryrun ", 1), q}, "then": "wait 0.55 s, select"}
		rs, rerr := readSeqs(after.Read)
		// IMPL vs MODEL among holders: the writer's bytes are acknowledged, not flushed, when deleteJournal runs; the flush timer fires later
		if werr == nil && wr.Err == nil {
			mo, raw := holdersOutcome("goc,1,7,1 w,1,0,57 rel,1,0 gt,2,0,1 djl,2,0 djc,2 djd,2 dju,2 rel,2,0 fl,0")
			io := "dropped"
			if after.Exists {
				io = "kept"
			}
			if strings.SplitN(mo, ":", 2)[0] != io {
				res.Mismatch(vh.Mismatch{Section: "unflushed", Function: "deleteJournal among holders (Model/TruncateHolders.lean) for " + q, Input: in, Impl: io, Model: mo + " <- " + raw})
			}
		}
		dryRep, _, _ := parseReport(dry)
		realRep, _, _ := parseReport(out)
		if werr == nil && wr.Err == nil && xerr == nil && after.Exists && fmt.Sprint(rs) == "[1 2 3]" && len(dryRep) == 1 && dryRep[0].Deleted && len(realRep) == 0 {
			// class of the FIXED finding F84 (466355c; a recurrence is reported as "the defect is back"): the dry run's size == 0 branch goes by Size() (flushed bytes) alone and announces the drop of
			// a partition whose only data is acknowledged but not flushed; the real run keeps it
			res.SpecFail(vh.SpecFailure{Section: "unflushed", Kind: "dryrun-announces-unflushed-drop", Input: in, Impl: fmt.Sprintf("dry=%q real=%q partition kept with %v", strings.TrimSpace(dry), strings.TrimSpace(out), rs),
				Spec: "the dry run reports what the run removes: nothing", Model: "dry_announces_drop_iff_run_drops: with the visitor's Sync the dry run announces nothing here (regress_dry_announces_unflushed_drop for the code before 466355c)", ImplEqModel: false, Finding: "F84",
				What: "TRUNCATE DRYRUN announces the drop of a partition that holds acknowledged, not yet flushed events; the real run keeps the partition"})
		}
		if werr == nil && wr.Err == nil && (xerr != nil || !after.Exists || rerr != "" || fmt.Sprint(rs) != "[1 2 3]") {
			// class of the FIXED finding F76 (eafecef; a recurrence is reported as "the defect is back"): the statement ran while the partition's only data was acknowledged but not yet flushed
			// (Journal.Size() counts confirmed bytes only, so the partition looked empty to the size == 0 branch and to deleteJournal)
			f := vh.SpecFailure{Section: "unflushed", Kind: "acknowledged-unflushed-dropped", Input: in, Impl: fmt.Sprintf("exists=%v read=%v report=%q dry=%q err=%v", after.Exists, after.Read, strings.TrimSpace(out), strings.TrimSpace(dry), xerr), Spec: "partition exists, read = [1 2 3]",
				Model: "phase1Part with size = 0 (the model's size is what Size() answers): dropped", ImplEqModel: true,
				What: "a TRUNCATE issued inside the flush period after an acknowledged write into a new partition drops the partition with the acknowledged events"}
			if !after.Exists && len(after.Read) == 0 && strings.Contains(out, "0(YES)") {
				f.Finding = "F76"
			}
			res.SpecFail(f)
		}
		srv.Stop()
		os.RemoveAll(dir)
	}
}

// ---------------------------------------------------------------------------------------------
// lightfill: TRUNCATE BEFORE after a start without the time-index file, over a chunk whose newest event is in its middle

func sectionLightFill() {
	sec := res.Section("lightfill", "spec-search",
		"one partition: a first chunk written by one batch 1001..1004, 5000, 1006..1009 (its newest event in the middle), a second chunk 6001..; graceful stop; the time index file cindex.dat is removed (what a crash before its first save, or its loss, leaves); restart; TRUNCATE BEFORE \"2000\": the first chunk holds an event not older than 2000 and must stay. Control: the same without removing the file")
	defer res.Done(sec)
	for _, drop := range []bool{false, true} {
		dir := lrsrv.NewDir()
		srv, err := lrsrv.Start(dir, lrsrv.Opts{MaxChunkSize: 170})
		if err != nil {
			res.Note("lightfill: %v", err)
			os.RemoveAll(dir)
			continue
		}
		tags := "g=l,p=1"
		write := func(srv *lrsrv.Srv, tss []int64, from int) {
			var evs []*api.LogEvent
			for k, t := range tss {
				evs = append(evs, &api.LogEvent{Timestamp: t, Message: fmt.Sprintf("%04d_", from+k)})
			}
			var wr api.WriteResult
			srv.Client.Write(context.Background(), tags, "", evs, &wr)
		}
		write(srv, []int64{1001, 1002, 1003, 1004, 5000, 1006, 1007, 1008, 1009}, 1)
		srv.FlushWait()
		settle(srv, tags, 9)
		write(srv, []int64{6001, 6002, 6003}, 10)
		srv.FlushWait()
		settle(srv, tags, 12)
		before := observe(srv, tags)
		srv.Stop()
		if len(before.Chunks) != 2 || len(before.Chunks[0].Seqs) != 9 {
			res.Note("lightfill: layout is not 9 + 3 events in two chunks: %s", before.layout())
			os.RemoveAll(dir)
			continue
		}
		if drop {
			os.Remove(filepath.Join(dir, "cindex", "cindex.dat"))
		}
		srv2, err := lrsrv.Start(dir, lrsrv.Opts{MaxChunkSize: 170})
		if err != nil {
			res.SpecFail(vh.SpecFailure{Section: "lightfill", Kind: "restart-refused", Input: map[string]interface{}{"cindex_removed": drop}, Impl: err.Error(), Spec: "starts", What: "the server does not start"})
			os.RemoveAll(dir)
			continue
		}
		mid := observe(srv2, tags)
		q := "truncate {" + tags + "} before \"2000\""
		out, xerr := srv2.Exec(q)
		time.Sleep(15 * time.Millisecond)
		after := observe(srv2, tags)
		res.Eval(sec, fmt.Sprint(q, drop))
		in := map[string]interface{}{"chunk_1": "one batch, timestamps 1001 1002 1003 1004 5000 1006 1007 1008 1009", "chunk_2": "6001 6002 6003", "cindex_dat_removed_before_restart": drop,
			"hull_after_restart": fmt.Sprintf("chunk 1 newest timestamp claimed: %d", func() int64 {
				if len(mid.Chunks) > 0 {
					return mid.Chunks[0].MaxTs
				}
				return -1
			}()), "stmt": q}
		if xerr != nil || fmt.Sprint(after.seqs()) != fmt.Sprint(before.seqs()) {
			// class of the FIXED finding F78 (3cb83a3; a recurrence is reported as "the defect is back"): the time index had no entry for the chunk at start-up and rebuilt its hull from the chunk's
			// first and last record only (lightFill), and the chunk's newest event is neither
			f := vh.SpecFailure{Section: "lightfill", Kind: "before-removed-newer-after-index-loss", Input: in, Impl: fmt.Sprintf("%v report=%q err=%v", after.seqs(), strings.TrimSpace(out), xerr), Spec: fmt.Sprint(before.seqs()),
				Model: "choose on the claimed hull (maxTs 1009 < 2000) takes the chunk; before_removes_only_older does not apply: the hull was not built by chkInfo.update from the write notifications", ImplEqModel: true,
				What: "TRUNCATE BEFORE t removed a chunk holding an event not older than t: after a start without cindex.dat the chunk's hull is its first and last record only"}
			if drop && fmt.Sprint(after.seqs()) == "[10 11 12]" {
				f.Finding = "F78"
			}
			res.SpecFail(f)
		}
		srv2.Stop()
		os.RemoveAll(dir)
	}
}

// ---------------------------------------------------------------------------------------------
// sizerace: a write confirmed between `size := jrnl.Size()` and the loops of truncate (hook partition.truncate.sized)

func sectionSizeRace() {
	if !verifhook.Enabled {
		return
	}
	sec := res.Section("sizerace", "spec-search",
		"deterministic replay of one interleaving: TRUNCATE MINSIZE m MAXSIZE x on a one-chunk partition with x < size and size < m (nothing may be removed); the truncating goroutine is parked right after it took its snapshot of the sizes (hook partition.truncate.sized), a write to the same chunk is confirmed, then it continues; all 8 events must still be there (regression of the fixed finding F43: before b1a5e66 the guard `size-uint64(cks[idx].Size()) >= MinSrcSize` wrapped around)")
	defer res.Done(sec)
	dir := lrsrv.NewDir()
	defer os.RemoveAll(dir)
	srv, err := lrsrv.Start(dir, lrsrv.Opts{MaxChunkSize: 4000})
	if err != nil {
		res.Note("sizerace: %v", err)
		return
	}
	defer srv.Stop()
	tags := "g=r,p=1"
	write := func(from, n int) {
		var evs []*api.LogEvent
		for k := 0; k < n; k++ {
			evs = append(evs, &api.LogEvent{Timestamp: int64(from + k), Message: fmt.Sprintf("%04d_", from+k)})
		}
		var wr api.WriteResult
		srv.Client.Write(context.Background(), tags, "", evs, &wr)
	}
	write(1, 6)
	srv.FlushWait()
	before := observe(srv, tags)
	size := before.size()
	parked := make(chan struct{})
	release := make(chan struct{})
	var once sync.Once
	verifhook.Set("partition.truncate.sized", func() {
		once.Do(func() {
			close(parked)
			<-release
		})
	})
	defer verifhook.Set("partition.truncate.sized", nil)
	q := fmt.Sprintf("truncate {%s} minsize %d maxsize %d", tags, size/2, size-1)
	var out string
	var xerr error
	fin := make(chan struct{})
	// the statement runs in-process (Admin.Execute): the loop-back RPC connection serves one request at a time, and the
	// write below must get through while the truncation is parked
	go func() {
		defer close(fin)
		r, err := srv.Admin.Execute(api.ExecRequest{Query: q})
		out, xerr = r.Output, err
	}()
	select {
	case <-parked:
	case <-time.After(3 * time.Second):
		res.Note("sizerace: the hook partition.truncate.sized was not reached (hook point missing in /repo?)")
		close(release)
		<-fin
		return
	}
	if !vh.WithTimeout(5*time.Second, func() { write(7, 2); srv.FlushWait(); settle(srv, tags, 8) }) {
		res.Note("sizerace: the concurrent write did not complete while the truncation was parked")
	}
	close(release)
	<-fin
	time.Sleep(10 * time.Millisecond)
	after := observe(srv, tags)
	res.Eval(sec, q)
	in := map[string]interface{}{"stmt": q, "before": before.layout(), "interleaving": "Size() read; 2 events confirmed in the same chunk; loops"}
	want := []int{1, 2, 3, 4, 5, 6, 7, 8}
	if xerr != nil || fmt.Sprint(after.seqs()) != fmt.Sprint(want) {
		// F43 (fixed by b1a5e66) is back. The model of the code BEFORE the fix: the loops start from jsize = size while the
		// chunk's size is size + δ: sub64 wraps, the guard holds, the chunk goes
		rep, _, _ := parseReport(out)
		grown := int64(size) + 1
		if len(rep) == 1 {
			grown = int64(rep[0].Diff) // the report's diff is the size the loop saw for the chunk
		}
		c := chooserCase{Max: size - 1, Min: size / 2, JSize: size, Chunks: []partition.VerifChunk{{Id: 1, Size: grown, MaxTs: 8}}}
		outs, _ := vh.Batch(args.Driver, []string{c.line()})
		eq := len(outs) == 1 && len(rep) == 1 && strings.HasPrefix(outs[0], fmt.Sprintf("1 %d ", rep[0].Diff)) && len(after.seqs()) == 0
		res.SpecFail(vh.SpecFailure{Section: "sizerace", Kind: "below-minsize-race", Input: in, Impl: fmt.Sprintf("after=%v report=%q err=%v", after.seqs(), strings.TrimSpace(out), xerr),
			Spec: fmt.Sprint(want), Model: strings.Join(outs, ""), ImplEqModel: eq, Finding: "F43",
			What: "a write confirmed between truncate's Size() read and its loop makes size-uint64(chunk.Size()) wrap: the only chunk is removed although that takes the partition below MINSIZE (to zero)"})
	}
}

// ---------------------------------------------------------------------------------------------

func main() {
	// every in-process server keeps a few descriptors beyond its Stop (chunk files closed asynchronously)
	var rl syscall.Rlimit
	if syscall.Getrlimit(syscall.RLIMIT_NOFILE, &rl) == nil && rl.Cur < rl.Max {
		rl.Cur = rl.Max
		syscall.Setrlimit(syscall.RLIMIT_NOFILE, &rl)
	}
	worker := flag.String("worker", "", "internal: run the system cases of this file")
	workerOut := flag.String("worker-out", "", "internal: result file of -worker")
	args = vh.ParseArgs()
	if *worker != "" {
		workerMain(*worker, *workerOut)
		return
	}
	res = vh.NewResult("C09", args)
	if args.Replay != "" {
		replay(args.Replay)
		return
	}
	rng := vh.NewRng(args.Seed)
	corpus := loadCorpus()
	// corpus first
	var cc []sysCase
	cc = append(cc, sysCasesOf(corpus, "system")...)
	cc = append(cc, sysCasesOf(corpus, "reader")...)
	cc = append(cc, sysCasesOf(corpus, "corpus")...)
	if len(cc) > 0 {
		runSysSection("corpus", "corpus", "recorded system cases (known-finding witnesses and minimised past failures), replayed first", cc)
	}
	sectionChooser(rng.Fork("chooser"), corpus)
	sectionHull()
	n, nr := 400, 80
	if args.Thorough {
		n, nr = 1500, 300
	}
	runSysSection("system", "system-correspondence", sysRule, genCases(rng.Fork("system"), n, false))
	runSysSection("reader", "spec-search",
		"as system, one statement, plus a paged read of partition 1: page 1 (limit 1..5, uncached or server-held via WaitTimeout) ends inside a chunk the statement then removes; page 2 must start at the first remaining event. non-trivial as in system",
		genCases(rng.Fork("reader"), nr, true))
	sectionWriter(rng.Fork("writer"))
	sectionSizeRace()
	sectionDropRace()
	sectionBeforeRace()
	sectionTrunc2Race()
	sectionRestartLeft()
	sectionUnflushed()
	sectionLightFill()
	sectionBucket()
	sectionHeldWide()
	res.Write(args.Out)
}
