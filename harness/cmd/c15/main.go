// C15 harness — server-side query cursors: one user at a time, resources released exactly once.
//
// Sections
//
//	corpus     the recorded witnesses of the open findings (corpus/C15/*.json), replayed first on every run
//	ring       unit correspondence: real container.CLElement (Append/TearOff/Prev/Next/Len) vs Model/Ring on
//	           random operation sequences over a small universe of elements; the real next- and prev-chains must
//	           describe the same cycle
//	provider   system correspondence + spec search: random get/release/age/sweep histories on the real
//	           cursor.provider (verif export: knobs, sweeps on demand, ageing) with a counting ItFactory, compared
//	           step by step with Model/Provider (outcome + ring dump), and the property evaluated on the
//	           implementation: per partition acquire − release = 1 iff its cursor is live (held or cached),
//	           never a double release, never a panic, everything given back at end of life
//	race       concurrent same-id requests: cached id (exactly one served), uncached id parked between the two
//	           locked sections of GetOrCreate by the factory gate (finding F16), and a control with distinct ids
//	consts     NewProvider's knobs vs the regenerated constants the model and theorems use
package main

import (
	"context"
	"encoding/json"
	"fmt"
	"io"
	"strconv"
	"strings"
	"sync"
	"time"

	"os"

	"github.com/logrange/logrange/api"
	"github.com/logrange/logrange/pkg/container"
	"github.com/logrange/logrange/pkg/cursor"
	"github.com/logrange/logrange/pkg/lql"
	"github.com/logrange/logrange/pkg/model"
	"github.com/logrange/logrange/pkg/model/tag"
	"github.com/logrange/logrange/pkg/tindex"
	"github.com/logrange/range/pkg/records"
	"github.com/logrange/range/pkg/records/journal"
	"verifharness/internal/lrsrv"
	"verifharness/internal/vh"

	"github.com/jrivets/log4g"
)

var (
	args vh.Args
	res  *vh.Result
	ctx  = context.Background()
)

// ---------------------------------------------------------------------------------------------
// counting ItFactory: every GetJournals hands out one fresh fake journal j<N>

type fj struct{ name string }

func (j *fj) Name() string { return j.name }
func (j *fj) Write(ctx context.Context, rit records.Iterator) (int, journal.Pos, error) {
	return 0, journal.Pos{}, nil
}
func (j *fj) Size() uint64                    { return 0 }
func (j *fj) Count() uint64                   { return 0 }
func (j *fj) Sync()                           {}
func (j *fj) Chunks() journal.ChnksController { return nil }

type fit struct {
	pos journal.Pos
	f   *Fact
}

func (i *fit) Close() error             { return nil }
func (i *fit) Next(ctx context.Context) {}
func (i *fit) Get(ctx context.Context) (records.Record, error) {
	// one-shot gate: the first Get after GetGate was armed announces itself and waits for a go-ahead (a slow read)
	if i.f != nil {
		i.f.mu.Lock()
		g := i.f.GetGate
		i.f.GetGate = nil
		i.f.mu.Unlock()
		if g != nil {
			ch := make(chan struct{})
			g <- ch
			<-ch
		}
	}
	return nil, io.EOF
}
func (i *fit) Pos() journal.Pos                { return i.pos }
func (i *fit) SetPos(p journal.Pos)            { i.pos = p }
func (i *fit) Release()                        {}
func (i *fit) SetBackward(bool)                {}
func (i *fit) CurrentPos() records.IteratorPos { return i.pos }

type Fact struct {
	mu       sync.Mutex
	seq      int
	Acquired map[string]int
	Released map[string]int
	NoSrc    bool               // the next GetJournals finds no sources
	Gate     chan chan struct{} // when non-nil, GetJournals announces itself and waits for a go-ahead
	GetGate  chan chan struct{} // when non-nil, the next iterator Get announces itself and waits for a go-ahead (one shot)
}

func NewFact() *Fact { return &Fact{Acquired: map[string]int{}, Released: map[string]int{}} }
func (f *Fact) GetJournals(ctx context.Context, tagsCond *lql.Source, maxLimit int) (map[tag.Line]journal.Journal, error) {
	if f.Gate != nil {
		g := make(chan struct{})
		f.Gate <- g
		<-g
	}
	f.mu.Lock()
	defer f.mu.Unlock()
	if f.NoSrc {
		f.NoSrc = false
		return map[tag.Line]journal.Journal{}, nil
	}
	f.seq++
	n := fmt.Sprintf("j%d", f.seq)
	f.Acquired[n]++
	return map[tag.Line]journal.Journal{tag.Line("t=" + n): &fj{n}}, nil
}
func (f *Fact) GetJournal(ctx context.Context, src string) (tag.Set, journal.Journal, error) {
	panic("not used")
}
func (f *Fact) Itearator(j journal.Journal, tmRange *model.TimeRange) journal.Iterator {
	return &fit{f: f}
}
func (f *Fact) Release(jn string) { f.mu.Lock(); f.Released[jn]++; f.mu.Unlock() }
func (f *Fact) Seq() int          { f.mu.Lock(); defer f.mu.Unlock(); return f.seq }
func (f *Fact) Net(n int) (acq, rel int) {
	f.mu.Lock()
	defer f.mu.Unlock()
	k := fmt.Sprintf("j%d", n)
	return f.Acquired[k], f.Released[k]
}

var queries = []string{"select limit 4", "select limit 5"}

const unknownID = 987654321 // never a value of utils.NextSimpleId (those are multiples of 0x10000)

// ---------------------------------------------------------------------------------------------
// provider histories

type pop struct {
	Kind  string `json:"kind"`            // get | release | age | sweept | sweeps
	IdOf  int    `json:"id_of,omitempty"` // get: 0 = no id, -1 = an unknown id, k>0 = the id of the k-th cursor built in this history
	Q     int    `json:"q,omitempty"`     // get: query number
	Pos   string `json:"pos,omitempty"`   // get: "" | "last" (what Release returned for that id) | "garbage"
	Cache bool   `json:"cache,omitempty"`
	NoSrc bool   `json:"nosrc,omitempty"`
	H     int    `json:"h,omitempty"` // release: which of the not yet released hand-outs (index modulo their number; <0 = the latest)
	D     int    `json:"d,omitempty"` // age: seconds
}

type pcase struct {
	MaxCurs int   `json:"max_curs"`
	IdleTo  int   `json:"idle_to"`
	BusyTo  int   `json:"busy_to"`
	Ops     []pop `json:"ops"`
}

type handout struct {
	c        cursor.Cursor
	n        int // cursor number (journal j<n>); 0 = the shared empty cursor
	released bool
}

// stepRec is one executed step: the model request line(s), what the implementation answered
type stepRec struct {
	desc  string
	lines []string // model requests
	impl  []string // implementation's answers to compare with the model's
}

type pendingFail struct {
	step    int // index into steps: the model must agree on steps[0..step]
	f       vh.SpecFailure
	inClass bool // the failure concerns a cursor whose id is one under which two cursor objects were alive at once (F28's class)
}

type caseRun struct {
	sparse  bool // compare dumps / evaluate the spec only after sweeps (long scenarios)
	steps   []stepRec
	fails   []pendingFail
	f28     bool // the history entered finding F28's class (an id re-used while a cursor built under it is still held)
	f28Desc string
	dist    []string
	nontriv string
}

func b2i(b bool) string {
	if b {
		return "1"
	}
	return "0"
}

func ringNames(dump string) map[string]bool {
	m := map[string]bool{}
	i, j := strings.Index(dump, "["), strings.Index(dump, "]")
	if i < 0 || j < i {
		return m
	}
	for _, it := range strings.Split(dump[i+1:j], ",") {
		if it == "" {
			continue
		}
		m[strings.Split(it, ":")[0]] = true
	}
	return m
}

// runProvider executes one history on the real provider; the model lines are collected for a batch run.
func runProvider(c pcase, sparse bool) *caseRun {
	r := &caseRun{sparse: sparse}
	f := NewFact()
	p, pv := cursor.NewProviderVerif(f, c.MaxCurs, time.Duration(c.IdleTo)*time.Second, time.Duration(c.BusyTo)*time.Second)
	names := map[cursor.Cursor]string{}
	namer := func(cu cursor.Cursor) string {
		if n, ok := names[cu]; ok {
			return n
		}
		return "unknown"
	}
	var hands []*handout
	held := map[int]int{}       // cursor number -> hand-outs not yet released
	idOfCur := map[int]uint64{} // cursor number -> its id
	var created []int           // cursor numbers in order of creation (successful ones)
	lastPos := map[uint64]string{}
	r.steps = append(r.steps, stepRec{desc: "reset", lines: []string{fmt.Sprintf("reset %d %d %d", c.MaxCurs, c.IdleTo, c.BusyTo)}, impl: []string{"ok"}})
	kinds := map[string]bool{}
	panicked := false

	tainted := map[uint64]bool{} // ids under which a second cursor object was built while the first was still held
	fail := func(cur int, kind, what, impl, spec string) {
		sf := vh.SpecFailure{Section: "provider", Kind: kind, Input: c, Impl: impl, Spec: spec, What: what}
		r.fails = append(r.fails, pendingFail{step: len(r.steps) - 1, f: sf, inClass: cur > 0 && tainted[idOfCur[cur]]})
	}
	// the property on the implementation, after every step
	check := func(dump string) {
		inRing := ringNames(dump)
		for n := 1; n <= f.Seq(); n++ {
			acq, rel := f.Net(n)
			live := held[n] > 0 || inRing[fmt.Sprintf("j%d", n)]
			switch {
			case rel > acq:
				fail(n, "double-release", fmt.Sprintf("partition j%d released more often than acquired", n), fmt.Sprintf("acquired=%d released=%d", acq, rel), "released <= acquired")
			case live && acq-rel != 1:
				fail(n, "closed-while-live", fmt.Sprintf("cursor j%d is still held by a request or cached but its partition was released", n), fmt.Sprintf("acquired=%d released=%d held=%d cached=%v", acq, rel, held[n], inRing[fmt.Sprintf("j%d", n)]), "acquired-released = 1 while live")
			case !live && acq-rel != 0:
				fail(n, "leak", fmt.Sprintf("cursor j%d is neither held by a request nor cached, yet its partition is still acquired (never released)", n), fmt.Sprintf("acquired=%d released=%d", acq, rel), "acquired-released = 0 when not live")
			}
		}
	}
	step := func(desc string, line, impl string) {
		if r.sparse && !strings.HasPrefix(desc, "sweep") {
			r.steps = append(r.steps, stepRec{desc: desc, lines: []string{line}, impl: []string{impl}})
			return
		}
		d := pv.DumpBounded(namer)
		r.steps = append(r.steps, stepRec{desc: desc, lines: []string{line, "dump"}, impl: []string{impl, d}})
		check(d)
	}
	doRelease := func(h *handout) {
		h.released = true
		if h.n == 0 {
			// the shared empty cursor: Release is a no-op, not a model step
			pn := vh.Recover(func() { p.Release(ctx, h.c) })
			if pn != "" {
				r.steps = append(r.steps, stepRec{desc: "release empty"})
				fail(0, "panic", "Release(emptyCur) panicked: "+pn, pn, "no panic")
			}
			return
		}
		_, before := f.Net(h.n)
		var st cursor.State
		pn := vh.Recover(func() { st = p.Release(ctx, h.c) })
		held[h.n]--
		out := "idle"
		if pn != "" {
			out = "panic"
			panicked = true
		} else {
			// state.Id == 0 tells that Release took the "not in the cache any more" path and called close()
			if st.Id == 0 {
				out = "closed"
				if _, after := f.Net(h.n); after == before {
					r.dist = append(r.dist, "release:closed-again(no-op)")
				}
			} else {
				lastPos[st.Id] = st.Pos
			}
		}
		kinds["release:"+out] = true
		r.dist = append(r.dist, "release:"+out)
		step(fmt.Sprintf("release j%d", h.n), fmt.Sprintf("release %d", h.n), out)
		if pn != "" {
			fail(h.n, "panic", "Release panicked (a panic in a request handler ends the server): "+pn, pn, "no panic")
		}
	}

	for _, o := range c.Ops {
		if panicked {
			break
		}
		switch o.Kind {
		case "get":
			var id uint64
			switch {
			case o.IdOf < 0:
				id = unknownID
			case o.IdOf > 0 && o.IdOf <= len(created):
				id = idOfCur[created[o.IdOf-1]]
			}
			pos, posTok, posOk, kind := "", 0, false, "ok"
			switch o.Pos {
			case "garbage":
				pos, posTok, kind = "garbage", 1, "poserr"
			case "last":
				pos = lastPos[id]
				if pos != "" {
					posTok, posOk = 2, true
				}
			}
			q := o.Q % len(queries)
			if o.NoSrc {
				f.mu.Lock()
				f.NoSrc = true
				f.mu.Unlock()
				kind = "nosrc"
			}
			// F28's class: a cursor built under this id is still held by a request (and the id is not refused)
			reuse := ""
			if id != 0 {
				for n, cid := range idOfCur {
					if cid == id && held[n] > 0 {
						reuse = fmt.Sprintf("j%d", n)
					}
				}
			}
			seq0 := f.Seq()
			var cu cursor.Cursor
			var err error
			if pn := vh.Recover(func() {
				cu, err = p.GetOrCreate(ctx, cursor.State{Id: id, Query: queries[q], Pos: pos}, o.Cache)
			}); pn != "" {
				// a panic inside GetOrCreate leaves p.lock held: the provider cannot be inspected any more — end of this history
				r.steps = append(r.steps, stepRec{desc: "get (panicked)", lines: []string{fmt.Sprintf("get %d %d %d %s %s %s %d %d", id, q, posTok, b2i(posOk), kind, b2i(o.Cache), 0, 0)}, impl: []string{"nilderef"}})
				fail(0, "panic", "GetOrCreate panicked (a panic in a request handler ends the server): "+pn, pn, "no panic")
				return r
			}
			f.mu.Lock()
			f.NoSrc = false
			f.mu.Unlock()
			built := f.Seq() > seq0
			out, newCur, newID := "", 0, uint64(0)
			if built {
				newCur = f.Seq()
			}
			switch {
			case err != nil && strings.Contains(err.Error(), "concurrent request"):
				out = "refused"
			case err != nil:
				out = "error"
			case cursor.IsEmptyCurVerif(cu):
				out = "empty"
				hands = append(hands, &handout{c: cu, n: 0})
			default:
				if n, ok := names[cu]; ok {
					k, _ := strconv.Atoi(n[1:])
					out = fmt.Sprintf("old %d", k)
					held[k]++
					hands = append(hands, &handout{c: cu, n: k})
				} else {
					names[cu] = fmt.Sprintf("j%d", newCur)
					out = fmt.Sprintf("new %d", newCur)
					newID = cu.Id()
					idOfCur[newCur] = newID
					created = append(created, newCur)
					held[newCur]++
					hands = append(hands, &handout{c: cu, n: newCur})
					if reuse != "" {
						tainted[id] = true
					}
					if reuse != "" && !r.f28 {
						r.f28 = true
						r.f28Desc = fmt.Sprintf("cursor j%d was built under id %d while %s, built under the same id, is still held", newCur, id, reuse)
					}
				}
			}
			k := strings.Fields(out)[0]
			if o.IdOf != 0 {
				k += "/id"
			}
			kinds["get:"+k] = true
			r.dist = append(r.dist, "get:"+k)
			step(fmt.Sprintf("get id=%d q=%d pos=%q cache=%v nosrc=%v", id, q, pos, o.Cache, o.NoSrc),
				fmt.Sprintf("get %d %d %d %s %s %s %d %d", id, q, posTok, b2i(posOk), kind, b2i(o.Cache), newCur, newID), out)
		case "release":
			var cand []*handout
			for _, h := range hands {
				if !h.released {
					cand = append(cand, h)
				}
			}
			if len(cand) == 0 {
				continue
			}
			if o.H < 0 {
				doRelease(cand[len(cand)-1])
			} else {
				doRelease(cand[o.H%len(cand)])
			}
		case "age":
			pv.AgeBounded(time.Duration(o.D) * time.Second)
			step(fmt.Sprintf("age %d", o.D), fmt.Sprintf("age %d", o.D), "ok")
		case "sweept", "sweeps":
			before := ringNames(pv.DumpBounded(namer))
			var out string
			if o.Kind == "sweept" {
				out = pv.SweepByTime()
			} else {
				out = pv.SweepBySize()
			}
			if strings.HasPrefix(out, "PANIC") {
				step(o.Kind, o.Kind, "panic")
				fail(0, "panic", "the sweeper panicked: "+out, out, "no panic")
				panicked = true
			} else {
				step(o.Kind, o.Kind, out)
			}
			after := ringNames(pv.DumpBounded(namer))
			for n := range before {
				if !after[n] {
					k, _ := strconv.Atoi(strings.TrimPrefix(n, "j"))
					if held[k] > 0 {
						kinds[o.Kind+":dropped-busy"] = true
						r.dist = append(r.dist, o.Kind+":dropped-busy")
					} else {
						kinds[o.Kind+":closed-idle"] = true
						r.dist = append(r.dist, o.Kind+":closed-idle")
					}
				}
			}
		}
	}
	// end of life: give everything back, let everything expire, sweep: every partition must have been released exactly once
	if !panicked {
		for _, h := range hands {
			if !h.released && !panicked {
				doRelease(h)
			}
		}
	}
	if !panicked {
		for k := 0; k < 2; k++ {
			d := c.IdleTo + c.BusyTo + 35
			pv.AgeBounded(time.Duration(d) * time.Second)
			step(fmt.Sprintf("age %d", d), fmt.Sprintf("age %d", d), "ok")
			out := pv.SweepByTime()
			if strings.HasPrefix(out, "PANIC") {
				step("sweept", "sweept", "panic")
				fail(0, "panic", "the sweeper panicked: "+out, out, "no panic")
			} else {
				step("sweept", "sweept", out)
			}
		}
		d := pv.DumpBounded(namer)
		if !strings.HasPrefix(d, "ring=[] map=0 ") {
			fail(0, "not-empty-at-end", "after everything was released and expired the cache is not empty", d, "ring=[] map=0")
		}
	}
	// per cursor: the model's ghost counters against the factory's counters
	for n := 1; n <= f.Seq(); n++ {
		acq, rel := f.Net(n)
		r.steps = append(r.steps, stepRec{desc: fmt.Sprintf("closed j%d", n), lines: []string{fmt.Sprintf("closed %d", n)}, impl: []string{fmt.Sprintf("%d %d", acq, rel)}})
	}
	ks := []string{}
	for k := range kinds {
		ks = append(ks, k)
	}
	if len(ks) >= 4 {
		sortStrings(ks)
		r.nontriv = strings.Join(ks, ",")
	}
	return r
}

func sortStrings(a []string) {
	for i := 1; i < len(a); i++ {
		for j := i; j > 0 && a[j] < a[j-1]; j-- {
			a[j], a[j-1] = a[j-1], a[j]
		}
	}
}

// judge compares the collected steps with the model's answers and emits mismatches / spec failures.
// `closed` lines: the model prints "<acquired> <closed> <closeCalls> <held>", the implementation side has "<acq> <rel>".
func judge(section string, c interface{}, r *caseRun, outs []string, finding string, findingKinds map[string]bool, verbose bool) {
	k := 0
	firstBad := len(r.steps)
	for i, s := range r.steps {
		for j := range s.lines {
			m := outs[k]
			k++
			if strings.HasPrefix(s.lines[j], "closed ") {
				fs := strings.Fields(m)
				if len(fs) >= 2 {
					m = fs[0] + " " + fs[1]
				}
			}
			if verbose {
				fmt.Printf("%-58s impl=%-40s model=%s\n", s.lines[j], s.impl[j], m)
			}
			if m != s.impl[j] && i < firstBad {
				firstBad = i
				res.Mismatch(vh.Mismatch{Section: section, Function: "cursor.provider: " + s.desc + " / " + s.lines[j], Input: c, Impl: s.impl[j], Model: m})
			}
		}
	}
	for _, pf := range r.fails {
		f := pf.f
		f.ImplEqModel = pf.step < firstBad
		if finding != "" && f.ImplEqModel && findingKinds[f.Kind] && pf.inClass {
			f.Finding = finding
		}
		if verbose {
			fmt.Printf("SPEC-FAIL kind=%s finding=%q impl_eq_model=%v: %s\n", f.Kind, f.Finding, f.ImplEqModel, f.What)
		}
		res.SpecFail(f)
	}
}

func modelLines(r *caseRun) []string {
	var ls []string
	for _, s := range r.steps {
		ls = append(ls, s.lines...)
	}
	return ls
}

var f28Kinds = map[string]bool{"leak": true, "panic": true, "closed-while-live": true}
var f16Kinds = map[string]bool{"leak": true, "panic": true, "closed-while-live": true}

func judgeProvider(c pcase, r *caseRun, outs []string, verbose bool) {
	finding := ""
	if r.f28 {
		finding = "F28"
		if verbose {
			fmt.Println("class F28:", r.f28Desc)
		}
	}
	judge("provider", c, r, outs, finding, f28Kinds, verbose)
}

func genCase(rng *vh.Rng) pcase {
	c := pcase{MaxCurs: rng.Range(1, 4), IdleTo: 60, BusyTo: 300}
	switch rng.Intn(5) {
	case 0:
		c.IdleTo, c.BusyTo = 100, 200
	case 1:
		c.IdleTo, c.BusyTo = 300, 60
	}
	if rng.Chance(1, 10) {
		c.MaxCurs = 50
	}
	nops := rng.Range(6, 45)
	ncreated := 0
	for i := 0; i < nops; i++ {
		switch op := rng.Intn(14); {
		case op < 6:
			o := pop{Kind: "get", Cache: rng.Chance(3, 4)}
			if ncreated > 0 && rng.Chance(2, 3) {
				o.IdOf = rng.Range(1, ncreated)
				if rng.Chance(1, 2) { // recent ones are more interesting (still cached)
					o.IdOf = ncreated - rng.Intn(min(ncreated, 3))
				}
			}
			if rng.Chance(1, 12) {
				o.IdOf = -1
			}
			if rng.Chance(1, 6) {
				o.Q = 1
			}
			switch rng.Intn(8) {
			case 0:
				o.Pos = "garbage"
			case 1:
				o.Pos = ""
			default:
				o.Pos = "last"
			}
			if rng.Chance(1, 25) {
				o.NoSrc = true
			}
			ncreated++ // upper bound (not every get builds a cursor); out-of-range references mean "no id"
			c.Ops = append(c.Ops, o)
			if !o.Cache && rng.Chance(4, 5) { // un-cached cursors are short-lived: usually given back at once
				c.Ops = append(c.Ops, pop{Kind: "release", H: -1})
			}
		case op < 10:
			c.Ops = append(c.Ops, pop{Kind: "release", H: rng.Intn(8)})
		case op < 12:
			// multiples of 35 s: never on a timeout boundary (60/100/200/300 s), margins of >= 5 s of real time
			c.Ops = append(c.Ops, pop{Kind: "age", D: 35 * rng.PickI([]int{1, 2, 3, 6, 9})})
		case op == 12:
			c.Ops = append(c.Ops, pop{Kind: "sweept"})
		default:
			c.Ops = append(c.Ops, pop{Kind: "sweeps"})
		}
	}
	return c
}

func min(a, b int) int {
	if a < b {
		return a
	}
	return b
}

func sectionProvider(rng *vh.Rng) {
	sec := res.Section("provider", "system-correspondence",
		"random histories of 6..45 get/release/age/sweepByTime/sweepBySize steps (+ end of life: release all, expire, sweep) on the real cursor.provider with maxCurs 1..4 (sometimes 50), three timeout settings, ids 0 / of earlier cursors / unknown, two query texts, positions last/empty/garbage, cache on/off, no-sources; after every step outcome and ring dump vs the model and the release accounting vs the spec; non-trivial = a history that showed at least 4 different step outcomes, distinct by the set of outcomes")
	n := 8000
	if args.Thorough {
		n = 240000
	}
	workers := 8
	cases := make([]pcase, n)
	for i := range cases {
		cases[i] = genCase(rng)
	}
	var wg sync.WaitGroup
	chunk := (n + workers - 1) / workers
	for w := 0; w < workers; w++ {
		lo, hi := w*chunk, (w+1)*chunk
		if hi > n {
			hi = n
		}
		if lo >= hi {
			continue
		}
		wg.Add(1)
		go func(lo0, hi0 int) {
			defer wg.Done()
			for lo := lo0; lo < hi0; lo += 500 { // one driver batch per 500 histories
				hi := lo + 500
				if hi > hi0 {
					hi = hi0
				}
				runs := make([]*caseRun, 0, hi-lo)
				var lines []string
				for i := lo; i < hi; i++ {
					r := runProvider(cases[i], false)
					runs = append(runs, r)
					lines = append(lines, modelLines(r)...)
				}
				outs, err := vh.Batch(args.Driver, lines)
				if err != nil {
					res.Fatal(args.Out, "driver: %v", err)
				}
				k := 0
				for i, r := range runs {
					nl := len(modelLines(r))
					judgeProvider(cases[lo+i], r, outs[k:k+nl], false)
					k += nl
					res.Eval(sec, r.nontriv)
					for _, d := range r.dist {
						res.Dist(sec, d)
					}
					if r.f28 {
						res.Dist(sec, "history-in-class-F28")
					}
					res.Dist(sec, fmt.Sprintf("maxCurs=%d", cases[lo+i].MaxCurs))
					if lo+i < 2 {
						res.Sample(map[string]interface{}{"section": "provider", "input": cases[lo+i]})
					}
				}
			}
		}(lo, hi)
	}
	wg.Wait()
	res.Done(sec)
}

// ---------------------------------------------------------------------------------------------
// race

type raceCase struct {
	Kind string `json:"kind"` // cached-id | same-uncached-id | distinct-uncached-ids
	Free bool   `json:"free,omitempty"`
}

func runRace(c raceCase, verbose bool) {
	sec := res.Section("race", "system-correspondence", "two concurrent GetOrCreate calls: cached idle id (free-running goroutines: exactly one is served, the other refused), the same uncached id with both calls parked between the two locked sections by the factory gate (lookup1, lookup2, create1, create2, insert1, insert2, release1, release2 — finding F16), the control with two distinct uncached ids, a request naming a cached id while the previous request's Release is still committing (iterator Get parked): refused, and a refused request that carries another position while the cursor is in use: the request in flight continues from its own position; outcomes and ring dumps vs the model's split steps")
	f := NewFact()
	p, pv := cursor.NewProviderVerif(f, 100, 60*time.Second, 300*time.Second)
	names := map[cursor.Cursor]string{}
	namer := func(cu cursor.Cursor) string {
		if n, ok := names[cu]; ok {
			return n
		}
		return "unknown"
	}
	r := &caseRun{}
	add := func(desc, line, impl string) {
		r.steps = append(r.steps, stepRec{desc: desc, lines: []string{line, "dump"}, impl: []string{impl, pv.DumpBounded(namer)}})
	}
	fail := func(kind, what, impl, spec string) {
		r.fails = append(r.fails, pendingFail{step: len(r.steps) - 1, inClass: c.Kind == "same-uncached-id", f: vh.SpecFailure{Section: "race", Kind: kind, Input: c, Impl: impl, Spec: spec, What: what}})
	}
	r.steps = append(r.steps, stepRec{desc: "reset", lines: []string{"reset 100 60 300"}, impl: []string{"ok"}})
	finding := ""
	switch c.Kind {
	case "cached-id":
		a, err := p.GetOrCreate(ctx, cursor.State{Query: queries[0]}, true)
		if err != nil {
			res.Fatal(args.Out, "race: %v", err)
		}
		names[a] = "j1"
		add("get", fmt.Sprintf("get 0 0 0 0 ok 1 1 %d", a.Id()), "new 1")
		st := p.Release(ctx, a)
		add("release", "release 1", "idle")
		var wg sync.WaitGroup
		outs := make([]string, 2)
		curs := make([]cursor.Cursor, 2)
		start := make(chan struct{})
		for i := 0; i < 2; i++ {
			wg.Add(1)
			go func(i int) {
				defer wg.Done()
				<-start
				cu, err := p.GetOrCreate(ctx, cursor.State{Id: st.Id, Query: queries[0], Pos: st.Pos}, true)
				switch {
				case err != nil:
					outs[i] = "refused"
				case cu == a:
					outs[i] = "hit 1"
					curs[i] = cu
				default:
					outs[i] = "other"
					curs[i] = cu
				}
			}(i)
		}
		close(start)
		wg.Wait()
		served, refused := 0, 0
		for _, o := range outs {
			if o == "hit 1" {
				served++
			}
			if o == "refused" {
				refused++
			}
		}
		// model: the two first locked sections in either order give hit then refused
		sortStrings(outs)
		add("lookup (first to get the lock)", fmt.Sprintf("lookup %d 0 2 1", st.Id), outs[0]+fmt.Sprintf(" id=%d", st.Id))
		add("lookup (second)", fmt.Sprintf("lookup %d 0 2 1", st.Id), outs[1]+fmt.Sprintf(" id=%d", st.Id))
		if served != 1 || refused != 1 {
			fail("interleaved", "two concurrent requests for one cached cursor id were not served as exactly one + one refusal", fmt.Sprint(outs), "one served, one refused")
		}
		for _, cu := range curs {
			if cu != nil {
				pn := vh.Recover(func() { p.Release(ctx, cu) })
				out := "idle"
				if pn != "" {
					out = "panic"
					fail("panic", "Release panicked: "+pn, pn, "no panic")
				}
				add("release", "release 1", out)
				break
			}
		}
		if acq, rel := f.Net(1); acq != 1 || rel != 0 {
			fail("closed-while-live", "the cached cursor's partition accounting is off", fmt.Sprintf("acquired=%d released=%d", acq, rel), "1 0")
		}
	case "same-uncached-id", "distinct-uncached-ids":
		ids := []uint64{unknownID, unknownID}
		if c.Kind == "distinct-uncached-ids" {
			ids[1] = unknownID + 1
		} else {
			finding = "F16" // the class: two in-flight requests whose lookups both missed on the same id
		}
		f.Gate = make(chan chan struct{})
		curs := make([]cursor.Cursor, 2)
		errs := make([]error, 2)
		done := []chan struct{}{make(chan struct{}), make(chan struct{})}
		gates := make([]chan struct{}, 2)
		for i := 0; i < 2; i++ {
			go func(i int) {
				curs[i], errs[i] = p.GetOrCreate(ctx, cursor.State{Id: ids[i], Query: queries[0]}, true)
				close(done[i])
			}(i)
			// the call is past its first locked section (missed) and parked inside newCursor
			select {
			case gates[i] = <-f.Gate:
			case <-time.After(20 * time.Second):
				res.Fatal(args.Out, "race: request %d did not reach the factory gate", i)
			}
			add(fmt.Sprintf("lookup%d", i+1), fmt.Sprintf("lookup %d 0 0 0", ids[i]), fmt.Sprintf("miss id=%d", ids[i]))
		}
		held := []bool{false, false}
		for i := 0; i < 2; i++ {
			close(gates[i])
			select {
			case <-done[i]:
			case <-time.After(20 * time.Second):
				res.Fatal(args.Out, "race: request %d did not finish", i)
			}
			// create_i; insert_i
			r.steps = append(r.steps, stepRec{desc: fmt.Sprintf("create%d", i+1), lines: []string{fmt.Sprintf("create %d 0 0 ok %d 0", ids[i], i+1)}, impl: []string{fmt.Sprintf("cur %d", i+1)}})
			if errs[i] != nil || curs[i] == nil {
				// (a repaired second locked section would refuse the loser here)
				add(fmt.Sprintf("insert%d", i+1), fmt.Sprintf("insert %d", i+1), "laterefused")
				curs[i] = nil
				continue
			}
			held[i] = true
			names[curs[i]] = fmt.Sprintf("j%d", i+1)
			add(fmt.Sprintf("insert%d", i+1), fmt.Sprintf("insert %d", i+1), "cached")
		}
		f.Gate = nil
		check := func() {
			inRing := ringNames(pv.DumpBounded(namer))
			for n := 1; n <= 2; n++ {
				acq, rel := f.Net(n)
				live := held[n-1] || inRing[fmt.Sprintf("j%d", n)]
				if !live && acq-rel != 0 {
					fail("leak", fmt.Sprintf("cursor j%d is neither held by a request nor cached, yet its partition is still acquired (never released)", n), fmt.Sprintf("acquired=%d released=%d", acq, rel), "acquired-released = 0 when not live")
				}
				if live && acq-rel != 1 {
					fail("closed-while-live", fmt.Sprintf("cursor j%d live but released", n), fmt.Sprintf("acquired=%d released=%d", acq, rel), "1")
				}
				if rel > acq {
					fail("double-release", fmt.Sprintf("partition j%d released more often than acquired", n), fmt.Sprintf("acquired=%d released=%d", acq, rel), "released <= acquired")
				}
			}
		}
		check()
		for i := 0; i < 2; i++ {
			if curs[i] == nil {
				continue
			}
			_, before := f.Net(i + 1)
			pn := vh.Recover(func() { p.Release(ctx, curs[i]) })
			held[i] = false
			out := "idle"
			if pn != "" {
				out = "panic"
			} else if _, after := f.Net(i + 1); after > before {
				out = "closed"
			}
			add(fmt.Sprintf("release%d", i+1), fmt.Sprintf("release %d", i+1), out)
			if pn != "" {
				fail("panic", "Release panicked (a panic in a request handler ends the server): "+pn, pn, "no panic")
			}
			check()
		}
		// (had the process survived the panic:) everything expires, the sweeper runs twice
		for k := 0; k < 2; k++ {
			pv.AgeBounded(400 * time.Second)
			add("age", "age 400", "ok")
			add("sweept", "sweept", strings.ToLower(strings.Fields(pv.SweepByTime())[0]))
			check()
		}
		for n := 1; n <= 2; n++ {
			acq, rel := f.Net(n)
			r.steps = append(r.steps, stepRec{desc: fmt.Sprintf("closed j%d", n), lines: []string{fmt.Sprintf("closed %d", n)}, impl: []string{fmt.Sprintf("%d %d", acq, rel)}})
		}
	case "refused-other-position":
		// request A uses the cached cursor (position PA); request B names the same id with ANOTHER well-formed position and
		// is refused; A then goes on: it must continue from ITS position — a refused request must leave no trace. Sequential
		// and deterministic: "A is in flight" simply means that A has not released the cursor yet.
		a, err := p.GetOrCreate(ctx, cursor.State{Query: queries[0]}, true)
		if err != nil {
			res.Fatal(args.Out, "race: %v", err)
		}
		names[a] = "j1"
		add("get", fmt.Sprintf("get 0 0 0 0 ok 1 1 %d", a.Id()), "new 1")
		st := p.Release(ctx, a)
		add("release", "release 1", "idle")
		posA := "j1=" + journal.Pos{CId: 7, Idx: 3}.String()
		posB := "j1=" + journal.Pos{CId: 7, Idx: 9}.String()
		a2, err := p.GetOrCreate(ctx, cursor.State{Id: st.Id, Query: queries[0], Pos: posA}, true)
		outA := "refused"
		if err == nil {
			outA = "other"
			if a2 == a {
				outA = "hit 1"
			}
		}
		add("lookup (request A, position PA)", fmt.Sprintf("lookup %d 0 3 1", st.Id), outA+fmt.Sprintf(" id=%d", st.Id))
		if a2 != a {
			fail("interleaved", "the request naming the idle cached cursor did not get it", outA, "hit")
			break
		}
		if got := a2.State(ctx).Pos; got != posA {
			fail("position", "the cached cursor does not stand at the position the request supplied", got, posA)
		}
		b, errB := p.GetOrCreate(ctx, cursor.State{Id: st.Id, Query: queries[0], Pos: posB}, true)
		outB := "refused"
		if errB == nil {
			outB = "served"
		}
		add("lookup (request B, other position, while A is in flight)", fmt.Sprintf("lookup %d 0 4 1", st.Id), outB+fmt.Sprintf(" id=%d", st.Id))
		if errB == nil {
			fail("interleaved", "a concurrent request for a busy cursor id was served", "served", "refused")
			if b != nil && b != a {
				vh.Recover(func() { p.Release(ctx, b) })
			}
		}
		// A goes on reading: from where?
		if got := a2.State(ctx).Pos; got != posA {
			fail("interleaved", "a REFUSED concurrent request repositioned the busy cursor: the request in flight continues from the refused request's position (records skipped or delivered twice)", got, posA)
		}
		pn := vh.Recover(func() {
			if stA := p.Release(ctx, a2); stA.Pos != posA {
				fail("interleaved", "the state returned to request A carries the refused request's position", stA.Pos, posA)
			}
		})
		out := "idle"
		if pn != "" {
			out = "panic"
			fail("panic", "Release panicked: "+pn, pn, "no panic")
		}
		add("release", "release 1", out)
	case "release-in-progress":
		// request 1 is still inside Release (its commit reads the cursor: the iterator's Get is slow) when request 2
		// names the same id: it must be refused — the cursor may only become available when its user is done with it
		a, err := p.GetOrCreate(ctx, cursor.State{Query: queries[0]}, true)
		if err != nil {
			res.Fatal(args.Out, "race: %v", err)
		}
		names[a] = "j1"
		add("get", fmt.Sprintf("get 0 0 0 0 ok 1 1 %d", a.Id()), "new 1")
		gate := make(chan chan struct{}, 1)
		f.mu.Lock()
		f.GetGate = gate
		f.mu.Unlock()
		relDone := make(chan string, 1)
		go func() { relDone <- vh.Recover(func() { p.Release(ctx, a) }) }()
		var goAhead chan struct{}
		select {
		case goAhead = <-gate:
		case pn := <-relDone:
			// Release no longer reads the cursor at all: nothing to interleave with
			f.mu.Lock()
			f.GetGate = nil
			f.mu.Unlock()
			relDone <- pn
		case <-time.After(20 * time.Second):
			res.Fatal(args.Out, "race: Release neither finished nor reached the iterator")
		}
		if goAhead != nil {
			type gr struct {
				cu  cursor.Cursor
				err error
			}
			got := make(chan gr, 1)
			go func() {
				cu, err := p.GetOrCreate(ctx, cursor.State{Id: a.Id(), Query: queries[0]}, true)
				got <- gr{cu, err}
			}()
			var g gr
			select {
			case g = <-got:
			case <-time.After(20 * time.Second):
				res.Fatal(args.Out, "race: the concurrent request did not return")
			}
			out := "refused"
			if g.err == nil {
				out = "other"
				if g.cu == a {
					out = "hit 1"
				}
			}
			add("lookup while Release is in progress", fmt.Sprintf("lookup %d 0 0 0", a.Id()), out+fmt.Sprintf(" id=%d", a.Id()))
			if g.err == nil {
				fail("interleaved", "a request obtained the cached cursor while the previous request's Release was still reading it (two users at a time)", out, "refused")
			}
			close(goAhead)
			if g.err == nil && g.cu != nil {
				defer func() { vh.Recover(func() { p.Release(ctx, g.cu) }) }()
			}
		}
		select {
		case pn := <-relDone:
			out := "idle"
			if pn != "" {
				out = "panic"
				fail("panic", "Release panicked: "+pn, pn, "no panic")
			}
			add("release", "release 1", out)
		case <-time.After(20 * time.Second):
			res.Fatal(args.Out, "race: Release did not finish")
		}
	default:
		res.Note("race: unknown case kind %q", c.Kind)
		return
	}
	outs, err := vh.Batch(args.Driver, modelLines(r))
	if err != nil {
		res.Fatal(args.Out, "driver: %v", err)
	}
	judge("race", c, r, outs, finding, f16Kinds, verbose)
	res.Eval(sec, c.Kind)
	res.Dist(sec, c.Kind)
}

func sectionRace() {
	n := 30
	if args.Thorough {
		n = 400
	}
	for i := 0; i < n; i++ {
		runRace(raceCase{Kind: "cached-id"}, false)
	}
	for i := 0; i < n/10+1; i++ {
		runRace(raceCase{Kind: "same-uncached-id"}, false)
		runRace(raceCase{Kind: "distinct-uncached-ids"}, false)
		runRace(raceCase{Kind: "release-in-progress"}, false)
		runRace(raceCase{Kind: "refused-other-position"}, false)
	}
	res.Done(res.Section("race", "", ""))
}

// ---------------------------------------------------------------------------------------------
// ring: real container.CLElement vs Model/Ring

type ringOp struct {
	Op string `json:"op"` // append | tearoff | prev | next | nextfield | len
	A  int    `json:"a"`  // element (its ring is the receiver; for append/tearoff/len the ring is used through its head)
	B  int    `json:"b"`  // append: an element of the chain (-1 = nil); tearoff: the element to remove (-1 = nil)
}
type ringCase struct {
	N   int      `json:"n"`
	Ops []ringOp `json:"ops"`
}

func walkNext(h *container.CLElement) []int {
	if h == nil {
		return nil
	}
	r := []int{h.Val.(int)}
	for e := h.VerifNextField(); e != h && len(r) < 100; e = e.VerifNextField() {
		r = append(r, e.Val.(int))
	}
	return r
}
func walkPrev(h *container.CLElement) []int {
	if h == nil {
		return nil
	}
	r := []int{h.Val.(int)}
	for e := h.VerifPrevField(); e != h && len(r) < 100; e = e.VerifPrevField() {
		r = append(r, e.Val.(int))
	}
	return r
}
func ringStr(r []int) string {
	if len(r) == 0 {
		return "-"
	}
	s := make([]string, len(r))
	for i, x := range r {
		s[i] = strconv.Itoa(x)
	}
	return strings.Join(s, ",")
}

func runRing(c ringCase) (lines, impls []string, bad string) {
	els := make([]*container.CLElement, c.N)
	head := make([]*container.CLElement, c.N) // head[i] = the head of the ring element i belongs to (as the harness holds it)
	for i := range els {
		els[i] = container.NewCLElement()
		els[i].Val = i
		head[i] = els[i]
	}
	setHead := func(h *container.CLElement) {
		for _, x := range walkNext(h) {
			head[x] = h
		}
	}
	for _, o := range c.Ops {
		a := o.A % c.N
		ha := head[a]
		la := walkNext(ha)
		switch o.Op {
		case "append":
			var hb *container.CLElement
			if o.B >= 0 {
				hb = head[o.B%c.N]
				if hb == ha {
					continue // appending a ring to itself is not a use the model describes
				}
			}
			lb := walkNext(hb)
			r := ha.Append(hb)
			lines = append(lines, fmt.Sprintf("ring.append %s %s", ringStr(la), ringStr(lb)))
			impls = append(impls, ringStr(walkNext(r)))
			setHead(r)
		case "tearoff":
			var e *container.CLElement
			es := "nil"
			if o.B >= 0 {
				// an element of the same ring
				e = els[la[o.B%len(la)]]
				es = strconv.Itoa(e.Val.(int))
			}
			r := ha.TearOff(e)
			lines = append(lines, fmt.Sprintf("ring.tearoff %s %s", ringStr(la), es))
			impls = append(impls, ringStr(walkNext(r)))
			if e != nil {
				setHead(e)
				if len(walkNext(e)) != 1 {
					bad = "a torn-off element is not a ring of its own"
				}
			}
			if r != nil {
				setHead(r)
			}
		case "prev":
			lines = append(lines, fmt.Sprintf("ring.prev %s %d", ringStr(la), a))
			impls = append(impls, strconv.Itoa(els[a].Prev().Val.(int)))
		case "next":
			lines = append(lines, fmt.Sprintf("ring.next %s %d", ringStr(la), a))
			impls = append(impls, strconv.Itoa(els[a].Next().Val.(int)))
		case "nextfield":
			lines = append(lines, fmt.Sprintf("ring.nextfield %s %d", ringStr(la), a))
			impls = append(impls, strconv.Itoa(els[a].VerifNextField().Val.(int)))
		case "len":
			if len(la) >= 100 {
				// (the real Len() would never return on a next chain that does not come back to its start)
				bad = fmt.Sprintf("the next chain of element %d does not return to its start", a)
				return
			}
			lines = append(lines, fmt.Sprintf("ring.len %s", ringStr(la)))
			impls = append(impls, strconv.Itoa(ha.Len()))
		}
		// the two pointer chains of every ring describe the same cycle
		for i := range els {
			fw, bw := walkNext(els[i]), walkPrev(els[i])
			if len(fw) != len(bw) {
				bad = fmt.Sprintf("next chain %v and prev chain %v of element %d differ in length", fw, bw, i)
			} else {
				for k := 1; k < len(fw); k++ {
					if fw[k] != bw[len(bw)-k] {
						bad = fmt.Sprintf("next chain %v is not the reverse of prev chain %v", fw, bw)
					}
				}
			}
		}
		if bad != "" {
			return // a broken ring: later operations on it may not even terminate
		}
	}
	return
}

func genRing(rng *vh.Rng) ringCase {
	c := ringCase{N: rng.Range(1, 6)}
	n := rng.Range(3, 30)
	for i := 0; i < n; i++ {
		o := ringOp{A: rng.Intn(c.N), B: rng.Intn(c.N)}
		switch k := rng.Intn(12); {
		case k < 4:
			o.Op = "append"
			if rng.Chance(1, 10) {
				o.B = -1
			}
		case k < 7:
			o.Op = "tearoff"
			if rng.Chance(1, 10) {
				o.B = -1
			}
		case k == 7:
			o.Op = "prev"
		case k == 8 || k == 9:
			o.Op = "next"
		case k == 10:
			o.Op = "nextfield"
		default:
			o.Op = "len"
		}
		c.Ops = append(c.Ops, o)
	}
	return c
}

func judgeRing(c ringCase, lines, impls []string, bad string, outs []string, verbose bool) {
	for i := range outs {
		if verbose {
			fmt.Printf("%-50s impl=%-20s model=%s\n", lines[i], impls[i], outs[i])
		}
		if outs[i] != impls[i] {
			res.Mismatch(vh.Mismatch{Section: "ring", Function: "container.CLElement: " + lines[i], Input: c, Impl: impls[i], Model: outs[i]})
			break
		}
	}
	if bad != "" {
		res.SpecFail(vh.SpecFailure{Section: "ring", Kind: "ring-broken", Input: c, Impl: bad, Spec: "one cycle, next chain = reversed prev chain", What: "CLElement ring structure is inconsistent: " + bad})
	}
}

func sectionRing(rng *vh.Rng) {
	sec := res.Section("ring", "unit-correspondence", "random sequences of 3..30 Append/TearOff/Prev/Next/next-field/Len operations over 1..6 real CLElements (rings merge and split; nil arguments included), every result compared with Model/Ring and the real next/prev chains checked to be one cycle; non-trivial = an operation on a ring of at least 2 elements, distinct by request line")
	n := 3000
	if args.Thorough {
		n = 60000
	}
	var all []string
	var allImpl []string
	type span struct {
		c      ringCase
		lo, hi int
		bad    string
	}
	var spans []span
	for i := 0; i < n; i++ {
		c := genRing(rng)
		l, im, bad := runRing(c)
		spans = append(spans, span{c, len(all), len(all) + len(l), bad})
		all = append(all, l...)
		allImpl = append(allImpl, im...)
		if i < 1 {
			res.Sample(map[string]interface{}{"section": "ring", "input": c})
		}
	}
	outs, err := vh.Batch(args.Driver, all)
	if err != nil {
		res.Fatal(args.Out, "driver: %v", err)
	}
	for _, s := range spans {
		judgeRing(s.c, all[s.lo:s.hi], allImpl[s.lo:s.hi], s.bad, outs[s.lo:s.hi], false)
		for _, l := range all[s.lo:s.hi] {
			key := ""
			fs := strings.Fields(l)
			if len(fs) > 1 && strings.Contains(fs[1], ",") {
				key = l
			}
			res.Eval(sec, key)
			res.Dist(sec, fs[0])
		}
	}
	res.Done(sec)
}

// ---------------------------------------------------------------------------------------------
// ringptr: container.CLElement at POINTER level — the raw next/prev fields after every Append/TearOff

type ptrOp struct {
	Op string `json:"op"` // A = x.Append(y), T = x.TearOff(y)
	X  int    `json:"x"`
	Y  int    `json:"y"` // -1 = nil
}
type ptrCase struct {
	N   int     `json:"n"`
	Ops []ptrOp `json:"ops"`
}

func (c ptrCase) line() string {
	ops := make([]string, len(c.Ops))
	for i, o := range c.Ops {
		y := "-"
		if o.Y >= 0 {
			y = strconv.Itoa(o.Y % c.N)
		}
		ops[i] = fmt.Sprintf("%s%d:%s", o.Op, o.X%c.N, y)
	}
	return fmt.Sprintf("pring %d %s", c.N, strings.Join(ops, ","))
}

// runPtr performs the operations on real cells and dumps, after each, the returned cell and every cell's next/prev field.
// Calls outside the contract of clist.go are dropped (Append of a ring to itself, TearOff of a cell of another ring): there
// the outcome depends on the order of the field writes, which a harmless rewrite of clist.go may change. The cases that
// were performed are returned as the case to send to the model.
func runPtr(c ptrCase) (ptrCase, string) {
	kept := ptrCase{N: c.N}
	els := make([]*container.CLElement, c.N)
	for i := range els {
		els[i] = container.NewCLElement()
		els[i].Val = i
	}
	name := func(e *container.CLElement) string {
		if e == nil {
			return "-"
		}
		return strconv.Itoa(e.Val.(int))
	}
	inRing := func(h *container.CLElement, e *container.CLElement) bool {
		for _, x := range walkNext(h) {
			if els[x] == e {
				return true
			}
		}
		return false
	}
	var out []string
	for _, o := range c.Ops {
		x := els[o.X%c.N]
		var y *container.CLElement
		if o.Y >= 0 {
			y = els[o.Y%c.N]
		}
		var r *container.CLElement
		if o.Op == "A" {
			if y != nil && inRing(x, y) {
				continue
			}
			r = x.Append(y)
		} else {
			if y != nil && !inRing(x, y) {
				continue
			}
			r = x.TearOff(y)
		}
		kept.Ops = append(kept.Ops, o)
		fs := make([]string, c.N)
		for i, e := range els {
			fs[i] = name(e.VerifNextField()) + "." + name(e.VerifPrevField())
		}
		out = append(out, "r="+name(r)+" "+strings.Join(fs, " "))
	}
	return kept, strings.Join(out, ";")
}

// genPtr: any cell on any cell, nil arguments; runPtr drops what is outside the contract
func genPtr(rng *vh.Rng) ptrCase {
	c := ptrCase{N: rng.Range(1, 7)}
	n := rng.Range(3, 30)
	for i := 0; i < n; i++ {
		o := ptrOp{Op: "A", X: rng.Intn(c.N), Y: rng.Intn(c.N)}
		if rng.Chance(1, 2) {
			o.Op = "T"
		}
		if rng.Chance(1, 12) {
			o.Y = -1
		}
		c.Ops = append(c.Ops, o)
	}
	return c
}

func judgePtr(c ptrCase, impl, model string, verbose bool) {
	if verbose {
		fmt.Printf("%s\n impl =%s\n model=%s\n", c.line(), impl, model)
	}
	if impl != model {
		res.Mismatch(vh.Mismatch{Section: "ringptr", Function: "container.CLElement next/prev fields: " + c.line(), Input: c, Impl: impl, Model: model})
	}
}

func sectionRingPtr(rng *vh.Rng) {
	sec := res.Section("ringptr", "unit-correspondence", "random sequences of up to 30 Append/TearOff calls on 1..7 real CLElements (any cell — head or not — with any other ring / any member of its ring, nil arguments; calls outside the contract of clist.go are dropped); after EVERY call the returned cell and the raw next/prev fields of every cell are compared with the pointer-level model Model/RingPtr (the one proved to refine the list-level ring); non-trivial = at least 2 cells, distinct by request line")
	n := 3000
	if args.Thorough {
		n = 60000
	}
	var cases []ptrCase
	for _, f := range vh.CorpusFiles(args.Corpus) {
		var rp struct {
			Section string  `json:"section"`
			Input   ptrCase `json:"input"`
		}
		if vh.ReadJSON(f, &rp) == nil && rp.Section == "ringptr" && rp.Input.N > 0 {
			cases = append(cases, rp.Input)
		}
	}
	for i := 0; i < n; i++ {
		cases = append(cases, genPtr(rng))
	}
	var lines, impls []string
	var done []ptrCase
	for _, c := range cases {
		k, im := runPtr(c)
		if len(k.Ops) == 0 {
			continue
		}
		done = append(done, k)
		impls = append(impls, im)
		lines = append(lines, k.line())
	}
	cases = done
	res.Sample(map[string]interface{}{"section": "ringptr", "input": cases[len(cases)-1]})
	outs, err := vh.Batch(args.Driver, lines)
	if err != nil {
		res.Fatal(args.Out, "driver: %v", err)
	}
	for i, c := range cases {
		judgePtr(c, impls[i], outs[i], false)
		key := ""
		if c.N >= 2 {
			key = lines[i]
		}
		res.Eval(sec, key)
		for _, o := range c.Ops {
			k := o.Op
			if o.Y < 0 {
				k += ":nil"
			} else if o.X%c.N == o.Y%c.N {
				k += ":self"
			}
			res.Dist(sec, k)
		}
	}
	res.Done(sec)
}

// ---------------------------------------------------------------------------------------------
// consts: NewProvider's knobs vs the regenerated constants

func sectionConsts() {
	sec := res.Section("consts", "unit-correspondence", "maxCurs/idleTo/busyTo of cursor.NewProvider() vs lean/Logrange/Generated/C15.lean; the model's free-pool cap vs the regenerated one")
	pv, ok := cursor.ProviderVerifOf(cursor.NewProvider())
	if !ok {
		res.Fatal(args.Out, "consts: NewProvider is not a *provider")
	}
	m, i, b := pv.Knobs()
	outs, err := vh.Batch(args.Driver, []string{"consts"})
	if err != nil {
		res.Fatal(args.Out, "driver: %v", err)
	}
	fs := map[string]string{}
	for _, kv := range strings.Fields(outs[0]) {
		p := strings.SplitN(kv, "=", 2)
		if len(p) == 2 {
			fs[p[0]] = p[1]
		}
	}
	impl := fmt.Sprintf("maxCurs=%d idleTo=%d busyTo=%d", m, int(i/time.Second), int(b/time.Second))
	mod := fmt.Sprintf("maxCurs=%s idleTo=%s busyTo=%s", fs["maxCurs"], fs["idleTo"], fs["busyTo"])
	if impl != mod {
		res.Mismatch(vh.Mismatch{Section: "consts", Function: "cursor.NewProvider knobs", Input: nil, Impl: impl, Model: mod})
	}
	if fs["freeCap"] != fs["modelFreeCap"] {
		res.Mismatch(vh.Mismatch{Section: "consts", Function: "sweepByTime free pool cap", Input: nil, Impl: fs["freeCap"], Model: fs["modelFreeCap"]})
	}
	res.Eval(sec, "knobs")
	res.Done(sec)
}

// ---------------------------------------------------------------------------------------------
// free pool: more cursors than the cap of 1000 expire at once (the cap branch of sweepByTime)

func sectionFreePool() {
	sec := res.Section("freepool", "system-correspondence", "1100 cached cursors expire in one sweepByTime pass (free pool capped at 1000), then 1100 more are cached (pool drained, fresh elements allocated) and expire; dumps vs the model")
	r := runProvider(freePoolCase(), true)
	outs, err := vh.Batch(args.Driver, modelLines(r))
	if err != nil {
		res.Fatal(args.Out, "driver: %v", err)
	}
	judgeProvider(pcase{MaxCurs: 5000, IdleTo: 60, BusyTo: 300, Ops: []pop{{Kind: "freepool-scenario"}}}, r, outs, false)
	res.Eval(sec, "cap")
	res.Done(sec)
}

func freePoolCase() pcase {
	c := pcase{MaxCurs: 5000, IdleTo: 60, BusyTo: 300}
	for round := 0; round < 2; round++ {
		for i := 0; i < 1100; i++ {
			c.Ops = append(c.Ops, pop{Kind: "get", Cache: true})
		}
		for i := 0; i < 1100; i++ {
			c.Ops = append(c.Ops, pop{Kind: "release", H: 0})
		}
		c.Ops = append(c.Ops, pop{Kind: "age", D: 70}, pop{Kind: "sweept"})
	}
	return c
}

// ---------------------------------------------------------------------------------------------

type replayDoc struct {
	Section string          `json:"section"`
	Input   json.RawMessage `json:"input"`
}

func runDoc(rp replayDoc, verbose bool) bool {
	switch rp.Section {
	case "provider":
		var c pcase
		if err := json.Unmarshal(rp.Input, &c); err != nil || c.MaxCurs == 0 {
			return false
		}
		orig, sparse := c, false
		if len(c.Ops) == 1 && c.Ops[0].Kind == "freepool-scenario" {
			c, sparse = freePoolCase(), true
		}
		r := runProvider(c, sparse)
		outs, err := vh.Batch(args.Driver, modelLines(r))
		if err != nil {
			res.Fatal(args.Out, "driver: %v", err)
		}
		judgeProvider(orig, r, outs, verbose && !sparse)
	case "race":
		var c raceCase
		if err := json.Unmarshal(rp.Input, &c); err != nil {
			return false
		}
		runRace(c, verbose)
	case "ring":
		var c ringCase
		if err := json.Unmarshal(rp.Input, &c); err != nil || c.N == 0 {
			return false
		}
		l, im, bad := runRing(c)
		outs, err := vh.Batch(args.Driver, l)
		if err != nil {
			res.Fatal(args.Out, "driver: %v", err)
		}
		judgeRing(c, l, im, bad, outs, verbose)
	case "ringptr":
		var c ptrCase
		if err := json.Unmarshal(rp.Input, &c); err != nil || c.N == 0 {
			return false
		}
		c, impl := runPtr(c)
		if len(c.Ops) == 0 {
			return true
		}
		outs, err := vh.Batch(args.Driver, []string{c.line()})
		if err != nil {
			res.Fatal(args.Out, "driver: %v", err)
		}
		judgePtr(c, impl, outs[0], verbose)
	case "system":
		var c sysCase
		if err := json.Unmarshal(rp.Input, &c); err != nil || len(c.Progs) == 0 {
			return false
		}
		runSystem(c, verbose)
	default:
		return false
	}
	return true
}

// ---------------------------------------------------------------------------------------------
// system: the real provider on the in-process server, real partitions (partition.Service.GetJournals below newCursor)

type sysCase struct {
	Progs []string `json:"progs"` // cached | cached-two | uncached | badpos | badpos-cached | badquery | toomany | rpc-paged
}

var sysProgs = []string{"cached", "uncached", "badpos", "badpos-cached", "badquery", "toomany", "rpc-paged", "cached-two"}

// runSystem: after every program each partition's reader count (tag index) must be 0 again — every cursor of the program
// was released un-cached or has expired —, a cached idle cursor holds its partitions, nothing panics, every program returns.
func runSystem(c sysCase, verbose bool) {
	sec := res.Section("system", "spec-search", "the real cursor.Provider of the in-process server over real partitions (partition.Service.GetJournals and the tag index below newCursor): cached / un-cached cursor life cycles (release, next page, idle expiry through the export), a position that cannot be applied (un-cached, cached), an unparsable query, more than 50 partitions (GetJournals' limit path), paged reading over RPC; after every program every partition's reader count is 0 again, a cached idle cursor still holds its partitions, nothing panics, every program returns within 30 s; non-trivial = at least 2 programs, distinct by program list")
	dir := lrsrv.NewDir()
	defer os.RemoveAll(dir)
	srv, err := lrsrv.Start(dir, lrsrv.Opts{})
	if err != nil {
		res.Note("system: %v", err)
		return
	}
	defer func() { vh.WithTimeout(3*time.Second, srv.Stop) }()
	pv, _ := cursor.ProviderVerifOf(srv.Cursors)
	for i := 0; i < 3; i++ {
		var wr api.WriteResult
		srv.Client.Write(ctx, fmt.Sprintf("c15=p%d", i), "", []*api.LogEvent{{Timestamp: 1, Message: "a"}, {Timestamp: 2, Message: "b"}, {Timestamp: 3, Message: "c"}}, &wr)
	}
	srv.FlushWait()
	q := "select from c15 like \"p*\" limit 10"
	manyMade := false
	fail := func(kind, what, impl, spec string, upto int) {
		res.SpecFail(vh.SpecFailure{Section: "system", Kind: kind, Input: sysCase{Progs: c.Progs[:upto+1]}, Impl: impl, Spec: spec, What: what})
	}
	counts := func() (string, bool) {
		bad := false
		out := []string{}
		for _, src := range tindex.VerifSources(srv.TIndex) {
			r, x, _ := tindex.VerifState(srv.TIndex, src)
			if r != 0 || x {
				bad = true
			}
			out = append(out, fmt.Sprintf("%d", r))
		}
		return strings.Join(out, " "), bad
	}
	expire := func() {
		pv.AgeBounded(400 * time.Second)
		pv.SweepByTime()
		pv.AgeBounded(400 * time.Second)
		pv.SweepByTime()
	}
	for pi, pr := range c.Progs {
		res.Dist(sec, pr)
		pnc := ""
		done := vh.WithTimeout(30*time.Second, func() {
			pnc = vh.Recover(func() {
				switch pr {
				case "cached", "cached-two":
					cu, err := srv.Cursors.GetOrCreate(ctx, cursor.State{Query: q}, true)
					if err != nil || cursor.IsEmptyCurVerif(cu) {
						return
					}
					for _, src := range tindex.VerifSources(srv.TIndex) {
						if r, _, _ := tindex.VerifState(srv.TIndex, src); r > 1 {
							fail("leak", "a partition is acquired more than once by one cursor", fmt.Sprint(r), "1", pi)
						}
					}
					st := srv.Cursors.Release(ctx, cu)
					if pr == "cached-two" {
						// the next page of the kept cursor
						if cu2, err := srv.Cursors.GetOrCreate(ctx, cursor.State{Id: st.Id, Query: q, Pos: st.Pos}, true); err == nil {
							srv.Cursors.Release(ctx, cu2)
						}
					}
					if _, bad := counts(); !bad {
						fail("closed-while-live", "a cached idle cursor no longer holds its partitions", "readers 0", "1", pi)
					}
					expire()
				case "uncached":
					if cu, err := srv.Cursors.GetOrCreate(ctx, cursor.State{Query: q}, false); err == nil {
						srv.Cursors.Release(ctx, cu)
					}
				case "badpos", "badpos-cached":
					if cu, err := srv.Cursors.GetOrCreate(ctx, cursor.State{Query: q, Pos: "garbage"}, pr == "badpos-cached"); err == nil {
						srv.Cursors.Release(ctx, cu)
						expire()
					}
				case "badquery":
					srv.Cursors.GetOrCreate(ctx, cursor.State{Query: "select from from"}, true)
				case "toomany":
					if !manyMade {
						manyMade = true
						for i := 0; i < 52; i++ {
							if src, _, err := srv.TIndex.GetOrCreateJournal(fmt.Sprintf("c15=m%d", i)); err == nil {
								srv.TIndex.Release(src)
							}
						}
					}
					if cu, err := srv.Cursors.GetOrCreate(ctx, cursor.State{Query: "select from c15 like \"m*\" limit 1"}, true); err == nil {
						fail("limit", "a cursor over more than 50 partitions was built", "cursor", "error", pi)
						srv.Cursors.Release(ctx, cu)
						expire()
					}
				case "rpc-paged":
					var qr api.QueryResult
					if err := srv.Client.Query(ctx, &api.QueryRequest{Query: q, Limit: 2}, &qr); err == nil && qr.Err == nil {
						next := qr.NextQueryRequest
						var qr2 api.QueryResult
						srv.Client.Query(ctx, &next, &qr2)
					}
					expire()
				}
			})
		})
		if !done {
			fail("deadlock", "program "+pr+" did not return within 30 s", "hangs", "returns", pi)
			return
		}
		if pnc != "" {
			fail("panic", "program "+pr+" panicked (a panic in a request handler ends the server)", pnc, "no panic", pi)
			return
		}
		st, bad := "", false
		if !vh.WithTimeout(10*time.Second, func() { st, bad = counts() }) {
			fail("deadlock", "the tag index does not answer after program "+pr, "hangs", "answers", pi)
			return
		}
		if bad {
			fail("leak", "after program "+pr+" a partition is still acquired although no cursor is alive (or it is exclusively locked)", st, "all readers 0", pi)
			return
		}
	}
	key := ""
	if len(c.Progs) >= 2 {
		key = fmt.Sprint(c.Progs)
	}
	res.Eval(sec, key)
	if verbose {
		fmt.Println("system:", c.Progs, "ok")
	}
}

func sectionSystem(rng *vh.Rng) {
	n := 12
	if args.Thorough {
		n = 120
	}
	cases := []sysCase{{Progs: []string{"toomany", "cached"}}, {Progs: []string{"badpos", "badpos-cached", "badquery", "uncached"}}}
	for i := 0; i < n; i++ {
		c := sysCase{}
		for j, k := 0, rng.Range(2, 6); j < k; j++ {
			c.Progs = append(c.Progs, rng.PickS(sysProgs))
		}
		cases = append(cases, c)
	}
	var wg sync.WaitGroup
	sem := make(chan struct{}, 6)
	for _, c := range cases {
		wg.Add(1)
		sem <- struct{}{}
		go func(c sysCase) {
			defer wg.Done()
			defer func() { <-sem }()
			runSystem(c, false)
		}(c)
	}
	wg.Wait()
	res.Done(res.Section("system", "", ""))
}

func sectionCorpus() {
	sec := res.Section("corpus", "corpus", "recorded witnesses (corpus/C15/*.json: the findings' minimal histories), replayed first on every run")
	for _, fn := range vh.CorpusFiles(args.Corpus) {
		var rp replayDoc
		if err := vh.ReadJSON(fn, &rp); err != nil {
			res.Note("corpus: %s: %v", fn, err)
			continue
		}
		if runDoc(rp, false) {
			res.Eval(sec, fn)
		} else {
			res.Note("corpus: %s not understood", fn)
		}
	}
	res.Done(sec)
}

func main() {
	log4g.SetLogLevel("", log4g.FATAL)
	args = vh.ParseArgs()
	res = vh.NewResult("C15", args)
	if args.Replay != "" {
		var rp replayDoc
		if err := vh.ReadJSON(args.Replay, &rp); err != nil {
			res.Fatal(args.Out, "replay: %v", err)
		}
		if !runDoc(rp, true) {
			res.Note("replay: section %q has no single-input replay; re-run the check with the recorded seed", rp.Section)
		}
		res.Write(args.Out)
		return
	}
	rng := vh.NewRng(args.Seed)
	sectionCorpus()
	sectionConsts()
	sectionRing(rng.Fork("ring"))
	sectionRingPtr(rng.Fork("ringptr"))
	sectionProvider(rng.Fork("provider"))
	sectionFreePool()
	sectionRace()
	sectionSystem(rng.Fork("system"))
	res.Write(args.Out)
}
