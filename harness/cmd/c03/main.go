// C03 harness — paged and resumed reading delivers every matching event exactly once.
//
// Sections
//
//	posstr    unit: journal.Pos.String / journal.ParsePos vs the model (showPos / parsePos), boundaries + malformed
//	jiter     unit/step-level: the library journal.JIterator and partition.JIterator on real journals vs the
//	          model, op by op (get/next/setpos/release/backward/append/pos) + SPEC: a forward drain delivers
//	          exactly recordsFrom(position)
//	scripted  unit: partition.JIterator over a journal whose Count() answers are scripted (a writer confirming
//	          records between two reads): no record may be skipped (53beb1f)
//	paging    system: histories on the in-process server, Query chained in four resume modes with changing
//	          limits and appends between pages — SPEC (concatenation = one read: multiset, per-partition
//	          order, exact for one partition) and MODEL (Querier.Query loop + provider, page by page)
//	resend    system: same request id re-sent with an older position (finding F22 class, and its complement)
package main

import (
	"context"
	"encoding/json"
	"fmt"
	"io"
	"os"
	"sort"
	"strconv"
	"strings"
	"sync"
	"time"

	"github.com/logrange/logrange/api"
	"github.com/logrange/logrange/pkg/cursor"
	"github.com/logrange/logrange/pkg/model"
	"github.com/logrange/logrange/pkg/partition"
	"github.com/logrange/logrange/pkg/tmindex"
	"github.com/logrange/range/pkg/records"
	"github.com/logrange/range/pkg/records/chunk"
	"github.com/logrange/range/pkg/records/journal"
	"verifharness/internal/lrsrv"
	"verifharness/internal/rdh"
	"verifharness/internal/vh"
)

var (
	args vh.Args
	res  *vh.Result
)

const callTimeout = 20 * time.Second

// ---------------------------------------------------------------------------------------------
// posstr

func sectionPosStr(rng *vh.Rng) {
	sec := res.Section("posstr", "unit-correspondence",
		"Pos.String for chunk ids / indices at every digit boundary (0, 9, 10, 15, 16, 255, 2^32-1, 2^32, 2^63, 2^64-1 …) and random ones; ParsePos on those texts, on lower-case, on wrong lengths (0, 23, 25), on non-hex, signed and blank characters; non-trivial = distinct text")
	cids := []uint64{0, 1, 9, 10, 15, 16, 255, 256, 1<<32 - 1, 1 << 32, 1<<63 - 1, 1 << 63, 1<<64 - 1, 0x0123456789ABCDEF}
	idxs := []uint32{0, 1, 9, 10, 15, 16, 255, 1<<31 - 1, 1 << 31, 1<<32 - 1, 0x89ABCDEF}
	n := 200
	if args.Thorough {
		n = 5000
	}
	for i := 0; i < n; i++ {
		cids = append(cids, rng.U64()>>uint(rng.Intn(64)))
		idxs = append(idxs, uint32(rng.U64()>>uint(32+rng.Intn(32))))
	}
	var lines, impls []string
	var inputs []interface{}
	var texts []string
	for k, c := range cids {
		for m, i := range idxs {
			if k >= 14 && m != k-14+11 && m >= 11 {
				continue
			}
			p := journal.Pos{CId: chunk.Id(c), Idx: i}
			lines = append(lines, fmt.Sprintf("pos.show %d %d", c, i))
			impls = append(impls, p.String())
			inputs = append(inputs, map[string]interface{}{"cid": c, "idx": i})
			texts = append(texts, p.String())
			res.Eval(sec, p.String())
			// SPEC: round trip
			q, err := journal.ParsePos(p.String())
			if err != nil || q != p {
				res.SpecFail(vh.SpecFailure{Section: "posstr", Kind: "position-roundtrip", Input: map[string]interface{}{"cid": c, "idx": i},
					Impl: fmt.Sprint(q, err), Spec: fmt.Sprint(p), What: "ParsePos(Pos.String()) is not the position"})
			}
		}
	}
	mal := []string{"", "0", "00000000000000000000000", "0000000000000000000000000", "00000000000000FF0000000g", "+0000000000000FF00000003",
		"-0000000000000FF00000003", "00000000000000FF 0000003", "00000000000000ff0000000a", "0x000000000000FF00000003", "00000000000000FF0000_003", "zzzzzzzzzzzzzzzzzzzzzzzz"}
	for _, t := range texts {
		if rng.Chance(1, 3) {
			mal = append(mal, strings.ToLower(t))
		}
		if rng.Chance(1, 6) {
			b := []byte(t)
			b[rng.Intn(len(b))] = "gG -+_xX:=/"[rng.Intn(11)]
			mal = append(mal, string(b))
		}
		if rng.Chance(1, 10) {
			mal = append(mal, t[:rng.Intn(len(t))])
		}
	}
	for _, t := range append(texts, mal...) {
		if strings.ContainsAny(t, " \t\n") {
			continue // the line protocol cannot carry blanks; ParsePos rejects them (checked below)
		}
		arg := t
		if arg == "" {
			arg = "-"
		}
		lines = append(lines, "pos.parse "+arg)
		p, err := journal.ParsePos(t)
		if err != nil {
			impls = append(impls, "err")
		} else {
			impls = append(impls, fmt.Sprintf("%d %d", uint64(p.CId), p.Idx))
		}
		inputs = append(inputs, map[string]interface{}{"text": t})
		res.Eval(sec, "parse:"+t)
	}
	if _, err := journal.ParsePos("00000000000000FF 0000003"); err == nil {
		res.SpecFail(vh.SpecFailure{Section: "posstr", Kind: "position-roundtrip", Input: "blank inside", Impl: "accepted", Spec: "error", What: "ParsePos accepts a blank"})
	}
	outs, err := vh.Batch(args.Driver, lines)
	if err != nil {
		res.Fatal(args.Out, "driver: %v", err)
	}
	for i := range outs {
		if outs[i] != impls[i] {
			res.Mismatch(vh.Mismatch{Section: "posstr", Function: strings.Fields(lines[i])[0], Input: inputs[i], Impl: impls[i], Model: outs[i]})
		}
	}
	res.Done(sec)
}

// ---------------------------------------------------------------------------------------------
// event generation

type write struct {
	Part int      `json:"p"`
	Evs  []rdh.Ev `json:"e"`
}

type tsGen struct {
	ts   int64
	seq  map[int]int
	ties bool // cross-partition ties allowed (all partitions draw from one clock that may stand still)
	// lag: every partition has its own clock (non-decreasing per partition), so that an append to one partition
	// can carry timestamps OLDER than events of another partition that are still pending in a held cursor
	lag bool
	pts map[int]int64
}

func (g *tsGen) batch(rng *vh.Rng, part, n int) write {
	if g.seq == nil {
		g.seq = map[int]int{}
		// timestamps start well above 0: a stored timestamp 0 is "unset" for the chunk hull (C02's finding on
		// iwrapper.Get), which hides in-range events from RANGE queries — not this property's subject
		g.ts = 10
	}
	w := write{Part: part}
	if g.lag {
		if g.pts == nil {
			g.pts = map[int]int64{}
		}
		cur, ok := g.pts[part]
		if !ok {
			cur = 10 + int64(rng.Intn(4))
		}
		for i := 0; i < n; i++ {
			cur += int64(rng.PickI([]int{0, 1, 1, 2, 3, 7}))
			w.Evs = append(w.Evs, rdh.Ev{Lbl: part*100000 + g.seq[part], Ts: cur, Keep: rng.Chance(3, 5), Fld: rng.Intn(4)})
			g.seq[part]++
		}
		g.pts[part] = cur
		if cur > g.ts {
			g.ts = cur
		}
		return w
	}
	for i := 0; i < n; i++ {
		step := int64(rng.PickI([]int{0, 0, 1, 1, 1, 2, 3}))
		if !g.ties && step == 0 && i == 0 {
			step = 1
		}
		g.ts += step
		w.Evs = append(w.Evs, rdh.Ev{Lbl: part*100000 + g.seq[part], Ts: g.ts, Keep: rng.Chance(3, 5), Fld: rng.Intn(4)})
		g.seq[part]++
	}
	return w
}

// ---------------------------------------------------------------------------------------------
// jiter: step-level correspondence of the two journal iterators

type jop struct {
	Op  string   `json:"op"`
	A   int      `json:"a,omitempty"`
	B   int      `json:"b,omitempty"`
	Evs []rdh.Ev `json:"evs,omitempty"`
}

type jcase struct {
	ChunkSize int       `json:"chunk_size"`
	Ranged    bool      `json:"ranged"`
	Range     [2]int64  `json:"range"`
	Init      []rdh.Ev  `json:"init"`
	Ops       []jop     `json:"ops"`
}

func genJCase(rng *vh.Rng, chunkSize int) jcase {
	c := jcase{ChunkSize: chunkSize, Ranged: rng.Chance(2, 5)}
	g := &tsGen{ties: true}
	if rng.Intn(5) > 0 {
		c.Init = g.batch(rng, 0, rng.Range(1, 24)).Evs
	}
	hi := int64(30)
	c.Range = [2]int64{int64(rng.Range(0, 12)), int64(rng.Range(3, int(hi)))}
	if rng.Chance(1, 4) {
		c.Range = [2]int64{-5, 1000}
	}
	n := rng.Range(20, 70)
	nChunksGuess := 1 + len(c.Init)/4
	for i := 0; i < n; i++ {
		switch op := rng.Intn(15); {
		case op < 4:
			c.Ops = append(c.Ops, jop{Op: "get"})
		case op < 7:
			c.Ops = append(c.Ops, jop{Op: "next"})
		case op == 7:
			c.Ops = append(c.Ops, jop{Op: "bkwd", A: rng.Intn(2)})
		case op == 8:
			c.Ops = append(c.Ops, jop{Op: "release"})
		case op == 9 || op == 10:
			var d, idx int
			switch rng.Intn(6) {
			case 0:
				d, idx = 0, 0
			case 1:
				d, idx = rdh.TailCid, rdh.MaxU32
			default:
				d = (rng.Intn(nChunksGuess)+1)*10 + rng.PickI([]int{0, 0, 0, 1, -1})
				idx = rng.Intn(9)
				if rng.Chance(1, 8) {
					idx = rdh.MaxU32
				}
			}
			c.Ops = append(c.Ops, jop{Op: "setpos", A: d, B: idx})
		case op == 11:
			w := g.batch(rng, 0, rng.Range(1, 9))
			nChunksGuess += 1 + len(w.Evs)/4
			c.Ops = append(c.Ops, jop{Op: "write", Evs: w.Evs})
		default:
			c.Ops = append(c.Ops, jop{Op: "pos"})
		}
	}
	return c
}

func recLabel(rec records.Record, err error) string {
	if err == io.EOF {
		return "eof"
	}
	if err != nil {
		return "ERR " + err.Error()
	}
	var le model.LogEvent
	if _, e := le.Unmarshal(rec, true); e != nil {
		return "ERR unmarshal"
	}
	return strconv.Itoa(rdh.ParseMsg(string(le.Msg)))
}

var grpSeq int
var grpMu sync.Mutex

func newGrp() string {
	grpMu.Lock()
	defer grpMu.Unlock()
	grpSeq++
	return fmt.Sprintf("g%d", grpSeq)
}

// runJCase executes the case on a real journal; returns driver lines and the implementation's answers.
func runJCase(srv *lrsrv.Srv, c jcase, sec *vh.Section) (lines, impls []string, specBad string) {
	w := rdh.NewWorld(srv, newGrp())
	ctx := context.Background()
	// the partition must exist before an iterator can be made: an empty initial batch is replaced by a
	// write of the first append; keep it simple: always create with at least one record
	init := c.Init
	if len(init) == 0 {
		init = []rdh.Ev{{Lbl: 99999, Ts: 0, Keep: true}}
	}
	if err := w.Write(0, init); err != nil {
		res.Note("jiter: write failed: %v", err)
		return
	}
	var tr *model.TimeRange
	if c.Ranged {
		tr = &model.TimeRange{MinTs: c.Range[0], MaxTs: c.Range[1]}
	}
	p := w.Parts[0]
	var it journal.Iterator
	kind := "lib"
	if c.Ranged {
		it = partition.NewJIterator(*tr, p.Jr, srv.TsIdx, srv.Parts.GetTmIndexRebuilder())
		kind = "rng"
	} else {
		it = journal.NewJIterator(p.Jr)
	}
	defer it.Close()
	add := func(l, impl string) { lines = append(lines, l); impls = append(impls, impl) }
	add("reset", "ok")
	add(w.Layout(0, tr), "ok")
	add("it.new 0 "+kind, "ok")
	bk := false
	for _, o := range c.Ops {
		res.Dist(sec, kind+":"+o.Op)
		switch o.Op {
		case "get":
			add("it.get", recLabel(it.Get(ctx)))
		case "next":
			it.Next(ctx)
			add("it.next", "ok")
		case "bkwd":
			bk = o.A == 1
			it.SetBackward(bk)
			add(fmt.Sprintf("it.bkwd %d", o.A), "ok")
		case "release":
			it.Release()
			add("it.release", "ok")
		case "setpos":
			it.SetPos(journal.Pos{CId: w.Real(0, o.A), Idx: uint32(o.B)})
			// a dense id that names no real chunk yet maps to 0: tell the model the same
			a := o.A
			if w.Real(0, o.A) == 0 {
				a = 0
			}
			add(fmt.Sprintf("it.setpos %d %d", a, o.B), "ok")
		case "write":
			if err := w.Write(0, o.Evs); err != nil {
				res.Note("jiter: write failed: %v", err)
				return
			}
			add(w.Layout(0, tr), "ok")
		case "pos":
			ps := it.Pos()
			add("it.pos", fmt.Sprintf("%d:%d", w.Dense(0, ps.CId), ps.Idx))
		}
	}
	// SPEC (library iterator): a forward drain from here delivers exactly recordsFrom(position)
	if !c.Ranged {
		it.SetBackward(false)
		add("it.bkwd 0", "ok")
		var got []int
		for k := 0; k < 100000; k++ {
			l := recLabel(it.Get(ctx))
			if l == "eof" || strings.HasPrefix(l, "ERR") {
				break
			}
			n, _ := strconv.Atoi(l)
			got = append(got, n)
			it.Next(ctx)
		}
		// asked before the drain in the model (the model iterator is not advanced by it.spec)
		add("it.spec", rdh.IntsStr(got))
	} else {
		// SPEC (ranged iterator, the SAME object with whatever its selector has cached): from head, forward, it must
		// deliver every stored record whose timestamp is in the range, in stored order (it may deliver more: the
		// window is only an optimisation, the filter above it drops the rest)
		// (1) the INPUT CONTRACT of the ranged theorems (Props/C03Ranged.lean, WinSound), checked on the windows the REAL
		// selector computes over the real time index: every stored record whose timestamp is in the range lies inside
		// the window of its chunk (windows may be wider)
		if bad := windowContract(w.Layout(0, tr), c.Range[0], c.Range[1]); bad != "" {
			res.SpecFail(vh.SpecFailure{Section: "jiter", Kind: "window-contract", Input: c, Impl: bad, Spec: "every in-range record of a chunk has its index in [minPos,maxPos] of the chunk",
				What: "a chunk window computed by chkSelector.updatePoss over the time index excludes a record whose timestamp is in the range"})
		}
		// (2) SPEC at the level of the abstraction the theorems use (ranged_drain_take / rSpecDrain): a drain from the
		// CURRENT state in the CURRENT direction delivers the admitted records from the iterator's index on (forward) or
		// at/before its position in reverse (backward); the model answers `n/a` when the state is outside RWF
		{
			var got []int
			for k := 0; k < 100000; k++ {
				l := recLabel(it.Get(ctx))
				if l == "eof" || strings.HasPrefix(l, "ERR") {
					break
				}
				n, _ := strconv.Atoi(l)
				got = append(got, n)
				it.Next(ctx)
			}
			dir := "f "
			if bk {
				dir = "b "
			}
			add("it.spec", dir+rdh.IntsStr(got))
		}
		it.SetBackward(false)
		it.SetPos(journal.Pos{})
		delivered := map[int]bool{}
		stored := map[int]int{}
		for i, e := range p.Evs {
			stored[e.Lbl] = i
		}
		ordered := true
		last := -1
		for k := 0; k < 100000; k++ {
			l := recLabel(it.Get(ctx))
			if l == "eof" || strings.HasPrefix(l, "ERR") {
				break
			}
			n, _ := strconv.Atoi(l)
			if stored[n] <= last {
				ordered = false
			}
			last = stored[n]
			delivered[n] = true
			it.Next(ctx)
		}
		var missing []int
		for _, e := range p.Evs {
			if e.Ts >= c.Range[0] && e.Ts <= c.Range[1] && !delivered[e.Lbl] {
				missing = append(missing, e.Lbl)
			}
		}
		if len(missing) > 0 || !ordered {
			specBad = fmt.Sprintf("missing in-range records %v, ordered=%v", missing, ordered)
			res.SpecFail(vh.SpecFailure{Section: "jiter", Kind: "ranged-iterator-misses-in-range", Input: c, Impl: specBad, Spec: "every record with a timestamp in the range, in stored order",
				What: "partition.JIterator read forward from head (same object, selector statuses as cached) does not deliver every stored in-range record"})
		}
	}
	return
}

// windowContract checks, on a layout line (`src n cid;min;max;lbl/ts/keep,…`), that every record with lo <= ts <= hi has
// its index inside [min,max] of its chunk; returns a description of the first offender
func windowContract(layout string, lo, hi int64) string {
	f := strings.Fields(layout)
	for _, ck := range f[2:] {
		q := strings.Split(ck, ";")
		if len(q) != 4 || q[3] == "" {
			continue
		}
		mn, _ := strconv.ParseUint(q[1], 10, 64)
		mx, _ := strconv.ParseUint(q[2], 10, 64)
		for idx, r := range strings.Split(q[3], ",") {
			e := strings.Split(r, "/")
			if len(e) != 3 {
				continue
			}
			ts, _ := strconv.ParseInt(e[1], 10, 64)
			if ts >= lo && ts <= hi && (uint64(idx) < mn || uint64(idx) > mx) {
				return fmt.Sprintf("chunk %s window [%d,%d]: record %s at index %d has ts %d in [%d,%d]", q[0], mn, mx, e[0], idx, ts, lo, hi)
			}
		}
	}
	return ""
}

func sectionJIter(rng *vh.Rng) {
	sec := res.Section("jiter", "unit-correspondence",
		"op sequences of 20..70 steps (get, next, setpos incl. head/tail/between chunks/past the end, release, direction switches, appends with chunk roll-over, pos) on journal.JIterator (un-ranged reads) and partition.JIterator (RANGE; windows from the real selector) over real journals with 1..10 chunks (MaxChunkSize 90..400 bytes), each step compared with the Lean iterator model; at the end a forward drain of the library iterator is compared with SPEC recordsFrom(position); non-trivial = sequence with an append or a direction switch, distinct by ops")
	n := 200
	if args.Thorough {
		n = 500
	}
	sizes := []int{90, 130, 200, 400}
	var cases []jcase
	for _, f := range vh.CorpusFiles(args.Corpus) {
		var rp struct {
			Section string `json:"section"`
			Input   jcase  `json:"input"`
		}
		if vh.ReadJSON(f, &rp) == nil && rp.Section == "jiter" {
			cases = append(cases, rp.Input)
		}
	}
	for i := 0; i < n; i++ {
		cases = append(cases, genJCase(rng, sizes[i%len(sizes)]))
	}
	runJCases(cases, sec, false)
	res.Done(sec)
}

func runJCases(cases []jcase, sec *vh.Section, verbose bool) {
	bySize := map[int][]int{}
	for i, c := range cases {
		bySize[c.ChunkSize] = append(bySize[c.ChunkSize], i)
	}
	type out struct{ lines, impls []string }
	outs := make([]out, len(cases))
	var wg sync.WaitGroup
	for size, idxs := range bySize {
		wg.Add(1)
		go func(size int, idxs []int) {
			defer wg.Done()
			var srv *lrsrv.Srv
			defer func() {
				if srv != nil {
					srv.Stop()
					os.RemoveAll(srv.Dir)
				}
			}()
			for k, i := range idxs {
				if k%100000 == 0 {
					if srv != nil {
						srv.Stop()
						os.RemoveAll(srv.Dir)
					}
					var err error
					srv, err = lrsrv.Start(lrsrv.NewDir(), lrsrv.Opts{MaxChunkSize: size, NoRPC: true})
					if err != nil {
						res.Note("jiter: %v", err)
						srv = nil
						return
					}
				}
				c := cases[i]
				ok := vh.WithTimeout(60*time.Second, func() {
					l, im, _ := runJCase(srv, c, sec)
					outs[i] = out{l, im}
				})
				if !ok {
					res.SpecFail(vh.SpecFailure{Section: "jiter", Kind: "hang", Input: c, Impl: "no answer in 60 s", Spec: "every iterator call returns", What: "a journal iterator call did not return"})
					return
				}
				key := ""
				for _, o := range c.Ops {
					if o.Op == "write" || o.Op == "bkwd" {
						key = fmt.Sprint(c.Ranged, c.Range, c.Init, c.Ops)
					}
				}
				res.Eval(sec, key)
			}
		}(size, idxs)
	}
	wg.Wait()
	var lines []string
	for _, o := range outs {
		lines = append(lines, o.lines...)
	}
	ans, err := vh.Batch(args.Driver, lines)
	if err != nil {
		res.Fatal(args.Out, "driver: %v", err)
	}
	k := 0
	for i, o := range outs {
		for j := range o.lines {
			if verbose {
				fmt.Printf("%-40.40s impl=%s model=%s\n", o.lines[j], o.impls[j], ans[k])
			}
			if o.lines[j] == "it.spec" && cases[i].Ranged {
				if ans[k] == "n/a" {
					res.Dist(sec, "rng-spec:n/a (state outside RWF)")
					k++
					continue
				}
				res.Dist(sec, "rng-spec:checked "+strings.Fields(ans[k])[0])
				res.Eval(sec, "rng-spec "+o.impls[j])
			}
			if ans[k] != o.impls[j] {
				if o.lines[j] == "it.spec" {
					res.SpecFail(vh.SpecFailure{Section: "jiter", Kind: "iterator-enumeration", Input: cases[i], Impl: o.impls[j], Spec: ans[k],
						What: "draining the journal iterator forward does not deliver exactly the records from its position"})
				} else {
					res.Mismatch(vh.Mismatch{Section: "jiter", Function: fmt.Sprintf("journal iterator (ranged=%v) step %d: %s", cases[i].Ranged, j, strings.Fields(o.lines[j])[0]), Input: cases[i], Impl: o.impls[j], Model: ans[k]})
				}
				k += len(o.lines) - j
				break
			}
			k++
		}
	}
}

// ---------------------------------------------------------------------------------------------
// scripted: a journal whose Count() answers come from a script (reader next to a confirming writer)

type fchunk struct {
	id     chunk.Id
	script []uint32
	reads  int
	recs   []string
	// growAtEOF > 0: at the growOnEOF-th end-of-data answer of a chunk iterator the confirmed count becomes growAtEOF
	growAtEOF uint32
	growOnEOF int
	eofs      int
}

func (c *fchunk) Close() error                                                       { return nil }
func (c *fchunk) Id() chunk.Id                                                       { return c.id }
func (c *fchunk) Write(ctx context.Context, it records.Iterator) (int, uint32, error) { return 0, 0, nil }
func (c *fchunk) Sync()                                                              {}
func (c *fchunk) Size() int64                                                        { return 0 }
func (c *fchunk) Count() uint32 {
	i := c.reads
	if i >= len(c.script) {
		i = len(c.script) - 1
	}
	c.reads++
	return c.script[i]
}
func (c *fchunk) AddListener(l chunk.Listener)      {}
func (c *fchunk) Iterator() (chunk.Iterator, error) { return &fit{c: c}, nil }

type fit struct {
	c   *fchunk
	pos int64
	bk  bool
}

func (i *fit) Close() error                    { return nil }
func (i *fit) Release()                        {}
func (i *fit) SetBackward(b bool)              { i.bk = b }
func (i *fit) Pos() int64                      { return i.pos }
func (i *fit) CurrentPos() records.IteratorPos { return i.pos }
func (i *fit) SetPos(p int64) error {
	if p == i.pos {
		return nil
	}
	cnt := int64(i.c.Count())
	if p > cnt {
		p = cnt
	}
	if p < 0 {
		p = -1
	}
	i.pos = p
	return nil
}
func (i *fit) Get(ctx context.Context) (records.Record, error) {
	cnt := int64(i.c.Count())
	if i.pos < 0 {
		i.pos = 0
	}
	if i.pos >= cnt {
		// the writer confirms more records right after this end-of-data decision (scripted)
		if i.c.growAtEOF > 0 {
			i.c.eofs++
			if i.c.eofs == i.c.growOnEOF {
				i.c.script, i.c.reads = []uint32{i.c.growAtEOF}, 0
			}
		}
		return nil, io.EOF
	}
	return records.Record(i.c.recs[i.pos]), nil
}
func (i *fit) Next(ctx context.Context) {
	if _, err := i.Get(ctx); err == nil {
		i.pos++
	}
}

type fjournal struct{ cks chunk.Chunks }

func (j *fjournal) Name() string { return "j" }
func (j *fjournal) Write(ctx context.Context, rit records.Iterator) (int, journal.Pos, error) {
	return 0, journal.Pos{}, nil
}
func (j *fjournal) Size() uint64                     { return 0 }
func (j *fjournal) Count() uint64                    { return 0 }
func (j *fjournal) Sync()                            {}
func (j *fjournal) Chunks() journal.ChnksController  { return &fctl{j} }

type fctl struct{ j *fjournal }

func (c *fctl) JournalName() string { return "j" }
func (c *fctl) GetChunkForWrite(ctx context.Context, ex chunk.Id) (chunk.Chunk, error) {
	return nil, nil
}
func (c *fctl) Chunks(ctx context.Context) (chunk.Chunks, error)            { return c.j.cks, nil }
func (c *fctl) WaitForNewData(ctx context.Context, pos journal.Pos) error { return nil }
func (c *fctl) DeleteChunks(ctx context.Context, last chunk.Id, cdf journal.OnChunkDeleteF) (int, error) {
	return 0, nil
}
func (c *fctl) LocalFolder() string { return "" }

type fidx struct{ tmindex.TsIndexer }

func (fidx) SyncChunks(ctx context.Context, src string, cks chunk.Chunks) []tmindex.RecordsInfo {
	r := make([]tmindex.RecordsInfo, len(cks))
	for i, c := range cks {
		r[i] = tmindex.RecordsInfo{Id: c.Id(), MinTs: 0, MaxTs: 10}
	}
	return r
}
func (fidx) GetRecordsInfo(src string, cid chunk.Id) (tmindex.RecordsInfo, error) {
	return tmindex.RecordsInfo{Id: cid, MinTs: 0, MaxTs: 10}, nil
}

type frb struct{}

func (frb) RebuildIndex(src string, cid chunk.Id, force bool) {}

type scriptCase struct {
	Old    int      `json:"old_chunk_records"`
	New    int      `json:"new_chunk_records"`
	Script []uint32 `json:"count_script"`
	// LastChunk: ONE chunk; Old records are confirmed when the reader starts at its beginning; at the GrowOnEOF-th
	// end-of-data answer of the chunk iterator (1 = the very first EOF, met through the open chunk iterator) the
	// confirmed count becomes New — records confirmed between the EOF decision and the position the iterator builds
	LastChunk bool `json:"last_chunk,omitempty"`
	GrowOnEOF int  `json:"grow_on_eof,omitempty"`
}

func runScriptedLast(c scriptCase) (got int, first string) {
	recs := make([]string, c.New)
	for i := range recs {
		recs[i] = fmt.Sprintf("r%d", i)
	}
	ck := &fchunk{id: 10, script: []uint32{uint32(c.Old)}, recs: recs, growAtEOF: uint32(c.New), growOnEOF: c.GrowOnEOF}
	j := &fjournal{cks: chunk.Chunks{ck}}
	it := partition.NewJIterator(model.TimeRange{MinTs: -1 << 61, MaxTs: 1 << 61}, j, fidx{}, frb{})
	ctx := context.Background()
	polls := 0
	first = "-"
	for k := 0; k < 4*c.New+50 && polls < 12; k++ {
		rec, err := it.Get(ctx)
		if err != nil {
			polls++
			continue
		}
		if got == 0 {
			first = string(rec)
		}
		if string(rec) != fmt.Sprintf("r%d", got) {
			// a gap or a repetition: report how far the gap-free prefix went
			return got, first + " then " + string(rec) + fmt.Sprintf(" after %d", got)
		}
		got++
		it.Next(ctx)
	}
	return
}

func runScripted(c scriptCase) (got int, first string) {
	recs := make([]string, c.New)
	for i := range recs {
		recs[i] = fmt.Sprintf("r%d", i)
	}
	olds := make([]string, c.Old)
	for i := range olds {
		olds[i] = fmt.Sprintf("a%d", i)
	}
	old := &fchunk{id: 10, script: []uint32{uint32(c.Old)}, recs: olds}
	nw := &fchunk{id: 20, script: c.Script, recs: recs}
	j := &fjournal{cks: chunk.Chunks{old, nw}}
	it := partition.NewJIterator(model.TimeRange{MinTs: -1 << 61, MaxTs: 1 << 61}, j, fidx{}, frb{})
	it.SetPos(journal.Pos{CId: 10, Idx: uint32(c.Old)})
	ctx := context.Background()
	polls := 0
	first = "-"
	for k := 0; k < 4*c.New+50 && polls < 12; k++ {
		rec, err := it.Get(ctx)
		if err != nil {
			polls++
			continue
		}
		if got == 0 {
			first = string(rec)
		}
		got++
		it.Next(ctx)
	}
	return
}

func sectionScripted(rng *vh.Rng) {
	sec := res.Section("scripted", "spec-search",
		"partition.JIterator tailing a scripted journal: the reader stands at the end of a full chunk, the next chunk's Count() answers 0 for the first r reads and n afterwards (r = 0..8, n = 1..150: the writer confirms a whole chunk between two reads of one Get); every one of the n records must be delivered, the first one first; non-trivial = every script")
	var cases []scriptCase
	for _, f := range vh.CorpusFiles(args.Corpus) {
		var rp struct {
			Section string     `json:"section"`
			Input   scriptCase `json:"input"`
		}
		if vh.ReadJSON(f, &rp) == nil && rp.Section == "scripted" {
			cases = append(cases, rp.Input)
		}
	}
	for r := 0; r <= 8; r++ {
		for _, n := range []int{1, 2, 150} {
			sc := []uint32{}
			for k := 0; k < r; k++ {
				sc = append(sc, 0)
			}
			cases = append(cases, scriptCase{Old: 3, New: n, Script: append(sc, uint32(n))})
		}
		// growth in two steps
		sc := []uint32{}
		for k := 0; k < r; k++ {
			sc = append(sc, 0)
		}
		cases = append(cases, scriptCase{Old: rng.Range(1, 5), New: 40, Script: append(sc, 7, 7, 40)})
	}
	// the reader at the end of the LAST chunk: growth right after the n-th EOF answer of the chunk iterator
	for _, old := range []int{1, 2, 3, 7} {
		cases = append(cases, scriptCase{LastChunk: true, Old: old, New: old + rng.Range(1, 9), GrowOnEOF: 1})
	}
	for _, c := range cases {
		var got int
		var first string
		if c.LastChunk {
			got, first = runScriptedLast(c)
		} else {
			got, first = runScripted(c)
		}
		res.Eval(sec, fmt.Sprint(c))
		if c.LastChunk && (got != c.New || first != "r0") {
			// class of F59 (repaired by 008ef8e; a recurrence is tagged): ONE (last) chunk, growth between the chunk
			// iterator's EOF answer and the position getPosForward builds in its `idx == n` branch from a fresh Count();
			// the model (rGetObs, Props.C03.tail_no_skip_last_chunk) delivers every record
			res.SpecFail(vh.SpecFailure{Section: "scripted", Kind: "tail-skip", Input: c, Impl: fmt.Sprintf("%d records, first %s", got, first),
				Spec: fmt.Sprintf("%d records, first r0", c.New), Finding: "F59", ImplEqModel: false, Model: fmt.Sprintf("%d records (Props.C03.tail_no_skip_last_chunk)", c.New),
				What: "a ranged tail reader at the end of the last chunk skips the records a writer confirmed between the chunk iterator's end-of-data answer and the count getPosForward reads for the position (idx == n branch)"})
			continue
		}
		if got != c.New || first != "r0" {
			res.SpecFail(vh.SpecFailure{Section: "scripted", Kind: "tail-skip", Input: c, Impl: fmt.Sprintf("%d records, first %s", got, first),
				Spec: fmt.Sprintf("%d records, first r0", c.New), Finding: "F34a",
				What: "a ranged tail reader skips records a writer confirmed between the iterator's end-of-data decision and the position it reports"})
		}
	}
	res.Done(sec)
}

// ---------------------------------------------------------------------------------------------
// paging

type phist struct {
	ChunkSize int            `json:"chunk_size"`
	Init      []write        `json:"init"`
	Where     bool           `json:"where"`
	Range     *[2]int64      `json:"range,omitempty"`
	Start     string         `json:"start"` // "", "head"
	Rpc       bool           `json:"rpc"`
	Modes     []string       `json:"modes"`  // per page after the first, cyclic: follow | zeroid | posonly | sweep
	Limits    []int          `json:"limits"` // per page, cyclic
	Appends   map[int][]write `json:"appends,omitempty"` // after page k (0-based)
	// Offset of the FIRST request (one partition, from head): the chain continued by NextQueryRequest must deliver
	// everything behind the first Offset matching events; the answer's next request must not carry the offset again
	Offset int `json:"offset,omitempty"`
	// FieldWhere: the WHERE tests a field (see rdh.SetFieldMode)
	FieldWhere bool `json:"fw,omitempty"`
}

func genPHist(rng *vh.Rng, chunkSize int, i int) phist {
	h := phist{ChunkSize: chunkSize, Where: rng.Chance(2, 5), Rpc: rng.Bool(), Start: rng.PickS([]string{"", "", "head"})}
	np := rng.PickI([]int{1, 1, 1, 2, 2, 3, 4})
	g := &tsGen{ties: rng.Bool(), lag: np >= 2 && rng.Chance(2, 5)}
	emptyStart := rng.Chance(1, 14)
	nb := rng.Range(np, np+5)
	total := 0
	if !emptyStart {
		for b := 0; b < nb; b++ {
			p := b
			if b >= np {
				p = rng.Intn(np)
			}
			w := g.batch(rng, p, rng.Range(1, 14))
			total += len(w.Evs)
			h.Init = append(h.Init, w)
		}
	}
	if rng.Chance(2, 5) {
		lo := int64(rng.Range(0, int(g.ts)+2))
		hi := lo + int64(rng.Range(0, int(g.ts)+3))
		if rng.Chance(1, 4) {
			lo = 0
		}
		if rng.Chance(1, 4) {
			// everything stored so far lies below the range: only events appended between pages are in range (a held
			// cursor built its chunk statuses while every chunk was "all out of range")
			lo, hi = g.ts+1, g.ts+40
		}
		h.Range = &[2]int64{lo, hi}
	}
	if np == 1 && !emptyStart && h.Start != "tail" && rng.Chance(1, 3) {
		h.Offset = rng.PickI([]int{1, 2, 5, total - 1, total, total + 1})
		if h.Offset < 1 {
			h.Offset = 1
		}
	}
	// limits: 1, 2, chunk-edge ± 1 (about chunkSize/22 records per chunk), QueryMaxLimit and beyond, mixed
	edge := chunkSize/22 + 1
	switch i % 7 {
	case 0:
		h.Limits = []int{1}
	case 1:
		h.Limits = []int{2}
	case 2:
		h.Limits = []int{edge - 1, edge, edge + 1}
	case 3:
		h.Limits = []int{10000}
	case 4:
		h.Limits = []int{10001}
	default:
		n := rng.Range(2, 5)
		for k := 0; k < n; k++ {
			h.Limits = append(h.Limits, rng.PickI([]int{1, 1, 2, 3, edge - 1, edge, edge + 1, 2 * edge, 7, 10000, 10001}))
		}
	}
	for k := range h.Limits {
		if h.Limits[k] < 1 {
			h.Limits[k] = 1
		}
	}
	switch (i / 7) % 5 {
	case 0:
		h.Modes = []string{"follow"}
	case 1:
		h.Modes = []string{"zeroid"}
	case 2:
		h.Modes = []string{"posonly"}
	case 3:
		h.Modes = []string{"sweep"}
	default:
		n := rng.Range(2, 6)
		for k := 0; k < n; k++ {
			h.Modes = append(h.Modes, rng.PickS([]string{"follow", "follow", "zeroid", "posonly", "sweep"}))
		}
	}
	// appends between pages: to existing partitions mostly; sometimes creating a partition. Labels and
	// timestamps are drawn in the order in which the appends will be applied.
	if rng.Chance(3, 5) || emptyStart {
		h.Appends = map[int][]write{}
		na := rng.Range(1, 4)
		type plan struct{ pg, p, n int }
		var plans []plan
		for a := 0; a < na; a++ {
			pg := rng.Intn(6)
			p := rng.Intn(np)
			if rng.Chance(1, 8) && np < 4 {
				p = np // a new partition
				np++
			}
			if emptyStart {
				pg = 0
			}
			plans = append(plans, plan{pg, p, rng.Range(1, 10)})
		}
		sort.SliceStable(plans, func(a, b int) bool { return plans[a].pg < plans[b].pg })
		for _, pl := range plans {
			h.Appends[pl.pg] = append(h.Appends[pl.pg], g.batch(rng, pl.p, pl.n))
		}
	}
	// WHERE on a FIELD in half of the filtered histories: kept events carry it, the others another value or no fields at
	// all (a field-less event must not inherit the fields of the record visited before it — in either direction)
	if h.Where && rng.Bool() {
		h.FieldWhere = true
		for bi := range h.Init {
			for ei := range h.Init[bi].Evs {
				rdh.SetFieldMode(&h.Init[bi].Evs[ei], rng.Intn(4))
			}
		}
		for k := range h.Appends {
			for bi := range h.Appends[k] {
				for ei := range h.Appends[k][bi].Evs {
					rdh.SetFieldMode(&h.Appends[k][bi].Evs[ei], rng.Intn(4))
				}
			}
		}
	}
	return h
}

type qrunner struct {
	srv *lrsrv.Srv
	rpc bool
}

// query runs one request (in-process backend.Querier or through the RPC client) under a time-out.
func (q *qrunner) query(req *api.QueryRequest) (res *api.QueryResult, err error, hung bool) {
	ok := vh.WithTimeout(callTimeout, func() {
		ctx, cancel := context.WithTimeout(context.Background(), callTimeout)
		defer cancel()
		if q.rpc {
			r := &api.QueryResult{}
			rq := *req
			err = q.srv.Client.Query(ctx, &rq, r)
			if err == nil && r.Err != nil {
				err = r.Err
			}
			res = r
		} else {
			rq := *req
			res, err = q.srv.Querier.Query(ctx, &rq)
			if err == io.EOF && res != nil {
				err = nil // backend.Querier hands the loop's io.EOF back together with the result
			}
		}
	})
	return res, err, !ok
}

func labelsOf(evs []*api.LogEvent) []int {
	r := make([]int, len(evs))
	for i, e := range evs {
		r[i] = rdh.ParseMsg(e.Message)
	}
	return r
}

type modelChain struct {
	d     *vh.Driver
	id    string
	pos   string
	q     string
	limit string
}

func field(ans, key string) string {
	for _, f := range strings.Fields(ans) {
		if strings.HasPrefix(f, key+"=") {
			return f[len(key)+1:]
		}
	}
	return "?"
}

func runPHist(srv *lrsrv.Srv, drv *vh.Driver, h phist, sec *vh.Section, verbose bool) {
	w := rdh.NewWorld(srv, newGrp())
	w.FieldWhere = h.FieldWhere
	fail := func(kind, what, impl, spec, finding string, eq bool, mdl string) {
		res.SpecFail(vh.SpecFailure{Section: "paging", Kind: kind, Input: h, Impl: impl, Spec: spec, Model: mdl, ImplEqModel: eq, Finding: finding, What: what})
	}
	for _, wr := range h.Init {
		if err := w.Write(wr.Part, wr.Evs); err != nil {
			res.Note("paging: write: %v", err)
			return
		}
	}
	srv.FlushWait()
	var tr *model.TimeRange
	rg := "0"
	mn, mx := "none", "none"
	if h.Range != nil {
		tr = &model.TimeRange{MinTs: h.Range[0], MaxTs: h.Range[1]}
		rg, mn, mx = "1", fmt.Sprint(h.Range[0]), fmt.Sprint(h.Range[1])
	}
	wh := "0"
	if h.Where {
		wh = "1"
	}
	ask := func(l string) string {
		a := drv.Ask(l)
		if verbose {
			fmt.Printf("   model: %-60.60s -> %s\n", l, a)
		}
		return a
	}
	syncModel := func() {
		for i := range w.Parts {
			if w.Exists(i) {
				ask(w.Layout(i, tr))
			}
		}
	}
	ask("reset")
	syncModel()
	ask("q.reset")
	qtext := w.Query(h.Where, h.Range)
	qr := &qrunner{srv: srv, rpc: h.Rpc}
	existsAtStart := len(w.Parts) > 0
	// bookkeeping for the class predicates
	createdAfterCursor := map[int]bool{} // partitions created while the server held the current cursor incarnation
	serverHolds := false
	followedEmpty := false
	heldId := uint64(0)

	var got []int
	var perPage [][]int
	req := &api.QueryRequest{Query: qtext, Limit: h.Limits[0], Pos: h.Start, Offset: h.Offset}
	mreq := struct{ id, q, pos string }{"0", "1", rdh.PosToModelStart(h.Start)}
	// the first request's Offset skips that many of the events matching when it is served (all of them if fewer)
	skipFirst := 0
	if h.Offset > 0 && len(w.Parts) == 1 {
		for _, e := range w.Parts[0].Evs {
			if rdh.Matches(e, h.Where, h.Range) && skipFirst < h.Offset {
				skipFirst++
			}
		}
	}
	expectTotal := func() []rdh.Ev {
		var all []rdh.Ev
		for _, p := range w.Parts {
			for _, e := range p.Evs {
				if rdh.Matches(e, h.Where, h.Range) {
					all = append(all, e)
				}
			}
		}
		return all[skipFirst:]
	}
	offsetEchoed := false
	// the request of page p asks for a held cursor when the transition after page p keeps (or sweeps) it
	wantsHeld := func(page int) bool {
		nm := h.Modes[page%len(h.Modes)]
		return nm == "follow" || nm == "sweep"
	}
	maxAppendPage := -1
	for pg := range h.Appends {
		if pg > maxAppendPage {
			maxAppendPage = pg
		}
	}
	modelOK := true
	contentBad := false
	emptyPages := 0
	for page := 0; page < 400; page++ {
		// a held cursor needs WaitTimeout > 0 at creation; never wait when nothing matches (finding 11) or at the expected end
		req.WaitTimeout = 0
		if wantsHeld(page) && len(w.Parts) > 0 && existsAtStart && len(got) < len(expectTotal()) && req.Query != "" {
			req.WaitTimeout = 1
		}
		if verbose {
			fmt.Printf("page %d: req id=%d pos=%q limit=%d wait=%d query=%q\n", page, req.ReqId, req.Pos, req.Limit, req.WaitTimeout, req.Query)
		}
		r, err, hung := qr.query(req)
		if hung {
			fail("hang", "a Query call did not return", "no answer in 20 s", "a page", "", false, "")
			return
		}
		if err != nil || r == nil {
			fail("query-error", "a page of a chained read failed", fmt.Sprint(err), "a page", "", false, "")
			return
		}
		lbls := labelsOf(r.Events)
		// every delivered event is, field by field, what was written under its label (timestamp, message, tags, fields)
		if d := w.VerifyAll(r.Events); d != "" && !contentBad {
			contentBad = true
			fail("event-content", "a delivered event differs from the stored one (its content depends on where the page boundaries fall)", fmt.Sprintf("page %d (limit %d): %s", page, req.Limit, d), "every event as written: timestamp, message, tags, fields", "", false, "")
		}
		perPage = append(perPage, lbls)
		got = append(got, lbls...)
		lim := req.Limit
		if lim > 10000 {
			lim = 10000
		}
		if len(lbls) > lim {
			fail("page-too-long", "a page holds more events than its limit", fmt.Sprint(len(lbls)), fmt.Sprint("<= ", lim), "", false, "")
		}
		// the server holds a cursor for this chain iff the answer carries a request id
		nowHolds := r.NextQueryRequest.ReqId != 0
		if !nowHolds || r.NextQueryRequest.ReqId != heldId {
			createdAfterCursor = map[int]bool{} // no cursor held, or a new incarnation: it saw every partition existing now
		}
		heldId = r.NextQueryRequest.ReqId
		serverHolds = nowHolds
		// MODEL
		if r.NextQueryRequest.Offset != 0 && !offsetEchoed {
			offsetEchoed = true
			fail("next-request-carries-offset", "the NextQueryRequest of an answer carries an Offset: a client that follows it is moved again on every page", fmt.Sprintf("page %d: NextQueryRequest.Offset=%d", page, r.NextQueryRequest.Offset), "Offset 0", "", false, "")
		}
		mline := fmt.Sprintf("q.page %s %s all %s %s %s %s %s %d %d %d -", mreq.id, mreq.q, wh, mn, mx, rg, mreq.pos, req.Limit, req.Offset, b2i(req.WaitTimeout > 0))
		mans := ask(mline)
		if len(w.Parts) <= 1 && modelOK {
			implLine := fmt.Sprintf("id0=%v q=%v pos=%s limit=%d ev=%s", r.NextQueryRequest.ReqId == 0, r.NextQueryRequest.Query != "", w.PosToModel(r.NextQueryRequest.Pos), r.NextQueryRequest.Limit, rdh.IntsStr(lbls))
			modelLine := fmt.Sprintf("id0=%v q=%v pos=%s limit=%s ev=%s", field(mans, "id") == "0", field(mans, "q") != "none", field(mans, "pos"), field(mans, "limit"), field(mans, "ev"))
			if implLine != modelLine {
				modelOK = false
				res.Mismatch(vh.Mismatch{Section: "paging", Function: fmt.Sprintf("Querier.Query page %d (rpc=%v)", page, h.Rpc), Input: h, Impl: implLine, Model: modelLine})
			}
		}
		// appends scheduled after this page
		if ws, ok := h.Appends[page]; ok {
			for _, wr := range ws {
				isNew := !w.Exists(wr.Part)
				if err := w.Write(wr.Part, wr.Evs); err != nil {
					res.Note("paging: write: %v", err)
					return
				}
				if isNew && serverHolds {
					createdAfterCursor[wr.Part] = true
				}
			}
			srv.FlushWait()
			syncModel()
		}
		if len(lbls) == 0 && page > maxAppendPage {
			emptyPages++
			if emptyPages >= 2 || !serverHolds {
				break
			}
		}
		// next request
		mode := h.Modes[page%len(h.Modes)]
		nq := r.NextQueryRequest
		nq.Limit = h.Limits[(page+1)%len(h.Limits)]
		next := struct{ id, q, pos string }{field(mans, "id"), field(mans, "q"), field(mans, "pos")}
		switch mode {
		case "follow":
		case "sweep":
			cursor.VerifDropIdle(srv.Cursors)
			ask("q.sweep")
			// the cursor object is gone; what the next page builds sees every partition
			createdAfterCursor = map[int]bool{}
		case "zeroid":
			nq.ReqId = 0
			next.id = "0"
		case "posonly":
			nq = api.QueryRequest{Query: qtext, Pos: r.NextQueryRequest.Pos, Limit: nq.Limit}
			next.id, next.q = "0", "1"
		}
		if mode != "posonly" && r.NextQueryRequest.Query == "" {
			followedEmpty = true
		}
		if mode != "follow" {
			serverHolds = false
			heldId = 0
			createdAfterCursor = map[int]bool{}
		}
		req = &nq
		mreq = next
	}
	// SPEC: the concatenation of the pages is one read of everything that matches
	want := expectTotal()
	key := ""
	if len(perPage) >= 3 {
		key = fmt.Sprint(h.Init, h.Where, h.Range, h.Modes, h.Limits, h.Appends)
	}
	res.Eval(sec, key)
	res.Dist(sec, fmt.Sprintf("parts=%d", len(w.Parts)))
	res.Dist(sec, "modes="+strings.Join(h.Modes, "+"))
	res.Dist(sec, fmt.Sprintf("pages=%s", bucket(len(perPage))))
	if len(h.Appends) > 0 {
		res.Dist(sec, "with-appends")
	}
	if h.Range != nil {
		res.Dist(sec, "range")
	}
	if h.Where {
		res.Dist(sec, "where")
	}
	seen := map[int]int{}
	for _, l := range got {
		seen[l]++
	}
	var dups, missing, foreign []int
	wantSet := map[int]bool{}
	for _, e := range want {
		wantSet[e.Lbl] = true
		if seen[e.Lbl] == 0 {
			missing = append(missing, e.Lbl)
		}
	}
	for l, c := range seen {
		if c > 1 {
			dups = append(dups, l)
		}
		if !wantSet[l] {
			foreign = append(foreign, l)
		}
	}
	sort.Ints(dups)
	sort.Ints(foreign)
	ordered := true
	last := map[int]int{}
	for _, l := range got {
		p := rdh.PartOf(l)
		if prev, ok := last[p]; ok && l <= prev {
			ordered = false
		}
		last[p] = l
	}
	if verbose {
		fmt.Printf("delivered %d of %d; dups=%v missing=%v foreign=%v ordered=%v pages=%v\n", len(got), len(want), dups, missing, foreign, ordered, perPage)
	}
	if len(dups) == 0 && len(missing) == 0 && len(foreign) == 0 && ordered {
		return
	}
	implS := fmt.Sprintf("pages=%v duplicates=%v missing=%v foreign=%v per-partition-order=%v", perPage, dups, missing, foreign, ordered)
	specS := fmt.Sprintf("each of the %d matching events exactly once, each partition in stored order", len(want))
	// class predicates of the open findings
	onlyMissing := len(dups) == 0 && len(foreign) == 0 && ordered && len(missing) > 0
	if onlyMissing && followedEmpty && !existsAtStart && len(got) == 0 {
		// F35: model = the followed request has no query text, every later page is empty
		fail("lost-query-after-empty-page", "a chain that started while no partition matched never delivers anything when the client follows NextQueryRequest", implS, specS, "F35", true, "every page empty (NextQueryRequest of an empty cursor has no query)")
		return
	}
	if onlyMissing && len(createdAfterCursor) > 0 {
		all := true
		for _, l := range missing {
			if !createdAfterCursor[rdh.PartOf(l)] {
				all = false
			}
		}
		// model: the held cursor's source set is fixed at creation, so exactly the events of the later partitions are missing
		complete := true
		for p := range createdAfterCursor {
			for _, e := range w.Parts[p].Evs {
				if rdh.Matches(e, h.Where, h.Range) && seen[e.Lbl] != 0 {
					complete = false
				}
			}
		}
		if all && complete {
			fail("hidden-event", "a server-held cursor does not deliver the events of a partition created after it", implS, specS, "F40", true, "source set fixed when the cursor was created")
			return
		}
	}
	kind := "missing-event"
	if len(dups) > 0 {
		kind = "duplicate-event"
	} else if len(foreign) > 0 {
		kind = "foreign-event"
	} else if !ordered {
		kind = "partition-order"
	}
	fail(kind, "the concatenated pages are not one read of the matching events", implS, specS, "", false, "")
}

func b2i(b bool) int {
	if b {
		return 1
	}
	return 0
}

func bucket(n int) string {
	switch {
	case n <= 2:
		return "1-2"
	case n <= 5:
		return "3-5"
	case n <= 15:
		return "6-15"
	}
	return "16+"
}

func loadCorpus(section string, v func(raw json.RawMessage, finding string)) {
	for _, f := range vh.CorpusFiles(args.Corpus) {
		var rp struct {
			Section string          `json:"section"`
			Input   json.RawMessage `json:"input"`
			Finding string          `json:"finding"`
		}
		if vh.ReadJSON(f, &rp) == nil && rp.Section == section {
			v(rp.Input, rp.Finding)
		}
	}
}

func sectionPaging(rng *vh.Rng) {
	sec := res.Section("paging", "system-correspondence",
		"histories of 1..4 partitions x 1..6 chunks (MaxChunkSize 90..400 bytes; timestamp ties inside and across partitions), queries with/without WHERE and RANGE, limit sequences {1},{2},{chunk edge-1,edge,edge+1},{10000},{10001},mixed, resume modes follow (server-held cursor) / request id zeroed / position only / provider swept between pages / mixed per page, through backend.Querier and through the RPC client, appends (also creating partitions) between pages, flushed before the next page; plus one 10 050-event partition read with limit 10 001. SPEC: concatenated pages = all matching events exactly once, per-partition stored order (exact sequence for one partition). MODEL: every page of single-partition chains equals the Lean Querier.Query model (events, next position, id, limit). non-trivial = at least 3 pages, distinct by history")
	n := 630
	if args.Thorough {
		n = 1000
	}
	sizes := []int{90, 130, 200, 400}
	var hs []phist
	loadCorpus("paging", func(raw json.RawMessage, _ string) {
		var h phist
		if json.Unmarshal(raw, &h) == nil && len(h.Limits) > 0 {
			hs = append(hs, h)
		}
	})
	for i := 0; i < n; i++ {
		hs = append(hs, genPHist(rng, sizes[(i/35)%len(sizes)], i))
	}
	// the clamp at QueryMaxLimit: one big partition
	big := phist{ChunkSize: 400, Limits: []int{10001}, Modes: []string{"zeroid"}, Rpc: rng.Bool()}
	{
		var evs []rdh.Ev
		for k := 0; k < 10050; k++ {
			evs = append(evs, rdh.Ev{Lbl: k, Ts: int64(10 + k/3), Keep: true, Fld: 1 + k%3})
		}
		big.Init = []write{{Part: 0, Evs: evs}}
	}
	bigChunk := 60000
	big.ChunkSize = bigChunk
	hs = append(hs, big)
	runPHists(hs, sec, false)
	for i := 0; i < 2 && i < len(hs); i++ {
		h := hs[len(hs)-2-i]
		res.Sample(map[string]interface{}{"section": "paging", "modes": h.Modes, "limits": h.Limits, "where": h.Where, "range": h.Range, "init_batches": len(h.Init), "appends": len(h.Appends)})
	}
	res.Done(sec)
}

func runPHists(hs []phist, sec *vh.Section, verbose bool) {
	bySize := map[int][]int{}
	for i, h := range hs {
		bySize[h.ChunkSize] = append(bySize[h.ChunkSize], i)
	}
	var wg sync.WaitGroup
	for size, idxs := range bySize {
		// two servers per chunk size
		for half := 0; half < 2; half++ {
			var mine []int
			for k, i := range idxs {
				if k%2 == half {
					mine = append(mine, i)
				}
			}
			if len(mine) == 0 {
				continue
			}
			wg.Add(1)
			go func(size int, idxs []int) {
				defer wg.Done()
				drv, err := vh.Open(args.Driver)
				if err != nil {
					res.Note("paging: driver: %v", err)
					return
				}
				defer drv.Close()
				// one server per worker: every chunk ever opened keeps two file descriptors until the process ends (also after
				// Stop), so the tier sizes are bounded by the descriptor limit (20 000 here), not by time
				for from := 0; from < len(idxs); from += 100000 {
					to := from + 100000
					if to > len(idxs) {
						to = len(idxs)
					}
					srv, err := lrsrv.Start(lrsrv.NewDir(), lrsrv.Opts{MaxChunkSize: size})
					if err != nil {
						res.Note("paging: %v", err)
						return
					}
					for _, i := range idxs[from:to] {
						runPHist(srv, drv, hs[i], sec, verbose)
					}
					srv.Stop()
					os.RemoveAll(srv.Dir)
				}
			}(size, mine)
		}
	}
	wg.Wait()
}

// ---------------------------------------------------------------------------------------------
// resend: the same request id with an older position (finding F22 and its complement)

type resend struct {
	ChunkSize int        `json:"chunk_size"`
	Evs       []rdh.Ev   `json:"events,omitempty"` // one partition (the older corpus entries)
	Parts     [][]rdh.Ev `json:"parts,omitempty"`  // several partitions: events of partition 0, 1, …; no timestamp shared by two partitions
	Where     bool       `json:"where"`
	Range     *[2]int64  `json:"range,omitempty"`
	Limit     int        `json:"limit"`
}

// parts gives the events per partition of either input form.
func (c resend) parts() [][]rdh.Ev {
	if len(c.Parts) > 0 {
		return c.Parts
	}
	return [][]rdh.Ev{c.Evs}
}

// heldLeafOrder reads the leaf order of the mixer tree of the cursor the provider holds under id: the cursor is
// taken with its own state (same id, query and position, so ApplyState does nothing) and released again.
func heldLeafOrder(srv *lrsrv.Srv, w *rdh.World, st cursor.State) (order []string, ok bool) {
	ctx := context.Background()
	var cur cursor.Cursor
	var err error
	if !vh.WithTimeout(callTimeout, func() { cur, err = srv.Cursors.GetOrCreate(ctx, st, true) }) || err != nil || cur == nil {
		return nil, false
	}
	names := cursor.VerifLeafOrder(cur)
	same := cur.Id() == st.Id
	vh.WithTimeout(callTimeout, func() { srv.Cursors.Release(ctx, cur) })
	for _, nm := range names {
		for _, p := range w.Parts {
			if p.Src == nm {
				order = append(order, strconv.Itoa(p.Idx))
			}
		}
	}
	return order, same && len(order) == len(w.Parts)
}

func runResend(srv *lrsrv.Srv, drv *vh.Driver, c resend, sec *vh.Section, verbose bool) {
	w := rdh.NewWorld(srv, newGrp())
	pts := c.parts()
	for i, evs := range pts {
		if len(evs) == 0 {
			continue
		}
		if err := w.Write(i, evs); err != nil {
			res.Note("resend: %v", err)
			return
		}
	}
	for i := range pts {
		if !w.Exists(i) {
			res.Note("resend: partition %d of the input has no events", i)
			return
		}
	}
	srv.FlushWait()
	var tr *model.TimeRange
	rg, mn, mx, wh := "0", "none", "none", "0"
	if c.Range != nil {
		tr = &model.TimeRange{MinTs: c.Range[0], MaxTs: c.Range[1]}
		rg, mn, mx = "1", fmt.Sprint(c.Range[0]), fmt.Sprint(c.Range[1])
	}
	if c.Where {
		wh = "1"
	}
	merged := len(w.Parts) >= 2
	drv.Ask("reset")
	for i := range w.Parts {
		drv.Ask(w.Layout(i, tr))
	}
	drv.Ask("q.reset")
	qr := &qrunner{srv: srv}
	q := w.Query(c.Where, c.Range)
	perm := "-"
	mpage := func(id, pos string) string {
		a := drv.Ask(fmt.Sprintf("q.page %s 1 all %s %s %s %s %s %d 0 1 %s", id, wh, mn, mx, rg, pos, c.Limit, perm))
		if verbose {
			fmt.Println("   model:", a)
		}
		return a
	}
	r1, err, hung := qr.query(&api.QueryRequest{Query: q, Limit: c.Limit, WaitTimeout: 1})
	if hung || err != nil {
		res.SpecFail(vh.SpecFailure{Section: "resend", Kind: "hang", Input: c, Impl: fmt.Sprint(err), Spec: "a page", What: "first page failed"})
		return
	}
	if merged {
		// the model builds its mixer tree in the leaf order of the real cursor (Go's map iteration in newCursor)
		nq := r1.NextQueryRequest
		held := cursor.VerifHeld(srv.Cursors)
		order, ok := []string(nil), false
		if nq.ReqId != 0 {
			order, ok = heldLeafOrder(srv, w, cursor.State{Id: nq.ReqId, Query: nq.Query, Pos: nq.Pos})
		}
		if !ok || cursor.VerifHeld(srv.Cursors) != held {
			res.Note("resend: the leaf order of the held cursor could not be read (id %d)", nq.ReqId)
			cursor.VerifDropIdle(srv.Cursors)
			return
		}
		perm = strings.Join(order, ",")
		if verbose {
			fmt.Println("leaf order of the held cursor:", perm)
		}
	}
	m1 := mpage("0", "empty")
	req2 := r1.NextQueryRequest
	req2.WaitTimeout = 0
	r2, err, hung := qr.query(&req2)
	if hung || err != nil {
		res.SpecFail(vh.SpecFailure{Section: "resend", Kind: "hang", Input: c, Impl: fmt.Sprint(err), Spec: "a page", What: "second page failed"})
		return
	}
	m2 := mpage(field(m1, "id"), field(m1, "pos"))
	// the client did not get page 2 (failed hand-off) and asks for it again: same id, the older position
	r3, err, hung := qr.query(&req2)
	if hung || err != nil {
		res.SpecFail(vh.SpecFailure{Section: "resend", Kind: "hang", Input: c, Impl: fmt.Sprint(err), Spec: "a page", What: "re-sent page failed"})
		return
	}
	m3 := mpage(field(m1, "id"), field(m1, "pos"))
	cursor.VerifDropIdle(srv.Cursors)
	a, b := rdh.IntsStr(labelsOf(r2.Events)), rdh.IntsStr(labelsOf(r3.Events))
	if verbose {
		fmt.Printf("page1=%v page2=%s resent=%s\n", labelsOf(r1.Events), a, b)
	}
	nontriv := ""
	if len(r2.Events) > 0 && r1.NextQueryRequest.ReqId != 0 {
		nontriv = fmt.Sprint(c)
	}
	res.Eval(sec, nontriv)
	filtered := c.Where || c.Range != nil
	res.Dist(sec, fmt.Sprintf("parts=%d filter=%v", len(w.Parts), filtered))
	modelAgrees := true
	for i, pr := range [][2]string{{rdh.IntsStr(labelsOf(r1.Events)), field(m1, "ev")}, {a, field(m2, "ev")}, {b, field(m3, "ev")}} {
		if pr[0] != pr[1] {
			res.Mismatch(vh.Mismatch{Section: "resend", Function: fmt.Sprintf("Querier.Query with a held cursor over %d partition(s), leaf order %s, request %d", len(w.Parts), perm, i+1), Input: c, Impl: pr[0], Model: pr[1]})
			modelAgrees = false
			break
		}
	}
	if a != b {
		f := ""
		// class: the cursor was held (same request id), the Pos sent is older than the cursor's own state, and the
		// cursor keeps a selected head across ApplyState: the query has WHERE or RANGE (fiterator) or it merges two
		// or more partitions (Mixer)
		if modelAgrees && (filtered || merged) && r1.NextQueryRequest.ReqId != 0 && r2.NextQueryRequest.Pos != req2.Pos {
			f = "F22"
			res.Dist(sec, fmt.Sprintf("F22 parts=%d filter=%v", len(w.Parts), filtered))
		}
		res.SpecFail(vh.SpecFailure{Section: "resend", Kind: "stale-buffered-event", Input: c, Impl: b, Spec: a, Model: field(m3, "ev"), ImplEqModel: modelAgrees, Finding: f,
			What: "a page requested again with the same request id and its (older) position does not repeat the page: it starts with the event the held cursor had buffered (fiterator) or selected (Mixer)"})
	}
}

// genResendParts draws the events of np partitions from one clock: batches of 1..4 events go to the partitions in
// turn, every batch starts with a fresh timestamp, so that no timestamp belongs to two partitions (ties inside a
// partition stay possible) and the partitions interleave in time.
func genResendParts(rng *vh.Rng, np int) (parts [][]rdh.Ev, lastTs int64) {
	g := &tsGen{ties: false}
	parts = make([][]rdh.Ev, np)
	total := rng.Range(6, 30)
	for n, b := 0, 0; n < total || b < np; b++ {
		p := b % np
		if b >= np && rng.Chance(1, 3) {
			p = rng.Intn(np)
		}
		w := g.batch(rng, p, rng.Range(1, 4))
		parts[p] = append(parts[p], w.Evs...)
		n += len(w.Evs)
	}
	return parts, g.ts
}

func sectionResend(rng *vh.Rng) {
	sec := res.Section("resend", "system-correspondence",
		"1, 2 or 3 partitions (no timestamp shared by two partitions), with WHERE / with RANGE / without a filter; a server-held cursor (WaitTimeout 1): page 1, page 2, then page 2's request again (same id, older position); the repeated answer must equal page 2. All three answers are compared with the Lean Querier.Query model (mixer tree built in the leaf order of the real cursor). With WHERE/RANGE, or with a merged cursor, the repeated page is finding F22 (model agrees); one partition without a filter must repeat page 2. non-trivial = page 2 not empty and the cursor was held")
	n := 63
	if args.Thorough {
		n = 117
	}
	var cs []resend
	loadCorpus("resend", func(raw json.RawMessage, _ string) {
		var c resend
		if json.Unmarshal(raw, &c) == nil && (len(c.Evs) > 0 || len(c.Parts) > 0) {
			cs = append(cs, c)
		}
	})
	for i := 0; i < n; i++ {
		c := resend{ChunkSize: 130, Limit: rng.Range(1, 4)}
		np := 1 + (i/3)%3
		var lastTs int64
		if np == 1 {
			g := &tsGen{ties: true}
			c.Evs = g.batch(rng, 0, rng.Range(6, 30)).Evs
			lastTs = g.ts
		} else {
			c.Parts, lastTs = genResendParts(rng, np)
		}
		switch i % 3 {
		case 0:
			c.Where = true
		case 1:
			c.Range = &[2]int64{int64(rng.Range(0, 3)), lastTs - int64(rng.Intn(3))}
		}
		cs = append(cs, c)
	}
	srv, err := lrsrv.Start(lrsrv.NewDir(), lrsrv.Opts{MaxChunkSize: 130, NoRPC: true})
	if err != nil {
		res.Fatal(args.Out, "resend: %v", err)
	}
	defer func() { srv.Stop(); os.RemoveAll(srv.Dir) }()
	drv, err := vh.Open(args.Driver)
	if err != nil {
		res.Fatal(args.Out, "resend: driver: %v", err)
	}
	defer drv.Close()
	for _, c := range cs {
		runResend(srv, drv, c, sec, false)
	}
	res.Done(sec)
}


// ---------------------------------------------------------------------------------------------
// select: api.Select (the client-side paging loop) in limited mode

type selCase struct {
	Events int  `json:"events"` // one partition with this many events (every third dropped by WHERE)
	Where  bool `json:"where"`
	Limit  int  `json:"limit"`
	Rpc    bool `json:"rpc"`
}

type backendQuerier struct{ srv *lrsrv.Srv }

func (b backendQuerier) Query(ctx context.Context, req *api.QueryRequest, res *api.QueryResult) error {
	rq := *req
	r, err := b.srv.Querier.Query(ctx, &rq)
	if err == io.EOF && r != nil {
		err = nil
	}
	if err != nil {
		return err
	}
	*res = *r
	return nil
}

func runSelect(srv *lrsrv.Srv, w *rdh.World, c selCase, sec *vh.Section, verbose bool) {
	var want []int
	for _, e := range w.Parts[0].Evs {
		if rdh.Matches(e, c.Where, nil) && len(want) < c.Limit {
			want = append(want, e.Lbl)
		}
	}
	var got []int
	pages := 0
	content := ""
	var err error
	var q api.Querier = backendQuerier{srv}
	if c.Rpc {
		q = srv.Client
	}
	ok := vh.WithTimeout(60*time.Second, func() {
		ctx, cancel := context.WithTimeout(context.Background(), 60*time.Second)
		defer cancel()
		err = api.Select(ctx, q, &api.QueryRequest{Query: w.Query(c.Where, nil), Limit: c.Limit}, false, func(r *api.QueryResult) {
			pages++
			if d := w.VerifyAll(r.Events); d != "" && content == "" {
				content = d
			}
			for _, e := range r.Events {
				got = append(got, rdh.ParseMsg(e.Message))
			}
		})
	})
	key := ""
	if c.Limit > 1 {
		key = fmt.Sprint(c)
	}
	res.Eval(sec, key)
	res.Dist(sec, fmt.Sprintf("pages=%s", bucket(pages)))
	if verbose {
		fmt.Printf("select limit=%d where=%v: got %d events in %d pages, want %d, err=%v\n", c.Limit, c.Where, len(got), pages, len(want), err)
	}
	if !ok {
		res.SpecFail(vh.SpecFailure{Section: "select", Kind: "hang", Input: c, Impl: "no answer in 60 s", Spec: "returns", What: "api.Select did not return"})
		return
	}
	if content != "" {
		res.SpecFail(vh.SpecFailure{Section: "select", Kind: "event-content", Input: c, Impl: content, Spec: "every event as written: timestamp, message, tags, fields",
			What: "a delivered event differs from the stored one"})
	}
	same := err == nil && len(got) == len(want)
	for i := 0; same && i < len(got); i++ {
		same = got[i] == want[i]
	}
	if !same {
		kind := "missing-event"
		if len(got) > len(want) {
			kind = "too-many-events"
		}
		res.SpecFail(vh.SpecFailure{Section: "select", Kind: kind, Input: c, Impl: fmt.Sprintf("%d events in %d pages (err=%v), last %v", len(got), pages, err, tailInts(got, 3)),
			Spec: fmt.Sprintf("%d events, last %v", len(want), tailInts(want, 3)),
			What: "api.Select with a total limit does not deliver the first min(limit, matching) events exactly once in stored order"})
	}
}

func tailInts(xs []int, n int) []int {
	if len(xs) > n {
		return xs[len(xs)-n:]
	}
	return xs
}

func sectionSelect(rng *vh.Rng) {
	sec := res.Section("select", "spec-search",
		"api.Select (the client loop that follows NextQueryRequest until its total limit is used up) in limited mode over one partition with 10 050 events (QueryMaxLimit + 50), through the RPC client and through backend.Querier, with and without WHERE, total limits 1, 7, 9 999, 10 000, 10 001, 10 050, 12 000 and a random one: the server clamps every page to QueryMaxLimit, the client must go on until it has limit events or an empty page. SPEC: exactly the first min(limit, matching) events in stored order; non-trivial = limit > 1")
	srv, err := lrsrv.Start(lrsrv.NewDir(), lrsrv.Opts{MaxChunkSize: 60000})
	if err != nil {
		res.Fatal(args.Out, "select: %v", err)
	}
	defer func() { srv.Stop(); os.RemoveAll(srv.Dir) }()
	w := rdh.NewWorld(srv, newGrp())
	var evs []rdh.Ev
	for k := 0; k < 10050; k++ {
		evs = append(evs, rdh.Ev{Lbl: k, Ts: int64(10 + k/3), Keep: k%3 != 2, Fld: 1 + (k*7/5)%3})
	}
	if err := w.Write(0, evs); err != nil {
		res.Fatal(args.Out, "select: %v", err)
	}
	srv.FlushWait()
	var cs []selCase
	loadCorpus("select", func(raw json.RawMessage, _ string) {
		var c selCase
		if json.Unmarshal(raw, &c) == nil && c.Limit > 0 {
			cs = append(cs, c)
		}
	})
	for _, l := range []int{1, 7, 9999, 10000, 10001, 10050, 12000, rng.Range(2, 13000)} {
		cs = append(cs, selCase{Events: 10050, Limit: l, Rpc: rng.Bool()})
		cs = append(cs, selCase{Events: 10050, Limit: l, Where: true, Rpc: rng.Bool()})
	}
	for _, c := range cs {
		runSelect(srv, w, c, sec, false)
	}
	res.Done(sec)
}

// ---------------------------------------------------------------------------------------------

func replay(path string) {
	var rp struct {
		Section string          `json:"section"`
		Input   json.RawMessage `json:"input"`
	}
	if err := vh.ReadJSON(path, &rp); err != nil {
		res.Fatal(args.Out, "replay: %v", err)
	}
	sec := res.Section(rp.Section, "replay", "replay of one recorded input")
	switch rp.Section {
	case "jiter":
		var c jcase
		json.Unmarshal(rp.Input, &c)
		runJCases([]jcase{c}, sec, true)
	case "scripted":
		var c scriptCase
		json.Unmarshal(rp.Input, &c)
		var got int
		var first string
		if c.LastChunk {
			got, first = runScriptedLast(c)
		} else {
			got, first = runScripted(c)
		}
		fmt.Printf("read %d of %d records, first %s\n", got, c.New, first)
		if got != c.New || first != "r0" {
			res.SpecFail(vh.SpecFailure{Section: "scripted", Kind: "tail-skip", Input: c, Impl: fmt.Sprintf("%d records, first %s", got, first), Spec: fmt.Sprintf("%d records", c.New), Finding: "F34a", What: "records skipped"})
		}
	case "paging":
		var h phist
		json.Unmarshal(rp.Input, &h)
		runPHists([]phist{h}, sec, true)
	case "select":
		var c selCase
		json.Unmarshal(rp.Input, &c)
		srv, err := lrsrv.Start(lrsrv.NewDir(), lrsrv.Opts{MaxChunkSize: 60000})
		if err != nil {
			res.Fatal(args.Out, "select: %v", err)
		}
		w := rdh.NewWorld(srv, newGrp())
		var evs []rdh.Ev
		for k := 0; k < c.Events; k++ {
			evs = append(evs, rdh.Ev{Lbl: k, Ts: int64(10 + k/3), Keep: k%3 != 2, Fld: 1 + (k*7/5)%3})
		}
		w.Write(0, evs)
		srv.FlushWait()
		runSelect(srv, w, c, sec, true)
		srv.Stop()
		os.RemoveAll(srv.Dir)
	case "resend":
		var c resend
		json.Unmarshal(rp.Input, &c)
		srv, err := lrsrv.Start(lrsrv.NewDir(), lrsrv.Opts{MaxChunkSize: c.ChunkSize, NoRPC: true})
		if err != nil {
			res.Fatal(args.Out, "resend: %v", err)
		}
		drv, _ := vh.Open(args.Driver)
		runResend(srv, drv, c, sec, true)
		drv.Close()
		srv.Stop()
		os.RemoveAll(srv.Dir)
	default:
		res.Note("replay: section %q has no single-input replay; re-run the check with the recorded seed", rp.Section)
	}
	for _, f := range res.SpecFailures {
		fmt.Printf("SPEC-FAIL kind=%s finding=%q impl=%s spec=%s\n", f.Kind, f.Finding, f.Impl, f.Spec)
	}
	for _, m := range res.Mismatches {
		fmt.Printf("MISMATCH %s impl=%s model=%s\n", m.Function, m.Impl, m.Model)
	}
	res.Write(args.Out)
}

func main() {
	args = vh.ParseArgs()
	res = vh.NewResult("C03", args)
	if args.Replay != "" {
		replay(args.Replay)
		return
	}
	rng := vh.NewRng(args.Seed)
	sectionPosStr(rng.Fork("posstr"))
	sectionScripted(rng.Fork("scripted"))
	sectionJIter(rng.Fork("jiter"))
	sectionResend(rng.Fork("resend"))
	sectionSelect(rng.Fork("select"))
	sectionPaging(rng.Fork("paging"))
	res.Write(args.Out)
}
