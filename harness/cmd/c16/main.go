// C16 harness — backward navigation and offsets are consistent with forward order.
//
// Sections
//
//	offset-api  system / SPEC: api.Querier.Query (backend.Querier and the RPC client) with Pos and Offset against
//	            slices of the filtered forward result: head+k, tail-k, from every page boundary ±k, +k then -k;
//	            k in {0, ±1, ±(n-1), ±n, ±(n+1), ±big}; RANGE/WHERE; partitions wholly outside the range
//	cursor      system-correspondence: the real cursor (cursor.Provider) with its leaf order read through an
//	            export vs the Lean cursor/Offset model, op by op (get/next/offset/state) + SPEC under that order
//	incarn      positions taken under one cursor incarnation navigated under another (finding F23 class:
//	            cross-partition timestamp ties and a different leaf order; otherwise the law must hold)
package main

import (
	"context"
	"encoding/json"
	"fmt"
	"io"
	"os"
	"sort"
	"strings"
	"sync"
	"sync/atomic"
	"time"

	"github.com/logrange/logrange/api"
	"github.com/logrange/logrange/pkg/cursor"
	"github.com/logrange/logrange/pkg/model"
	"verifharness/internal/lrsrv"
	"verifharness/internal/rdh"
	"verifharness/internal/vh"
)

var (
	args vh.Args
	res  *vh.Result
)

const callTimeout = 15 * time.Second

// a call that hangs leaves a spinning goroutine behind: after three of them the remaining cases are skipped
var hangs int32

func tooManyHangs() bool { return atomic.LoadInt32(&hangs) >= 3 }

type write struct {
	Part int      `json:"p"`
	Evs  []rdh.Ev `json:"e"`
}

// hist is one stored history plus a query.
type hist struct {
	ChunkSize int       `json:"chunk_size"`
	Init      []write   `json:"init"`
	Where     bool      `json:"where"`
	Range     *[2]int64 `json:"range,omitempty"`
	CrossTies bool      `json:"cross_ties"`
	Rpc       bool      `json:"rpc"`
	// FieldWhere: the WHERE tests a field; kept events carry it, the others another value or NO fields at all
	FieldWhere bool `json:"fw,omitempty"`
}

var grpSeq int
var grpMu sync.Mutex

func newGrp() string {
	grpMu.Lock()
	defer grpMu.Unlock()
	grpSeq++
	return fmt.Sprintf("h%d", grpSeq)
}

func genHist(rng *vh.Rng, chunkSize, i int) hist {
	h := hist{ChunkSize: chunkSize, Where: rng.Chance(2, 5), Rpc: rng.Bool(), CrossTies: i%4 == 3}
	np := rng.PickI([]int{1, 1, 2, 2, 3})
	ts := int64(10)
	seq := map[int]int{}
	used := map[int64]int{} // timestamp -> partition that owns it (no cross ties unless wanted)
	nb := rng.Range(np, np+4)
	outside := np >= 2 && rng.Chance(1, 3) // partition np-1 lies wholly before or after everything else
	var outsideLo, outsideHi int64
	for b := 0; b < nb; b++ {
		p := b
		if b >= np {
			p = rng.Intn(np)
		}
		if outside && p == np-1 && b >= np {
			p = 0
		}
		n := rng.Range(1, 12)
		w := write{Part: p}
		for k := 0; k < n; k++ {
			step := int64(rng.PickI([]int{0, 0, 1, 1, 2, 3}))
			ts += step
			if !h.CrossTies {
				for {
					if o, ok := used[ts]; ok && o != p {
						ts++
						continue
					}
					break
				}
			}
			used[ts] = p
			w.Evs = append(w.Evs, rdh.Ev{Lbl: p*100000 + seq[p], Ts: ts, Keep: rng.Chance(3, 5)})
			seq[p]++
		}
		if outside && p == np-1 {
			outsideLo, outsideHi = w.Evs[0].Ts, w.Evs[len(w.Evs)-1].Ts
		}
		h.Init = append(h.Init, w)
	}
	if h.Where && rng.Bool() {
		h.FieldWhere = true
		for bi := range h.Init {
			for ei := range h.Init[bi].Evs {
				rdh.SetFieldMode(&h.Init[bi].Evs[ei], rng.Intn(4))
			}
		}
	}
	switch rng.Intn(6) {
	case 0, 1:
		lo := int64(rng.Range(10, int(ts)))
		h.Range = &[2]int64{lo, lo + int64(rng.Range(0, int(ts-lo)+3))}
	case 2:
		h.Range = &[2]int64{1, ts + 5} // full range
	case 3:
		if outside {
			// the range excludes the outside partition wholly
			if outsideHi < ts {
				h.Range = &[2]int64{outsideHi + 1, ts + 2}
			} else {
				h.Range = &[2]int64{1, outsideLo - 1}
			}
		}
	}
	return h
}

// forward is the reference forward order: filtered events merged by (timestamp, rank of the partition).
func forward(w *rdh.World, h hist, rank map[int]int) []rdh.Ev {
	var all []rdh.Ev
	for _, p := range w.Parts {
		for _, e := range p.Evs {
			if rdh.Matches(e, h.Where, h.Range) {
				all = append(all, e)
			}
		}
	}
	sort.SliceStable(all, func(a, b int) bool {
		if all[a].Ts != all[b].Ts {
			return all[a].Ts < all[b].Ts
		}
		ra, rb := rank[rdh.PartOf(all[a].Lbl)], rank[rdh.PartOf(all[b].Lbl)]
		if ra != rb {
			return ra < rb
		}
		return all[a].Lbl < all[b].Lbl
	})
	return all
}

func lbls(evs []rdh.Ev) []int {
	r := make([]int, len(evs))
	for i, e := range evs {
		r[i] = e.Lbl
	}
	return r
}

func setup(srv *lrsrv.Srv, h hist) *rdh.World {
	w := rdh.NewWorld(srv, newGrp())
	w.FieldWhere = h.FieldWhere
	for _, wr := range h.Init {
		if err := w.Write(wr.Part, wr.Evs); err != nil {
			res.Note("write: %v", err)
			return nil
		}
	}
	srv.FlushWait()
	return w
}

type qrunner struct {
	srv *lrsrv.Srv
	rpc bool
}

func (q *qrunner) query(req api.QueryRequest) (evs []int, next api.QueryRequest, err error, hung bool) {
	ok := vh.WithTimeout(callTimeout, func() {
		ctx, cancel := context.WithTimeout(context.Background(), callTimeout)
		defer cancel()
		if q.rpc && req.Limit > 0 {
			r := &api.QueryResult{}
			err = q.srv.Client.Query(ctx, &req, r)
			if err == nil && r.Err != nil {
				err = r.Err
			}
			for _, e := range r.Events {
				evs = append(evs, rdh.ParseMsg(e.Message))
			}
			next = r.NextQueryRequest
			return
		}
		r, e := q.srv.Querier.Query(ctx, &req)
		if e == io.EOF && r != nil {
			e = nil
		}
		err = e
		if r != nil {
			for _, ev := range r.Events {
				evs = append(evs, rdh.ParseMsg(ev.Message))
			}
			next = r.NextQueryRequest
		}
	})
	return evs, next, err, !ok
}

func tsOf(w *rdh.World, l int) int64 {
	p := w.Parts[rdh.PartOf(l)]
	return p.Evs[l%100000].Ts
}

func sliceFrom(f []rdh.Ev, i int) []rdh.Ev {
	if i < 0 {
		i = 0
	}
	if i > len(f) {
		i = len(f)
	}
	return f[i:]
}

func ks(n int) []int {
	return []int{0, 1, -1, 2, -2, n - 1, -(n - 1), n, -n, n + 1, -(n + 1), 1000, -1000, n / 2, -(n / 2)}
}

// runOffsetAPI checks the offset laws through Query on one history.
func runOffsetAPI(srv *lrsrv.Srv, drv *vh.Driver, h hist, sec *vh.Section, only *probe, verbose bool) {
	if tooManyHangs() {
		return
	}
	w := setup(srv, h)
	if w == nil {
		return
	}
	if verbose {
		for i := range w.Parts {
			fmt.Printf("partition %d: records per chunk %v\n", i, w.Counts(i))
		}
	}
	q := w.Query(h.Where, h.Range)
	qr := &qrunner{srv: srv, rpc: h.Rpc}
	rank := map[int]int{}
	for i := range w.Parts {
		rank[i] = i
	}
	fwd := forward(w, h, rank)
	n := len(fwd)
	// since f086c95 the leaf order of every cursor is the tag-line order (= partition number here), so timestamp ties
	// across partitions are broken the same way in every incarnation: the oracle is exact for every history
	exact := true
	fail := func(kind, what string, pr probe, impl, spec string) {
		res.SpecFail(vh.SpecFailure{Section: "offset-api", Kind: kind, Input: map[string]interface{}{"hist": h, "probe": pr}, Impl: impl, Spec: spec, What: what})
	}
	// the forward read itself
	all, _, err, hung := qr.query(api.QueryRequest{Query: q, Pos: "head", Limit: 10000})
	if hung || err != nil {
		fail("hang", "the unlimited forward read failed", probe{}, fmt.Sprint(err, hung), "forward result")
		return
	}
	cmp := func(got []int, want []rdh.Ev) bool {
		if len(got) != len(want) {
			return false
		}
		for i := range got {
			if exact {
				if got[i] != want[i].Lbl {
					return false
				}
			} else if got[i] < 0 || tsOf(w, got[i]) != want[i].Ts {
				return false
			}
		}
		return true
	}
	if !cmp(all, fwd) {
		// an event the filter must reject (e.g. a field-less event read after one whose fields match the WHERE) is not an
		// ordering problem: say so
		want := map[int]bool{}
		for _, e := range fwd {
			want[e.Lbl] = true
		}
		for _, l := range all {
			if !want[l] {
				fail("where-delivers-non-matching-event", "the forward read under WHERE/RANGE delivers an event that does not match (the offset laws are stated with the filter applied)", probe{}, fmt.Sprint(all), fmt.Sprint(lbls(fwd)))
				return
			}
		}
		fail("forward-order", "the forward read is not the time-ordered merge of the matching events (C04's subject; the offset oracle needs it)", probe{}, fmt.Sprint(all), fmt.Sprint(lbls(fwd)))
		return
	}
	if exact {
		// use the implementation's own forward result as the reference sequence
		for i := range all {
			fwd[i].Lbl = all[i]
		}
	}
	// a HELD cursor (same request id) sent back to a corner position: whether the server re-positions the held cursor
	// or builds a new one, `head` must read the whole forward result again and `tail` with offset -k its last k events
	if (only == nil || only.Kind == "held-corner") && n >= 3 {
		res.Dist(sec, "held-corner")
		func() {
			_, nx1, err, hung := qr.query(api.QueryRequest{Query: q, Pos: "head", Limit: 2, WaitTimeout: 1})
			if hung || err != nil || nx1.ReqId == 0 {
				return
			}
			defer cursor.VerifDropIdle(srv.Cursors)
			got, nx2, err, hung := qr.query(api.QueryRequest{ReqId: nx1.ReqId, Query: q, Pos: "head", Limit: 10000})
			if hung {
				fail("hang", "a query naming a held cursor with position head did not return", probe{Kind: "held-corner"}, "no answer in 15 s", "a page")
				return
			}
			if err != nil || !cmp(got, fwd) {
				fail("held-cursor-corner-position", "a request that names a held cursor and asks for position head does not read the forward result from its beginning", probe{Kind: "held-corner", Start: 0}, fmt.Sprint(got, err), fmt.Sprint(lbls(fwd)))
				return
			}
			id := nx2.ReqId
			if id == 0 {
				id = nx1.ReqId
			}
			k := 1 + n/2
			got, _, err, hung = qr.query(api.QueryRequest{ReqId: id, Query: q, Pos: "tail", Offset: -k, Limit: 10000})
			if hung {
				fail("hang", "a query naming a held cursor with position tail did not return", probe{Kind: "held-corner"}, "no answer in 15 s", "a page")
				return
			}
			if err != nil || !cmp(got, sliceFrom(fwd, n-k)) {
				fail("held-cursor-corner-position", "a request that names a held cursor and asks for position tail with offset -k does not read the last k events of the forward result", probe{Kind: "held-corner", Start: n, K: -k}, fmt.Sprint(got, err), fmt.Sprint(lbls(sliceFrom(fwd, n-k))))
			}
		}()
	}
	// the offset of a request is applied ONCE: `head +k` with a small limit, then the server's NextQueryRequest sent back
	// VERBATIM page after page (what api.Select and the shell do) must read fwd[k:] — on the RPC path and through
	// backend.Querier (regenerated fact continuationOffsetZero, theorem continuation_request_offset_zero)
	if (only == nil || only.Kind == "offset-continuation") && n >= 3 {
		paths := []*qrunner{{srv: srv, rpc: false}}
		if srv.Client != nil {
			paths = append(paths, &qrunner{srv: srv, rpc: true})
		}
		for _, pq := range paths {
			for _, k := range []int{1, n / 2} {
				res.Dist(sec, fmt.Sprintf("offset-continuation rpc=%v", pq.rpc))
				pr := probe{Kind: "offset-continuation", Start: 0, K: k}
				req := api.QueryRequest{Query: q, Pos: "head", Offset: k, Limit: 2}
				var got []int
				bad := false
				for page := 0; page < n+3; page++ {
					evs, nx, err, hung := pq.query(req)
					if hung || err != nil {
						fail("hang", "a page of a followed offset request failed", pr, fmt.Sprint(err, hung), "a page")
						bad = true
						break
					}
					if nx.Offset != 0 {
						fail("continuation-carries-offset", fmt.Sprintf("the NextQueryRequest of a request with Offset %d carries Offset %d (rpc=%v): a client that follows it verbatim skips events again on every page", k, nx.Offset, pq.rpc), pr, fmt.Sprintf("page %d: NextQueryRequest.Offset=%d", page, nx.Offset), "NextQueryRequest.Offset=0")
						bad = true
						break
					}
					got = append(got, evs...)
					if len(evs) == 0 {
						break
					}
					req = nx
				}
				cursor.VerifDropIdle(srv.Cursors)
				if !bad {
					res.Eval(sec, fmt.Sprintf("offset-continuation %v %d %d", pq.rpc, k, n))
					if !cmp(got, sliceFrom(fwd, k)) {
						fail("offset-wrong-slice", fmt.Sprintf("head +%d followed through NextQueryRequest (rpc=%v) does not read the forward result from event %d on", k, pq.rpc, k), pr, fmt.Sprint(got), fmt.Sprint(lbls(sliceFrom(fwd, k))))
					}
				}
			}
		}
	}
	if only != nil && (only.Kind == "held-corner" || only.Kind == "offset-continuation") {
		return // a recorded probe of these kinds is the whole block above
	}
	// positions after i events, taken from pages of the forward read
	posAfter := map[int]string{0: "head", n: "tail"}
	at := []int{1, n / 3, n / 2, n - 1}
	if only != nil {
		at = append(at, only.Start) // a recorded probe may start anywhere
	}
	for _, i := range at {
		if i <= 0 || i >= n {
			continue
		}
		_, nx, err, hung := qr.query(api.QueryRequest{Query: q, Pos: "head", Limit: i})
		if hung || err != nil {
			fail("hang", "a forward page failed", probe{}, fmt.Sprint(err, hung), "a page")
			return
		}
		posAfter[i] = nx.Pos
	}
	var starts []int
	for i := range posAfter {
		starts = append(starts, i)
	}
	sort.Ints(starts)
	aborted := false
	run := func(pr probe) {
		if aborted || tooManyHangs() {
			return
		}
		i, k := pr.Start, pr.K
		dk := k
		if pr.Kind == "back-and-forth" && dk > 0 {
			dk = -dk // this probe moves backward by k
		}
		res.Dist(sec, fmt.Sprintf("start=%s k=%s", startName(i, n), kName(dk, n)))
		res.Dist(sec, "probe="+pr.Kind)
		key := ""
		if n >= 3 && k != 0 {
			key = fmt.Sprint(h.Init, h.Where, h.Range, pr)
		}
		res.Eval(sec, key)
		switch pr.Kind {
		case "read":
			got, _, err, hung := qr.query(api.QueryRequest{Query: q, Pos: posAfter[i], Offset: k, Limit: 10000})
			if hung {
				atomic.AddInt32(&hangs, 1)
				aborted = true
				fail("hang", "a query with an offset did not return", pr, "no answer in 15 s", "a page")
				return
			}
			want := sliceFrom(fwd, i+k)
			if verbose {
				fmt.Printf("read start=%d k=%d got=%v want=%v err=%v\n", i, k, got, lbls(want), err)
			}
			if err != nil || !cmp(got, want) {
				kind := "offset-wrong-slice"
				if len(got) == 0 && len(want) > 0 {
					kind = "offset-empty-page"
				} else if len(got) == len(want)+1 || len(got)+1 == len(want) {
					kind = "offset-off-by-one"
				}
				fail(kind, "position + offset followed by a forward read is not the corresponding slice of the forward result", pr, fmt.Sprint(got, err), fmt.Sprint(lbls(want)))
			}
		case "there-and-back":
			// +k then -k (both inside the data) leads back to the same next event; backend path (limit 0 = position only)
			q2 := &qrunner{srv: srv}
			_, nx, err, hung := q2.query(api.QueryRequest{Query: q, Pos: posAfter[i], Offset: k, Limit: 0})
			if hung || err != nil {
				fail("hang", "a query with an offset did not return", pr, fmt.Sprint(err, hung), "a position")
				return
			}
			got, _, err, hung := qr.query(api.QueryRequest{Query: q, Pos: nx.Pos, Offset: -k, Limit: 1})
			if hung {
				fail("hang", "a query with an offset did not return", pr, "no answer in 15 s", "a page")
				return
			}
			want := sliceFrom(fwd, i)
			if len(want) > 1 {
				want = want[:1]
			}
			if verbose {
				fmt.Printf("there-and-back start=%d k=%d from=%s via=%s got=%v want=%v\n", i, k, w.PosToModel(posAfter[i]), w.PosToModel(nx.Pos), got, lbls(want))
			}
			if err != nil || !cmp(got, want) {
				fail("offset-not-inverse", "moving by +k and then by -k does not lead back to the same next event", pr, fmt.Sprint(got, err), fmt.Sprint(lbls(want)))
			}
		case "back-and-forth":
			// the reverse order: -k first, the position exported right after the backward walk (Limit 0, backend path),
			// then a plain read from that position must deliver the event the cursor stands on, fwd[i-k]
			if k < 0 {
				k = -k
			}
			if k == 0 || i-k < 0 || i > n || !exact {
				return
			}
			q2 := &qrunner{srv: srv}
			_, nx, err, hung := q2.query(api.QueryRequest{Query: q, Pos: posAfter[i], Offset: -k, Limit: 0})
			if hung {
				atomic.AddInt32(&hangs, 1)
				aborted = true
			}
			if hung || err != nil {
				fail("hang", "a query with a negative offset and limit 0 did not return a position", pr, fmt.Sprint(err, hung), "a position")
				return
			}
			got, _, err, hung := qr.query(api.QueryRequest{Query: q, Pos: nx.Pos, Offset: 0, Limit: 1})
			if hung {
				atomic.AddInt32(&hangs, 1)
				aborted = true
				fail("hang", "a query from an exported position did not return", pr, "no answer in 15 s", "a page")
				return
			}
			want := fwd[i-k : i-k+1]
			if verbose {
				fmt.Printf("back-and-forth start=%d k=%d from=%s exported=%s got=%v want=%v err=%v\n", i, k, w.PosToModel(posAfter[i]), w.PosToModel(nx.Pos), got, lbls(want), err)
			}
			if err == nil && cmp(got, want) {
				return
			}
			// kind: the client that follows the exported position loses fwd[i-k] (it gets a later event or nothing)
			kind := "exported-position-wrong"
			if err == nil && (len(got) == 0 || indexOf(fwd, got[0]) > i-k) {
				kind = "exported-position-skips-event"
			}
			// MODEL: the same two requests
			mPos, mEv := modelBackAndForth(drv, w, h, w.PosToModel(posAfter[i]), k, verbose)
			eq := err == nil && mEv == rdh.IntsStr(got) && mPos == w.PosToModel(nx.Pos)
			finding := ""
			inClass, variant := f48Class(w, nx.Pos, want[0].Lbl)
			// RANGE queries read through the in-repo partition.JIterator, which is not the finding's site
			if eq && kind == "exported-position-skips-event" && inClass && h.Range == nil {
				finding = "F48"
				res.Dist(sec, fmt.Sprintf("F48 %s parts=%d where=%v", variant, len(w.Parts), h.Where))
			}
			res.SpecFail(vh.SpecFailure{Section: "offset-api", Kind: kind, Input: map[string]interface{}{"hist": h, "probe": pr},
				Impl: fmt.Sprintf("exported %s, then read %v %v", w.PosToModel(nx.Pos), got, errStr(err)), Spec: fmt.Sprint(lbls(want)),
				Model: fmt.Sprintf("exported %s, then read %s", mPos, mEv), ImplEqModel: eq, Finding: finding,
				What: "a position exported (Limit 0) right after a negative offset does not name the event the cursor stands on: a client that reads from it does not get the event k steps before the start"})
		}
	}
	if only != nil {
		if _, ok := posAfter[only.Start]; ok {
			run(*only)
		}
		return
	}
	for _, i := range starts {
		if !exact && i != 0 && i != n {
			continue // a position vector inside tied data is a cut only under the order of the cursor that produced it (F23)
		}
		for _, k := range ks(n) {
			run(probe{Kind: "read", Start: i, K: k})
			// "+k and then -k": the forward hop first, as the property words it (the reverse order exports a
			// position right after a backward walk — see design-notes/C16.md, observation on Limit 0)
			if exact && k > 0 && i+k <= n && i < n {
				run(probe{Kind: "there-and-back", Start: i, K: k})
			}
			// "-k and then read": the position exported right after the backward walk (finding F48 class)
			if exact && k > 0 && i-k >= 0 {
				run(probe{Kind: "back-and-forth", Start: i, K: k})
			}
		}
	}
}

func errStr(err error) string {
	if err == nil {
		return ""
	}
	return "err=" + err.Error()
}

func indexOf(f []rdh.Ev, lbl int) int {
	for i, e := range f {
		if e.Lbl == lbl {
			return i
		}
	}
	return -1
}

func field(ans, key string) string {
	for _, f := range strings.Fields(ans) {
		if strings.HasPrefix(f, key+"=") {
			return f[len(key)+1:]
		}
	}
	return "?"
}

// modelBackAndForth asks the Lean query-loop model the two requests of a back-and-forth probe: the position it
// exports for {pos, Offset -k, Limit 0} and the page {that position, Limit 1}.
func modelBackAndForth(drv *vh.Driver, w *rdh.World, h hist, pos string, k int, verbose bool) (mPos, mEv string) {
	if drv == nil {
		return "no-driver", "no-driver"
	}
	ask := func(l string) string {
		a := drv.Ask(l)
		if verbose {
			fmt.Printf("   model: %-70.70s -> %s\n", l, a)
		}
		return a
	}
	wh, mn, mx, rg, tr := modelArgs(h)
	ask("reset")
	var perm []string
	for i := range w.Parts {
		ask(w.Layout(i, tr))
		perm = append(perm, fmt.Sprint(i))
	}
	ps := "-"
	if len(perm) > 1 {
		ps = strings.Join(perm, ",") // no cross-partition ties here, so the leaf order does not matter
	}
	ask("q.reset")
	a1 := ask(fmt.Sprintf("q.page 0 1 all %s %s %s %s %s 0 %d 0 %s", wh, mn, mx, rg, pos, -k, ps))
	mPos = field(a1, "pos")
	a2 := ask(fmt.Sprintf("q.page 0 1 all %s %s %s %s %s 1 0 0 %s", wh, mn, mx, rg, mPos, ps))
	return mPos, field(a2, "ev")
}

// f48Class is the class predicate of finding F48 (the probe is a back-and-forth one: a position exported with
// Limit 0 right after a negative offset): the event the cursor stands on after the backward walk (label lbl) is the
// LAST record of its chunk — the first record a backward Get delivers in a chunk whose iterator was positioned at
// the chunk's record count, i.e. the chunk was entered from the following chunk or the walk started at the chunk's
// end (tail) — and the exported position of its partition is (that chunk, number of records of that chunk), one
// record too far. variant: "successor" = the chunk is followed by another chunk, "tail" = it is the last chunk.
func f48Class(w *rdh.World, exported string, lbl int) (in bool, variant string) {
	p := rdh.PartOf(lbl)
	if p < 0 || p >= len(w.Parts) {
		return false, ""
	}
	ck, idx, ok := w.Locate(p, lbl%100000)
	if !ok || idx != w.Counts(p)[ck]-1 {
		return false, ""
	}
	pps, ok := w.ParsePosText(exported)
	if !ok {
		return false, ""
	}
	for _, pp := range pps {
		if pp.Part == p && pp.Chunk == ck && pp.Idx == pp.Count {
			if pp.Last {
				return true, "tail"
			}
			return true, "successor"
		}
	}
	return false, ""
}

type probe struct {
	Kind  string `json:"kind"`
	Start int    `json:"start"`
	K     int    `json:"k"`
}

func startName(i, n int) string {
	switch {
	case i == 0:
		return "head"
	case i == n:
		return "tail"
	}
	return "inside"
}

func kName(k, n int) string {
	a := k
	if a < 0 {
		a = -a
	}
	s := "+"
	if k < 0 {
		s = "-"
	}
	switch {
	case k == 0:
		return "0"
	case a == 1:
		return s + "1"
	case a == n-1:
		return s + "(n-1)"
	case a == n:
		return s + "n"
	case a == n+1:
		return s + "(n+1)"
	case a > n+1:
		return s + "big"
	}
	return s + "inside"
}

func loadCorpus(section string, v func(raw json.RawMessage)) {
	for _, f := range vh.CorpusFiles(args.Corpus) {
		var rp struct {
			Section string          `json:"section"`
			Input   json.RawMessage `json:"input"`
		}
		if vh.ReadJSON(f, &rp) == nil && rp.Section == section {
			v(rp.Input)
		}
	}
}

type apiCase struct {
	Hist  hist   `json:"hist"`
	Probe *probe `json:"probe,omitempty"`
}

func byServer(n int, sizes []int, f func(srv *lrsrv.Srv, drv *vh.Driver, idx []int), pick func(i int) int, needDrv, rpc bool) {
	groups := map[int][]int{}
	for i := 0; i < n; i++ {
		groups[pick(i)] = append(groups[pick(i)], i)
	}
	var wg sync.WaitGroup
	for size, idx := range groups {
		for half := 0; half < 2; half++ {
			var mine []int
			for k, i := range idx {
				if k%2 == half {
					mine = append(mine, i)
				}
			}
			if len(mine) == 0 {
				continue
			}
			wg.Add(1)
			go func(size int, mine []int) {
				defer wg.Done()
				var drv *vh.Driver
				if needDrv {
					var err error
					drv, err = vh.Open(args.Driver)
					if err != nil {
						res.Note("driver: %v", err)
						return
					}
					defer drv.Close()
				}
				// a fresh server every 80 cases (the library's journal controller gives up after a few thousand journals)
				for from := 0; from < len(mine); from += 100000 {
					to := from + 100000
					if to > len(mine) {
						to = len(mine)
					}
					srv, err := lrsrv.Start(lrsrv.NewDir(), lrsrv.Opts{MaxChunkSize: size, NoRPC: !rpc})
					if err != nil {
						res.Note("server: %v", err)
						return
					}
					f(srv, drv, mine[from:to])
					srv.Stop()
					os.RemoveAll(srv.Dir)
				}
			}(size, mine)
		}
	}
	wg.Wait()
}

func sectionOffsetAPI(rng *vh.Rng) {
	sec := res.Section("offset-api", "spec-search",
		"histories of 1..3 partitions x 1..6 chunks (MaxChunkSize 90..400), timestamp ties inside partitions, every fourth history also across partitions (exact too: every request is a new cursor incarnation and all of them break ties in tag-line order), WHERE and RANGE (random, full, or excluding one partition wholly); Query with Pos in {head, tail, after 1, n/3, n/2, n-1 events} and Offset k in {0, ±1, ±2, ±(n-1), ±n, ±(n+1), ±1000, ±n/2}: the page must be the slice fwd[i+k:] of the forward result (clamped at both ends), and +k followed by -k must return to the same next event; through backend.Querier and the RPC client; every call under a 15 s time-out; non-trivial = n >= 3 and k != 0, distinct by (history, probe)")
	n := 160
	if args.Thorough {
		n = 300
	}
	sizes := []int{90, 130, 200, 400}
	var cases []apiCase
	loadCorpus("offset-api", func(raw json.RawMessage) {
		var c apiCase
		if json.Unmarshal(raw, &c) == nil && len(c.Hist.Init) > 0 {
			cases = append(cases, c)
		}
	})
	for i := 0; i < n; i++ {
		cases = append(cases, apiCase{Hist: genHist(rng, sizes[i%len(sizes)], i)})
	}
	byServer(len(cases), sizes, func(srv *lrsrv.Srv, drv *vh.Driver, idx []int) {
		for _, i := range idx {
			runOffsetAPI(srv, drv, cases[i].Hist, sec, cases[i].Probe, false)
		}
	}, func(i int) int { return cases[i].Hist.ChunkSize }, true, true)
	res.Done(sec)
}

// ---------------------------------------------------------------------------------------------
// cursor: the real cursor vs the model, leaf order known

type cop struct {
	Op string `json:"op"`
	K  int    `json:"k,omitempty"`
}

type curCase struct {
	Hist  hist   `json:"hist"`
	Start string `json:"start"` // head | tail
	Ops   []cop  `json:"ops"`
}

func modelArgs(h hist) (wh, mn, mx, rg string, tr *model.TimeRange) {
	wh, mn, mx, rg = "0", "none", "none", "0"
	if h.Where {
		wh = "1"
	}
	if h.Range != nil {
		mn, mx, rg = fmt.Sprint(h.Range[0]), fmt.Sprint(h.Range[1]), "1"
		tr = &model.TimeRange{MinTs: h.Range[0], MaxTs: h.Range[1]}
	}
	return
}

func leafOrder(w *rdh.World, cur cursor.Cursor) ([]int, string) {
	names := cursor.VerifLeafOrder(cur)
	var order []int
	var ss []string
	for _, nm := range names {
		for _, p := range w.Parts {
			if p.Src == nm {
				order = append(order, p.Idx)
				ss = append(ss, fmt.Sprint(p.Idx))
			}
		}
	}
	return order, strings.Join(ss, " ")
}

func evLabel(le model.LogEvent, err error) string {
	if err == io.EOF {
		return "eof"
	}
	if err != nil {
		return "ERR " + err.Error()
	}
	return fmt.Sprint(rdh.ParseMsg(string(le.Msg)))
}

func genCurCase(rng *vh.Rng, chunkSize, i int) curCase {
	h := genHist(rng, chunkSize, i)
	h.CrossTies = i%2 == 1
	if h.CrossTies {
		h = genHistTies(rng, chunkSize)
	}
	c := curCase{Hist: h, Start: rng.PickS([]string{"head", "tail"})}
	n := 0
	for _, w := range h.Init {
		for _, e := range w.Evs {
			if rdh.Matches(e, h.Where, h.Range) {
				n++
			}
		}
	}
	k := rng.PickI(ks(n))
	c.Ops = append(c.Ops, cop{Op: "offset", K: k}, cop{Op: "read3"})
	m := rng.Range(5, 30)
	for j := 0; j < m; j++ {
		switch op := rng.Intn(10); {
		case op < 3:
			c.Ops = append(c.Ops, cop{Op: "get"})
		case op < 6:
			c.Ops = append(c.Ops, cop{Op: "next"})
		case op < 8:
			k := rng.Intn(9) - 4
			if rng.Chance(1, 5) {
				k = rng.PickI(ks(n))
			}
			c.Ops = append(c.Ops, cop{Op: "offset", K: k})
		default:
			c.Ops = append(c.Ops, cop{Op: "state"})
		}
	}
	return c
}

// genHistTies: 2..3 partitions drawing from one slow clock, so that timestamps tie across partitions.
func genHistTies(rng *vh.Rng, chunkSize int) hist {
	h := hist{ChunkSize: chunkSize, Where: rng.Chance(1, 3), CrossTies: true}
	np := rng.Range(2, 3)
	ts := int64(10)
	seq := map[int]int{}
	nb := rng.Range(np, np+4)
	for b := 0; b < nb; b++ {
		p := b % np
		w := write{Part: p}
		n := rng.Range(1, 8)
		for k := 0; k < n; k++ {
			w.Evs = append(w.Evs, rdh.Ev{Lbl: p*100000 + seq[p], Ts: ts + int64(seq[p]/2), Keep: rng.Chance(3, 4)})
			seq[p]++
		}
		h.Init = append(h.Init, w)
	}
	if h.Where && rng.Bool() {
		h.FieldWhere = true
		for bi := range h.Init {
			for ei := range h.Init[bi].Evs {
				rdh.SetFieldMode(&h.Init[bi].Evs[ei], rng.Intn(4))
			}
		}
	}
	if rng.Chance(1, 3) {
		h.Range = &[2]int64{ts + 1, ts + 4}
	}
	return h
}

func runCurCase(srv *lrsrv.Srv, drv *vh.Driver, c curCase, sec *vh.Section, verbose bool) {
	if tooManyHangs() {
		return
	}
	h := c.Hist
	w := setup(srv, h)
	if w == nil {
		return
	}
	ctx := context.Background()
	wh, mn, mx, rg, tr := modelArgs(h)
	var cur cursor.Cursor
	var err error
	if !vh.WithTimeout(callTimeout, func() {
		cur, err = srv.Cursors.GetOrCreate(ctx, cursor.State{Query: w.Query(h.Where, h.Range), Pos: c.Start}, false)
	}) || err != nil {
		res.Note("cursor: GetOrCreate: %v", err)
		return
	}
	order, orderS := leafOrder(w, cur)
	rank := map[int]int{}
	for r, p := range order {
		rank[p] = r
	}
	// SPEC (f086c95): the leaf order is the tag-line order, i.e. the partition numbers ascending
	if !sort.IntsAreSorted(order) {
		res.SpecFail(vh.SpecFailure{Section: "cursor", Kind: "leaf-order-not-canonical", Input: c, Impl: orderS, Spec: "partitions in tag-line order", Finding: "F23",
			What: "the mixer tree of a cursor is not built in tag-line order: the priority that breaks timestamp ties between partitions differs between cursor incarnations"})
	}
	fwd := forward(w, h, rank)
	n := len(fwd)
	ask := func(l string) string {
		a := drv.Ask(l)
		if verbose {
			fmt.Printf("   model: %-50.50s -> %s\n", l, a)
		}
		return a
	}
	ask("reset")
	for i := range w.Parts {
		ask(w.Layout(i, tr))
	}
	ask(fmt.Sprintf("c.new %s %s %s %s %s %s", wh, mn, mx, rg, c.Start, orderS))
	idx := 0 // SPEC: index in fwd of the next event, while it is known
	if c.Start == "tail" {
		idx = n
	}
	known := true
	bad := false
	// under a filter a Next that does not follow a Get moves the underlying iterator by one stored record, not by
	// one matching event (Query and Offset always Get first); index arithmetic is only claimed for settled cursors
	settled := false
	filtered := h.Where || h.Range != nil
	for step, o := range c.Ops {
		var impl, mdl, fn string
		hung := !vh.WithTimeout(callTimeout, func() {
			switch o.Op {
			case "get":
				fn = "crsr.Get"
				le, _, err := cur.Get(ctx)
				impl = evLabel(le, err)
				mdl = ask("c.get")
				settled = true
			case "next":
				fn = "crsr.Next"
				cur.Next(ctx)
				impl, mdl = "ok", ask("c.next")
				if !settled && filtered {
					known = false
				}
				settled = false
				if idx < n {
					idx++
				}
			case "offset":
				fn = "crsr.Offset"
				cur.Offset(ctx, o.K)
				impl, mdl = "ok", ask(fmt.Sprintf("c.offset %d", o.K))
				if o.K != 0 {
					settled = false // an Offset that ran into either end leaves the cursor beside the data, not on an event
				}
				idx += o.K
				if idx < 0 {
					idx = 0
				}
				if idx > n {
					idx = n
				}
			case "read3":
				fn = "read after Offset"
				var got []int
				for k := 0; k < 3; k++ {
					le, _, err := cur.Get(ctx)
					if err != nil {
						break
					}
					got = append(got, rdh.ParseMsg(string(le.Msg)))
					cur.Next(ctx)
				}
				impl, mdl = rdh.IntsStr(got), ask("c.read 3")
				want := sliceFrom(fwd, idx)
				if len(want) > 3 {
					want = want[:3]
				}
				if known && impl != rdh.IntsStr(lbls(want)) {
					res.SpecFail(vh.SpecFailure{Section: "cursor", Kind: "offset-wrong-slice", Input: c, Impl: impl, Spec: rdh.IntsStr(lbls(want)), Model: mdl, ImplEqModel: impl == mdl,
						What: "Offset from head/tail followed by a forward read is not the slice of the forward order of this cursor (fixed leaf order)"})
				}
				idx += len(got)
				settled = false
			case "state":
				settled = true
				fn = "crsr.State"
				st := cur.State(ctx)
				impl, mdl = w.PosToModel(st.Pos), ask("c.state")
			}
		})
		if hung {
			atomic.AddInt32(&hangs, 1)
			res.SpecFail(vh.SpecFailure{Section: "cursor", Kind: "hang", Input: c, Impl: "no answer in 15 s: " + o.Op, Spec: "returns", What: "a cursor call did not return"})
			return
		}
		if verbose {
			fmt.Printf("step %d %s %d: impl=%s model=%s\n", step, o.Op, o.K, impl, mdl)
		}
		// SPEC for get: the event at idx of the forward order
		if o.Op == "get" && known {
			want := "eof"
			if idx < n {
				want = fmt.Sprint(fwd[idx].Lbl)
			}
			if impl != want {
				res.SpecFail(vh.SpecFailure{Section: "cursor", Kind: "navigation-inconsistent", Input: c, Impl: impl, Spec: want, Model: mdl, ImplEqModel: impl == mdl,
					What: "after a sequence of next/offset steps the cursor's next event is not the one forward order arithmetic predicts (one incarnation, fixed leaf order)"})
				known = false
			}
		}
		res.Dist(sec, o.Op)
		if impl != mdl && !bad {
			bad = true
			res.Mismatch(vh.Mismatch{Section: "cursor", Function: fmt.Sprintf("%s (step %d, leaf order %s)", fn, step, orderS), Input: c, Impl: impl, Model: mdl})
			break
		}
	}
	srv.Cursors.Release(ctx, cur)
	key := ""
	if n >= 3 {
		key = fmt.Sprint(c)
	}
	res.Eval(sec, key)
	res.Dist(sec, fmt.Sprintf("parts=%d ties=%v range=%v where=%v", len(w.Parts), h.CrossTies, h.Range != nil, h.Where))
}

func sectionCursor(rng *vh.Rng) {
	sec := res.Section("cursor", "system-correspondence",
		"the real cursor from cursor.Provider over 1..3 partitions (half of the histories with timestamp ties across partitions), leaf order of its mixer tree read through the verif export; first op: Offset k from head or tail with k in {0, ±1, ±2, ±(n-1), ±n, ±(n+1), ±1000, ±n/2} and a read of 3 events (SPEC: slice of the forward order under that leaf order), then 5..30 random get/next/offset/state steps, each compared with the Lean cursor model and, for get, with index arithmetic on the forward order; non-trivial = at least 3 matching events, distinct by case")
	n := 400
	if args.Thorough {
		n = 800
	}
	sizes := []int{90, 130, 200, 400}
	var cases []curCase
	loadCorpus("cursor", func(raw json.RawMessage) {
		var c curCase
		if json.Unmarshal(raw, &c) == nil && len(c.Hist.Init) > 0 {
			cases = append(cases, c)
		}
	})
	for i := 0; i < n; i++ {
		cases = append(cases, genCurCase(rng, sizes[i%len(sizes)], i))
	}
	byServer(len(cases), sizes, func(srv *lrsrv.Srv, drv *vh.Driver, idx []int) {
		for _, i := range idx {
			runCurCase(srv, drv, cases[i], sec, false)
		}
	}, func(i int) int { return cases[i].Hist.ChunkSize }, true, false)
	res.Done(sec)
}

// ---------------------------------------------------------------------------------------------
// incarn: a position vector taken under one incarnation, navigated under another

type incCase struct {
	Hist hist `json:"hist"`
	I    int  `json:"events_read_first"`
	K    int  `json:"k"`
}

func runIncCase(srv *lrsrv.Srv, drv *vh.Driver, c incCase, sec *vh.Section, verbose bool) {
	if tooManyHangs() {
		return
	}
	h := c.Hist
	w := setup(srv, h)
	if w == nil {
		return
	}
	ctx := context.Background()
	wh, mn, mx, rg, tr := modelArgs(h)
	q := w.Query(h.Where, h.Range)
	curA, err := srv.Cursors.GetOrCreate(ctx, cursor.State{Query: q, Pos: "head"}, false)
	if err != nil {
		return
	}
	orderA, orderAS := leafOrder(w, curA)
	rank := map[int]int{}
	for r, p := range orderA {
		rank[p] = r
	}
	fwd := forward(w, h, rank)
	n := len(fwd)
	i := c.I
	if i > n {
		i = n
	}
	for k := 0; k < i; k++ {
		curA.Get(ctx)
		curA.Next(ctx)
	}
	st := srv.Cursors.Release(ctx, curA)
	want := "eof"
	if i < n {
		want = fmt.Sprint(fwd[i].Lbl)
	}
	ties := false
	seenTs := map[int64]int{}
	for _, e := range fwd {
		if p, ok := seenTs[e.Ts]; ok && p != rdh.PartOf(e.Lbl) {
			ties = true
		}
		seenTs[e.Ts] = rdh.PartOf(e.Lbl)
	}
	// up to 8 new incarnations; each is checked, one with another leaf order is what the finding needs
	for try := 0; try < 8; try++ {
		var curB cursor.Cursor
		if !vh.WithTimeout(callTimeout, func() {
			curB, err = srv.Cursors.GetOrCreate(ctx, cursor.State{Query: q, Pos: st.Pos}, false)
		}) || err != nil {
			return
		}
		_, orderBS := leafOrder(w, curB)
		var impl string
		hung := !vh.WithTimeout(callTimeout, func() {
			curB.Offset(ctx, c.K)
			curB.Offset(ctx, -c.K)
			le, _, err := curB.Get(ctx)
			impl = evLabel(le, err)
		})
		if hung {
			res.SpecFail(vh.SpecFailure{Section: "incarn", Kind: "hang", Input: c, Impl: "no answer", Spec: "returns", What: "Offset did not return"})
			return
		}
		srv.Cursors.Release(ctx, curB)
		drv.Ask("reset")
		for p := range w.Parts {
			drv.Ask(w.Layout(p, tr))
		}
		drv.Ask(fmt.Sprintf("c.new %s %s %s %s head %s", wh, mn, mx, rg, orderBS))
		drv.Ask("c.apply " + w.PosToModel(st.Pos))
		drv.Ask(fmt.Sprintf("c.offset %d", c.K))
		drv.Ask(fmt.Sprintf("c.offset %d", -c.K))
		mdl := drv.Ask("c.get")
		if verbose {
			fmt.Printf("orderA=%s orderB=%s i=%d k=%d: impl=%s model=%s want=%s ties=%v\n", orderAS, orderBS, i, c.K, impl, mdl, want, ties)
		}
		res.Dist(sec, fmt.Sprintf("same-order=%v ties=%v", orderAS == orderBS, ties))
		if impl != mdl {
			res.Mismatch(vh.Mismatch{Section: "incarn", Function: fmt.Sprintf("Offset(+%d), Offset(-%d), Get on a cursor built from a position vector (leaf order %s)", c.K, c.K, orderBS), Input: c, Impl: impl, Model: mdl})
			return
		}
		if impl != want {
			f := ""
			// class: two partitions share a timestamp AND the navigation crosses cursor incarnations with another order
			if ties && orderAS != orderBS {
				f = "F23"
			}
			res.SpecFail(vh.SpecFailure{Section: "incarn", Kind: "offset-not-inverse", Input: c, Impl: impl, Spec: want, Model: mdl, ImplEqModel: impl == mdl, Finding: f,
				What: fmt.Sprintf("a position vector taken under leaf order [%s] navigated under leaf order [%s]: +k then -k does not lead back to the same next event", orderAS, orderBS)})
			break
		}
	}
	key := ""
	if n >= 3 && c.K != 0 {
		key = fmt.Sprint(c)
	}
	res.Eval(sec, key)
}

func sectionIncarn(rng *vh.Rng) {
	sec := res.Section("incarn", "system-correspondence",
		"2..3 partitions with timestamp ties across them (and tie-free controls): read i events under one cursor, take its State, build up to 8 new cursors from that position vector (Go's map order decides their leaf order), Offset(+k) then Offset(-k) with both inside the data, Get: must be event i of the first cursor's forward order. Each compared with the model under the observed leaf order; a deviation with ties and a different leaf order is finding F23; non-trivial = at least 3 events and k != 0")
	n := 120
	if args.Thorough {
		n = 300
	}
	var cases []incCase
	loadCorpus("incarn", func(raw json.RawMessage) {
		var c incCase
		if json.Unmarshal(raw, &c) == nil && len(c.Hist.Init) > 0 {
			cases = append(cases, c)
		}
	})
	for i := 0; i < n; i++ {
		var h hist
		if i%4 == 3 {
			h = genHist(rng, 130, 0)
		} else {
			h = genHistTies(rng, 130)
		}
		m := 0
		for _, w := range h.Init {
			for _, e := range w.Evs {
				if rdh.Matches(e, h.Where, h.Range) {
					m++
				}
			}
		}
		if m < 2 {
			continue
		}
		ii := rng.Range(0, m-1)
		k := rng.Range(1, m-ii)
		cases = append(cases, incCase{Hist: h, I: ii, K: k})
	}
	byServer(len(cases), []int{130}, func(srv *lrsrv.Srv, drv *vh.Driver, idx []int) {
		for _, i := range idx {
			runIncCase(srv, drv, cases[i], sec, false)
		}
	}, func(i int) int { return 130 }, true, false)
	res.Done(sec)
}

// ---------------------------------------------------------------------------------------------

func replay(path string) {
	var rp struct {
		Section string          `json:"section"`
		Input   json.RawMessage `json:"input"`
	}
	if err := vh.ReadJSON(path, &rp); err != nil {
		res.Fatal(args.Out, "replay: %v", err)
	}
	sec := res.Section(rp.Section, "replay", "replay of one recorded input")
	start := func(size int, rpc bool) (*lrsrv.Srv, *vh.Driver) {
		srv, err := lrsrv.Start(lrsrv.NewDir(), lrsrv.Opts{MaxChunkSize: size, NoRPC: !rpc})
		if err != nil {
			res.Fatal(args.Out, "replay: %v", err)
		}
		drv, _ := vh.Open(args.Driver)
		return srv, drv
	}
	switch rp.Section {
	case "offset-api":
		var c apiCase
		json.Unmarshal(rp.Input, &c)
		srv, drv := start(c.Hist.ChunkSize, true)
		runOffsetAPI(srv, drv, c.Hist, sec, c.Probe, true)
		drv.Close()
		srv.Stop()
		os.RemoveAll(srv.Dir)
	case "cursor":
		var c curCase
		json.Unmarshal(rp.Input, &c)
		srv, drv := start(c.Hist.ChunkSize, false)
		runCurCase(srv, drv, c, sec, true)
		drv.Close()
		srv.Stop()
		os.RemoveAll(srv.Dir)
	case "incarn":
		var c incCase
		json.Unmarshal(rp.Input, &c)
		srv, drv := start(c.Hist.ChunkSize, false)
		runIncCase(srv, drv, c, sec, true)
		drv.Close()
		srv.Stop()
		os.RemoveAll(srv.Dir)
	default:
		res.Note("replay: section %q has no single-input replay", rp.Section)
	}
	for _, f := range res.SpecFailures {
		fmt.Printf("SPEC-FAIL kind=%s finding=%q impl=%s spec=%s\n", f.Kind, f.Finding, f.Impl, f.Spec)
	}
	for _, m := range res.Mismatches {
		fmt.Printf("MISMATCH %s impl=%s model=%s\n", m.Function, m.Impl, m.Model)
	}
	res.Write(args.Out)
}

func main() {
	args = vh.ParseArgs()
	res = vh.NewResult("C16", args)
	if args.Replay != "" {
		replay(args.Replay)
		return
	}
	rng := vh.NewRng(args.Seed)
	sectionOffsetAPI(rng.Fork("offset-api"))
	sectionCursor(rng.Fork("cursor"))
	sectionIncarn(rng.Fork("incarn"))
	res.Write(args.Out)
}
