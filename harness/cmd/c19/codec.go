// C19 harness — section `codec`: the concrete text of pipes.dat.
//
// The Lean model Model/RegistryJson.lean (jsonString, junquote, encPipes, decPipes, loadMap) is compared with
//   - encoding/json on strings (every single byte, pairs of the bytes the encoder treats specially, random byte strings incl.
//     invalid UTF-8, hand-written literals with escapes the encoder never emits),
//   - encoding/json on whole registries ([]pipe.Pipe),
//   - the real pipes.dat a running server writes (the file's bytes = encPipes of the definitions in the file's order; decPipes of
//     the file = the registry; the registry after a restart = what went in), for definitions whose strings are valid UTF-8 and
//     contain quotes, backslashes, control bytes, '<', U+2028.
//
// theorems tied: junquote_jsonString, decPipes_encPipes, codec_round_trip_utf8, registry_survives_restart_json.
package main

import (
	"encoding/hex"
	"encoding/json"
	"fmt"
	"io/ioutil"
	"os"
	"path/filepath"
	"sort"
	"strings"
	"unicode/utf8"

	"github.com/logrange/logrange/pkg/pipe"
	"verifharness/internal/lrsrv"
	"verifharness/internal/vh"
)

func hx(s string) string {
	if s == "" {
		return "-"
	}
	return hex.EncodeToString([]byte(s))
}

var codecSpecial = []byte{0x00, 0x01, 0x08, 0x09, 0x0a, 0x0c, 0x0d, 0x1f, 0x20, '"', '&', '\'', '/', '<', '>', '\\', 'a', 'u', 0x7f,
	0x80, 0xbf, 0xc0, 0xc2, 0xc3, 0xa9, 0xe0, 0xe2, 0xa8, 0xa9, 0xed, 0xa0, 0xef, 0xbd, 0xf0, 0xf4, 0x90, 0xf5, 0xff}

func codecStrings(rng *vh.Rng, nRandom int) []string {
	var out []string
	for b := 0; b < 256; b++ {
		out = append(out, string([]byte{byte(b)}))
	}
	for _, a := range codecSpecial {
		for _, b := range codecSpecial {
			out = append(out, string([]byte{a, b}))
		}
	}
	out = append(out, "", "\u2028", "\u2029", "x\u2028y", "\xef\xbf\xbd", "\xed\xa0\x80", "\xc0\x80", "\xf4\x90\x80\x80", "\xe2\x80", "é", "日本", "😀",
		"a\"\\<\né\u2028", "name like \"x*\"", "msg contains \"a\\\"b\"", "{a=\"<&>\"}", "fields:f = \"\\t\"")
	for i := 0; i < nRandom; i++ {
		n := rng.Range(0, 12)
		b := make([]byte, n)
		for j := range b {
			switch rng.Intn(4) {
			case 0:
				b[j] = codecSpecial[rng.Intn(len(codecSpecial))]
			case 1:
				b[j] = byte(0x20 + rng.Intn(0x5f))
			default:
				b[j] = byte(rng.Intn(256))
			}
		}
		out = append(out, string(b))
	}
	return out
}

// literals the encoder never emits
var codecLiterals = []string{`"\/"`, `"\u0041"`, `"\ud83d\ude00"`, `"\ud800"`, `"\ude00\ud83d"`, `"\ud800x"`, `"\u00e9"`, `"\u00E9"`, `"\'"`, `"\U0041"`, `"\u12"`,
	`"abc`, `"a\"`, "\"a\x01b\"", "\"\xff\"", "\"\xe2\x80\"", `"\b\f\n\r\t"`, `"\x41"`, `""`, `"\\\\"`, `"a"rest`, `"\ud83dx"`, `"\ud83d\u0041"`, `"\uDBFF\uDFFF"`}

func implUnquote(lit string) string {
	// a string literal at the head of the text, as the decoder reads it: find the literal's end with the scanner's rule
	// (a quote not preceded by an odd run of backslashes), then Unmarshal that literal
	if len(lit) == 0 || lit[0] != '"' {
		return "err"
	}
	i := 1
	for i < len(lit) {
		if lit[i] == '\\' {
			i += 2
			continue
		}
		if lit[i] == '"' {
			break
		}
		i++
	}
	if i >= len(lit) {
		return "err"
	}
	var s string
	if err := json.Unmarshal([]byte(lit[:i+1]), &s); err != nil {
		return "err"
	}
	return "ok " + hx(s) + " " + hx(lit[i+1:])
}

func showPipes3(ps []pipe.Pipe) string {
	parts := []string{fmt.Sprint(len(ps))}
	for _, p := range ps {
		parts = append(parts, hx(p.Name), hx(p.TagsCond), hx(p.FltCond))
	}
	return strings.Join(parts, " ")
}

func sectionCodec(rng *vh.Rng) {
	sec := res.Section("codec", "unit-correspondence",
		"pipes.dat as bytes: jsonString/junquote vs encoding/json on strings (all single bytes, special pairs, random incl. invalid UTF-8, hand-written literals), encPipes/decPipes/loadMap vs Marshal/Unmarshal/Init's map loop on registries, and vs the file a real server writes and reads back. non-trivial = strings with an escape or a non-ASCII byte, registries with >= 2 pipes, every server case")
	nRandom, nRegs, nSrv := 600, 150, 6
	if args.Thorough {
		nRandom, nRegs, nSrv = 12000, 3000, 40
	}
	strs := codecStrings(rng.Fork("strings"), nRandom)
	var lines []string
	for _, s := range strs {
		lines = append(lines, "jstr "+hx(s))
		m, _ := json.Marshal(s)
		lines = append(lines, "junq "+hx(string(m)+"]tail"))
	}
	for _, l := range codecLiterals {
		lines = append(lines, "junq "+hx(l))
	}
	// registries
	type regCase struct {
		ps []pipe.Pipe
	}
	var regs []regCase
	rr := rng.Fork("regs")
	for i := 0; i < nRegs; i++ {
		n := rr.Range(0, 5)
		var ps []pipe.Pipe
		for j := 0; j < n; j++ {
			ps = append(ps, pipe.Pipe{Name: strs[rr.Intn(len(strs))], TagsCond: strs[rr.Intn(len(strs))], FltCond: rr.PickS(fltConds)})
		}
		regs = append(regs, regCase{ps})
		l := "jenc"
		for _, p := range ps {
			l += " " + hx(p.Name) + " " + hx(p.TagsCond) + " " + hx(p.FltCond)
		}
		lines = append(lines, l)
		m, _ := json.Marshal(append([]pipe.Pipe{}, ps...))
		lines = append(lines, "jdec "+hx(string(m)))
	}
	ans, err := vh.Batch(args.Driver, lines)
	if err != nil {
		res.Mismatch(vh.Mismatch{Section: "codec", Function: "driver", Impl: err.Error()})
		res.Done(sec)
		return
	}
	k := 0
	for _, s := range strs {
		m, _ := json.Marshal(s)
		key := ""
		if len(m) != len(s)+2 || !utf8.ValidString(s) {
			key = hx(s)
		}
		res.Eval(sec, key)
		if !utf8.ValidString(s) {
			res.Dist(sec, "string=invalid-utf8")
		} else if key != "" {
			res.Dist(sec, "string=escaped")
		} else {
			res.Dist(sec, "string=plain")
		}
		if ans[k] != hx(string(m)) {
			res.Mismatch(vh.Mismatch{Section: "codec", Function: "json.Marshal(string) vs jsonString", Input: hx(s), Impl: hx(string(m)), Model: ans[k]})
		}
		want := implUnquote(string(m) + "]tail")
		if ans[k+1] != want {
			res.Mismatch(vh.Mismatch{Section: "codec", Function: "json.Unmarshal(Marshal(string)) vs junquote", Input: hx(s), Impl: want, Model: ans[k+1]})
		}
		k += 2
	}
	for _, l := range codecLiterals {
		res.Eval(sec, "lit:"+l)
		res.Dist(sec, "string=hand-written-literal")
		want := implUnquote(l)
		if ans[k] != want {
			res.Mismatch(vh.Mismatch{Section: "codec", Function: "json.Unmarshal(literal) vs junquote", Input: hx(l), Impl: want, Model: ans[k]})
		}
		k++
	}
	for _, rc := range regs {
		m, _ := json.Marshal(append([]pipe.Pipe{}, rc.ps...))
		key := ""
		if len(rc.ps) >= 2 {
			key = hx(string(m))
		}
		res.Eval(sec, key)
		res.Dist(sec, fmt.Sprintf("registry=%d-pipes", len(rc.ps)))
		if ans[k] != hx(string(m)) {
			res.Mismatch(vh.Mismatch{Section: "codec", Function: "json.Marshal([]Pipe) vs encPipes", Input: showPipes3(rc.ps), Impl: hx(string(m)), Model: ans[k]})
		}
		var back []pipe.Pipe
		want := "outside"
		if err := json.Unmarshal(m, &back); err == nil {
			// Init's loop: a later duplicate overwrites the earlier entry (the model keeps the first entry's place)
			var order []string
			mp := map[string]pipe.Pipe{}
			for _, p := range back {
				if _, in := mp[p.Name]; !in {
					order = append(order, p.Name)
				}
				mp[p.Name] = p
			}
			var loaded []pipe.Pipe
			for _, n := range order {
				loaded = append(loaded, mp[n])
			}
			want = "ok " + showPipes3(back) + " | map " + showPipes3(loaded)
		}
		if ans[k+1] != want {
			res.Mismatch(vh.Mismatch{Section: "codec", Function: "json.Unmarshal + Init's map loop vs decPipes + loadMap", Input: hx(string(m)), Impl: want, Model: ans[k+1]})
		}
		k += 2
	}

	// the file a real server writes
	srvNames := []string{"a\"q", "b\\s", "c<d>&e", "line\nbreak", "tab\t", "é", "x\u2028y", "ctl\x01\x1f", "plain", "日本", "😀", "sl/ash", "\xef\xbf\xbd", "del\x7f"}
	sr := rng.Fork("srv")
	for c := 0; c < nSrv; c++ {
		func() {
			dir := lrsrv.NewDir()
			defer os.RemoveAll(dir)
			srv, err := lrsrv.Start(dir, lrsrv.Opts{NoRPC: true})
			if err != nil {
				res.Note("codec: server did not start: %v", err)
				return
			}
			want := map[string]pipe.Pipe{}
			for i := 0; i < sr.Range(1, 5); i++ {
				p := pipe.Pipe{Name: sr.PickS(srvNames), TagsCond: sr.PickS([]string{"", "a=\"<x>\"", "name like \"x*\"", "{a=\"q\\\"q\",b=2}", "a=\"é\u2028\""}), FltCond: sr.PickS(append([]string{"msg contains \"q\\\"q\"", "msg contains \"a\\\\b\"", "msg contains \"<&>\"", "msg contains \"é\""}, fltConds...))}
				if _, err := srv.Pipes.CreatePipe(p); err == nil {
					want[p.Name] = p
				}
			}
			// a definition that is not valid UTF-8 cannot be written to pipes.dat unchanged (encoding/json replaces the bytes):
			// newPPipe refuses it (/repo 3cf6638); accepted = the pipe would come back from a restart under another name
			for _, bad := range []pipe.Pipe{{Name: "bad\xff"}, {Name: "badtags", TagsCond: "a=\"\xfe\""}, {Name: "badflt", FltCond: "msg contains \"\xc0\x80\""}} {
				if sr.Chance(1, 2) {
					continue
				}
				if _, err := srv.Pipes.CreatePipe(bad); err == nil {
					res.SpecFail(vh.SpecFailure{Section: "codec", Kind: "non-utf8-definition-accepted", Input: map[string]interface{}{"name_hex": hx(bad.Name), "tags_hex": hx(bad.TagsCond), "flt_hex": hx(bad.FltCond)},
						Impl: "created", Spec: "refused", What: "a pipe definition that is not valid UTF-8 cannot survive a restart unchanged and must be refused"})
					srv.Pipes.DeletePipe(bad.Name)
				}
				res.Dist(sec, "server-create=non-utf8 (must be refused)")
			}
			data, rerr := ioutil.ReadFile(filepath.Join(dir, "pipes", "pipes.dat"))
			srv.Stop()
			input := map[string]interface{}{"pipes": fmt.Sprint(want)}
			if rerr != nil {
				res.SpecFail(vh.SpecFailure{Section: "codec", Kind: "pipes-dat-missing", Input: input, Impl: rerr.Error(), Spec: "pipes.dat written by CreatePipe", What: "an acknowledged create is in pipes.dat"})
				return
			}
			var inFile []pipe.Pipe
			if err := json.Unmarshal(data, &inFile); err != nil {
				res.SpecFail(vh.SpecFailure{Section: "codec", Kind: "pipes-dat-not-decodable", Input: input, Impl: err.Error(), Spec: "decodable", What: "pipes.dat must be readable"})
				return
			}
			l := "jenc"
			for _, p := range inFile {
				l += " " + hx(p.Name) + " " + hx(p.TagsCond) + " " + hx(p.FltCond)
			}
			a2, err := vh.Batch(args.Driver, []string{l, "jdec " + hx(string(data))})
			if err != nil {
				res.Mismatch(vh.Mismatch{Section: "codec", Function: "driver", Impl: err.Error()})
				return
			}
			if plain, _ := json.Marshal(inFile); string(plain) != string(data) {
				// the server does not write plain json.Marshal([]Pipe) (another layout, e.g. indented): the byte-level model does not
				// describe this file; the property itself is still checked below (file = registry, restart gives it back)
				res.Note("codec: pipes.dat is not json.Marshal of its own content (other layout): byte-level model not compared")
				res.Dist(sec, "server-file=other-layout")
			} else {
				if a2[0] != hx(string(data)) {
					res.Mismatch(vh.Mismatch{Section: "codec", Function: "the server's pipes.dat vs encPipes of its definitions (file order)", Input: input, Impl: hx(string(data)), Model: a2[0]})
				}
				if wantDec := "ok " + showPipes3(inFile) + " | map " + showPipes3(inFile); a2[1] != wantDec {
					res.Mismatch(vh.Mismatch{Section: "codec", Function: "decPipes/loadMap of the server's pipes.dat", Input: input, Impl: wantDec, Model: a2[1]})
				}
			}
			// what is in the file is the registry, and a restart gives it back
			same := func(got []pipe.Pipe) bool {
				if len(got) != len(want) {
					return false
				}
				for _, g := range got {
					if w, in := want[g.Name]; !in || w != g {
						return false
					}
				}
				return true
			}
			if !same(inFile) {
				res.SpecFail(vh.SpecFailure{Section: "codec", Kind: "pipes-dat-is-not-the-registry", Input: input, Impl: fmt.Sprint(inFile), Spec: fmt.Sprint(want), What: "pipes.dat holds exactly the registered definitions"})
			}
			srv2, err := lrsrv.Start(dir, lrsrv.Opts{NoRPC: true})
			if err != nil {
				res.SpecFail(vh.SpecFailure{Section: "codec", Kind: "restart-refused", Input: input, Impl: err.Error(), Spec: "starts", What: "the server must start again after a clean stop"})
				return
			}
			got := srv2.Pipes.GetPipes()
			srv2.Stop()
			if !same(got) {
				names := []string{}
				for n := range want {
					names = append(names, n)
				}
				sort.Strings(names)
				res.SpecFail(vh.SpecFailure{Section: "codec", Kind: "registry-changed-on-restart", Input: input, Impl: fmt.Sprint(got), Spec: fmt.Sprint(want), What: "definitions with quotes, escapes and non-ASCII runes survive the restart unchanged"})
			}
			res.Eval(sec, "srv:"+fmt.Sprint(want))
			res.Dist(sec, fmt.Sprintf("server-registry=%d-pipes", len(want)))
		}()
	}
	res.Done(sec)
}
