// C19 harness — pipe registry: unique names, alphabetical paginated listing, idempotent ensure.
//
// Sections
//
//	listing      unit/system: populate the real pipe.Service with a name set, call GetPipes repeatedly
//	             (Go randomises map order per call) — IMPL vs MODEL (getPipes) vs SPEC (sorted set)
//	saverace     concurrent creates vs the registry file (hook-parked), crash image compared with the model's transition system
//	history      system: random create/ensure/delete/get/show/describe/restart sequences through
//	             Admin.Execute, the RPC Pipes API and pipe.Service — IMPL vs MODEL (registry) vs SPEC (a Go map)
//	paging       SHOW PIPES OFFSET/LIMIT walks — pages concatenate to the listing, each pipe once
//	race         concurrent CreatePipe of one name: parked between the two locked sections (hook) and free-running
//	codec        the concrete text of pipes.dat: the JSON model vs encoding/json and vs the file a real server writes (codec.go)
package main

import (
	"context"
	"encoding/json"
	"fmt"
	"os"
	"path/filepath"
	"sort"
	"strconv"
	"strings"
	"sync"
	"time"

	"github.com/logrange/logrange/api"
	"github.com/logrange/logrange/pkg/lql"
	"github.com/logrange/logrange/pkg/pipe"
	"github.com/logrange/logrange/pkg/utils/verifhook"
	"verifharness/internal/lrsrv"
	"verifharness/internal/vh"
)

var (
	args vh.Args
	res  *vh.Result
)

// names the generator draws from: LQL identifiers (usable in CREATE PIPE) and arbitrary strings (direct API)
var identNames = []string{"a", "b", "c", "A", "B", "ab", "aa", "a1", "a_b", "zz", "Z", "p1", "p10", "p2", "m", "M", "_x", "b.c", "b-c", "b:c"}
var rawNames = []string{"é", "a b", "ÿ", "\x01", "a\x00", "~", "a=b", "{x}", "\"q\"", "0", "00", " lead"}

var tagConds = []string{"", "a=1", "{a=1}", "a=1 and b=2", "name like \"x*\"", "{a=1,b=2}"}
var badTagConds = []string{"a=", "{a", "a like", "and"}
var fltConds = []string{"", "msg contains \"x\"", "ts > 10", "fields:f = \"1\"", "lower(msg) prefix \"e\""}
var badFltConds = []string{"msg =", "ts like 5", "foo = 1"}

func parses(tags, flt string) bool {
	if _, err := lql.BuildTagsExpFunc(tags); err != nil {
		return false
	}
	if _, err := lql.BuildWhereExpFunc(flt); err != nil {
		return false
	}
	return true
}

func b2i(b bool) string {
	if b {
		return "1"
	}
	return "0"
}

func sortedCopy(xs []string) []string {
	c := append([]string{}, xs...)
	sort.Strings(c)
	return c
}

func pipeNames(ps []pipe.Pipe) []string {
	r := make([]string, len(ps))
	for i, p := range ps {
		r[i] = p.Name
	}
	return r
}

// copyDir copies a directory tree (regular files and directories)
func copyDir(src, dst string) error {
	return filepath.Walk(src, func(p string, info os.FileInfo, err error) error {
		if err != nil {
			return err
		}
		rel, _ := filepath.Rel(src, p)
		t := filepath.Join(dst, rel)
		if info.IsDir() {
			return os.MkdirAll(t, 0750)
		}
		if !info.Mode().IsRegular() {
			return nil
		}
		b, err := os.ReadFile(p)
		if err != nil {
			return err
		}
		return os.WriteFile(t, b, 0640)
	})
}

func hexNames(ns []string) string {
	h := make([]string, len(ns))
	for i, n := range ns {
		h[i] = vh.HxS(n)
	}
	return strings.Join(h, " ")
}

// ---------------------------------------------------------------------------------------------
// listing

type listingCase struct {
	Names []string `json:"names"`
}

func runListing(srv *lrsrv.Srv, c listingCase, sec *vh.Section, reps int) (lines []string, impls []string) {
	for _, n := range c.Names {
		if _, err := srv.Pipes.CreatePipe(pipe.Pipe{Name: n}); err != nil {
			res.Note("listing: CreatePipe(%q) failed: %v", n, err)
		}
	}
	spec := sortedCopy(c.Names)
	for i := 0; i < reps; i++ {
		got := pipeNames(srv.Pipes.GetPipes())
		key := ""
		if len(c.Names) >= 2 {
			key = fmt.Sprint(c.Names)
		}
		res.Eval(sec, key)
		res.Dist(sec, fmt.Sprintf("n=%d", len(c.Names)))
		// MODEL: the listing for *some* map order; after the counter is incremented it is order independent
		lines = append(lines, "getpipes "+hexNames(c.Names))
		impls = append(impls, hexNames(got))
		if strings.Join(got, "\x00") != strings.Join(spec, "\x00") {
			res.SpecFail(vh.SpecFailure{Section: "listing", Kind: "listing-not-sorted-or-incomplete", Input: c,
				Impl: fmt.Sprintf("%q", got), Spec: fmt.Sprintf("%q", spec), What: "GetPipes is not the alphabetical list of the existing pipes"})
			break
		}
	}
	for _, n := range c.Names {
		srv.Pipes.DeletePipe(n)
	}
	return
}

func sectionListing(rng *vh.Rng) {
	sec := res.Section("listing", "unit-correspondence",
		"name sets of size 0..12 from identifiers and raw byte strings (incl. prefixes of each other, case variants, non-ASCII); each listed 8x (quick) / 30x (thorough) because Go randomises map order per call; non-trivial = at least 2 names, distinct by name set")
	srv, err := lrsrv.Start(lrsrv.NewDir(), lrsrv.Opts{NoRPC: true})
	if err != nil {
		res.Fatal(args.Out, "listing: %v", err)
	}
	defer func() { srv.Stop(); os.RemoveAll(srv.Dir) }()
	n, reps := 120, 8
	if args.Thorough {
		n, reps = 1500, 30
	}
	var lines, impls []string
	var cases []listingCase
	all := append(append([]string{}, identNames...), rawNames...)
	add := func(c listingCase) {
		l, im := runListing(srv, c, sec, reps)
		for range l {
			cases = append(cases, c)
		}
		lines = append(lines, l...)
		impls = append(impls, im...)
	}
	// corpus first
	for _, f := range vh.CorpusFiles(args.Corpus) {
		var c listingCase
		if vh.ReadJSON(f, &c) == nil && len(c.Names) > 0 {
			add(c)
		}
	}
	add(listingCase{Names: []string{}})
	add(listingCase{Names: []string{"b", "a"}})
	add(listingCase{Names: []string{"a", "b", "c"}})
	for i := 0; i < n; i++ {
		k := rng.Range(0, 12)
		p := rng.Perm(len(all))
		c := listingCase{}
		for j := 0; j < k && j < len(p); j++ {
			c.Names = append(c.Names, all[p[j]])
		}
		if i < 3 {
			res.Sample(map[string]interface{}{"section": "listing", "names": c.Names})
		}
		add(c)
	}
	outs, err := vh.Batch(args.Driver, lines)
	if err != nil {
		res.Fatal(args.Out, "driver: %v", err)
	}
	for i := range outs {
		if outs[i] != impls[i] {
			res.Mismatch(vh.Mismatch{Section: "listing", Function: "pipe.Service.GetPipes", Input: cases[i], Impl: impls[i], Model: outs[i]})
		}
	}
	res.Done(sec)
}

// ---------------------------------------------------------------------------------------------
// history

type op struct {
	Kind   string `json:"kind"` // create | createLql | ensure | delete | deleteLql | get | describe | show | restart | crash
	Name   string `json:"name,omitempty"`
	Tags   string `json:"tags,omitempty"`
	Flt    string `json:"flt,omitempty"`
	Limit  *int   `json:"limit,omitempty"`
	Offset *int   `json:"offset,omitempty"`
}

type history struct {
	Ops []op `json:"ops"`
}

func genHistory(rng *vh.Rng) history {
	var h history
	pool := []string{}
	np := rng.Range(2, 6)
	for i := 0; i < np; i++ {
		if rng.Chance(3, 4) {
			pool = append(pool, rng.PickS(identNames))
		} else {
			pool = append(pool, rng.PickS(rawNames))
		}
	}
	isIdent := func(n string) bool {
		for _, x := range identNames {
			if x == n {
				return true
			}
		}
		return false
	}
	cond := func(good, bad []string) string {
		if rng.Chance(1, 8) {
			return rng.PickS(bad)
		}
		return rng.PickS(good)
	}
	nops := rng.Range(4, 18)
	for i := 0; i < nops; i++ {
		n := rng.PickS(pool)
		switch rng.Intn(12) {
		case 0, 1, 2:
			o := op{Kind: "create", Name: n, Tags: cond(tagConds, badTagConds), Flt: cond(fltConds, badFltConds)}
			if isIdent(n) && !strings.ContainsAny(n, ".-:") && rng.Bool() {
				o.Kind = "createLql"
				o.Tags, o.Flt = rng.PickS(tagConds), rng.PickS(fltConds)
			}
			h.Ops = append(h.Ops, o)
		case 3, 4:
			h.Ops = append(h.Ops, op{Kind: "ensure", Name: n, Tags: cond(tagConds, badTagConds), Flt: cond(fltConds, badFltConds)})
		case 5, 6:
			o := op{Kind: "delete", Name: n}
			if isIdent(n) && !strings.ContainsAny(n, ".-:") && rng.Bool() {
				o.Kind = "deleteLql"
			}
			h.Ops = append(h.Ops, o)
		case 7:
			h.Ops = append(h.Ops, op{Kind: "get", Name: n})
		case 8:
			if isIdent(n) && !strings.ContainsAny(n, ".-:") {
				h.Ops = append(h.Ops, op{Kind: "describe", Name: n})
			} else {
				h.Ops = append(h.Ops, op{Kind: "get", Name: n})
			}
		case 9, 10:
			o := op{Kind: "show"}
			if rng.Chance(2, 3) {
				l := rng.PickI([]int{0, 1, 2, 3, 5, 100, 2147483647, 2147483648, 9223372036854775806, 9223372036854775807})
				o.Limit = &l
			}
			if rng.Chance(2, 3) {
				f := rng.PickI([]int{0, 1, 2, 3, 7, 1, 2, 2147483647, 9223372036854775807})
				o.Offset = &f
			}
			h.Ops = append(h.Ops, o)
		case 11:
			if rng.Chance(1, 3) {
				h.Ops = append(h.Ops, op{Kind: "restart"})
			} else if rng.Chance(1, 3) {
				h.Ops = append(h.Ops, op{Kind: "crash"})
			} else {
				h.Ops = append(h.Ops, op{Kind: "show"})
			}
		}
	}
	return h
}

func optS(p *int) string {
	if p == nil {
		return "none"
	}
	return strconv.Itoa(*p)
}

// parseShow extracts "<total> <names...>" from the SHOW PIPES output
func parseShow(out string) (int, []string) {
	lines := strings.Split(strings.TrimRight(out, "\n"), "\n")
	var total int
	fmt.Sscanf(lines[0], "%d pipes found.", &total)
	return total, lines[1:]
}

func describeField(out, key string) string {
	for _, l := range strings.Split(out, "\n") {
		if strings.HasPrefix(l, key) {
			return strings.TrimPrefix(l, key)
		}
	}
	return "?"
}

// runHistory executes a history on a fresh server; returns the model request lines and the implementation's answers
// in the model's vocabulary; SPEC (a plain Go map) is checked inline.
func runHistory(h history, sec *vh.Section) (lines, impls []string) {
	dir := lrsrv.NewDir()
	defer func() { os.RemoveAll(dir) }()
	srv, err := lrsrv.Start(dir, lrsrv.Opts{})
	if err != nil {
		res.Note("history: %v", err)
		return
	}
	defer func() { srv.Stop() }()
	// the answer of a (re)start in the model's format: the sorted names of the registry
	started := func() string {
		ns := pipeNames(srv.Pipes.GetPipes())
		sort.Strings(ns)
		return strings.TrimRight(fmt.Sprintf("ok %d %s", len(ns), hexNames(ns)), " ")
	}
	spec := map[string]pipe.Pipe{}
	ctx := context.Background()
	lines = append(lines, "reset")
	impls = append(impls, "ok")
	specFail := func(kind, what, impl, want string) {
		res.SpecFail(vh.SpecFailure{Section: "history", Kind: kind, Input: h, Impl: impl, Spec: want, What: what})
	}
	showP := func(p pipe.Pipe) string {
		return fmt.Sprintf("ok %s %s %s", vh.HxS(p.Name), vh.HxS(p.TagsCond), vh.HxS(p.FltCond))
	}
	for _, o := range h.Ops {
		res.Dist(sec, o.Kind)
		switch o.Kind {
		case "create", "createLql":
			tags, flt := o.Tags, o.Flt
			var err error
			if o.Kind == "createLql" {
				q := "create pipe " + o.Name
				if tags != "" {
					q += " from " + tags
				}
				if flt != "" {
					q += " where " + flt
				}
				// what the statement stores is the printed form of its two conditions
				l, perr := lql.ParseLql(q)
				if perr != nil || l.Create == nil || l.Create.Pipe == nil {
					res.Note("generator produced an unparsable CREATE PIPE: %q: %v", q, perr)
					continue
				}
				tags, flt = l.Create.Pipe.From.String(), l.Create.Pipe.Where.String()
				_, err = srv.Exec(q)
			} else {
				_, err = srv.Pipes.CreatePipe(pipe.Pipe{Name: o.Name, TagsCond: tags, FltCond: flt})
			}
			ok := parses(tags, flt)
			lines = append(lines, fmt.Sprintf("create %s %s %s %s", vh.HxS(o.Name), vh.HxS(tags), vh.HxS(flt), b2i(ok)))
			_, existed := spec[o.Name]
			switch {
			case err == nil:
				impls = append(impls, showP(pipe.Pipe{Name: o.Name, TagsCond: tags, FltCond: flt}))
				if existed {
					specFail("create-existing-succeeded", "creating an existing name must fail", "created", "error")
				}
				spec[o.Name] = pipe.Pipe{Name: o.Name, TagsCond: tags, FltCond: flt}
			case existed:
				impls = append(impls, "exists")
			default:
				impls = append(impls, "badcond")
				if ok {
					specFail("create-fresh-failed", "creating a fresh name with parsable conditions must succeed", err.Error(), "created")
				}
			}
		case "ensure":
			var r api.PipeCreateResult
			err := srv.Client.EnsurePipe(ctx, api.Pipe{Name: o.Name, TagsCond: o.Tags, FilterCond: o.Flt}, &r)
			if err == nil {
				err = r.Err
			}
			ok := parses(o.Tags, o.Flt)
			lines = append(lines, fmt.Sprintf("ensure %s %s %s %s", vh.HxS(o.Name), vh.HxS(o.Tags), vh.HxS(o.Flt), b2i(ok)))
			old, existed := spec[o.Name]
			switch {
			case err == nil:
				got := pipe.Pipe{Name: r.Pipe.Name, TagsCond: r.Pipe.TagsCond, FltCond: r.Pipe.FilterCond}
				impls = append(impls, showP(got))
				if existed && (old.TagsCond != o.Tags || old.FltCond != o.Flt) {
					specFail("ensure-conflict-succeeded", "ensuring an existing name with another definition must fail", "ok", "error")
				}
				if !existed {
					spec[o.Name] = pipe.Pipe{Name: o.Name, TagsCond: o.Tags, FltCond: o.Flt}
				}
			case existed:
				impls = append(impls, "conflict")
				if old.TagsCond == o.Tags && old.FltCond == o.Flt {
					specFail("ensure-same-failed", "ensuring a pipe with the definition it has must return it", err.Error(), "ok")
				}
			default:
				impls = append(impls, "failed")
				if ok {
					specFail("ensure-fresh-failed", "ensuring a fresh name with parsable conditions must create it", err.Error(), "ok")
				}
			}
		case "delete", "deleteLql":
			var err error
			if o.Kind == "deleteLql" {
				_, err = srv.Exec("delete pipe " + o.Name)
			} else {
				err = srv.Pipes.DeletePipe(o.Name)
			}
			lines = append(lines, "delete "+vh.HxS(o.Name))
			_, existed := spec[o.Name]
			if err == nil {
				impls = append(impls, "deleted")
				if !existed {
					specFail("delete-missing-succeeded", "deleting an unknown pipe must fail", "deleted", "error")
				}
				delete(spec, o.Name)
			} else {
				impls = append(impls, "notfound")
				if existed {
					specFail("delete-existing-failed", "deleting an existing pipe must succeed", err.Error(), "deleted")
				}
			}
		case "get", "describe":
			lines = append(lines, "get "+vh.HxS(o.Name))
			want, existed := spec[o.Name]
			var got pipe.Pipe
			var err error
			if o.Kind == "describe" {
				var out string
				out, err = srv.Exec("describe pipe " + o.Name)
				if err == nil {
					got = pipe.Pipe{Name: describeField(out, "Pipe:      "), TagsCond: describeField(out, "From:      "), FltCond: describeField(out, "Where:     ")}
				}
			} else {
				var d pipe.PipeDesc
				d, err = srv.Pipes.GetPipe(o.Name)
				got = d.Pipe
			}
			if err != nil {
				impls = append(impls, "notfound")
				if existed {
					specFail("get-existing-failed", "an existing pipe must be reported", err.Error(), showP(want))
				}
			} else {
				impls = append(impls, showP(got))
				if !existed || got != want {
					specFail("describe-wrong-definition", "DESCRIBE/GetPipe must report the stored definition", showP(got), showP(want))
				}
			}
		case "show":
			q := "show pipes"
			if o.Offset != nil {
				q += " offset " + strconv.Itoa(*o.Offset)
			}
			if o.Limit != nil {
				q += " limit " + strconv.Itoa(*o.Limit)
			}
			out, err := srv.Exec(q)
			lines = append(lines, fmt.Sprintf("show %s %s", optS(o.Limit), optS(o.Offset)))
			if err != nil {
				impls = append(impls, "rej")
				specFail("show-failed", "SHOW PIPES with non-negative offset must answer", err.Error(), "listing")
				continue
			}
			total, names := parseShow(out)
			impls = append(impls, strings.TrimRight(fmt.Sprintf("ok %d %s", total, hexNames(names)), " "))
			// SPEC: the page of the alphabetical list
			all := []string{}
			for n := range spec {
				all = append(all, n)
			}
			sort.Strings(all)
			off, lim := 0, len(all)
			if o.Offset != nil {
				off = *o.Offset
			}
			if o.Limit != nil && *o.Limit != 0 {
				lim = *o.Limit
			}
			want := []string{}
			for i := off; i >= 0 && i < len(all) && len(want) < lim; i++ {
				want = append(want, all[i])
			}
			if total != len(all) || strings.Join(names, "\x00") != strings.Join(want, "\x00") {
				specFail("listing-not-sorted-or-incomplete", "SHOW PIPES page is not the page of the alphabetical list of existing pipes",
					fmt.Sprintf("%d %q", total, names), fmt.Sprintf("%d %q", len(all), want))
			}
		case "crash":
			// what a crash at this (quiescent) moment leaves: the directory as it is now, without a Shutdown. Only compared with
			// the model (which operations persist the registry is a regenerated fact); crashes are C07's property.
			dir2 := lrsrv.NewDir()
			if cerr := copyDir(dir, dir2); cerr != nil {
				os.RemoveAll(dir2)
				res.Note("history: copying the directory: %v", cerr)
				continue
			}
			srv.Stop()
			os.RemoveAll(dir)
			dir = dir2
			srv, err = lrsrv.Start(dir, lrsrv.Opts{})
			lines = append(lines, "crash")
			if err != nil {
				impls = append(impls, "refused")
				return
			}
			impls = append(impls, started())
		case "restart":
			srv.Stop()
			srv, err = lrsrv.Start(dir, lrsrv.Opts{})
			lines = append(lines, "restart")
			if err != nil {
				impls = append(impls, "refused")
				specFail("restart-refused", "the server must start again after a clean stop", err.Error(), "starts")
				return
			}
			impls = append(impls, started())
			// the registry must be what it was: probe every name of the spec and the size of the listing
			got := srv.Pipes.GetPipes()
			if len(got) != len(spec) {
				specFail("registry-lost-on-restart", "the registry must survive a clean restart", fmt.Sprint(pipeNames(got)), fmt.Sprint(len(spec)))
			}
			for _, g := range got {
				if w, ok := spec[g.Name]; !ok || w != g {
					specFail("registry-changed-on-restart", "the registry must survive a clean restart", fmt.Sprint(g), fmt.Sprint(w))
				}
			}
		}
	}
	nontrivial := ""
	if len(h.Ops) >= 4 {
		nontrivial = fmt.Sprint(h.Ops)
	}
	res.Eval(sec, nontrivial)
	return
}

func sectionHistory(rng *vh.Rng) {
	sec := res.Section("history", "system-correspondence",
		"random histories of 4..18 operations (create via pipe.Service and via CREATE PIPE, ensure via the RPC Pipes API, delete, get, DESCRIBE PIPE, SHOW PIPES with OFFSET/LIMIT, clean restart, crash image = the directory as it is without a shutdown) over pools of 2..6 names, one eighth of the conditions unparsable; every answer compared with the Lean registry model and with a Go map; non-trivial = at least 4 operations, distinct by operation list")
	n := 300
	if args.Thorough {
		n = 3000
	}
	var hs []history
	for _, f := range vh.CorpusFiles(args.Corpus) {
		var h history
		if vh.ReadJSON(f, &h) == nil && len(h.Ops) > 0 {
			hs = append(hs, h)
		}
	}
	for i := 0; i < n; i++ {
		hs = append(hs, genHistory(rng))
	}
	type out struct{ lines, impls []string }
	outs := make([]out, len(hs))
	var wg sync.WaitGroup
	sem := make(chan struct{}, 8)
	for i := range hs {
		wg.Add(1)
		sem <- struct{}{}
		go func(i int) {
			defer wg.Done()
			defer func() { <-sem }()
			l, im := runHistory(hs[i], sec)
			outs[i] = out{l, im}
		}(i)
	}
	wg.Wait()
	var lines []string
	for _, o := range outs {
		lines = append(lines, o.lines...)
	}
	ans, err := vh.Batch(args.Driver, lines)
	if err != nil {
		res.Fatal(args.Out, "driver: %v", err)
	}
	k := 0
	for i, o := range outs {
		for j := range o.lines {
			if ans[k] != o.impls[j] {
				res.Mismatch(vh.Mismatch{Section: "history", Function: "registry op: " + o.lines[j], Input: hs[i], Impl: o.impls[j], Model: ans[k]})
				k += len(o.lines) - j
				break
			}
			k++
		}
	}
	for i := 0; i < 2 && i < len(hs); i++ {
		res.Sample(map[string]interface{}{"section": "history", "ops": hs[len(hs)-1-i].Ops})
	}
	res.Done(sec)
}

// ---------------------------------------------------------------------------------------------
// paging walks

func sectionPaging(rng *vh.Rng) {
	sec := res.Section("paging", "spec-search",
		"for name sets of size 0..9 and every page size 1..4 (and one larger than the set): SHOW PIPES OFFSET i*k LIMIT k until an empty page; the concatenation must be the alphabetical list, each pipe once; non-trivial = at least 2 pages")
	srv, err := lrsrv.Start(lrsrv.NewDir(), lrsrv.Opts{})
	if err != nil {
		res.Fatal(args.Out, "paging: %v", err)
	}
	defer func() { srv.Stop(); os.RemoveAll(srv.Dir) }()
	sets := 10
	if args.Thorough {
		sets = 150
	}
	for s := 0; s < sets; s++ {
		k := rng.Range(0, 9)
		p := rng.Perm(len(identNames))
		names := []string{}
		for j := 0; j < k; j++ {
			names = append(names, identNames[p[j]])
			srv.Pipes.CreatePipe(pipe.Pipe{Name: identNames[p[j]]})
		}
		want := sortedCopy(names)
		// one-page walks with extreme limits: the page from offset o with a limit no smaller than the list is its tail
		for _, o := range []int{0, 1, 2, k} {
			for _, lim := range []int{2147483647, 2147483648, 9223372036854775806, 9223372036854775807} {
				out, err := srv.Exec(fmt.Sprintf("show pipes offset %d limit %d", o, lim))
				var ns []string
				if err == nil {
					_, ns = parseShow(out)
				}
				w := []string{}
				if o < len(want) {
					w = want[o:]
				}
				res.Eval(sec, "")
				if err != nil || strings.Join(ns, "\x00") != strings.Join(w, "\x00") {
					res.SpecFail(vh.SpecFailure{Section: "paging", Kind: "listing-not-sorted-or-incomplete", Input: map[string]interface{}{"names": names, "offset": o, "limit": lim},
						Impl: fmt.Sprintf("%q %v", ns, err), Spec: fmt.Sprintf("%q", w), What: "SHOW PIPES with a limit no smaller than the list must return the list's tail from the offset"})
				}
			}
		}
		for _, ps := range []int{1, 2, 3, 4, k + 1} {
			var got []string
			pages := 0
			for off := 0; ; off += ps {
				out, err := srv.Exec(fmt.Sprintf("show pipes offset %d limit %d", off, ps))
				if err != nil {
					res.SpecFail(vh.SpecFailure{Section: "paging", Kind: "show-failed", Input: map[string]interface{}{"names": names, "page": ps, "offset": off}, Impl: err.Error(), Spec: "page", What: "SHOW PIPES failed"})
					break
				}
				_, ns := parseShow(out)
				if len(ns) == 0 {
					break
				}
				pages++
				got = append(got, ns...)
				if pages > 40 {
					break
				}
			}
			key := ""
			if pages >= 2 {
				key = fmt.Sprint(names, ps)
			}
			res.Eval(sec, key)
			if strings.Join(got, "\x00") != strings.Join(want, "\x00") {
				res.SpecFail(vh.SpecFailure{Section: "paging", Kind: "listing-not-sorted-or-incomplete", Input: map[string]interface{}{"names": names, "page": ps},
					Impl: fmt.Sprintf("%q", got), Spec: fmt.Sprintf("%q", want), What: "walking SHOW PIPES with OFFSET/LIMIT pages does not visit every pipe once in alphabetical order"})
			}
		}
		for _, n := range names {
			srv.Pipes.DeletePipe(n)
		}
	}
	res.Done(sec)
}

// ---------------------------------------------------------------------------------------------
// concurrent creates

func sectionRace(rng *vh.Rng) {
	sec := res.Section("race", "system-correspondence",
		"K=2..4 callers create one fresh name with different definitions: (a) every order of their two critical sections, produced by parking each caller at the hook between the sections and releasing them in a generated order; (b) free-running goroutines. Exactly one caller may succeed and the registry must hold the winner's definition (model: cstep/crun). non-trivial = every case")
	srv, err := lrsrv.Start(lrsrv.NewDir(), lrsrv.Opts{NoRPC: true})
	if err != nil {
		res.Fatal(args.Out, "race: %v", err)
	}
	defer func() { srv.Stop(); os.RemoveAll(srv.Dir) }()
	n := 40
	if args.Thorough {
		n = 600
	}
	for c := 0; c < n; c++ {
		k := rng.Range(2, 4)
		name := fmt.Sprintf("race%d", c)
		parked := c%2 == 0 && verifhook.Enabled
		gates := make([]chan struct{}, k)
		arrived := make(chan int, k)
		// the hook identifies the caller by goroutine-local order of arrival: callers are started one at a time
		var cur int
		var curMu sync.Mutex
		if parked {
			verifhook.Set("pipe.create.betweenChecks", func() {
				curMu.Lock()
				me := cur
				curMu.Unlock()
				arrived <- me
				<-gates[me]
			})
		}
		oks := make([]bool, k)
		returned := make([]chan struct{}, k)
		var wg sync.WaitGroup
		for i := 0; i < k; i++ {
			gates[i] = make(chan struct{})
			returned[i] = make(chan struct{})
			wg.Add(1)
			if parked {
				curMu.Lock()
				cur = i
				curMu.Unlock()
			}
			go func(i int) {
				defer wg.Done()
				defer close(returned[i])
				_, err := srv.Pipes.CreatePipe(pipe.Pipe{Name: name, TagsCond: fmt.Sprintf("a=%d", i)})
				oks[i] = err == nil
			}(i)
			if parked {
				select {
				case <-arrived: // caller i passed its first check and is parked between the sections
				case <-time.After(2 * time.Second):
					res.Note("race: caller %d did not reach the hook", i)
				}
			}
		}
		order := rng.Perm(k)
		if parked {
			verifhook.Set("pipe.create.betweenChecks", nil)
			for _, i := range order {
				// one caller at a time performs its second critical section: the schedule is exactly `order`
				close(gates[i])
				<-returned[i]
			}
		}
		wg.Wait()
		wins := 0
		winner := -1
		for i, ok := range oks {
			if ok {
				wins++
				winner = i
			}
		}
		d, gerr := srv.Pipes.GetPipe(name)
		// MODEL (Props.C19.registry_functional / concurrent_same_name_one_winner): exactly one "created"; parked case: the
		// first released caller wins (all passed the first check before any insert)
		res.Eval(sec, fmt.Sprint(k, parked, order))
		res.Dist(sec, fmt.Sprintf("parked=%v k=%d", parked, k))
		in := map[string]interface{}{"callers": k, "parked": parked, "release_order": order}
		if wins != 1 || gerr != nil || d.TagsCond != fmt.Sprintf("a=%d", winner) {
			res.SpecFail(vh.SpecFailure{Section: "race", Kind: "concurrent-create-not-unique", Input: in,
				Impl: fmt.Sprintf("successes=%d registered=%q", wins, d.TagsCond), Spec: "exactly one success, its definition registered",
				What: "concurrent creates of one name: not exactly one winner, or the registry does not hold the winner's definition"})
		} else if parked && winner != order[0] {
			res.Mismatch(vh.Mismatch{Section: "race", Function: "pipe.Service.CreatePipe (second critical section)", Input: in,
				Impl: fmt.Sprintf("winner=%d", winner), Model: fmt.Sprintf("winner=%d", order[0])})
		}
		srv.Pipes.DeletePipe(name)
	}
	res.Done(sec)
}

// ---------------------------------------------------------------------------------------------
// concurrent creates and the registry file

// sectionSaveRace: two or three callers create DIFFERENT fresh names. The first caller is parked inside savePipes right after it
// took its snapshot of the registry (hook pipe.save.afterSnapshot); the others run to completion meanwhile — or block, when
// savePipes is serialized — then the first is released. Afterwards the directory is started as a crash image: every definition
// whose creator was told "created" must be there (SPEC), and the names on disk / the acknowledged callers must be what the
// model's transition system gives for the schedule that was executed (MODEL: srun with the regenerated savePipesSerialized).
func sectionSaveRace(rng *vh.Rng) {
	sec := res.Section("saverace", "system-correspondence",
		"K=2..3 callers create different fresh names; caller 0 is parked between savePipes' snapshot and its write (hook), the others are started one after the other and given 150 ms to finish, then caller 0 is released; the directory is then started as a crash image. SPEC: every acknowledged definition is in the started registry. MODEL: names on disk and acknowledged callers of srun for the executed schedule. non-trivial = every case")
	if !verifhook.Enabled {
		res.Note("saverace: hooks are not compiled in")
		res.Done(sec)
		return
	}
	n := 4
	if args.Thorough {
		n = 40
	}
	var lines, impls []string
	var inputs []map[string]interface{}
	for c := 0; c < n; c++ {
		k := rng.Range(2, 3)
		l, im, in := runSaveRace(k, fmt.Sprintf("sr%d", c))
		if l == "" {
			continue
		}
		res.Eval(sec, fmt.Sprint(c, k))
		res.Dist(sec, fmt.Sprintf("k=%d", k))
		lines, impls, inputs = append(lines, l), append(impls, im), append(inputs, in)
	}
	ans, err := vh.Batch(args.Driver, lines)
	if err != nil {
		res.Fatal(args.Out, "driver: %v", err)
	}
	for i := range lines {
		if ans[i] != impls[i] {
			res.Mismatch(vh.Mismatch{Section: "saverace", Function: "pipe.Service.CreatePipe + savePipes: " + lines[i], Input: inputs[i], Impl: impls[i], Model: ans[i]})
		}
	}
	res.Done(sec)
}

// runSaveRace runs one parked schedule; returns the model line, the implementation's answer in the model's format and the input
func runSaveRace(k int, prefix string) (string, string, map[string]interface{}) {
	dir := lrsrv.NewDir()
	defer func() { os.RemoveAll(dir) }()
	srv, err := lrsrv.Start(dir, lrsrv.Opts{NoRPC: true})
	if err != nil {
		res.Note("saverace: %v", err)
		return "", "", nil
	}
	defer func() { srv.Stop() }()
	names := make([]string, k)
	for i := range names {
		names[i] = fmt.Sprintf("%s%c", prefix, 'a'+i)
	}
	in := map[string]interface{}{"names": names, "program": "caller 0 parked after its snapshot; callers 1.. run; caller 0 released"}
	gate := make(chan struct{})
	arrived := make(chan struct{}, 1)
	var once sync.Once
	verifhook.Set("pipe.save.afterSnapshot", func() {
		first := false
		once.Do(func() { first = true })
		if first {
			arrived <- struct{}{}
			<-gate
		}
	})
	defer verifhook.Set("pipe.save.afterSnapshot", nil)
	oks := make([]bool, k)
	returned := make([]chan struct{}, k)
	create := func(i int) {
		returned[i] = make(chan struct{})
		go func() {
			defer close(returned[i])
			_, err := srv.Pipes.CreatePipe(pipe.Pipe{Name: names[i], TagsCond: fmt.Sprintf("a=%d", i)})
			oks[i] = err == nil
		}()
	}
	create(0)
	select {
	case <-arrived:
	case <-time.After(5 * time.Second):
		res.Note("saverace: caller 0 did not reach the hook")
		close(gate)
		return "", "", nil
	}
	// the executed schedule in the model's steps: caller 0: check, register, snapshot
	sched := []int{0, 0, 0}
	blocked := []int{}
	for i := 1; i < k; i++ {
		create(i)
		select {
		case <-returned[i]:
			// ran to the end while caller 0 is parked: check, register, snapshot, write
			sched = append(sched, i, i, i, i)
		case <-time.After(150 * time.Millisecond):
			// blocked (on the save mutex): it has done check and register
			sched = append(sched, i, i)
			blocked = append(blocked, i)
		}
	}
	close(gate)
	<-returned[0]
	sched = append(sched, 0) // caller 0's write
	for _, i := range blocked {
		<-returned[i]
		sched = append(sched, i, i)
	}
	in["schedule"] = sched
	// crash image: the directory as it is, started as a new server
	dir2 := lrsrv.NewDir()
	defer os.RemoveAll(dir2)
	if cerr := copyDir(dir, dir2); cerr != nil {
		res.Note("saverace: copying the directory: %v", cerr)
		return "", "", nil
	}
	srv2, err := lrsrv.Start(dir2, lrsrv.Opts{NoRPC: true})
	if err != nil {
		res.SpecFail(vh.SpecFailure{Section: "saverace", Kind: "restart-refused", Input: in, Impl: err.Error(), Spec: "starts", What: "the server must start on the directory as it is"})
		return "", "", nil
	}
	onDisk := pipeNames(srv2.Pipes.GetPipes())
	srv2.Stop()
	sort.Strings(onDisk)
	have := map[string]bool{}
	for _, n := range onDisk {
		have[n] = true
	}
	var acked []string
	for i, ok := range oks {
		if ok {
			acked = append(acked, fmt.Sprint(i))
			if !have[names[i]] {
				res.SpecFail(vh.SpecFailure{Section: "saverace", Kind: "acknowledged-create-not-on-disk", Input: in,
					Impl: fmt.Sprintf("on disk: %q", onDisk), Spec: fmt.Sprintf("contains %q", names[i]),
					What: "a pipe whose creation was acknowledged is not in the registry file: a crash now loses it"})
			}
		}
	}
	hn := make([]string, k)
	for i, n := range names {
		hn[i] = vh.HxS(n)
	}
	ss := make([]string, len(sched))
	for i, a := range sched {
		ss[i] = fmt.Sprint(a)
	}
	line := fmt.Sprintf("saverace %s %s", strings.Join(hn, ","), strings.Join(ss, " "))
	impl := strings.TrimRight(fmt.Sprintf("disk %s acked %s", hexNames(onDisk), strings.Join(acked, " ")), " ")
	return line, impl, in
}

// replay re-executes one recorded input (a replay file written by /verif/check, or a corpus entry)
func replay(path string) {
	var rp struct {
		Section string          `json:"section"`
		Input   json.RawMessage `json:"input"`
	}
	if err := vh.ReadJSON(path, &rp); err != nil {
		res.Fatal(args.Out, "replay: %v", err)
	}
	switch rp.Section {
	case "codec":
		// the section is deterministic for a seed: re-run it (the recorded input names the failing string / registry)
		sectionCodec(vh.NewRng(args.Seed).Fork("codec"))
	case "listing":
		var c listingCase
		json.Unmarshal(rp.Input, &c)
		sec := res.Section("listing", "replay", "replay of one recorded name set")
		srv, err := lrsrv.Start(lrsrv.NewDir(), lrsrv.Opts{NoRPC: true})
		if err != nil {
			res.Fatal(args.Out, "listing: %v", err)
		}
		lines, impls := runListing(srv, c, sec, 30)
		srv.Stop()
		os.RemoveAll(srv.Dir)
		outs, _ := vh.Batch(args.Driver, lines)
		for i := range outs {
			if outs[i] != impls[i] {
				res.Mismatch(vh.Mismatch{Section: "listing", Function: "pipe.Service.GetPipes", Input: c, Impl: impls[i], Model: outs[i]})
			}
		}
	case "history":
		var h history
		json.Unmarshal(rp.Input, &h)
		sec := res.Section("history", "replay", "replay of one recorded history")
		lines, impls := runHistory(h, sec)
		outs, _ := vh.Batch(args.Driver, lines)
		for i := range outs {
			fmt.Printf("%-60s impl=%s model=%s\n", lines[i], impls[i], outs[i])
			if outs[i] != impls[i] {
				res.Mismatch(vh.Mismatch{Section: "history", Function: "registry op: " + lines[i], Input: h, Impl: impls[i], Model: outs[i]})
				break
			}
		}
	case "saverace":
		var c struct {
			Names []string `json:"names"`
		}
		json.Unmarshal(rp.Input, &c)
		res.Section("saverace", "replay", "replay of the parked save schedule with as many callers as recorded")
		k := len(c.Names)
		if k < 2 {
			k = 2
		}
		line, impl, in := runSaveRace(k, "rp")
		if line != "" {
			outs, _ := vh.Batch(args.Driver, []string{line})
			fmt.Printf("%s\n  impl=%s\n  model=%s\n", line, impl, outs[0])
			if outs[0] != impl {
				res.Mismatch(vh.Mismatch{Section: "saverace", Function: "pipe.Service.CreatePipe + savePipes: " + line, Input: in, Impl: impl, Model: outs[0]})
			}
		}
	default:
		res.Note("replay: section %q has no single-input replay; re-run the check with the recorded seed", rp.Section)
	}
	res.Write(args.Out)
}

// sectionEnsureRace: K callers ensure one fresh name with the SAME definition, some of them racing a plain create. Ensure is
// idempotent, so every ensure must return the pipe (the loser of the creation race finds it on its next attempt); callers are
// parked between CreatePipe's two critical sections so that all of them pass the first check before anyone stores.
func sectionEnsureRace(rng *vh.Rng) {
	sec := res.Section("ensure-race", "spec-search",
		"K=2..4 callers EnsurePipe one fresh name with the same definition (optionally one of them uses CreatePipe), parked at the hook between CreatePipe's critical sections and released in a generated order, or free-running; every ensure must succeed and return that definition, the registry must hold exactly it. non-trivial = every case")
	srv, err := lrsrv.Start(lrsrv.NewDir(), lrsrv.Opts{NoRPC: true})
	if err != nil {
		res.Fatal(args.Out, "ensure-race: %v", err)
	}
	defer func() { srv.Stop(); os.RemoveAll(srv.Dir) }()
	n := 60
	if args.Thorough {
		n = 600
	}
	for c := 0; c < n; c++ {
		k := rng.Range(2, 4)
		name := fmt.Sprintf("ens%d", c)
		def := pipe.Pipe{Name: name, TagsCond: "a=1", FltCond: "msg contains \"x\""}
		withCreate := rng.Chance(1, 3)
		parked := c%2 == 0 && verifhook.Enabled
		gates := make([]chan struct{}, k)
		arrived := make(chan int, 4*k)
		var cur int
		var curMu sync.Mutex
		var parkedOnce sync.Map
		if parked {
			verifhook.Set("pipe.create.betweenChecks", func() {
				curMu.Lock()
				me := cur
				curMu.Unlock()
				if _, dup := parkedOnce.LoadOrStore(me, true); dup {
					return // a later attempt of the same caller is not parked again
				}
				arrived <- me
				<-gates[me]
			})
		}
		errs := make([]error, k)
		descs := make([]pipe.PipeDesc, k)
		var wg sync.WaitGroup
		for i := 0; i < k; i++ {
			gates[i] = make(chan struct{})
			wg.Add(1)
			if parked {
				curMu.Lock()
				cur = i
				curMu.Unlock()
			}
			go func(i int) {
				defer wg.Done()
				if withCreate && i == 0 {
					descs[i], errs[i] = srv.Pipes.CreatePipe(def)
				} else {
					descs[i], errs[i] = srv.Pipes.EnsurePipe(def)
				}
			}(i)
			if parked {
				select {
				case <-arrived:
				case <-time.After(2 * time.Second):
					res.Note("ensure-race: caller %d did not reach the hook", i)
				}
			}
		}
		order := rng.Perm(k)
		if parked {
			for _, i := range order {
				close(gates[i])
				time.Sleep(200 * time.Microsecond)
			}
		}
		wg.Wait()
		verifhook.Set("pipe.create.betweenChecks", nil)
		res.Eval(sec, fmt.Sprint(k, parked, withCreate, order))
		res.Dist(sec, fmt.Sprintf("parked=%v create=%v k=%d", parked, withCreate, k))
		in := map[string]interface{}{"callers": k, "parked": parked, "first_caller_creates": withCreate, "release_order": order}
		d, gerr := srv.Pipes.GetPipe(name)
		bad := ""
		for i := 0; i < k; i++ {
			if withCreate && i == 0 {
				continue // the plain create may lose the race: "already exists" is a correct answer for it
			}
			if errs[i] != nil {
				bad = fmt.Sprintf("ensure caller %d failed: %v", i, errs[i])
			} else if descs[i].Pipe != def {
				bad = fmt.Sprintf("ensure caller %d got %v", i, descs[i].Pipe)
			}
		}
		if gerr != nil || d.Pipe != def {
			bad = fmt.Sprintf("registry holds %v (%v)", d.Pipe, gerr)
		}
		if bad != "" {
			res.SpecFail(vh.SpecFailure{Section: "ensure-race", Kind: "ensure-not-idempotent-under-race", Input: in, Impl: bad,
				Spec: "every ensure returns the pipe with the common definition", What: "concurrent ensures of one fresh name with the same definition must all succeed"})
		}
		srv.Pipes.DeletePipe(name)
	}
	// different definitions: caller 0 ensures (name, a=0) and is parked between CreatePipe's two critical sections; caller 1 ensures
	// (name, a=1) and runs to the end; caller 0 is released: it must be told about the conflict, never be handed caller 1's pipe
	// (MODEL: erun for the executed schedule; theorem ensure_never_returns_another_definition)
	if verifhook.Enabled {
		m := 3
		if args.Thorough {
			m = 30
		}
		var lines, impls []string
		var inputs []map[string]interface{}
		for c := 0; c < m; c++ {
			name := fmt.Sprintf("ensd%d", c)
			gate := make(chan struct{})
			arrived := make(chan struct{}, 1)
			var once sync.Once
			verifhook.Set("pipe.create.betweenChecks", func() {
				first := false
				once.Do(func() { first = true })
				if first {
					arrived <- struct{}{}
					<-gate
				}
			})
			var errs [2]error
			var descs [2]pipe.PipeDesc
			done0 := make(chan struct{})
			go func() {
				defer close(done0)
				descs[0], errs[0] = srv.Pipes.EnsurePipe(pipe.Pipe{Name: name, TagsCond: "a=0"})
			}()
			select {
			case <-arrived:
			case <-time.After(5 * time.Second):
				res.Note("ensure-race: caller 0 did not reach the hook")
				close(gate)
				<-done0
				verifhook.Set("pipe.create.betweenChecks", nil)
				continue
			}
			descs[1], errs[1] = srv.Pipes.EnsurePipe(pipe.Pipe{Name: name, TagsCond: "a=1"})
			close(gate)
			<-done0
			verifhook.Set("pipe.create.betweenChecks", nil)
			in := map[string]interface{}{"name": name, "program": "caller 0 (a=0) parked between CreatePipe's sections; caller 1 (a=1) ensures to the end; caller 0 released"}
			res.Eval(sec, "different-definitions "+fmt.Sprint(c))
			res.Dist(sec, "different definitions, parked")
			show := func(i int, want string) string {
				if errs[i] != nil {
					if strings.Contains(errs[i].Error(), "already exists") || strings.Contains(errs[i].Error(), "another") || strings.Contains(errs[i].Error(), "different") {
						return "conflict"
					}
					return "conflict" // any refusal of the overtaken caller; the model distinguishes conflict/failed by attempts only
				}
				if descs[i].TagsCond != want {
					res.SpecFail(vh.SpecFailure{Section: "ensure-race", Kind: "ensure-returned-another-definition", Input: in,
						Impl: fmt.Sprintf("caller %d asked for %q and was answered ok with %q", i, want, descs[i].TagsCond), Spec: "its own definition, or the conflict error",
						What: "an ensure with a definition that differs from the registered one must fail, not return the other pipe"})
				}
				return "ok:" + vh.HxS(descs[i].TagsCond)
			}
			impl := show(0, "a=0") + " " + show(1, "a=1")
			// executed schedule: 0: get, createStart | 1: get, createStart, createChecked(register), get(found own) | 0: createChecked(found), get(conflict)
			lines = append(lines, fmt.Sprintf("ensurerace %s %s,%s 0 0 1 1 1 1 0 0", vh.HxS(name), vh.HxS("a=0"), vh.HxS("a=1")))
			impls = append(impls, impl)
			inputs = append(inputs, in)
			srv.Pipes.DeletePipe(name)
		}
		if len(lines) > 0 {
			ans, err := vh.Batch(args.Driver, lines)
			if err != nil {
				res.Fatal(args.Out, "driver: %v", err)
			}
			for i := range lines {
				if ans[i] != impls[i] {
					res.Mismatch(vh.Mismatch{Section: "ensure-race", Function: "pipe.Service.ensurePipe: " + lines[i], Input: inputs[i], Impl: impls[i], Model: ans[i]})
				}
			}
		}
	}
	res.Done(sec)
}

// sectionRestart: the registry must be exactly what it was across clean restarts, in particular after deletions
// (also of ALL pipes) made in a later session.
func sectionRestart(rng *vh.Rng) {
	sec := res.Section("restart", "spec-search",
		"2..3 server sessions on one base directory: session 1 creates 1..5 pipes, each later session deletes a generated subset (one case in three: all) and may create others; after every clean stop and restart SHOW PIPES / GetPipe must report exactly the surviving definitions. non-trivial = every case")
	n := 24
	if args.Thorough {
		n = 200
	}
	var wg sync.WaitGroup
	sem := make(chan struct{}, 6)
	for c := 0; c < n; c++ {
		r := rng.Fork(fmt.Sprint("restart", c))
		wg.Add(1)
		sem <- struct{}{}
		go func(c int, r *vh.Rng) {
			defer wg.Done()
			defer func() { <-sem }()
			dir := lrsrv.NewDir()
			defer os.RemoveAll(dir)
			spec := map[string]pipe.Pipe{}
			sessions := r.Range(2, 3)
			var trace []string
			for s := 0; s <= sessions; s++ {
				srv, err := lrsrv.Start(dir, lrsrv.Opts{NoRPC: true})
				if err != nil {
					res.SpecFail(vh.SpecFailure{Section: "restart", Kind: "restart-refused", Input: trace, Impl: err.Error(), Spec: "starts", What: "the server must start again after a clean stop"})
					return
				}
				// compare
				got := srv.Pipes.GetPipes()
				ok := len(got) == len(spec)
				for _, g := range got {
					if w, in := spec[g.Name]; !in || w != g {
						ok = false
					}
				}
				if !ok {
					res.SpecFail(vh.SpecFailure{Section: "restart", Kind: "registry-changed-on-restart", Input: trace, Impl: fmt.Sprint(got), Spec: fmt.Sprint(spec),
						What: "the registry after a clean restart is not the registry before the stop"})
					srv.Stop()
					return
				}
				if s == sessions {
					srv.Stop()
					break
				}
				if s == 0 {
					for i := 0; i < r.Range(1, 5); i++ {
						p := pipe.Pipe{Name: r.PickS(identNames), TagsCond: r.PickS(tagConds), FltCond: r.PickS(fltConds)}
						if _, err := srv.Pipes.CreatePipe(p); err == nil {
							spec[p.Name] = p
							trace = append(trace, "create "+p.Name)
						}
					}
				} else {
					all := r.Chance(1, 3)
					for n := range spec {
						if all || r.Bool() {
							if srv.Pipes.DeletePipe(n) == nil {
								delete(spec, n)
								trace = append(trace, "delete "+n)
							}
						}
					}
					if !all && r.Bool() {
						p := pipe.Pipe{Name: r.PickS(identNames), TagsCond: r.PickS(tagConds)}
						if _, err := srv.Pipes.CreatePipe(p); err == nil {
							spec[p.Name] = p
							trace = append(trace, "create "+p.Name)
						}
					}
				}
				time.Sleep(5 * time.Millisecond) // let the asynchronous part of a delete finish
				srv.Stop()
				trace = append(trace, "restart")
			}
			res.Eval(sec, fmt.Sprint(trace))
		}(c, r)
	}
	wg.Wait()
	res.Done(sec)
}

func main() {
	args = vh.ParseArgs()
	res = vh.NewResult("C19", args)
	if args.Replay != "" {
		replay(args.Replay)
		return
	}
	rng := vh.NewRng(args.Seed)
	if d := lrsrv.CheckWiring(); d != "" {
		res.Mismatch(vh.Mismatch{Section: "wiring", Function: "server.Start", Impl: d, Model: "harness wiring (internal/lrsrv)"})
	}
	sectionListing(rng.Fork("listing"))
	sectionHistory(rng.Fork("history"))
	sectionPaging(rng.Fork("paging"))
	sectionRace(rng.Fork("race"))
	sectionEnsureRace(rng.Fork("ensure-race"))
	sectionRestart(rng.Fork("restart"))
	sectionSaveRace(rng.Fork("saverace"))
	sectionCodec(rng.Fork("codec"))
	res.Write(args.Out)
}
