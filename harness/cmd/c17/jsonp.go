// C17 harness, unit part: the two JSON-line parsers (k8json, logfmt) take their record boundaries and their offsets
// from the shared line reader: a line that unmarshals advances the position by the line's length, a line that does not
// is an error and leaves the position where it was. Payload decoding is outside the claim (Data is compared with the
// decoded "log" field only because that is free).
package main

import (
	"bytes"
	"context"
	"encoding/json"
	"fmt"
	"io"
	"os"
	"path/filepath"
	"strings"
	"time"

	"github.com/logrange/logrange/pkg/scanner/parser"
	"verifharness/internal/lrsrv"
	"verifharness/internal/vh"
)

// jpRec is the shape both parsers unmarshal a line into (parser.K8sJsonLogRec / parser.LogfmtJsonLogRec)
type jpRec struct {
	Log    string    `json:"log"`
	Stream string    `json:"stream"`
	Time   time.Time `json:"time"`
}

// jpRun is one pass "NextRecord until it fails" in canonical form: <hex data>@<pos after> … then eof@<pos> | err@<pos>
type jpRun struct {
	toks []string
	nrec int
}

func (r jpRun) String() string { return strings.Join(r.toks, " ") }

// jpSpecLines: what the line reader returns on a file that ends with a newline, read from start with record limit B:
// every line including its newline; a line longer than B bytes in pieces of B bytes, the rest last
func jpSpecLines(content []byte, B int) (out [][]byte) {
	for _, l := range bytes.SplitAfter(content, []byte("\n")) {
		for len(l) > B {
			out = append(out, l[:B])
			l = l[B:]
		}
		if len(l) > 0 {
			out = append(out, l)
		}
	}
	return
}

// jpExpect: the parser's behaviour given the reader's lines: records while the lines unmarshal
func jpExpect(lines [][]byte, start int64) jpRun {
	var r jpRun
	pos := start
	for _, l := range lines {
		var rec jpRec
		if err := json.Unmarshal(l, &rec); err != nil {
			r.toks = append(r.toks, fmt.Sprintf("err@%d", pos))
			return r
		}
		pos += int64(len(l))
		r.toks = append(r.toks, fmt.Sprintf("%s@%d", vh.HxS(rec.Log), pos))
		r.nrec++
	}
	r.toks = append(r.toks, fmt.Sprintf("eof@%d", pos))
	return r
}

func jpModelLines(ans string) (out [][]byte) {
	for _, t := range strings.Fields(ans) {
		if t == "eof" || strings.HasPrefix(t, "closed") || strings.HasPrefix(t, "pos=") || strings.HasPrefix(t, "pending") {
			break
		}
		out = append(out, vh.UnHx(t))
	}
	return
}

// runJpImpl: the real parser on a real file: from 0 until EOF/error, then from off until EOF/error
func runJpImpl(dir string, c posCase, off int64) (first, second jpRun, err error) {
	fn := filepath.Join(dir, "c.log")
	if err = os.WriteFile(fn, vh.UnHx(c.Content), 0644); err != nil {
		return
	}
	cfg := &parser.Config{File: fn, MaxRecSizeBytes: recLimit, DataFmt: parser.DataFormat(c.Format)}
	if c.Format == string(parser.FmtLogfmt) {
		cfg.FieldMap = map[string]string{"level": "level", "time": "time"} // the constructor empties the map it is given
	}
	p, err := parser.NewParser(cfg)
	if err != nil {
		return
	}
	defer p.Close()
	ctx, cancel := context.WithTimeout(context.Background(), 5*time.Second)
	defer cancel()
	readAll := func() (r jpRun) {
		for k := 0; k < 10000; k++ {
			rec, e := p.NextRecord(ctx)
			pos := p.GetStreamPos()
			switch {
			case e == io.EOF:
				r.toks = append(r.toks, fmt.Sprintf("eof@%d", pos))
				return
			case e != nil:
				r.toks = append(r.toks, fmt.Sprintf("err@%d", pos))
				return
			case rec == nil:
				r.toks = append(r.toks, fmt.Sprintf("nil@%d", pos))
				return
			}
			r.toks = append(r.toks, fmt.Sprintf("%s@%d", vh.Hx(rec.Data), pos))
			r.nrec++
		}
		r.toks = append(r.toks, "endless")
		return
	}
	if err = p.SetStreamPos(0); err != nil {
		return
	}
	first = readAll()
	if err = p.SetStreamPos(off); err != nil {
		return
	}
	second = readAll()
	return
}

// ---------------------------------------------------------------------------------------------
// generator

var jpAtoms = []string{"a", "b", "1", " ", `\"`, `\\`, "é", `\n`, `é`, "k=v", "level=i ", `\t`}

func jpText(rng *vh.Rng, maxAtoms int) string {
	var sb strings.Builder
	for k := rng.Range(0, maxAtoms); k > 0; k-- {
		sb.WriteString(rng.PickS(jpAtoms))
	}
	return sb.String()
}

// jpLine builds one line (with its newline). target > 0: padded to exactly that many bytes where possible
func jpLine(rng *vh.Rng, kind string, target int) string {
	text := jpText(rng, 6)
	stream := rng.PickS([]string{"stdout", "stderr"})
	build := func(text string) string {
		switch kind {
		case "log":
			return `{"log":"` + text + `\n"}`
		case "log+stream":
			return `{"log":"` + text + `\n","stream":"` + stream + `"}`
		case "short-time":
			return `{"log":"` + text + `\n","stream":"` + stream + `","time":"2019-03-11T22:17:22Z"}`
		case "full": // what kubernetes writes: always longer than 64 bytes
			return `{"log":"` + text + `\n","stream":"` + stream + `","time":"2019-03-11T22:17:22.339234921Z"}`
		case "trailing-spaces": // the first 64 bytes are a complete JSON value
			s := `{"log":"` + text + `\n"}`
			return s + strings.Repeat(" ", 70-len(s)+rng.Intn(70))
		}
		return ""
	}
	switch kind {
	case "empty-log":
		return `{"log":""}` + "\n"
	case "empty-object":
		return "{}\n"
	case "null":
		return "null\n"
	case "bad":
		return rng.PickS([]string{`{"log":"abc`, `not json`, `{"log":5}`, ``, `[1]`, `{"log":"x\n"} trailing`, `{"log":"x","time":"yesterday"}`, `{"log":"\q"}`}) + "\n"
	}
	s := build(text)
	if target == 0 && len(s)+1 > recLimit && kind != "trailing-spaces" && kind != "full" {
		s = build("") // an ordinary line stays within the record limit
	}
	if target > 0 && len(s)+1 > target && kind != "trailing-spaces" && kind != "full" {
		s = build("")
	}
	if target > 0 && len(s)+1 < target && kind != "trailing-spaces" {
		s = build(strings.Repeat("x", target-len(s)-1) + text)
		if len(s)+1 != target {
			s = build(strings.Repeat("x", target-len(build(""))-1))
		}
	}
	return s + "\n"
}

func genJpCase(rng *vh.Rng) posCase {
	var sb strings.Builder
	nl := rng.Range(1, 8)
	bad, long := -1, -1
	if rng.Chance(1, 4) {
		bad = rng.Intn(nl)
	}
	if rng.Chance(1, 5) {
		long = rng.Intn(nl)
	}
	for j := 0; j < nl; j++ {
		switch {
		case j == bad:
			sb.WriteString(jpLine(rng, "bad", 0))
		case j == long:
			sb.WriteString(jpLine(rng, rng.PickS([]string{"full", "trailing-spaces", "log"}), rng.PickI([]int{65, 65, 66, 80, 128, 129, 200})))
		default:
			kind := rng.PickS([]string{"log", "log", "log", "log+stream", "log+stream", "short-time", "empty-log", "empty-object", "null"})
			target := 0
			if rng.Chance(1, 3) {
				target = rng.PickI([]int{62, 63, 64, 64})
			}
			sb.WriteString(jpLine(rng, kind, target))
		}
	}
	return posCase{Format: rng.PickS([]string{"k8json", "logfmt"}), Content: vh.HxS(sb.String()), Resume: rng.Range(0, nl+1)}
}

// ---------------------------------------------------------------------------------------------

const jsonParsersRule = "the real k8json and logfmt parsers (record limit 64) on a real file of JSON lines ending with a newline — short lines {\"log\":…} with and without " +
	"stream/time, escapes, empty log, {} and null, total lengths 62..65, lines longer than the limit (split by the reader: the pieces do not unmarshal, or the first 64 " +
	"bytes do and the rest does not), a malformed line in the middle: NextRecord until io.EOF or an error with GetStreamPos after every call, then SetStreamPos(end of the " +
	"k-th record) and again. MODEL: the reader's lines from the Lean driver (lr 64 <start> <content>): position after the i-th record = start + lengths of the model's " +
	"first i lines, records stop at the first model line that does not unmarshal (decided with encoding/json into the parsers' struct), position unchanged by the error. " +
	"SPEC: the same with the lines = the file cut after each newline and at 64 bytes; the resumed run returns exactly the records after the k-th; Data = the decoded log field. " +
	"non-trivial = at least 3 lines, distinct by case"

func checkJpCases(sec *vh.Section, cases []posCase, verbose bool) {
	dir := lrsrv.NewDir()
	defer os.RemoveAll(dir)
	type outT struct {
		first, second jpRun
		off           int64
		ok            bool
	}
	outs := make([]outT, len(cases))
	var lines []string
	for i, c := range cases {
		content := vh.UnHx(c.Content)
		if len(content) == 0 || content[len(content)-1] != '\n' || (c.Format != "k8json" && c.Format != "logfmt") {
			res.Note("jsonparsers: case skipped (content must end with a newline, format k8json|logfmt)")
			continue
		}
		// resume offset: the end of the k-th record of the SPEC (k beyond the records: after the last one)
		spec := jpSpecLines(content, recLimit)
		nOK := jpExpect(spec, 0).nrec
		off := int64(0)
		for k := 0; k < c.Resume && k < nOK; k++ {
			off += int64(len(spec[k]))
		}
		first, second, err := runJpImpl(dir, c, off)
		if err != nil {
			res.Note("jsonparsers: %v", err)
			continue
		}
		outs[i] = outT{first, second, off, true}
		lines = append(lines, fmt.Sprintf("lr %d 0 %s", recLimit, vh.Hx(content)), fmt.Sprintf("lr %d %d %s", recLimit, off, vh.Hx(content[off:])))
	}
	var answers []string
	if driverUsable() && len(lines) > 0 {
		var err error
		answers, err = vh.Batch(args.Driver, lines)
		if err != nil {
			res.Fatal(args.Out, "driver: %v", err)
		}
	}
	k := 0
	for i, c := range cases {
		o := outs[i]
		if !o.ok {
			continue
		}
		content := vh.UnHx(c.Content)
		key := ""
		if bytes.Count(content, []byte("\n")) >= 3 {
			key = digest(c)
		}
		res.Eval(sec, key)
		res.Dist(sec, "format="+c.Format)
		if strings.HasPrefix(o.first.toks[len(o.first.toks)-1], "eof@") {
			res.Dist(sec, "clean")
		} else {
			res.Dist(sec, "has-error")
		}
		impl := o.first.String() + " || " + o.second.String()
		if answers != nil {
			m1, m2 := jpExpect(jpModelLines(answers[k]), 0), jpExpect(jpModelLines(answers[k+1]), o.off)
			model := m1.String() + " || " + m2.String()
			if verbose {
				fmt.Printf("impl : %s\nmodel: %s\n", impl, model)
			}
			if model != impl {
				res.Mismatch(vh.Mismatch{Section: "jsonparsers", Function: "parser.K8sJsonLogParser/logfmtParser offsets", Input: c, Impl: impl, Model: model})
			}
		}
		k += 2
		s1, s2 := jpExpect(jpSpecLines(content, recLimit), 0), jpExpect(jpSpecLines(content[o.off:], recLimit), o.off)
		spec := s1.String() + " || " + s2.String()
		if verbose {
			fmt.Printf("impl : %s\nspec : %s\n", impl, spec)
		}
		if spec != impl {
			what := "records/positions from offset 0 differ: the position after the i-th record must be the end of the i-th line (cut at 64 bytes) and an error must leave it unchanged"
			if s1.String() == o.first.String() {
				what = fmt.Sprintf("resumed at offset %d (end of record %d): the records returned are not exactly the ones after it, or their positions are off", o.off, c.Resume)
			}
			res.SpecFail(vh.SpecFailure{Section: "jsonparsers", Kind: "offset-accounting", Input: c, Impl: impl, Spec: spec, What: what})
		}
	}
}

func sectionJsonParsers(rng *vh.Rng) {
	sec := res.Section("jsonparsers", "unit-correspondence", jsonParsersRule)
	n := 200
	if args.Thorough {
		n = 3000
	}
	var cases []posCase
	for _, raw := range lrCorpus("jsonparsers") {
		var c posCase
		if json.Unmarshal(raw, &c) == nil && c.Format != "" {
			cases = append(cases, c)
		}
	}
	for i := 0; i < n; i++ {
		c := genJpCase(rng)
		if i < 2 {
			res.Sample(map[string]interface{}{"section": "jsonparsers", "input": c, "content": string(vh.UnHx(c.Content))})
		}
		cases = append(cases, c)
	}
	checkJpCases(sec, cases, false)
	res.Done(sec)
}

func replayJsonParsers(input json.RawMessage) {
	var c posCase
	if err := json.Unmarshal(input, &c); err != nil || c.Format == "" {
		res.Note("jsonparsers replay: bad input: %v", err)
		return
	}
	sec := res.Section("jsonparsers", "unit-correspondence", jsonParsersRule)
	checkJpCases(sec, []posCase{c}, true)
	res.Done(sec)
}
