// C17 harness: a watched file that exactly ONE scan does not find (finding F61, FIXED by /repo b5388a7: mergeDescs keeps
// the descriptor of a file the scan did not find for one more scan). Deterministic through the hook
// scanner.sync.afterScanPaths, which runs right after scanPaths of every sync: in the hook of sync k the shipped file is
// renamed away (sync k itself has seen it), in the hook of sync k+1 — whose scanPaths has just missed it — it is renamed
// back; with `scans = 2` one sync later. No parking, nothing timed. The hook is process-global: the section runs alone.
package main

import (
	"bytes"
	"context"
	"encoding/json"
	"fmt"
	"os"
	"path/filepath"
	"sync/atomic"
	"time"

	"github.com/logrange/logrange/pkg/scanner"
	"github.com/logrange/logrange/pkg/scanner/model"
	"github.com/logrange/logrange/pkg/utils/verifhook"
	"verifharness/internal/lrsrv"
	"verifharness/internal/vh"
)

type flickerInput struct {
	Section string   `json:"section"`
	Lines   []string `json:"lines"`
	Scans   int      `json:"scans"` // number of consecutive scans that do not find the file (0 = control)
}

const flickerRule = "deterministic schedule on the real scanner.Scanner (sync every second; hook scanner.sync.afterScanPaths, not parked): the file is shipped and confirmed; right after a scan has seen it, it is renamed away; right after the next scan (scans = 1) or the one after (scans = 2) has missed it, it is renamed back, then three lines are appended. " +
	"SPEC (scans <= 1): the file only grew — nothing is delivered again, the appended lines arrive once. scans = 2 is only noted: a file two scans in a row do not find is gone, what comes back under the name is a new watched file. non-trivial = every schedule"

func runFlicker(in flickerInput, sec *vh.Section) {
	in.Section = "flicker"
	if !verifhook.Enabled {
		res.Note("flicker: hooks are not compiled in (build tag verif missing)")
		return
	}
	dir := lrsrv.NewDir()
	defer os.RemoveAll(dir)
	fn, away := filepath.Join(dir, "app.log"), filepath.Join(dir, "app.away")
	W := joinLines(in.Lines)
	more := []byte("appended one\nappended two\nappended three\n")
	if err := os.WriteFile(fn, W, 0644); err != nil {
		res.Note("flicker: %v", err)
		return
	}
	var clock int64
	sc, err := scanner.NewScanner(scanCfg(fn, "pure", 1, 1, 3600), newMemStorage(&clock))
	if err != nil {
		res.Note("flicker: %v", err)
		return
	}
	// phase: 0 = not armed; 1 = armed: the next hook renames away; 2.. = hooks since, the file comes back at 1 + scans
	var phase, back int32
	verifhook.Set("scanner.sync.afterScanPaths", func() {
		p := atomic.LoadInt32(&phase)
		switch {
		case p == 0:
		case p == 1:
			os.Rename(fn, away)
			atomic.StoreInt32(&phase, 2)
		case int(p) == 1+in.Scans && atomic.LoadInt32(&back) == 0:
			os.Rename(away, fn)
			atomic.StoreInt32(&back, 1)
		case atomic.LoadInt32(&back) == 0:
			atomic.StoreInt32(&phase, p+1)
		}
	})
	ctx, cancel := context.WithCancel(context.Background())
	events := make(chan *model.Event)
	if err := sc.Run(ctx, events); err != nil {
		cancel()
		verifhook.Reset()
		res.Note("flicker: %v", err)
		return
	}
	defer func() {
		cancel()
		sc.WaitAllJobsDone()
		verifhook.Reset()
	}()
	var confirmed []byte
	take := func(d time.Duration, until func() bool) {
		deadline := time.After(d)
		for !until() {
			select {
			case ev := <-events:
				var pay []byte
				for _, r := range ev.Records {
					if r != nil {
						pay = append(pay, r.Data...)
					}
				}
				if ev.Confirm() {
					confirmed = append(confirmed, pay...)
				}
			case <-time.After(20 * time.Millisecond): // look at the condition again
			case <-deadline:
				return
			}
		}
	}
	take(6*time.Second, func() bool { return len(confirmed) >= len(W) })
	if !bytes.Equal(confirmed, W) {
		res.Note("flicker: the file was not shipped in time (%d of %d bytes)", len(confirmed), len(W))
		return
	}
	if in.Scans > 0 {
		atomic.StoreInt32(&phase, 1)
		take(time.Duration(in.Scans+4)*2*time.Second, func() bool { return atomic.LoadInt32(&back) == 1 })
		if atomic.LoadInt32(&back) != 1 {
			res.Note("flicker: the schedule was not reached (phase %d)", atomic.LoadInt32(&phase))
			return
		}
	}
	// the file is back (or never left): it grows; everything after W must be exactly the appended lines
	if f, err := os.OpenFile(fn, os.O_APPEND|os.O_WRONLY, 0644); err == nil {
		f.Write(more)
		f.Close()
	}
	take(8*time.Second, func() bool { return len(confirmed) >= len(W)+len(more) })
	take(2500*time.Millisecond, func() bool { return false }) // two more syncs: anything that should not come
	res.Eval(sec, digest(in))
	res.Dist(sec, fmt.Sprintf("scans-missed=%d", in.Scans))
	extra := confirmed[len(W):]
	if bytes.Equal(extra, more) {
		if in.Scans == 1 {
			res.Note("flicker: the file was missing from exactly one scan and kept its offset (expected since fix b5388a7) — F61 does not reproduce")
		}
		return
	}
	if in.Scans >= 2 {
		res.Note("flicker (noted only): away for %d consecutive scans, then back: %d bytes were delivered after the first %d (%s) — a file two scans in a row do not find is forgotten, what returns under the name is read as a new file", in.Scans, len(extra), len(W), short(extra))
		return
	}
	model := driverAnswer(fmt.Sprintf("merge2 1 6964 %d %d 0 0", len(W), len(W)))
	eq := model == "-" // the model of the code under test drops the descriptor too
	finding := ""
	if in.Scans == 1 && eq && bytes.HasPrefix(extra, W) {
		finding = "F61"
	}
	res.SpecFail(vh.SpecFailure{Section: "flicker", Kind: "file-missing-from-one-scan-resent", Input: in, Finding: finding, ImplEqModel: eq, Model: model,
		Impl: fmt.Sprintf("confirmed %d bytes = the file; after the file was missing from %d scan(s) and grew by %d bytes: %s", len(W), in.Scans, len(more), short(extra)),
		Spec: fmt.Sprintf("only the appended lines: %s", short(more)),
		What: "a file that only grows but is missing from one scan (renamed away and back, or os.Stat failing once) must keep its descriptor and offset: nothing confirmed is sent again"})
}

func sectionFlicker() {
	// the one-scan schedule itself is the corpus witness of the fixed finding F61 (replayed first on every run); the
	// control and the noted-only two-scan schedule cost 4 s and 8 s of a serial phase: thorough tier only
	if !args.Thorough {
		return
	}
	sec := res.Section("flicker", "system-correspondence", flickerRule)
	defer res.Done(sec)
	runFlicker(flickerInput{Lines: []string{"alpha", "beta", "gamma"}, Scans: 0}, sec)
	runFlicker(flickerInput{Lines: []string{"alpha", "beta", "gamma"}, Scans: 2}, sec)
}

func replayFlicker(input json.RawMessage) {
	var in flickerInput
	if err := json.Unmarshal(input, &in); err != nil || len(in.Lines) == 0 {
		res.Fatal(args.Out, "replay flicker: %v", err)
	}
	sec := res.Section("flicker", "system-correspondence", flickerRule)
	runFlicker(in, sec)
}
