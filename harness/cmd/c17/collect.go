// C17 harness: the whole path client/collector.Run -> real rpc client -> real in-process server, with one genuine
// server-side write failure: collector.Run re-uses ONE api.WriteResult for all its writes and retries while it
// reports an error, so it relies on Client.Write reporting "no error" after a write that succeeded.
package main

import (
	"context"
	"fmt"
	"os"
	"path/filepath"
	"strings"
	"sync"
	"time"

	"github.com/logrange/logrange/api"
	"github.com/logrange/logrange/client/collector"
	"verifharness/internal/lrsrv"
	"verifharness/internal/vh"
)

// failFirstWrite lets the first Write fail on the SERVER (the real client is called with a tag line the server cannot
// parse, with the caller's own WriteResult), every later Write goes through unchanged.
type failFirstWrite struct {
	api.Client
	mu     sync.Mutex
	calls  int
	failed string
}

func (f *failFirstWrite) Write(ctx context.Context, tags, fields string, evs []*api.LogEvent, res *api.WriteResult) error {
	f.mu.Lock()
	f.calls++
	first := f.calls == 1
	f.mu.Unlock()
	if first {
		err := f.Client.Write(ctx, "{this is not a tag line", fields, evs, res)
		f.mu.Lock()
		if res != nil && res.Err != nil {
			f.failed = res.Err.Error()
		}
		f.mu.Unlock()
		return err
	}
	return f.Client.Write(ctx, tags, fields, evs, res)
}

func sectionCollector() {
	sec := res.Section("collector", "spec-search",
		"the real client/collector.Run on a real file (5 lines, 2 records per event), the real rpc client and the real in-process server; the first write is made to fail on the server (a tag line it cannot parse, through the real client and the collector's own re-used WriteResult), every later write goes through; the collector sleeps its real 5 s and retries. SPEC: 11 s later the partition holds exactly the file's lines, each once, in order. non-trivial = the one schedule")
	defer res.Done(sec)
	dir := lrsrv.NewDir()
	defer os.RemoveAll(dir)
	srv, err := lrsrv.Start(filepath.Join(dir, "srv"), lrsrv.Opts{})
	if err != nil {
		res.Note("collector: %v", err)
		return
	}
	defer srv.Stop()
	fn := filepath.Join(dir, "app.log")
	lines := []string{"alpha", "beta", "gamma", "delta", "epsilon"}
	os.WriteFile(fn, []byte(strings.Join(lines, "\n")+"\n"), 0644)
	cfg := scanCfg(fn, "pure", 2, 1, 3600)
	cfg.Schemas[0].Meta.Tags = map[string]string{"src": "c17col"}
	var clock int64
	st := newMemStorage(&clock)
	cl := &failFirstWrite{Client: srv.Client}
	ctx, cancel := context.WithCancel(context.Background())
	done := make(chan error, 1)
	go func() { done <- collector.Run(ctx, cfg, cl, st) }()
	read := func() []string {
		var out []string
		qr := &api.QueryRequest{Query: "select from src=c17col limit 1000", Limit: 1000}
		var qres api.QueryResult
		if err := srv.Client.Query(context.Background(), qr, &qres); err != nil || qres.Err != nil {
			return nil
		}
		for _, e := range qres.Events {
			out = append(out, strings.TrimRight(e.Message, "\n"))
		}
		return out
	}
	// first attempt fails at once, the retry comes 5 s later, a (wrong) second retry would come at 10 s
	time.Sleep(11 * time.Second)
	got := read()
	cancel()
	select {
	case <-done:
	case <-time.After(70 * time.Second):
		res.Note("collector: collector.Run did not return after cancel")
	}
	cl.mu.Lock()
	failed, calls := cl.failed, cl.calls
	cl.mu.Unlock()
	res.Eval(sec, "one-server-side-failure")
	res.Dist(sec, fmt.Sprintf("writes=%d", calls))
	if failed == "" {
		res.Note("collector: the injected write did not fail on the server (calls=%d) — schedule not reached", calls)
		return
	}
	if strings.Join(got, "\x00") != strings.Join(lines, "\x00") {
		res.SpecFail(vh.SpecFailure{Section: "collector", Kind: "server-content-differs-from-file", Input: map[string]interface{}{"section": "collector", "lines": lines},
			Impl: fmt.Sprintf("%d writes; partition holds %q", calls, got), Spec: fmt.Sprintf("%q", lines),
			What: "after one server-side write failure (" + failed + ") and a successful retry the collector must go on: the partition must hold the file's lines, each once"})
	}
}
