// C17 harness: the whole path client/collector.Run -> real rpc client -> real in-process server, with one genuine
// server-side write failure: collector.Run re-uses ONE api.WriteResult for all its writes and retries while it
// reports an error, so it relies on Client.Write reporting "no error" after a write that succeeded.
package main

import (
	"context"
	"encoding/json"
	"fmt"
	"os"
	"path/filepath"
	"strings"
	"sync"
	"sync/atomic"
	"time"

	"github.com/logrange/logrange/api"
	"github.com/logrange/logrange/client/collector"
	"verifharness/internal/lrsrv"
	"verifharness/internal/vh"
)

// failFirstWrite lets the first Write fail on the SERVER (the real client is called with a tag line the server cannot
// parse, with the caller's own WriteResult), every later Write goes through unchanged.
type failFirstWrite struct {
	api.Client
	mu     sync.Mutex
	calls  int
	failed string
}

func (f *failFirstWrite) Write(ctx context.Context, tags, fields string, evs []*api.LogEvent, res *api.WriteResult) error {
	f.mu.Lock()
	f.calls++
	first := f.calls == 1
	f.mu.Unlock()
	if first {
		err := f.Client.Write(ctx, "{this is not a tag line", fields, evs, res)
		f.mu.Lock()
		if res != nil && res.Err != nil {
			f.failed = res.Err.Error()
		}
		f.mu.Unlock()
		return err
	}
	return f.Client.Write(ctx, tags, fields, evs, res)
}

// procStorage is a slow disk behind a process boundary: a write takes `delay`, and a write that completes after the
// process is gone (collector.Run has returned: cmd/lr exits there) never reaches the disk.
type procStorage struct {
	*memStorage
	delay time.Duration
	dead  int32
	late  int32
}

func (p *procStorage) WriteData(key string, val []byte) error {
	time.Sleep(p.delay)
	if atomic.LoadInt32(&p.dead) != 0 {
		atomic.AddInt32(&p.late, 1)
		return nil
	}
	return p.memStorage.WriteData(key, val)
}

// ackClient forwards to the real client and records the messages of every acknowledged write; the writes with the
// numbers in failAt (1-based) are answered with a transport error without reaching the server.
type ackClient struct {
	api.Client
	mu     sync.Mutex
	calls  int
	failAt map[int]bool
	acked  []string
	failed chan struct{} // closed at the first injected failure
}

func (a *ackClient) Write(ctx context.Context, tags, fields string, evs []*api.LogEvent, res *api.WriteResult) error {
	a.mu.Lock()
	a.calls++
	fail := a.failAt[a.calls]
	a.mu.Unlock()
	if fail {
		if a.failed != nil {
			select {
			case <-a.failed:
			default:
				close(a.failed)
			}
		}
		return fmt.Errorf("injected transport error")
	}
	err := a.Client.Write(ctx, tags, fields, evs, res)
	if err == nil && (res == nil || res.Err == nil) {
		a.mu.Lock()
		for _, e := range evs {
			a.acked = append(a.acked, e.Message)
		}
		a.mu.Unlock()
	}
	return err
}

func (a *ackClient) ackedCopy() []string {
	a.mu.Lock()
	defer a.mu.Unlock()
	return append([]string{}, a.acked...)
}

// collectorStopCase: two lives of the real collector.Run on one file and one "disk". Life 1 ends with a graceful stop
// (the context is cancelled) either while the collector is idle (everything shipped and confirmed, it waits in its
// select) or while it is busy (inside the 5 s retry pause after a failed write); when Run has returned the process is
// gone. SPEC: the disk then holds exactly the end of the confirmed bytes, and life 2 ships the rest of the file — and
// nothing else — once, in order.
func collectorStopCase(srv *lrsrv.Srv, sec *vh.Section, name string) {
	dir := lrsrv.NewDir()
	defer os.RemoveAll(dir)
	fn := filepath.Join(dir, name+".log")
	lines := []string{"one\n", "two\n", "three\n", "four\n", "five\n"}
	content := strings.Join(lines, "")
	os.WriteFile(fn, []byte(content), 0644)
	var clock int64
	st := &procStorage{memStorage: newMemStorage(&clock), delay: 300 * time.Millisecond}
	busy := name == "busy-stop"
	tagv := "c17" + strings.Replace(name, "-", "", -1)
	input := map[string]interface{}{"section": "collector", "case": name}
	fail := func(kind, impl, spec, what string) {
		res.SpecFail(vh.SpecFailure{Section: "collector", Kind: kind, Input: input, Impl: impl, Spec: spec, What: what})
	}
	life := func(cl *ackClient, until func() bool, maxWait time.Duration, idle time.Duration) bool {
		cfg := scanCfg(fn, "pure", 2, 1, 3600)
		cfg.Schemas[0].Meta.Tags = map[string]string{"src": tagv}
		ctx, cancel := context.WithCancel(context.Background())
		defer cancel()
		done := make(chan error, 1)
		atomic.StoreInt32(&st.dead, 0)
		go func() { done <- collector.Run(ctx, cfg, cl, st) }()
		dl := time.Now().Add(maxWait)
		for !until() && time.Now().Before(dl) {
			time.Sleep(20 * time.Millisecond)
		}
		reached := until()
		time.Sleep(idle)
		cancel()
		select {
		case <-done:
		case <-time.After(150 * time.Second):
			fail("hang", "collector.Run did not return 150 s after the cancel", "returns", "a graceful stop must end")
			return false
		}
		atomic.StoreInt32(&st.dead, 1) // the process is gone
		return reached
	}
	// life 1
	cl1 := &ackClient{Client: srv.Client, failAt: map[int]bool{}, failed: make(chan struct{})}
	var confirmedEnd int64
	var reached bool
	if busy {
		// the second event's writes fail: the stop arrives inside the retry pause; the first event (2 lines) is confirmed
		for i := 2; i < 40; i++ {
			cl1.failAt[i] = true
		}
		reached = life(cl1, func() bool {
			select {
			case <-cl1.failed:
				return true
			default:
				return false
			}
		}, 60*time.Second, 1500*time.Millisecond)
		confirmedEnd = int64(len(lines[0]) + len(lines[1]))
	} else {
		reached = life(cl1, func() bool { return len(cl1.ackedCopy()) >= len(lines) }, 60*time.Second, 2500*time.Millisecond)
		confirmedEnd = int64(len(content))
	}
	res.Eval(sec, name)
	if !reached {
		res.Note("collector/%s: life 1 did not reach its stop point (acked %d) — schedule not reached", name, len(cl1.ackedCopy()))
		return
	}
	acked1 := cl1.ackedCopy()
	off, ok := st.current(fn)
	res.Dist(sec, fmt.Sprintf("%s:late-writes=%d", name, atomic.LoadInt32(&st.late)))
	if !ok || off != confirmedEnd {
		fail("graceful-stop-final-save-lost",
			fmt.Sprintf("when collector.Run returned the storage held offset %d (present=%v) for the file; %d record(s) confirmed; %d save(s) completed only after Run had returned", off, ok, len(acked1), atomic.LoadInt32(&st.late)),
			fmt.Sprintf("offset %d = end of the confirmed records", confirmedEnd),
			"graceful stop ("+name+"): collector.Run returns to cmd/lr, which exits; the final save of the offsets must be complete by then, otherwise the restart re-sends confirmed bytes")
	}
	// life 2: same disk, a client that accepts everything
	cl2 := &ackClient{Client: srv.Client, failAt: map[int]bool{}}
	want2 := lines[len(acked1):]
	mw := 20 * time.Second
	if len(want2) == 0 {
		mw = 0
	}
	life(cl2, func() bool { return len(want2) > 0 && len(cl2.ackedCopy()) >= len(want2) }, mw, 3*time.Second)
	acked2 := cl2.ackedCopy()
	if strings.Join(acked1, "") != strings.Join(lines[:len(acked1)], "") || strings.Join(acked2, "") != strings.Join(want2, "") {
		fail("confirmed-bytes-resent-or-skipped-after-collector-stop",
			fmt.Sprintf("life 1 acknowledged %q, life 2 acknowledged %q", acked1, acked2),
			fmt.Sprintf("life 2 ships exactly %q", want2),
			"graceful stop ("+name+") and restart of collector.Run on the same storage: neither re-send a confirmed byte nor skip one")
	}
}

// refuseClient lets the first `refuse` Writes fail on the SERVER (the real client is called with a tag line the server
// cannot parse, with the caller's own WriteResult: a genuine operation error, the server is reachable) and records every
// call: what was offered and whether the server stored it.
type refuseClient struct {
	api.Client
	mu        sync.Mutex
	refuse    int
	calls     int
	refused   int
	offers    []string // first message of every offered event, "!" appended when the server refused it
	storedEnd int64    // bytes of the lines the server has acknowledged without an error
	skipped   string   // first violation of "nothing after a refused event before that event is stored"
	pending   string   // first message of the event the server refused last and has not stored yet
}

func (f *refuseClient) Write(ctx context.Context, tags, fields string, evs []*api.LogEvent, res *api.WriteResult) error {
	first := ""
	if len(evs) > 0 {
		first = evs[0].Message
	}
	f.mu.Lock()
	f.calls++
	bad := f.calls <= f.refuse
	if f.pending != "" && first != f.pending && f.skipped == "" {
		f.skipped = fmt.Sprintf("event %q was offered while event %q, which the server had refused, was not stored yet (offers so far: %q)", first, f.pending, f.offers)
	}
	f.mu.Unlock()
	if bad {
		tags = "{this is not a tag line"
	}
	err := f.Client.Write(ctx, tags, fields, evs, res)
	f.mu.Lock()
	defer f.mu.Unlock()
	if err == nil && res != nil && res.Err != nil {
		f.refused++
		f.pending = first
		f.offers = append(f.offers, first+"!")
	} else if err == nil {
		if f.pending == first {
			f.pending = ""
		}
		f.offers = append(f.offers, first)
		for _, e := range evs {
			f.storedEnd += int64(len(e.Message))
		}
	}
	return err
}

// offsetWatch is a storage that compares every saved offset with what the server has stored at that moment
type offsetWatch struct {
	*memStorage
	cl   *refuseClient
	mu   sync.Mutex
	over string
}

func (o *offsetWatch) WriteData(key string, val []byte) error {
	var ds []descJ
	json.Unmarshal(val, &ds)
	o.cl.mu.Lock()
	end := o.cl.storedEnd
	o.cl.mu.Unlock()
	for _, d := range ds {
		if d.Offset > end {
			o.mu.Lock()
			if o.over == "" {
				o.over = fmt.Sprintf("saved offset %d while the server had stored the file's bytes up to %d only", d.Offset, end)
			}
			o.mu.Unlock()
		}
	}
	return o.memStorage.WriteData(key, val)
}

// collectorRefusedCase: the server is reachable but answers the first n Writes — all of them the first event — with an
// operation error, then recovers. The collector pauses its real 5 s after each. SPEC: nothing behind the refused event is
// offered before that event is stored; no saved offset passes a record the server has not stored; in the end the partition
// holds every line of the file once, in order.
func collectorRefusedCase(srv *lrsrv.Srv, sec *vh.Section, n int) {
	name := fmt.Sprintf("refused-%d", n)
	dir := lrsrv.NewDir()
	defer os.RemoveAll(dir)
	fn := filepath.Join(dir, name+".log")
	lines := []string{"alpha", "beta", "gamma", "delta", "epsilon"}
	content := strings.Join(lines, "\n") + "\n"
	os.WriteFile(fn, []byte(content), 0644)
	tagv := fmt.Sprintf("c17refused%d", n)
	cfg := scanCfg(fn, "pure", 2, 1, 1) // state saved every second
	cfg.Schemas[0].Meta.Tags = map[string]string{"src": tagv}
	var clock int64
	cl := &refuseClient{Client: srv.Client, refuse: n}
	st := &offsetWatch{memStorage: newMemStorage(&clock), cl: cl}
	input := map[string]interface{}{"section": "collector", "case": name}
	ctx, cancel := context.WithCancel(context.Background())
	done := make(chan error, 1)
	go func() { done <- collector.Run(ctx, cfg, cl, st) }()
	// n refusals, 5 s pause after each, then everything goes through: n*5 s + generous margin
	deadline := time.Now().Add(time.Duration(n*5+15) * time.Second)
	for time.Now().Before(deadline) {
		cl.mu.Lock()
		all := cl.storedEnd >= int64(len(content))
		cl.mu.Unlock()
		if all {
			break
		}
		time.Sleep(50 * time.Millisecond)
	}
	time.Sleep(1500 * time.Millisecond) // one more save tick
	var got []string
	qr := &api.QueryRequest{Query: "select from src=" + tagv + " limit 1000", Limit: 1000}
	var qres api.QueryResult
	if err := srv.Client.Query(context.Background(), qr, &qres); err == nil && qres.Err == nil {
		for _, e := range qres.Events {
			got = append(got, strings.TrimRight(e.Message, "\n"))
		}
	}
	cancel()
	select {
	case <-done:
	case <-time.After(70 * time.Second):
		res.Note("collector/%s: collector.Run did not return after cancel", name)
	}
	cl.mu.Lock()
	refused, skipped, offers := cl.refused, cl.skipped, append([]string{}, cl.offers...)
	cl.mu.Unlock()
	st.mu.Lock()
	over := st.over
	st.mu.Unlock()
	res.Eval(sec, name)
	res.Dist(sec, fmt.Sprintf("%s:server-refusals=%d", name, refused))
	if refused < n {
		res.Note("collector/%s: the server refused %d of the %d injected writes — schedule not reached (offers %q)", name, refused, n, offers)
		return
	}
	fail := func(kind, impl, spec, what string) {
		res.SpecFail(vh.SpecFailure{Section: "collector", Kind: kind, Input: input, Impl: impl, Spec: spec, What: what})
	}
	if skipped != "" {
		fail("event-skipped-after-server-errors", skipped, "the refused event again, until the server has stored it",
			fmt.Sprintf("the server answered %d consecutive writes of one event with an operation error: the collector must keep offering that event (its records are not stored), nothing behind it may be offered first", n))
	}
	if over != "" {
		fail("saved-offset-passes-unstored-record", over, "a saved offset is the end of a record whose delivery was confirmed",
			"the offset the collector persists is always the end of a record the server has stored")
	}
	if strings.Join(got, "\x00") != strings.Join(lines, "\x00") {
		fail("server-content-differs-from-file", fmt.Sprintf("after %d refusals and the recovery the partition holds %q (offers: %q)", refused, got, offers), fmt.Sprintf("%q", lines),
			"after the server has recovered the partition must hold every line of the file, each once, in order")
	}
}

func sectionCollector() {
	sec := res.Section("collector", "spec-search",
		"the real client/collector.Run on real files (5 lines, 2 records per event), the real rpc client and the real in-process server. (a) the first write is made to fail on the server (a tag line it cannot parse, through the real client and the collector's own re-used WriteResult), every later write goes through; the collector sleeps its real 5 s and retries. SPEC: 11 s later the partition holds exactly the file's lines, each once, in order. (b) idle-stop / busy-stop: a graceful stop while the collector waits for an event / pauses after a failed write, on a slow disk (300 ms per save) behind a process boundary (saves that complete after Run has returned are lost), then a second life on the same disk. SPEC: when Run returns the disk holds the end of the confirmed bytes; the second life ships the rest, once. (c) refused-3 (thorough: also refused-5): the server answers the first 3 (5) writes — all of them the first event — with an operation error and then recovers, state saved every second. SPEC: nothing behind the refused event is offered before it is stored, no saved offset passes a record the server has not stored, in the end the partition holds every line once, in order. non-trivial = every schedule")
	defer res.Done(sec)
	dir := lrsrv.NewDir()
	defer os.RemoveAll(dir)
	srv, err := lrsrv.Start(filepath.Join(dir, "srv"), lrsrv.Opts{})
	if err != nil {
		res.Note("collector: %v", err)
		return
	}
	defer srv.Stop()
	var wg sync.WaitGroup
	for _, name := range []string{"idle-stop", "busy-stop"} {
		wg.Add(1)
		go func(name string) { defer wg.Done(); collectorStopCase(srv, sec, name) }(name)
	}
	// the server refuses one event 3 times (5 times: thorough tier) — 5 s pause after each, next to everything else
	ns := []int{3}
	if args.Thorough {
		ns = append(ns, 5)
	}
	for _, n := range ns {
		wg.Add(1)
		go func(n int) { defer wg.Done(); collectorRefusedCase(srv, sec, n) }(n)
	}
	defer wg.Wait()
	collectorWriteFailure(srv, sec, dir)
}

// replayCollector re-runs one of the stop schedules
func replayCollector(raw json.RawMessage) {
	var in struct {
		Case string `json:"case"`
	}
	json.Unmarshal(raw, &in)
	sec := res.Section("collector", "spec-search", "replay of one collector schedule")
	defer res.Done(sec)
	dir := lrsrv.NewDir()
	defer os.RemoveAll(dir)
	srv, err := lrsrv.Start(filepath.Join(dir, "srv"), lrsrv.Opts{})
	if err != nil {
		res.Note("collector: %v", err)
		return
	}
	defer srv.Stop()
	switch in.Case {
	case "idle-stop", "busy-stop":
		collectorStopCase(srv, sec, in.Case)
	case "refused-3":
		collectorRefusedCase(srv, sec, 3)
	case "refused-5":
		collectorRefusedCase(srv, sec, 5)
	default:
		collectorWriteFailure(srv, sec, dir)
	}
}

func collectorWriteFailure(srv *lrsrv.Srv, sec *vh.Section, dir string) {
	fn := filepath.Join(dir, "app.log")
	lines := []string{"alpha", "beta", "gamma", "delta", "epsilon"}
	os.WriteFile(fn, []byte(strings.Join(lines, "\n")+"\n"), 0644)
	cfg := scanCfg(fn, "pure", 2, 1, 3600)
	cfg.Schemas[0].Meta.Tags = map[string]string{"src": "c17col"}
	var clock int64
	st := newMemStorage(&clock)
	cl := &failFirstWrite{Client: srv.Client}
	ctx, cancel := context.WithCancel(context.Background())
	done := make(chan error, 1)
	go func() { done <- collector.Run(ctx, cfg, cl, st) }()
	read := func() []string {
		var out []string
		qr := &api.QueryRequest{Query: "select from src=c17col limit 1000", Limit: 1000}
		var qres api.QueryResult
		if err := srv.Client.Query(context.Background(), qr, &qres); err != nil || qres.Err != nil {
			return nil
		}
		for _, e := range qres.Events {
			out = append(out, strings.TrimRight(e.Message, "\n"))
		}
		return out
	}
	// first attempt fails at once, the retry comes 5 s later, a (wrong) second retry would come at 10 s
	time.Sleep(11 * time.Second)
	got := read()
	cancel()
	select {
	case <-done:
	case <-time.After(70 * time.Second):
		res.Note("collector: collector.Run did not return after cancel")
	}
	cl.mu.Lock()
	failed, calls := cl.failed, cl.calls
	cl.mu.Unlock()
	res.Eval(sec, "one-server-side-failure")
	res.Dist(sec, fmt.Sprintf("writes=%d", calls))
	if failed == "" {
		res.Note("collector: the injected write did not fail on the server (calls=%d) — schedule not reached", calls)
		return
	}
	if strings.Join(got, "\x00") != strings.Join(lines, "\x00") {
		res.SpecFail(vh.SpecFailure{Section: "collector", Kind: "server-content-differs-from-file", Input: map[string]interface{}{"section": "collector", "lines": lines},
			Impl: fmt.Sprintf("%d writes; partition holds %q", calls, got), Spec: fmt.Sprintf("%q", lines),
			What: "after one server-side write failure (" + failed + ") and a successful retry the collector must go on: the partition must hold the file's lines, each once"})
	}
}
