// C17 harness, section "leak50": a worker whose file was rotated away (or truncated) while its last line has no
// newline. lineReader.readLine does not return while a partial line is pending (200 ms pause, poll again, until the
// context is cancelled), so NextRecord never reports io.EOF and the worker never honours stopOnEOF.
package main

import (
	"bytes"
	"context"
	"encoding/json"
	"fmt"
	"os"
	"path/filepath"
	"runtime"
	"strings"
	"sync"
	"time"

	"github.com/logrange/logrange/pkg/scanner"
	"github.com/logrange/logrange/pkg/scanner/model"
	"verifharness/internal/lrsrv"
	"verifharness/internal/vh"
)

type leak50Input struct {
	Section string   `json:"section"`
	Mode    string   `json:"mode"`    // rename | truncate
	Old     []string `json:"old"`     // complete lines of the old content (without the newline)
	Partial string   `json:"partial"` // the old content ends with this, without a newline ("" = control schedule)
	New     []string `json:"new"`     // complete lines of the new content
}

const leak50Rule = "deterministic schedules, SyncWorkersIntervalSec=1, StateStoreIntervalSec=3600, EventMaxRecords=1, IncludePaths = <dir>/app.log only, the consumer confirms everything. " +
	"rename: app.log holds complete lines and possibly a last line without newline; after the complete lines are confirmed app.log is renamed to app.log.1 and a new app.log is " +
	"written; after the new file's records are confirmed the process is watched for 6 s: is there still a descriptor on app.log.1 in /proc/self/fd (and a worker goroutine in " +
	"readLine)? Control (old content ends with a newline): the descriptor must be gone within 6 s. truncate: same old content, then os.Truncate(app.log,0) and new content shorter " +
	"than the old offset; watched for 8 s: is the new content delivered from its beginning? Control: yes, completely. After every schedule: cancel, WaitAllJobsDone, no descriptor " +
	"on the files of the case is left. non-trivial = every schedule"

// fdsOn lists the descriptors of this process that point to path (also when the file was unlinked since)
func fdsOn(path string) (n int) {
	ents, err := os.ReadDir("/proc/self/fd")
	if err != nil {
		return -1
	}
	for _, e := range ents {
		if l, err := os.Readlink(filepath.Join("/proc/self/fd", e.Name())); err == nil && (l == path || l == path+" (deleted)") {
			n++
		}
	}
	return
}

// workersInReadLine counts the goroutines of the process that are in scanner.(*worker).run and inside lineReader.readLine
func workersInReadLine() (n int) {
	buf := make([]byte, 1<<20)
	for {
		k := runtime.Stack(buf, true)
		if k < len(buf) || len(buf) >= 64<<20 {
			buf = buf[:k]
			break
		}
		buf = make([]byte, 2*len(buf))
	}
	for _, g := range strings.Split(string(buf), "\n\n") {
		if strings.Contains(g, "scanner.(*worker).run") && strings.Contains(g, "(*lineReader).readLine") {
			n++
		}
	}
	return
}

func leakJoin(ls []string) (b []byte) {
	for _, l := range ls {
		b = append(b, l...)
		b = append(b, '\n')
	}
	return
}

func runLeak50(in leak50Input, sec *vh.Section) {
	in.Section = "leak50"
	if (in.Mode != "rename" && in.Mode != "truncate") || len(in.Old) == 0 || len(in.New) == 0 {
		res.Note("leak50: bad input %+v", in)
		return
	}
	fail := func(kind, finding, impl, spec, what string) {
		res.SpecFail(vh.SpecFailure{Section: "leak50", Kind: kind, Finding: finding, ImplEqModel: finding != "", Input: in, Impl: impl, Spec: spec, What: what})
	}
	dir := lrsrv.NewDir()
	defer os.RemoveAll(dir)
	fn := filepath.Join(dir, "app.log")
	oldComplete, newContent := leakJoin(in.Old), leakJoin(in.New)
	if err := os.WriteFile(fn, append(append([]byte{}, oldComplete...), in.Partial...), 0644); err != nil {
		res.Note("leak50: %v", err)
		return
	}
	if in.Mode == "truncate" && len(newContent) >= len(oldComplete) {
		res.Note("leak50: truncate schedule needs new content shorter than the old offset")
		return
	}
	var clock int64
	st := newMemStorage(&clock)
	cons := newConsumer(&clock)
	sc, err := scanner.NewScanner(scanCfg(fn, "pure", 1, 1, 3600), st)
	if err != nil {
		res.Note("leak50: %v", err)
		return
	}
	ctx, cancel := context.WithCancel(context.Background())
	events := make(chan *model.Event)
	if err := sc.Run(ctx, events); err != nil {
		cancel()
		res.Note("leak50: %v", err)
		return
	}
	var wg sync.WaitGroup
	wg.Add(1)
	go func() { defer wg.Done(); cons.run(ctx, events, 0, nil, -1) }()
	stopped := false
	stop := func() {
		if stopped {
			return
		}
		stopped = true
		cancel()
		wg.Wait()
		if !vh.WithTimeout(70*time.Second, func() { sc.WaitAllJobsDone() }) {
			fail("hang", "", "WaitAllJobsDone did not return in 70 s", "returns", "the scanner does not stop")
			return
		}
		if a, b := fdsOn(fn), fdsOn(fn+".1"); a > 0 || b > 0 {
			fail("fd-leak-after-stop", "", fmt.Sprintf("descriptors left after WaitAllJobsDone: %d on app.log, %d on app.log.1", a, b), "none",
				"after cancel and WaitAllJobsDone a file of the case is still open in the process")
		}
	}
	defer stop()
	confirmedStream := func() []byte {
		var b []byte
		for _, e := range cons.ledger() {
			b = append(b, e.Payload...)
		}
		return b
	}
	waitUntil := func(d time.Duration, cond func() bool) bool {
		for t0 := time.Now(); time.Since(t0) < d; time.Sleep(50 * time.Millisecond) {
			if cond() {
				return true
			}
		}
		return cond()
	}
	control := in.Partial == ""
	res.Eval(sec, digest(in))
	res.Dist(sec, fmt.Sprintf("mode=%s pending-partial-line=%v", in.Mode, !control))
	// 1. the complete lines of the old content are confirmed (the partial one stays pending in the reader)
	if !waitUntil(5*time.Second, func() bool { return bytes.Equal(confirmedStream(), oldComplete) }) {
		res.Note("leak50 (%s): schedule not reached: the old content's complete lines were not confirmed in 5 s (confirmed %q)", in.Mode, confirmedStream())
		return
	}
	want := append(append([]byte{}, oldComplete...), newContent...)
	switch in.Mode {
	case "rename":
		if err := os.Rename(fn, fn+".1"); err != nil {
			res.Note("leak50: %v", err)
			return
		}
		if err := os.WriteFile(fn, newContent, 0644); err != nil {
			res.Note("leak50: %v", err)
			return
		}
		// 2. the new file is collected, from its beginning
		if !waitUntil(8*time.Second, func() bool { return len(confirmedStream()) >= len(want) }) || !bytes.Equal(confirmedStream(), want) {
			fail("new-file-not-collected-after-rotation", "", fmt.Sprintf("confirmed after 8 s: %s", short(confirmedStream())), short(want),
				"rename rotation: the re-created app.log was not delivered from its beginning, completely, once")
			return
		}
		if control {
			// 3c. the old worker sees EOF after the rotation was noticed and releases the file
			if !waitUntil(6*time.Second, func() bool { return fdsOn(fn+".1") == 0 }) {
				fail("worker-not-stopped-after-rotation", "", fmt.Sprintf("6 s after the new file was collected: %d descriptors on app.log.1, %d worker goroutines in readLine (process-wide)", fdsOn(fn+".1"), workersInReadLine()),
					"the old worker stops at EOF after the rotation and releases the file",
					"control schedule (the rotated file ends with a newline): the old worker still holds the rotated file")
			} else {
				res.Dist(sec, "control rename: descriptor on app.log.1 released within 6 s")
			}
			return
		}
		// 3. watch for 6 s
		released := waitUntil(6*time.Second, func() bool { return fdsOn(fn+".1") == 0 })
		n, g := fdsOn(fn+".1"), workersInReadLine()
		if released {
			res.Note("leak50 (rename): the descriptor on the rotated file was released although its last line has no newline: F50 does not reproduce")
			return
		}
		fail("worker-never-stops-on-rotated-file", "F50",
			fmt.Sprintf("after 6 s: fd to app.log.1 still open (%d descriptors), %d worker goroutines in readLine (process-wide, leak50 schedules run concurrently)", n, g),
			"the old worker stops at EOF after the rotation and releases the file",
			"the rotated file ends with a line without newline ("+fmt.Sprintf("%q", in.Partial)+"): lineReader.readLine keeps the partial line and polls every 200 ms instead of returning, so NextRecord never reports io.EOF; "+
				"the worker was told stopOnEOF at the sync that noticed the rotation but only checks that after an EOF: its goroutine and its descriptor on app.log.1 stay until the process ends (one per rotation)")
	case "truncate":
		if err := os.Truncate(fn, 0); err != nil {
			res.Note("leak50: %v", err)
			return
		}
		f, err := os.OpenFile(fn, os.O_WRONLY|os.O_APPEND, 0644)
		if err != nil {
			res.Note("leak50: %v", err)
			return
		}
		f.Write(newContent)
		f.Close()
		// 2. watch for 8 s: is the new content delivered?
		delivered := waitUntil(8*time.Second, func() bool { return len(confirmedStream()) >= len(want) })
		got := confirmedStream()
		switch {
		case delivered && bytes.Equal(got, want):
			if !control {
				res.Note("leak50 (truncate): the new content was delivered although the old worker holds a partial line: F50 does not reproduce")
			}
		case !control && bytes.Equal(got, oldComplete):
			fail("truncated-file-never-read-again", "F50",
				fmt.Sprintf("8 s after the truncation: nothing of the new content (%d bytes) delivered; %d worker goroutines in readLine (process-wide)", len(newContent), workersInReadLine()),
				"the new content is delivered from its beginning: "+short(newContent),
				"app.log is truncated in place (same file id) while the worker holds a partial last line ("+fmt.Sprintf("%q", in.Partial)+"): mergeDescs replaces the descriptor (the size shrank), the old worker is told to stop at EOF "+
					"but never reaches one because readLine does not return while a partial line is pending, and the new worker is only started once the old one has stopped: the file is never read again")
		default:
			fail("truncated-file-not-read-from-beginning", "", fmt.Sprintf("confirmed after 8 s: %s", short(got)), short(want),
				"truncate in place: the new content must be delivered from its beginning, completely, once")
		}
	}
}

var (
	leak50Mu    sync.Mutex
	leak50Queue []leak50Input // witnesses met during the corpus replay at start-up: run by sectionLeak50, alone and concurrently
)

// sectionLeak50 runs the queued corpus witnesses and the two control schedules, all at once (they do not interact:
// every observation is about the case's own temp dir; only the goroutine count in the texts is process-wide)
func sectionLeak50() {
	sec := res.Section("leak50", "system-correspondence", leak50Rule)
	leak50Mu.Lock()
	ins := append([]leak50Input{}, leak50Queue...)
	leak50Queue = nil
	leak50Mu.Unlock()
	ins = append(ins,
		leak50Input{Mode: "rename", Old: []string{"line one", "line two", "line three"}, New: []string{"NEW one", "NEW two"}},
		leak50Input{Mode: "truncate", Old: []string{"line one", "line two", "line three"}, New: []string{"NEW one", "NEW two"}})
	var wg sync.WaitGroup
	for _, in := range ins {
		wg.Add(1)
		go func(in leak50Input) { defer wg.Done(); runLeak50(in, sec) }(in)
	}
	wg.Wait()
	res.Done(sec)
}

// replayLeak50: with -replay the schedule runs at once; during the corpus replay at start-up it is queued for
// sectionLeak50 (which runs after the parallel sections, alone)
func replayLeak50(input json.RawMessage) {
	var in leak50Input
	if err := json.Unmarshal(input, &in); err != nil || in.Mode == "" {
		res.Note("leak50 replay: bad input: %v", err)
		return
	}
	if args.Replay == "" {
		leak50Mu.Lock()
		leak50Queue = append(leak50Queue, in)
		leak50Mu.Unlock()
		return
	}
	sec := res.Section("leak50", "system-correspondence", leak50Rule)
	runLeak50(in, sec)
	res.Done(sec)
}
