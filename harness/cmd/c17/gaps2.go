// C17 harness: two more deterministic schedule families of the `gaps` section (no hooks, own scanners).
//
//	emptied   a shipped file is emptied in place (truncate: same inode), a given number of syncs see it empty, then new
//	          content is written — longer or shorter than the old offset — and two more syncs run. The syncs are made by
//	          hand (export NewVerifStepScanner), the new content is written only after the old worker has stopped, so
//	          that the copytruncate limitation (finding F64: regrowth before anything noticed) stays out.
//	          SPEC: what is confirmed after the truncation is the new content, from its first byte, once.
//	failsave  the storage refuses ONE save (the first one that holds the end of the confirmed bytes), then works again; the
//	          scanner stays quiet for some ticks and is stopped gracefully. SPEC: a failed save is made up for — after the
//	          stop the storage holds the end of the confirmed bytes and a restart delivers nothing again.
package main

import (
	"bytes"
	"context"
	"encoding/json"
	"errors"
	"fmt"
	"os"
	"path/filepath"
	"sync"
	"time"

	"github.com/logrange/logrange/pkg/scanner"
	"github.com/logrange/logrange/pkg/scanner/model"
	"verifharness/internal/lrsrv"
)

// ---------------------------------------------------------------------------------------------
// emptied in place

func runGapEmptied(in gapInput) {
	dir := lrsrv.NewDir()
	defer os.RemoveAll(dir)
	fn := filepath.Join(dir, "app.log")
	W := []byte("alpha\nbeta\ngamma\n")
	newC := []byte("ONE\nTWO\nTHREE\nFOUR\nFIVE\nSIX\n") // longer than W
	if in.Short {
		newC = []byte("ONE\nTWO\n") // shorter than the old offset
	}
	os.WriteFile(fn, W, 0644)
	var clock int64
	vs, err := scanner.NewVerifStepScanner(scanCfg(fn, "pure", 1, 3600, 3600), newMemStorage(&clock))
	if err != nil {
		res.Note("gaps/emptied: %v", err)
		return
	}
	ctx, cancel := context.WithCancel(context.Background())
	events := make(chan *model.Event)
	var mu sync.Mutex
	var confirmed []byte
	var cwg sync.WaitGroup
	cwg.Add(1)
	go func() {
		defer cwg.Done()
		for {
			select {
			case <-ctx.Done():
				return
			case ev := <-events:
				var pay []byte
				for _, r := range ev.Records {
					if r != nil {
						pay = append(pay, r.Data...)
					}
				}
				if ev.Confirm() {
					mu.Lock()
					confirmed = append(confirmed, pay...)
					mu.Unlock()
				}
			}
		}
	}()
	defer func() {
		cancel()
		cwg.Wait()
		vs.Wait()
	}()
	got := func() []byte {
		mu.Lock()
		defer mu.Unlock()
		return append([]byte{}, confirmed...)
	}
	waitFor := func(d time.Duration, cond func() bool) bool {
		for t0 := time.Now(); time.Since(t0) < d; time.Sleep(20 * time.Millisecond) {
			if cond() {
				return true
			}
		}
		return cond()
	}
	vs.Sync(ctx, events)
	if !waitFor(6*time.Second, func() bool { return len(got()) >= len(W) }) || !bytes.Equal(got(), W) {
		res.Note("gaps/emptied: the file was not shipped")
		return
	}
	emptyScans := in.EmptyScans
	if in.Control {
		emptyScans = 0
	} else if err := os.Truncate(fn, 0); err != nil {
		res.Note("gaps/emptied: %v", err)
		return
	}
	for i := 0; i < emptyScans; i++ {
		vs.Sync(ctx, events)
	}
	if !in.Control {
		// the sync that saw the shrunk file told the old worker to stop at EOF; it sleeps up to 1 s. The new content is
		// written only after it has stopped (generous: 10 s), so that nothing reads on at the old position.
		oldStopped := waitFor(10*time.Second, func() bool {
			_, has, stopped := vs.Descs()
			for i := range has {
				if has[i] && !stopped[i] {
					return false
				}
			}
			return true
		})
		res.Dist(gapSec(), fmt.Sprintf("emptied: old worker stopped before the new content=%v", oldStopped))
		os.WriteFile(fn, newC, 0644) // same inode (O_TRUNC on an empty file), new content
	} else {
		f, _ := os.OpenFile(fn, os.O_APPEND|os.O_WRONLY, 0644)
		f.Write(newC)
		f.Close()
	}
	vs.Sync(ctx, events)
	waitFor(3*time.Second, func() bool { return len(got()) >= len(W)+len(newC) })
	vs.Sync(ctx, events)
	waitFor(3*time.Second, func() bool { return len(got()) >= len(W)+len(newC) })
	time.Sleep(1200 * time.Millisecond) // one more poll of every worker: anything that should not come
	after := got()[len(W):]
	if bytes.Equal(after, newC) {
		return
	}
	gapFail(in, "emptied-file-not-from-beginning", "", "", false,
		fmt.Sprintf("old content (%d bytes) confirmed; emptied in place, %d sync(s) saw it empty, new content of %d bytes written; confirmed afterwards: %s", len(W), emptyScans, len(newC), short(after)),
		fmt.Sprintf("the new content, from its first byte, once: %s", short(newC)),
		"a file replaced under the same name — emptied in place and written again after the scanner has seen it empty — is read from its beginning")
}

// ---------------------------------------------------------------------------------------------
// one failed save

// failOnceStorage refuses the first `fails` saves whose content holds `offset` for the file
type failOnceStorage struct {
	*memStorage
	mu     sync.Mutex
	offset int64
	fails  int
	failed int
}

func (f *failOnceStorage) WriteData(key string, val []byte) error {
	var ds []descJ
	json.Unmarshal(val, &ds)
	f.mu.Lock()
	for _, d := range ds {
		if d.Offset == f.offset && f.failed < f.fails {
			f.failed++
			f.mu.Unlock()
			return errors.New("injected: the storage refuses this save")
		}
	}
	f.mu.Unlock()
	return f.memStorage.WriteData(key, val)
}

func runGapFailSave(in gapInput) {
	dir := lrsrv.NewDir()
	defer os.RemoveAll(dir)
	fn := filepath.Join(dir, "app.log")
	W := []byte("line-1\nline-2\nline-3\nline-4\nline-5\n")
	os.WriteFile(fn, W, 0644)
	var clock int64
	st := &failOnceStorage{memStorage: newMemStorage(&clock), offset: int64(len(W)), fails: 1}
	if in.Control {
		st.fails = 0
	}
	cfg := scanCfg(fn, "pure", 5, 1, 1) // state saved every second
	g, err := startGapSess(cfg, st, -1)
	if err != nil {
		res.Note("gaps/failsave: %v", err)
		return
	}
	if !g.waitLen(len(W), 6*time.Second) {
		g.stop()
		res.Note("gaps/failsave: the file was not shipped")
		return
	}
	// the first save with the full offset fails; then the scanner is quiet: wait until a later tick has had its chance
	// (3.5 s = three ticks), then a graceful stop with its final save
	time.Sleep(3500 * time.Millisecond)
	st.mu.Lock()
	failed := st.failed
	st.mu.Unlock()
	g.stop()
	if !in.Control && failed == 0 {
		res.Note("gaps/failsave: no save with the full offset was attempted before the stop — schedule not reached")
		return
	}
	off, ok := st.current(fn)
	if !ok || off != int64(len(W)) {
		gapFail(in, "failed-save-never-made-up", "", "", false,
			fmt.Sprintf("%d bytes confirmed; the storage refused %d save(s) and accepted everything afterwards; after 3 more ticks and the graceful stop it holds offset %d (present=%v); %d saves reached it", len(W), failed, off, ok, st.nWrites()),
			fmt.Sprintf("offset %d = end of the confirmed bytes", len(W)),
			"a save the storage refused must be made up for by the next tick or the final save of a graceful stop: the persisted offset after a graceful stop is the end of the confirmed records")
		return
	}
	// restart on the same storage: nothing may be delivered again
	g2, err := startGapSess(cfg, st, -1)
	if err != nil {
		res.Note("gaps/failsave: %v", err)
		return
	}
	g2.waitLen(1, 2500*time.Millisecond)
	again := g2.bytes()
	g2.stop()
	if len(again) > 0 {
		gapFail(in, "failed-save-never-made-up", "", "", false, fmt.Sprintf("after the restart %s was delivered again", short(again)), "nothing", "a graceful stop and a restart do not re-send a confirmed byte")
	}
}
