// C17 harness: deterministic schedules for behaviour of the unchanged collector that breaks a clause of the property
// (open findings F60, F61, F62, F64) and their control schedules, plus one observation that is only noted (F63).
//
//	statefile  F60  the state file is truncated and re-written in place: the on-disk state a crash during a save leaves
//	                (empty, or a prefix) makes the next start re-send everything / refuse to start
//	flicker    F61  a file that is missing from ONE scan (renamed away and back) is re-sent from its beginning
//	drain      F62  a graceful stop while a rotated-out file is still being drained loses the rest of that file
//	regrow     F64  a file replaced in place whose new content outgrows the old offset before the next scan: its head
//	                is never shipped
//	samename   F63  (noted only) a rotated name that still matches the include pattern is shipped again as a new file
package main

import (
	"bytes"
	"context"
	"encoding/json"
	"fmt"
	"os"
	"path/filepath"
	"strings"
	"sync"
	"time"

	"github.com/logrange/logrange/pkg/scanner"
	"github.com/logrange/logrange/pkg/scanner/model"
	"github.com/logrange/logrange/pkg/storage"
	"verifharness/internal/lrsrv"
	"verifharness/internal/vh"
)

type gapInput struct {
	Section string `json:"section"`
	Kind    string `json:"kind"` // statefile | flicker | drain | regrow | samename
	Control bool   `json:"control,omitempty"`
	// emptied: how many syncs see the file empty before the new content is written; short: the new content is shorter
	// than the old offset
	EmptyScans int  `json:"empty_scans,omitempty"`
	Short      bool `json:"short,omitempty"`
}

// gsess is one scanner session with a consumer that confirms everything, or only the first holdAfter events
type gsess struct {
	sc     *scanner.Scanner
	cancel context.CancelFunc
	wg     sync.WaitGroup
	mu     sync.Mutex
	got    []byte   // concatenated payloads of confirmed events
	files  []string // ev.File per confirmed event
	held   int      // events received but deliberately not confirmed
}

func startGapSess(cfg *scanner.Config, st storage.Storage, holdAfter int) (*gsess, error) {
	sc, err := scanner.NewScanner(cfg, st)
	if err != nil {
		return nil, err
	}
	ctx, cancel := context.WithCancel(context.Background())
	events := make(chan *model.Event)
	if err := sc.Run(ctx, events); err != nil {
		cancel()
		return nil, err
	}
	g := &gsess{sc: sc, cancel: cancel}
	g.wg.Add(1)
	go func() {
		defer g.wg.Done()
		n := 0
		for {
			var ev *model.Event
			select {
			case <-ctx.Done():
				return
			case ev = <-events:
			}
			var pay []byte
			for _, r := range ev.Records {
				if r != nil {
					pay = append(pay, r.Data...)
				}
			}
			if holdAfter >= 0 && n >= holdAfter {
				g.mu.Lock()
				g.held++
				g.mu.Unlock()
				<-ctx.Done() // the worker waits for this confirmation; nothing else arrives from it
				return
			}
			n++
			if ev.Confirm() {
				g.mu.Lock()
				g.got = append(g.got, pay...)
				g.files = append(g.files, ev.File)
				g.mu.Unlock()
			}
		}
	}()
	return g, nil
}

func (g *gsess) bytes() []byte {
	g.mu.Lock()
	defer g.mu.Unlock()
	return append([]byte{}, g.got...)
}

func (g *gsess) waitLen(n int, d time.Duration) bool {
	for t0 := time.Now(); time.Since(t0) < d; time.Sleep(20 * time.Millisecond) {
		if len(g.bytes()) >= n {
			return true
		}
	}
	return len(g.bytes()) >= n
}

func (g *gsess) stop() {
	g.cancel()
	g.wg.Wait()
	g.sc.WaitAllJobsDone()
}

func gapCfg(pattern string, evMax int) *scanner.Config {
	c := scanCfg(pattern, "pure", evMax, 1, 3600)
	return c
}

func gapFail(in gapInput, kind, finding, model string, eq bool, impl, spec, what string) {
	res.SpecFail(vh.SpecFailure{Section: "gaps", Kind: kind, Finding: finding, ImplEqModel: eq, Model: model, Input: in, Impl: impl, Spec: spec, What: what})
}

func driverAnswer(line string) string {
	if !driverUsable() {
		return ""
	}
	a, err := vh.Batch(args.Driver, []string{line})
	if err != nil || len(a) != 1 {
		return ""
	}
	return a[0]
}

// ---------------------------------------------------------------------------------------------
// F60: the state file

func runGapStatefile(in gapInput) {
	dir := lrsrv.NewDir()
	defer os.RemoveAll(dir)
	fn := filepath.Join(dir, "app.log")
	W := []byte("first line\nsecond line\nthird line\n")
	os.WriteFile(fn, W, 0644)
	loc := filepath.Join(dir, "state")
	st, err := storage.NewStorage(&storage.Config{Type: storage.TypeFile, Location: loc})
	if err != nil {
		res.Note("gaps/statefile: %v", err)
		return
	}
	g, err := startGapSess(gapCfg(fn, 2), st, -1)
	if err != nil {
		res.Note("gaps/statefile: %v", err)
		return
	}
	ok := g.waitLen(len(W), 4*time.Second)
	g.stop()
	if !ok {
		res.Note("gaps/statefile: the file was not shipped in the first session")
		return
	}
	sf := filepath.Join(loc, scanner.VerifStorageKey)
	good, err := os.ReadFile(sf)
	if err != nil || len(good) < 10 {
		res.Note("gaps/statefile: no state file after a graceful stop: %v", err)
		return
	}
	// how does the real fileStorage.WriteData replace the file? A hard link to the current state file shares its inode:
	// a truncate-and-write in place keeps the inode (the link sees the new content), a write-aside-and-rename does not.
	link := filepath.Join(loc, "probe.link")
	if err := os.Link(sf, link); err != nil {
		res.Note("gaps/statefile: cannot hard-link the state file: %v", err)
		return
	}
	if err := st.WriteData(scanner.VerifStorageKey, good); err != nil {
		res.Note("gaps/statefile: WriteData: %v", err)
		return
	}
	a, _ := os.Stat(sf)
	b, _ := os.Stat(link)
	inPlace := a != nil && b != nil && os.SameFile(a, b)
	os.Remove(link)
	if in.Control || !inPlace {
		// the states an atomic replacement can leave are the old and the new file: both complete. Start again on the
		// complete file: nothing may be delivered again.
		g2, err := startGapSess(gapCfg(fn, 2), st, -1)
		if err != nil {
			gapFail(in, "restart-refused", "", "", true, err.Error(), "starts", "the scanner must start on a complete state file")
			return
		}
		time.Sleep(2500 * time.Millisecond)
		again := g2.bytes()
		g2.stop()
		if len(again) > 0 {
			gapFail(in, "resent-confirmed-bytes", "", "", true, short(again), "nothing", "a restart on the complete state file re-sent confirmed bytes")
		}
		if !in.Control && !inPlace {
			res.Note("gaps/statefile: WriteData replaces the state file (new inode): a crash during a save leaves a complete file — F60 does not reproduce")
		}
		return
	}
	// in place: os.WriteFile opens with O_TRUNC and then writes; a crash in between leaves the file empty, a crash (or a
	// full disk / power loss) during the write leaves a prefix.
	// cut A: empty file
	os.WriteFile(sf, nil, 0640)
	g2, err := startGapSess(gapCfg(fn, 2), st, -1)
	if err != nil {
		gapFail(in, "torn-state-file-refuses-start", "F60", "not modelled (crash cut of the state file)", true, err.Error(), "starts from the last saved offsets", "the state file is empty after the crash and the scanner refuses to start")
	} else {
		g2.waitLen(len(W), 3*time.Second)
		again := g2.bytes()
		g2.stop()
		if len(again) > 0 {
			gapFail(in, "torn-state-file-resends-everything", "F60", "not modelled (crash cut of the state file)", true,
				fmt.Sprintf("state file empty (truncated, not yet re-written) -> restart delivers %d bytes again: %s", len(again), short(again)),
				"a crash re-sends at most what was confirmed since the last periodic save",
				"fileStorage.WriteData truncates scanner.json and writes it in place (same inode observed through a hard link): a crash between the truncation and the write leaves an empty file, loadState treats it as 'no state' and every watched file is sent again from offset 0")
		}
	}
	// cut B: a prefix of the state
	os.WriteFile(sf, good[:len(good)/2], 0640)
	g3, err := startGapSess(gapCfg(fn, 2), st, -1)
	if err != nil {
		gapFail(in, "torn-state-file-refuses-start", "F60", "not modelled (crash cut of the state file)", true, err.Error(), "starts from the last saved offsets",
			"a crash during the in-place write leaves a prefix of scanner.json; Scanner.Run then fails (cannot unmarshal state) until somebody deletes the file")
	} else {
		time.Sleep(500 * time.Millisecond)
		g3.stop()
	}
}

// ---------------------------------------------------------------------------------------------
// F61 / F63: the file is missing from one scan, or comes back under another matching name

func runGapFlicker(in gapInput) {
	dir := lrsrv.NewDir()
	defer os.RemoveAll(dir)
	fn := filepath.Join(dir, "app.log")
	W := []byte("alpha\nbeta\ngamma\n")
	os.WriteFile(fn, W, 0644)
	var clock int64
	st := newMemStorage(&clock)
	pattern := fn
	if in.Kind == "samename" {
		pattern = filepath.Join(dir, "*.log")
	}
	g, err := startGapSess(gapCfg(pattern, 1), st, -1)
	if err != nil {
		res.Note("gaps/%s: %v", in.Kind, err)
		return
	}
	defer g.stop()
	if !g.waitLen(len(W), 4*time.Second) {
		res.Note("gaps/%s: the file was not shipped", in.Kind)
		return
	}
	switch {
	case in.Control:
	case in.Kind == "samename":
		os.Rename(fn, filepath.Join(dir, "app.1.log"))
	default:
		away := filepath.Join(dir, "app.away")
		os.Rename(fn, away)
		time.Sleep(2300 * time.Millisecond) // at least two scans do not find the file
		os.Rename(away, fn)
	}
	g.waitLen(2*len(W), 4*time.Second)
	got := g.bytes()
	extra := got[len(W):]
	if len(extra) == 0 {
		if !in.Control {
			res.Note("gaps/%s: nothing was delivered again — does not reproduce", in.Kind)
		}
		return
	}
	if in.Kind == "samename" && !in.Control {
		res.Note("gaps/samename (F63, noted only): after app.log was renamed to app.1.log (still matching *.log) its %d bytes were delivered again as a new file — the file id contains the md5 of the path", len(extra))
		return
	}
	if in.Kind == "flicker" && !in.Control {
		// since fix b5388a7 a file ONE scan does not find keeps its offset (exact schedule: section flicker); this timed
		// schedule keeps the file away for at least two scans: it is gone, what comes back is read as a new file
		res.Note("gaps/flicker (noted only): the file was away for at least two scans and came back: %d bytes delivered again — forgotten after two missed scans, by design", len(extra))
		return
	}
	model := driverAnswer(fmt.Sprintf("merge 0 1 6964 0 %d -", len(W)))
	eq := model == "" || strings.Contains(model, ":0:")
	finding := ""
	if !in.Control && eq && bytes.HasPrefix(W, extra) {
		finding = "F61"
	}
	gapFail(in, "file-missing-from-one-scan-resent", finding, model, eq,
		fmt.Sprintf("confirmed %d bytes = the file, then after the file was away for two scans and came back: %s again", len(W), short(extra)),
		"every byte once", "mergeDescs builds its result from the ids of the new scan only: a file that one scan does not find (renamed away and back, or a failing os.Stat) loses its descriptor and offset; the next scan adds it with offset 0 and the whole file is sent again")
}

// ---------------------------------------------------------------------------------------------
// F62: stop while a rotated-out file is still being drained

func runGapDrain(in gapInput) {
	dir := lrsrv.NewDir()
	defer os.RemoveAll(dir)
	fn := filepath.Join(dir, "app.log")
	W := []byte("one\ntwo\nthree\n")
	os.WriteFile(fn, W, 0644)
	var clock int64
	st := newMemStorage(&clock)
	// the consumer confirms the first event and then holds the second: the worker of app.log has two lines left
	g, err := startGapSess(gapCfg(fn, 1), st, 1)
	if err != nil {
		res.Note("gaps/drain: %v", err)
		return
	}
	if !g.waitLen(4, 4*time.Second) {
		g.stop()
		res.Note("gaps/drain: the first line was not shipped")
		return
	}
	newContent := []byte("NEW\n")
	if !in.Control {
		os.Rename(fn, fn+".1")
		os.WriteFile(fn, newContent, 0644)
	}
	time.Sleep(2300 * time.Millisecond) // the scanner notices the rotation
	g.stop()                            // graceful stop while "two", "three" of the old file are not shipped yet
	persisted := ""
	if d, err := st.ReadData(scanner.VerifStorageKey); err == nil {
		persisted = string(d)
	}
	g2, err := startGapSess(gapCfg(fn, 1), st, -1)
	if err != nil {
		res.Note("gaps/drain: restart: %v", err)
		return
	}
	want := len(W) - 4
	if !in.Control {
		want += len(newContent)
	}
	g2.waitLen(want, 5*time.Second)
	got := g2.bytes()
	g2.stop()
	rest := W[4:]
	if bytes.Contains(got, rest) {
		return
	}
	finding := ""
	if !in.Control {
		finding = "F62"
	}
	gapFail(in, "rotated-file-tail-lost-on-stop", finding, "not modelled (which descriptors the persisted state keeps)", true,
		fmt.Sprintf("after the restart only %s arrives; %s of the rotated-out file is never delivered; persisted state at the stop: %s", short(got), short(rest), persisted),
		"a graceful stop at any moment and a restart skip no byte (rotation at any time)",
		"the sync that notices the rotation replaces the descriptor set by the new scan: the rotated-out file's descriptor (and offset) leaves the persisted state while its worker is still draining it; a stop before that worker reached EOF loses the rest — the restart knows nothing about the old file")
}

// ---------------------------------------------------------------------------------------------
// F64: replaced in place and regrown past the old offset before the next scan

func runGapRegrow(in gapInput) {
	dir := lrsrv.NewDir()
	defer os.RemoveAll(dir)
	fn := filepath.Join(dir, "app.log")
	W := []byte("old line one\nold line two\n")
	os.WriteFile(fn, W, 0644)
	var clock int64
	st := newMemStorage(&clock)
	g, err := startGapSess(gapCfg(fn, 1), st, -1)
	if err != nil {
		res.Note("gaps/regrow: %v", err)
		return
	}
	defer g.stop()
	if !g.waitLen(len(W), 4*time.Second) {
		res.Note("gaps/regrow: the file was not shipped")
		return
	}
	N := []byte("NEW LINE ONE\nNEW LINE TWO\nNEW LINE THREE\nNEW LINE FOUR\n")
	if in.Control {
		N = []byte("NEW LINE\n") // shorter than the old offset: the scan sees the shrink
	}
	f, err := os.OpenFile(fn, os.O_WRONLY, 0644)
	if err != nil {
		res.Note("gaps/regrow: %v", err)
		return
	}
	f.Truncate(0)
	f.WriteAt(N, 0)
	f.Close()
	g.waitLen(len(W)+len(N), 5*time.Second)
	got := g.bytes()[len(W):]
	if bytes.Equal(got, N) {
		return
	}
	model := driverAnswer(fmt.Sprintf("merge 1 6964 %d %d 1 6964 0 %d %d", len(W), len(W), len(N), len(N)))
	eq := model == "" || strings.HasSuffix(model, ":1")
	finding := ""
	if !in.Control && eq && len(N) >= len(W) && len(got) < len(N) && bytes.HasSuffix(N, got) { // a proper suffix of the new content arrived
		finding = "F64"
	}
	gapFail(in, "replaced-file-head-never-shipped", finding, model, eq,
		fmt.Sprintf("the file (%d bytes, all shipped) was truncated and re-written in place with %d new bytes before the next scan; delivered of the new content: %s", len(W), len(N), short(got)),
		"a file replaced under the same name is read from its beginning: "+short(N),
		"same path and inode, new size >= old offset and >= the size seen last: mergeDescs keeps the old descriptor, the worker goes on reading at the old offset — the first bytes of the new content are never shipped (and the first record starts in the middle of a line)")
}

// ---------------------------------------------------------------------------------------------

var (
	gapMu    sync.Mutex
	gapQueue []gapInput
)

// the section the schedules report their distribution to (nil in a replay)
var gapsSection *vh.Section

func gapSec() *vh.Section {
	if gapsSection == nil {
		gapsSection = res.Section("gaps", "replay", "replay of one recorded schedule")
	}
	return gapsSection
}

func runGap(in gapInput) {
	in.Section = "gaps"
	switch in.Kind {
	case "statefile":
		runGapStatefile(in)
	case "flicker", "samename":
		runGapFlicker(in)
	case "drain":
		runGapDrain(in)
	case "regrow":
		runGapRegrow(in)
	case "emptied":
		runGapEmptied(in)
	case "failsave":
		runGapFailSave(in)
	default:
		res.Note("gaps: unknown kind %q", in.Kind)
	}
}

const gapsRule = "deterministic schedules on the real scanner.Scanner (sync every second, consumer confirming everything unless said otherwise): " +
	"statefile — real file storage; after a graceful stop the way WriteData replaces scanner.json is observed through a hard link (same inode = truncated and re-written in place); " +
	"if in place, the two on-disk states a crash during a save passes through (empty file, a prefix) are installed and the scanner is started again: nothing confirmed may be delivered again and it must start; " +
	"flicker — the shipped file is renamed away for two scans and back: nothing may be delivered again; drain — the consumer holds the second of three one-line events, the file is renamed away and re-created, " +
	"two scans later a graceful stop and a restart with a confirming consumer: the two remaining lines of the rotated-out file must still arrive; regrow — the shipped file is truncated and re-written in place " +
	"with more bytes than the old offset before the next scan: the new content must arrive from its first byte. Each with its control schedule (complete state file; no rename; no rotation; new content shorter than the old offset). " +
	"emptied — a shipped file is truncated in place, 1 or 2 hand-made syncs (export NewVerifStepScanner) see it empty, after the old worker has stopped new content (longer / shorter than the old offset) is written, two more syncs: what is confirmed after the truncation must be the new content from its first byte, once; failsave — state saved every second, the storage refuses the first save that holds the end of the confirmed bytes and works again, three quiet ticks, graceful stop: the storage must hold the end of the confirmed bytes, a restart delivers nothing. " +
	"samename (a rotated name that still matches *.log) is only noted. The witnesses of the open findings come from the corpus. non-trivial = every schedule"

func sectionGaps() {
	sec := res.Section("gaps", "system-correspondence", gapsRule)
	gapsSection = sec
	gapMu.Lock()
	ins := append([]gapInput{}, gapQueue...)
	gapQueue = nil
	gapMu.Unlock()
	for _, k := range []string{"statefile", "flicker", "drain", "regrow"} {
		ins = append(ins, gapInput{Kind: k, Control: true})
	}
	ins = append(ins, gapInput{Kind: "samename"})
	ins = append(ins, gapInput{Kind: "emptied", EmptyScans: 1}, gapInput{Kind: "emptied", EmptyScans: 1, Short: true},
		gapInput{Kind: "emptied", EmptyScans: 2}, gapInput{Kind: "emptied", Control: true},
		gapInput{Kind: "failsave"}, gapInput{Kind: "failsave", Control: true})
	var wg sync.WaitGroup
	for _, in := range ins {
		wg.Add(1)
		go func(in gapInput) {
			defer wg.Done()
			runGap(in)
			res.Eval(sec, digest(in))
			res.Dist(sec, fmt.Sprintf("%s control=%v", in.Kind, in.Control))
		}(in)
	}
	wg.Wait()
	res.Done(sec)
}

func replayGaps(input json.RawMessage) {
	var in gapInput
	if err := json.Unmarshal(input, &in); err != nil || in.Kind == "" {
		res.Note("gaps replay: bad input: %v", err)
		return
	}
	if args.Replay == "" { // corpus replay at start-up: run with the section, after the parallel ones
		gapMu.Lock()
		gapQueue = append(gapQueue, in)
		gapMu.Unlock()
		return
	}
	sec := res.Section("gaps", "replay", "replay of one recorded schedule")
	gapsSection = sec
	runGap(in)
	res.Eval(sec, digest(in))
}
