// C17 harness: the watched name is replaced between scanPaths' stat and the open of the worker the same sync starts
// (finding F-C17-901, FIXED by /repo 5ccf34b: newWorkerConfig identifies the file again after the parser has opened it and refuses a
// replaced one; the schedule stays as a regression case, a recurrence is tagged with the id). Scanner.sync stats the path (id = inode A), then mergeDescs / syncWorkers create the descriptor
// for A and runWorker opens the PATH: if the file was rotated in between, the worker "of A" reads the NEW file (inode
// B) from offset 0; the next sync finds B as an unknown id and starts a second worker on it, again from 0.
// Deterministic through the hook scanner.sync.afterScanPaths (parks the sync between the stat and the merge).
package main

import (
	"bytes"
	"context"
	"encoding/json"
	"fmt"
	"os"
	"path/filepath"
	"sync/atomic"
	"time"

	"github.com/logrange/logrange/pkg/scanner"
	"github.com/logrange/logrange/pkg/scanner/model"
	"github.com/logrange/logrange/pkg/utils/verifhook"
	"verifharness/internal/lrsrv"
	"verifharness/internal/vh"
)

type staleOpenInput struct {
	Section string   `json:"section"`
	Old     []string `json:"old"`  // lines of the file the first scan sees
	New     []string `json:"new"`  // lines of the file that replaces it (rename away + create)
	Park    bool     `json:"park"` // true: the replacement falls between the scan's stat and the worker's open; false: after the sync
}

const staleOpenRule = "deterministic parked schedule (hook scanner.sync.afterScanPaths between scanPaths and mergeDescs): the first sync of a scanner has stat'ed app.log (lower-case lines) and is parked; " +
	"the file is renamed away and a new app.log (upper-case lines) is created; the sync is released; the consumer confirms everything (until the new file has arrived, then 4 s more — two further syncs — or until a second copy has arrived). SPEC: every byte of the file under the name is delivered once — the new " +
	"file's lines exactly once, from its first line. Control: the same replacement after the first sync has completed (old lines once, then new lines once). non-trivial = every case"

func runStaleOpen(in staleOpenInput, sec *vh.Section) {
	in.Section = "staleopen"
	if !verifhook.Enabled {
		res.Note("staleopen: hooks are not compiled in (build tag verif missing)")
		return
	}
	dir := lrsrv.NewDir()
	defer os.RemoveAll(dir)
	fn := filepath.Join(dir, "app.log")
	wOld, wNew := joinLines(in.Old), joinLines(in.New)
	if err := os.WriteFile(fn, wOld, 0644); err != nil {
		res.Note("staleopen: %v", err)
		return
	}
	var clock int64
	st := newMemStorage(&clock)
	sc, err := scanner.NewScanner(scanCfg(fn, "pure", 1, 1, 3600), st)
	if err != nil {
		res.Note("staleopen: %v", err)
		return
	}
	arrived, gate := make(chan struct{}), make(chan struct{})
	var fired int32
	release := func() {
		if atomic.SwapInt32(&fired, 2) != 2 {
			close(gate)
		}
	}
	if in.Park {
		verifhook.Set("scanner.sync.afterScanPaths", func() {
			if atomic.CompareAndSwapInt32(&fired, 0, 1) {
				close(arrived)
				<-gate
			}
		})
	}
	ctx, cancel := context.WithCancel(context.Background())
	events := make(chan *model.Event)
	runErr := make(chan error, 1)
	go func() { runErr <- sc.Run(ctx, events) }() // the first sync runs inside Run
	defer func() {
		release()
		cancel()
		sc.WaitAllJobsDone()
		verifhook.Reset()
	}()
	rotate := func() bool {
		if err := os.Rename(fn, fn+".1"); err != nil {
			res.Note("staleopen: %v", err)
			return false
		}
		if err := os.WriteFile(fn, wNew, 0644); err != nil {
			res.Note("staleopen: %v", err)
			return false
		}
		return true
	}
	if in.Park {
		select {
		case <-arrived: // scanPaths has stat'ed the old file; mergeDescs / runWorker have not run yet
		case <-time.After(10 * time.Second):
			res.Note("staleopen: the first sync did not reach the hook")
			return
		}
		if !rotate() {
			return
		}
		release()
	}
	select {
	case err := <-runErr:
		if err != nil {
			res.Note("staleopen: %v", err)
			return
		}
	case <-time.After(10 * time.Second):
		res.Note("staleopen: Scanner.Run did not return")
		return
	}
	var confirmed []byte
	take := func(d time.Duration, until func() bool) {
		deadline := time.After(d)
		for !until() {
			select {
			case ev := <-events:
				var pay []byte
				for _, r := range ev.Records {
					if r != nil {
						pay = append(pay, r.Data...)
					}
				}
				if ev.Confirm() {
					confirmed = append(confirmed, pay...)
				}
			case <-deadline:
				return
			}
		}
	}
	if !in.Park {
		take(5*time.Second, func() bool { return len(confirmed) >= len(wOld) })
		if !rotate() {
			return
		}
	}
	// two more syncs (1 s apart), the old worker's stop at EOF (up to ~2 s), the new worker's start: normally within 3 s.
	// Wait (at most 10 s, the machine may be loaded) until the new file has been confirmed once, then watch for anything
	// that should not come.
	base := len(confirmed)
	take(10*time.Second, func() bool { return len(confirmed)-base >= len(wNew) })
	if in.Park {
		// the defect (before fix 5ccf34b) delivers the new file a second time after the next sync: watch two more syncs,
		// generously (4 s); leave at once when the second copy is there
		take(4*time.Second, func() bool { return len(confirmed)-base >= 2*len(wNew) })
	} else {
		take(1500*time.Millisecond, func() bool { return false })
	}
	res.Eval(sec, digest(in))
	res.Dist(sec, fmt.Sprintf("park=%v", in.Park))
	var lower, upper []byte
	for _, l := range bytes.SplitAfter(confirmed, []byte("\n")) {
		if len(l) == 0 {
			continue
		}
		if l[0] >= 'a' && l[0] <= 'z' {
			lower = append(lower, l...)
		} else {
			upper = append(upper, l...)
		}
	}
	newTimes := 0
	if len(wNew) > 0 {
		for rest := upper; bytes.HasPrefix(rest, wNew); rest = rest[len(wNew):] {
			newTimes++
		}
	}
	okNew := bytes.Equal(upper, wNew)
	okOld := in.Park || bytes.Equal(lower, wOld) // parked: the old file left the name before any worker opened it (not judged)
	if okNew && okOld {
		if in.Park {
			res.Note("staleopen: parked schedule reached, the new file was delivered once (expected since fix 5ccf34b: the open of the first sync is refused, the next sync starts one worker) — F-C17-901 does not reproduce")
		}
		return
	}
	// MODEL: Props.C17Sync.cex_replaced_between_scan_and_open — two workers end up on the new inode, both from offset 0
	twice := in.Park && newTimes == 2 && len(upper) == 2*len(wNew) && len(lower) == 0
	finding := ""
	if twice {
		finding = "F-C17-901"
	}
	res.SpecFail(vh.SpecFailure{Section: "staleopen", Kind: "replaced-between-scan-and-open-shipped-twice", Input: in, Finding: finding, ImplEqModel: twice,
		Model: "Logrange.Props.C17Sync.cex_replaced_between_scan_and_open: descs=[(key 1, opened 1, from 0)] retired=[(key 0, opened 1, from 0)]",
		Impl:  fmt.Sprintf("old-file bytes confirmed: %s; new-file bytes confirmed: %s (the new file %d time(s))", short(lower), short(upper), newTimes),
		Spec:  fmt.Sprintf("the new file's %d bytes once: %s", len(wNew), short(wNew)),
		What:  "the name was replaced between scanPaths' stat and the open of the worker that sync starts: the descriptor of the old inode gets a worker that opens the path — the new file — from offset 0; the next sync adds the new inode as an unknown id and a second worker ships the new file again"})
}

func sectionStaleOpen() {
	sec := res.Section("staleopen", "system-correspondence", staleOpenRule)
	runStaleOpen(staleOpenInput{Old: []string{"alpha", "beta"}, New: []string{"GAMMA", "DELTA", "EPSILON"}, Park: false}, sec)
	res.Done(sec)
}

func replayStaleOpen(input json.RawMessage) {
	var in staleOpenInput
	if err := json.Unmarshal(input, &in); err != nil {
		res.Fatal(args.Out, "replay staleopen: %v", err)
	}
	sec := res.Section("staleopen", "system-correspondence", staleOpenRule)
	runStaleOpen(in, sec)
}
