// C17 harness: deterministic parked schedule for finding F17b (fixed by f247e22; kept as a regression case that must
// pass; a recurrence is tagged F17b) — Scanner.sync compared the worker's *live* offset with
// a file size that scanPaths read *earlier*. Before the fix, if the file grows and the new lines are shipped and confirmed between
// the two reads, mergeDescs sees offset > size, takes the scanned descriptor (offset 0), the old worker is told to
// stop at EOF and a new worker sends the whole file again — without any stop, crash or rotation.
package main

import (
	"bytes"
	"context"
	"encoding/json"
	"fmt"
	"os"
	"path/filepath"
	"strings"
	"sync/atomic"
	"time"

	"github.com/logrange/logrange/pkg/scanner"
	"github.com/logrange/logrange/pkg/scanner/model"
	"github.com/logrange/logrange/pkg/utils/verifhook"
	"verifharness/internal/lrsrv"
	"verifharness/internal/vh"
)

type stale41Input struct {
	Section string   `json:"section"`
	First   []string `json:"first"`  // lines present (and shipped) before the parked sync
	Second  []string `json:"second"` // lines appended, shipped and confirmed while sync is parked after scanPaths
	Park    bool     `json:"park"`
}

func joinLines(ls []string) []byte {
	var b []byte
	for _, l := range ls {
		b = append(b, l...)
		b = append(b, '\n')
	}
	return b
}

func runStale41(in stale41Input, sec *vh.Section) {
	in.Section = "stale41"
	if !verifhook.Enabled {
		res.Note("stale41: hooks are not compiled in (build tag verif missing)")
		return
	}
	dir := lrsrv.NewDir()
	defer os.RemoveAll(dir)
	fn := filepath.Join(dir, "app.log")
	w1, w2 := joinLines(in.First), joinLines(in.Second)
	if err := os.WriteFile(fn, w1, 0644); err != nil {
		res.Note("stale41: %v", err)
		return
	}
	var clock int64
	st := newMemStorage(&clock)
	sc, err := scanner.NewScanner(scanCfg(fn, "pure", 1, 1, 3600), st)
	if err != nil {
		res.Note("stale41: %v", err)
		return
	}
	ctx, cancel := context.WithCancel(context.Background())
	events := make(chan *model.Event)
	if err := sc.Run(ctx, events); err != nil {
		cancel()
		res.Note("stale41: %v", err)
		return
	}
	defer func() {
		cancel()
		sc.WaitAllJobsDone()
		verifhook.Reset()
	}()
	var confirmed []byte
	// take confirms events until `want` bytes are confirmed or the deadline passes
	take := func(want int, d time.Duration) {
		deadline := time.After(d)
		for len(confirmed) < want {
			select {
			case ev := <-events:
				var pay []byte
				for _, r := range ev.Records {
					if r != nil {
						pay = append(pay, r.Data...)
					}
				}
				if ev.Confirm() {
					confirmed = append(confirmed, pay...)
				}
			case <-deadline:
				return
			}
		}
	}
	take(len(w1), 4*time.Second)
	if !bytes.Equal(confirmed, w1) {
		res.Note("stale41: the first lines were not shipped in time (%d of %d bytes)", len(confirmed), len(w1))
		return
	}
	arrived, gate := make(chan struct{}), make(chan struct{})
	var fired int32
	if in.Park {
		verifhook.Set("scanner.sync.afterScanPaths", func() {
			if atomic.CompareAndSwapInt32(&fired, 0, 1) {
				close(arrived)
				<-gate
			}
		})
		select {
		case <-arrived: // a periodic sync has stat'ed the file (size = len(w1)) and is parked before mergeDescs
		case <-time.After(4 * time.Second):
			atomic.StoreInt32(&fired, 1)
			close(gate)
			res.Note("stale41: no periodic sync reached the hook")
			return
		}
	}
	f, err := os.OpenFile(fn, os.O_APPEND|os.O_WRONLY, 0644)
	if err != nil {
		res.Note("stale41: %v", err)
		return
	}
	f.Write(w2)
	f.Close()
	take(len(w1)+len(w2), 5*time.Second) // the worker wakes from its 1 s sleep, ships the new lines, they are confirmed
	shipped := len(confirmed) == len(w1)+len(w2)
	if in.Park {
		atomic.StoreInt32(&fired, 1)
		close(gate) // mergeDescs now compares offset len(w1)+len(w2) with the size len(w1) read before
	}
	if !shipped {
		res.Note("stale41: the appended lines were not shipped while the sync was parked (%d of %d bytes)", len(confirmed), len(w1)+len(w2))
		return
	}
	// the file does not change any more: nothing further may arrive. Watch for 5 s (stop-on-EOF of the old worker takes
	// up to ~2 s, the next sync that starts the new worker ~1 s more).
	before := len(confirmed)
	take(2*(len(w1)+len(w2))+1, 5*time.Second)
	resent := confirmed[before:]
	W := append(append([]byte{}, w1...), w2...)
	res.Eval(sec, digest(in))
	res.Dist(sec, fmt.Sprintf("park=%v", in.Park))
	if len(resent) == 0 {
		if in.Park {
			res.Note("stale41: parked schedule reached but nothing was re-sent — F17b does not reproduce")
		}
		return
	}
	// MODEL: mergeDescs on (old: offset = all bytes, size = first part) and (new: offset 0, size = first part)
	model, eq := "", true
	if driverUsable() {
		// the second stat (fix f247e22) would find the whole file
		a, err := vh.Batch(args.Driver, []string{fmt.Sprintf("merge 1 6964 %d %d 1 6964 0 %d %d", len(W), len(w1), len(w1), len(W))})
		if err == nil && len(a) == 1 {
			model = a[0]
			eq = strings.HasSuffix(model, fmt.Sprintf(":0:%d:0", len(w1))) // the model also takes the scanned descriptor, offset 0
		}
	}
	f41 := ""
	if in.Park && eq && bytes.HasPrefix(W, resent) {
		f41 = "F17b"
	}
	res.SpecFail(vh.SpecFailure{Section: "stale41", Kind: "file-resent-from-beginning", Input: in, Finding: f41, ImplEqModel: eq, Model: model,
		Impl: fmt.Sprintf("confirmed %d bytes = the file, then %d more bytes starting again with %s", before, len(resent), short(resent)),
		Spec: "every byte once: nothing more after the file was shipped completely",
		What: "a periodic sync stat'ed the file, the file grew and the new lines were shipped and confirmed, then mergeDescs compared the live offset with the stale size: offset > size => descriptor replaced (offset 0), old worker stopped at EOF, a new worker sends the whole file again"})
}

func sectionStale41() {
	sec := res.Section("stale41", "system-correspondence",
		"deterministic parked schedule (hook scanner.sync.afterScanPaths between scanPaths and mergeDescs): the file is shipped, a periodic sync is parked after it read the size, lines are appended, shipped and confirmed, the sync is released; SPEC: nothing may be delivered again. Plus the control schedule without parking. non-trivial = every case")
	runStale41(stale41Input{First: []string{"alpha", "beta", "gamma"}, Second: []string{"delta", "epsilon"}, Park: false}, sec)
	res.Done(sec)
}

func replayStale41(input json.RawMessage) {
	var in stale41Input
	if err := json.Unmarshal(input, &in); err != nil {
		res.Fatal(args.Out, "replay stale41: %v", err)
	}
	sec := res.Section("stale41", "system-correspondence", "deterministic parked schedule for F17b (stale size in Scanner.sync)")
	runStale41(in, sec)
}
