// C17 harness, system part: the real scanner.Scanner on real files, observed the way client/collector observes it
// (an events channel, payload copied before Confirm), state kept in a per-case in-memory storage.Storage that logs
// every WriteData.
package main

import (
	"bytes"
	"context"
	"crypto/sha1"
	"encoding/hex"
	"encoding/json"
	"fmt"
	"os"
	"path/filepath"
	"reflect"
	"sync"
	"sync/atomic"
	"syscall"
	"time"

	"github.com/logrange/logrange/pkg/scanner"
	"github.com/logrange/logrange/pkg/scanner/model"
	"github.com/logrange/logrange/pkg/scanner/parser"
	"github.com/logrange/logrange/pkg/utils/verifhook"
	"verifharness/internal/lrsrv"
	"verifharness/internal/vh"
)

const recLimit = 64 // RecordMaxSizeBytes used everywhere (the minimum Config.Check allows)

// ---------------------------------------------------------------------------------------------
// storage: per-case, in memory, logs every write

type descJ struct {
	Id           string
	File         string
	Offset       int64
	LastSeenSize int64
}

type persistedWrite struct {
	Seq     int64 // case-wide sequence number (same counter the consumer draws from)
	At      time.Time
	Session int
	Descs   []descJ
}

func (w persistedWrite) offsetOf(file string) (int64, bool) {
	for _, d := range w.Descs {
		if d.File == file {
			return d.Offset, true
		}
	}
	return 0, false
}

type memStorage struct {
	mu      sync.Mutex
	clock   *int64
	data    []byte // nil = nothing stored
	dataIdx int    // index in writes of the write that produced data; -1 = none
	writes  []persistedWrite
	session int
}

func newMemStorage(clock *int64) *memStorage { return &memStorage{clock: clock, dataIdx: -1} }

func (m *memStorage) ReadData(key string) ([]byte, error) {
	m.mu.Lock()
	defer m.mu.Unlock()
	if key != scanner.VerifStorageKey || m.data == nil {
		return nil, os.ErrNotExist
	}
	return append([]byte{}, m.data...), nil
}

func (m *memStorage) WriteData(key string, val []byte) error {
	m.mu.Lock()
	defer m.mu.Unlock()
	if key != scanner.VerifStorageKey {
		return nil
	}
	w := persistedWrite{Seq: atomic.AddInt64(m.clock, 1), At: time.Now(), Session: m.session}
	json.Unmarshal(val, &w.Descs)
	m.writes = append(m.writes, w)
	m.data = append([]byte{}, val...)
	m.dataIdx = len(m.writes) - 1
	return nil
}

func (m *memStorage) setSession(s int) { m.mu.Lock(); m.session = s; m.mu.Unlock() }

func (m *memStorage) snapshot() ([]byte, int) {
	m.mu.Lock()
	defer m.mu.Unlock()
	if m.data == nil {
		return nil, m.dataIdx
	}
	return append([]byte{}, m.data...), m.dataIdx
}

func (m *memStorage) restore(data []byte, idx int) {
	m.mu.Lock()
	m.data, m.dataIdx = data, idx
	m.mu.Unlock()
}

func (m *memStorage) nWrites() int { m.mu.Lock(); defer m.mu.Unlock(); return len(m.writes) }

// current gives the offset stored for file in the current content (0,false: nothing stored for it)
func (m *memStorage) current(file string) (int64, bool) {
	m.mu.Lock()
	defer m.mu.Unlock()
	if m.data == nil {
		return 0, false
	}
	var ds []descJ
	json.Unmarshal(m.data, &ds)
	for _, d := range ds {
		if d.File == file {
			return d.Offset, true
		}
	}
	return 0, false
}

func (m *memStorage) allWrites() []persistedWrite {
	m.mu.Lock()
	defer m.mu.Unlock()
	return append([]persistedWrite{}, m.writes...)
}

// ---------------------------------------------------------------------------------------------
// consumer: what client/collector does with the events channel, plus a ledger

type confEvent struct {
	Session int
	SeqCall int64     // drawn before Confirm() was called
	TRet    time.Time // when Confirm() had returned true
	Payload []byte    // concatenation of the record payloads, copied before Confirm
	RecLens []int
	Src     uintptr // identity of the worker the event came from (its confirmation channel); 0 = unknown
}

// eventSource identifies the worker an event came from: every worker has its own confirmation channel, which the
// event carries in an unexported field until Confirm() is called. 0 when the field is not found (then the streams
// of two workers on the same path can only be told apart by their content).
func eventSource(ev *model.Event) (src uintptr) {
	defer func() { recover() }()
	v := reflect.ValueOf(ev).Elem()
	for i := 0; i < v.NumField(); i++ {
		if f := v.Field(i); f.Kind() == reflect.Chan {
			return f.Pointer()
		}
	}
	return 0
}

type consumer struct {
	mu        sync.Mutex
	clock     *int64
	frozen    bool // no Confirm() is called any more (and none is in flight once the flag is set under mu)
	confirmed []confEvent
	confBytes int64 // sum of confirmed payload lengths (all sessions)
	received  int   // events received in the current session
	shapeErr  string
	batches   map[int]int // records per event -> count
}

func newConsumer(clock *int64) *consumer { return &consumer{clock: clock, batches: map[int]int{}} }

func (c *consumer) freeze()   { c.mu.Lock(); c.frozen = true; c.mu.Unlock() }
func (c *consumer) unfreeze() { c.mu.Lock(); c.frozen = false; c.received = 0; c.mu.Unlock() }
func (c *consumer) bytesConfirmed() int64 {
	c.mu.Lock()
	defer c.mu.Unlock()
	return c.confBytes
}
func (c *consumer) ledger() []confEvent {
	c.mu.Lock()
	defer c.mu.Unlock()
	return append([]confEvent{}, c.confirmed...)
}

func sleepCtx(ctx context.Context, d time.Duration) {
	if d <= 0 {
		return
	}
	select {
	case <-ctx.Done():
	case <-time.After(d):
	}
}

// run consumes events until ctx is done. delays[i%len] ms before the i-th Confirm; from the withholdAt-th event of the
// session on (if >= 0) nothing is confirmed any more.
func (c *consumer) run(ctx context.Context, events <-chan *model.Event, session int, delays []int, withholdAt int) {
	for i := 0; ; i++ {
		var ev *model.Event
		select {
		case <-ctx.Done():
			return
		case ev = <-events:
		}
		if ev == nil {
			c.noteShape("nil event received")
			continue
		}
		var pay []byte
		var lens []int
		for _, r := range ev.Records {
			if r == nil {
				c.noteShape("nil record in a freshly received event")
				continue
			}
			d := r.Data
			if len(d) == 0 {
				c.noteShape("empty record")
			} else if d[len(d)-1] != '\n' && len(d) < recLimit {
				c.noteShape(fmt.Sprintf("record of %d bytes (< %d) does not end in a newline: %q", len(d), recLimit, d))
			}
			pay = append(pay, d...)
			lens = append(lens, len(d))
		}
		c.mu.Lock()
		c.received++
		c.batches[len(ev.Records)]++
		c.mu.Unlock()
		if len(delays) > 0 {
			sleepCtx(ctx, time.Duration(delays[i%len(delays)])*time.Millisecond)
		}
		if withholdAt >= 0 && i >= withholdAt {
			<-ctx.Done() // the worker waits for this confirmation: nothing else will arrive from it
			return
		}
		c.mu.Lock()
		if c.frozen {
			c.mu.Unlock()
			<-ctx.Done()
			return
		}
		seq := atomic.AddInt64(c.clock, 1)
		src := eventSource(ev)
		if ev.Confirm() {
			c.confirmed = append(c.confirmed, confEvent{Session: session, SeqCall: seq, TRet: time.Now(), Payload: pay, RecLens: lens, Src: src})
			c.confBytes += int64(len(pay))
		}
		c.mu.Unlock()
	}
}

func (c *consumer) noteShape(s string) {
	c.mu.Lock()
	if c.shapeErr == "" {
		c.shapeErr = s
	}
	c.mu.Unlock()
}

// ---------------------------------------------------------------------------------------------
// scanner set-up

func scanCfg(fn string, format string, evMax, syncSec, storeSec int) *scanner.Config {
	cfg := scanner.NewDefaultConfig()
	cfg.IncludePaths = []string{fn}
	cfg.SyncWorkersIntervalSec = syncSec
	cfg.StateStoreIntervalSec = storeSec
	cfg.RecordMaxSizeBytes = recLimit
	cfg.EventMaxRecords = evMax
	df := parser.FmtPure
	if format == "text" {
		df = parser.FmtText
	}
	cfg.Schemas = []*scanner.SchemaConfig{{PathMatcher: "/*(?:.+/)*(?P<file>.+\\..+)", DataFormat: df,
		Meta: scanner.Meta{Tags: map[string]string{"file": "{file}"}}}}
	return cfg
}

func unhex(s string) []byte {
	b, err := hex.DecodeString(s)
	if err != nil {
		return nil
	}
	return b
}

func digest(v interface{}) string {
	b, _ := json.Marshal(v)
	h := sha1.Sum(b)
	return hex.EncodeToString(h[:8])
}

func inode(path string) uint64 {
	fi, err := os.Stat(path)
	if err != nil {
		return 0
	}
	if st, ok := fi.Sys().(*syscall.Stat_t); ok {
		return st.Ino
	}
	return 0
}

func short(b []byte) string {
	if len(b) > 96 {
		return fmt.Sprintf("%q…(%d bytes)", b[:96], len(b))
	}
	return fmt.Sprintf("%q", b)
}

// ---------------------------------------------------------------------------------------------
// section "scanner": scripts

type piece struct {
	WaitMs int    `json:"waitMs"` // pause before the write
	Hex    string `json:"hex"`    // bytes appended by one write(2)
}

type sessionScript struct {
	StartDelayMs int     `json:"startDelayMs"` // between Scanner.Run and the first write
	Pieces       []piece `json:"pieces"`
	StopAfterMs  int     `json:"stopAfterMs"` // between the last write and the stop (last session: drain instead)
	Stop         string  `json:"stop"`        // graceful | crash
	DelaysMs     []int   `json:"delaysMs"`    // consumer pause before the i-th Confirm (cyclic)
	WithholdAt   int     `json:"withholdAt"`  // from this event of the session on nothing is confirmed; -1 = never
}

type scanScript struct {
	Format          string          `json:"format"` // pure | text
	EventMaxRecords int             `json:"eventMaxRecords"`
	Sessions        []sessionScript `json:"sessions"`
}

var lineLens = []int{0, 1, 62, 63, 64, 65, 127, 128, 129, 200}

// genLine: n payload bytes (never '\n'), position dependent so that a shifted/duplicated/skipped range shows
func genLine(rng *vh.Rng, idx, n int) []byte {
	b := make([]byte, n)
	for j := range b {
		b[j] = byte('a' + (idx*7+j*3+j/26)%26)
	}
	if n > 0 && rng.Chance(1, 4) {
		for k := rng.Range(1, 3); k > 0; k-- {
			b[rng.Intn(n)] = []byte{0x00, 0xff, 0x0d}[rng.Intn(3)]
		}
	}
	return b
}

func genScanScript(rng *vh.Rng) scanScript {
	s := scanScript{Format: "pure", EventMaxRecords: rng.Range(1, 5)}
	if rng.Chance(1, 4) {
		s.Format = "text"
	}
	nSess := rng.PickI([]int{1, 2, 2, 2, 3, 3})
	nLines := rng.Range(3, 22)
	var pieces []piece
	waits := []int{0, 0, 0, 0, 2, 10, 30, 80, 150, 300}
	var cur []byte
	flush := func() {
		if len(cur) > 0 {
			pieces = append(pieces, piece{WaitMs: rng.PickI(waits), Hex: hex.EncodeToString(cur)})
			cur = nil
		}
	}
	for i := 0; i < nLines; i++ {
		n := rng.Range(2, 40)
		if rng.Chance(1, 2) {
			n = rng.PickI(lineLens)
		}
		l := append(genLine(rng, i, n), '\n')
		if rng.Chance(1, 4) && len(l) > 1 { // the write ends in the middle of this line; a later write completes it
			cut := rng.Range(1, len(l)-1)
			if len(l) > 66 && rng.Bool() {
				cut = rng.PickI([]int{63, 64, 65})
			}
			cur = append(cur, l[:cut]...)
			flush()
			cur = append(cur, l[cut:]...)
		} else {
			cur = append(cur, l...)
		}
		if rng.Chance(1, 2) {
			flush()
		}
	}
	flush() // the stream ends with '\n'
	// distribute the pieces over the sessions (contiguous groups, possibly empty)
	bounds := make([]int, nSess+1)
	bounds[nSess] = len(pieces)
	for i := 1; i < nSess; i++ {
		bounds[i] = rng.Range(0, len(pieces))
	}
	for i := 1; i < nSess; i++ { // sort the inner bounds
		for j := i + 1; j < nSess; j++ {
			if bounds[j] < bounds[i] {
				bounds[i], bounds[j] = bounds[j], bounds[i]
			}
		}
	}
	for i := 1; i < nSess; i++ { // the last session writes at least the terminating piece
		if bounds[i] > len(pieces)-1 {
			bounds[i] = len(pieces) - 1
		}
	}
	for i := 0; i < nSess; i++ {
		ss := sessionScript{
			StartDelayMs: rng.PickI([]int{0, 0, 50, 300, 1100}),
			Pieces:       append([]piece{}, pieces[bounds[i]:bounds[i+1]]...),
			StopAfterMs:  rng.PickI([]int{0, 50, 200, 600, 1200, 1200, 2200}),
			Stop:         "graceful",
			WithholdAt:   -1,
		}
		for k := rng.Range(1, 4); k > 0; k-- {
			ss.DelaysMs = append(ss.DelaysMs, rng.PickI([]int{0, 0, 0, 1, 3, 7, 15}))
		}
		if i < nSess-1 {
			if rng.Chance(1, 3) {
				ss.Stop = "crash"
			}
			if rng.Chance(1, 4) {
				ss.WithholdAt = rng.Range(0, 6)
			}
		}
		s.Sessions = append(s.Sessions, ss)
	}
	return s
}

func (s scanScript) stats() (crashes int, longest int, withheld bool) {
	var all []byte
	for _, ss := range s.Sessions {
		if ss.Stop == "crash" {
			crashes++
		}
		if ss.WithholdAt >= 0 {
			withheld = true
		}
		for _, p := range ss.Pieces {
			all = append(all, unhex(p.Hex)...)
		}
	}
	for _, l := range bytes.SplitAfter(all, []byte("\n")) {
		if len(l) > longest {
			longest = len(l)
		}
	}
	return
}

func lineClass(longest int) string {
	switch {
	case longest < 64:
		return "longest-line<64"
	case longest <= 65:
		return "longest-line=64..65"
	case longest <= 128:
		return "longest-line=66..128"
	default:
		return "longest-line>128"
	}
}

// ---------------------------------------------------------------------------------------------
// section "scanner": execution and oracle

type scanObs struct {
	fails    []vh.SpecFailure
	batches  map[int]int
	events   int
	infraErr string
}

const drainDeadline = 6 * time.Second // "incomplete" is reported only after this much idle drain time (>= 4 s)

func runScanCase(s scanScript, verbose bool) (o scanObs) {
	fail := func(kind, what, impl, spec string) {
		o.fails = append(o.fails, vh.SpecFailure{Section: "scanner", Kind: kind, Input: s, Impl: impl, Spec: spec, What: what})
	}
	dir := lrsrv.NewDir()
	defer os.RemoveAll(dir)
	fn := filepath.Join(dir, "app.log")
	f, err := os.OpenFile(fn, os.O_CREATE|os.O_WRONLY|os.O_APPEND, 0644)
	if err != nil {
		o.infraErr = err.Error()
		return
	}
	defer f.Close()
	var clock int64
	st := newMemStorage(&clock)
	cons := newConsumer(&clock)
	var W []byte
	infos := make([]sessInfo, len(s.Sessions))
	drained := false
	for si, ss := range s.Sessions {
		last := si == len(s.Sessions)-1
		st.setSession(si)
		cons.unfreeze()
		infos[si].start, _ = st.current(fn)
		infos[si].stop = ss.Stop
		sc, err := scanner.NewScanner(scanCfg(fn, s.Format, s.EventMaxRecords, 1, 1), st)
		if err != nil {
			o.infraErr = err.Error()
			return
		}
		ctx, cancel := context.WithCancel(context.Background())
		events := make(chan *model.Event)
		if err := sc.Run(ctx, events); err != nil {
			cancel()
			o.infraErr = err.Error()
			return
		}
		var wg sync.WaitGroup
		wg.Add(1)
		go func() { defer wg.Done(); cons.run(ctx, events, si, ss.DelaysMs, ss.WithholdAt) }()
		time.Sleep(time.Duration(ss.StartDelayMs) * time.Millisecond)
		for _, p := range ss.Pieces {
			time.Sleep(time.Duration(p.WaitMs) * time.Millisecond)
			b := unhex(p.Hex)
			f.Write(b)
			W = append(W, b...)
		}
		if last {
			// drain: poll until everything written is confirmed; the deadline restarts whenever there is progress
			t0, lastProgress, lastVal := time.Now(), time.Now(), int64(-1)
			for {
				v := cons.bytesConfirmed()
				if v != lastVal {
					lastVal, lastProgress = v, time.Now()
				}
				// bounded: no progress for drainDeadline, or 20 s in total (endless re-sending is progress, too)
				if covered(cons.ledger(), infos[:si+1], int64(len(W))) || time.Since(lastProgress) > drainDeadline || time.Since(t0) > 20*time.Second {
					break
				}
				time.Sleep(20 * time.Millisecond)
			}
			drained = true
		} else {
			time.Sleep(time.Duration(ss.StopAfterMs) * time.Millisecond)
		}
		// stop: no Confirm() from here on (and none in flight); crash = what the storage holds *now* is what survives
		cons.mu.Lock()
		cons.frozen = true
		var snap []byte
		if ss.Stop == "crash" {
			snap, infos[si].crashIdx = st.snapshot()
			infos[si].crashAt = time.Now()
		}
		cons.mu.Unlock()
		if ss.Stop != "crash" {
			time.Sleep(30 * time.Millisecond) // let the setOffset of the last confirmed event land (finding F17 is examined in race17)
		}
		cancel()
		wg.Wait()
		sc.WaitAllJobsDone()
		if ss.Stop == "crash" {
			st.restore(snap, infos[si].crashIdx)
		} else {
			infos[si].finalOff, infos[si].finalKnown = st.current(fn)
		}
	}
	o.batches = cons.batches
	led := cons.ledger()
	o.events = len(led)
	if cons.shapeErr != "" {
		fail("record-shape", "a record handed over is empty, nil, or is shorter than the record limit without ending a line", cons.shapeErr, "non-empty records; a record not ending in \\n has at least 64 bytes")
	}
	// (a)/(b) per session: the confirmed stream is the file from the session's start offset, contiguous
	confirmedEnd := int64(0)
	sessEnds := make([][]int64, len(s.Sessions)) // absolute end offsets of the confirmed events per session
	for si := range s.Sessions {
		S := infos[si].start
		afterCrash := si > 0 && infos[si-1].stop == "crash"
		switch {
		case S > confirmedEnd:
			fail("skipped-bytes", fmt.Sprintf("session %d starts at offset %d but the previous session's confirmed records end at %d: the bytes in between are never sent", si, S, confirmedEnd),
				fmt.Sprintf("start=%d", S), fmt.Sprintf("start<=%d", confirmedEnd))
		case S < confirmedEnd && !afterCrash:
			fail("resent-confirmed-bytes", fmt.Sprintf("session %d follows a graceful stop and starts at offset %d although the previous session's confirmed records end at %d: confirmed bytes are sent again", si, S, confirmedEnd),
				fmt.Sprintf("start=%d resent=%s", S, short(W[S:confirmedEnd])), fmt.Sprintf("start=%d", confirmedEnd))
		}
		pos := S
		for _, e := range led {
			if e.Session != si {
				continue
			}
			end := pos + int64(len(e.Payload))
			if end > int64(len(W)) || !bytes.Equal(W[pos:end], e.Payload) {
				kind, what := "skipped-bytes", "the confirmed payload is not the continuation of the file at the session's position"
				if q := bytes.Index(W, e.Payload); q >= 0 && int64(q) < pos {
					kind, what = "resent-confirmed-bytes", "the confirmed payload repeats earlier bytes of the file"
				}
				exp := W[pos:]
				if end <= int64(len(W)) {
					exp = W[pos:end]
				}
				fail(kind, fmt.Sprintf("session %d at offset %d: %s", si, pos, what), short(e.Payload), short(exp))
				break
			}
			pos = end
			sessEnds[si] = append(sessEnds[si], pos)
		}
		// the next session continues from where this one's confirmed stream ended (after a crash it may fall back: what
		// it re-sends then is again "confirmed", so the reference point moves back with it)
		confirmedEnd = pos
		// graceful stop: the state left behind is the end of what was confirmed
		if infos[si].stop != "crash" && len(o.fails) == 0 {
			if off, ok := infos[si].finalOff, infos[si].finalKnown; ok && off != pos {
				kind := "resent-confirmed-bytes"
				if off > pos {
					kind = "skipped-bytes"
				}
				fail(kind, fmt.Sprintf("after the graceful stop of session %d the persisted offset is %d but the confirmed records end at %d: a restart starts there", si, off, pos),
					fmt.Sprintf("persisted=%d", off), fmt.Sprintf("persisted=%d", pos))
			}
		}
	}
	if drained && len(o.fails) == 0 && confirmedEnd < int64(len(W)) {
		fail("incomplete", fmt.Sprintf("the file ends with a complete line at %d; after %v without progress only %d bytes are confirmed", len(W), drainDeadline, confirmedEnd),
			fmt.Sprintf("confirmed=%d", confirmedEnd), fmt.Sprintf("confirmed=%d", len(W)))
	}
	// (c) every persisted offset is the session's start offset or the end of an event whose Confirm() had been called
	// before the write; and it is not older than what was confirmed 250 ms before the write (crash re-send bound)
	for wi, w := range st.allWrites() {
		P, ok := w.offsetOf(fn)
		if !ok || w.Session >= len(infos) {
			continue
		}
		S := infos[w.Session].start
		good := P == S
		pos, k := S, 0
		stale := int64(-1)
		for _, e := range led {
			if e.Session != w.Session {
				continue
			}
			pos += int64(len(e.Payload))
			if k < len(sessEnds[w.Session]) && pos == P && e.SeqCall < w.Seq {
				good = true
			}
			if e.TRet.Before(w.At.Add(-250*time.Millisecond)) && pos > stale {
				stale = pos
			}
			k++
		}
		if !good {
			fail("persisted-offset-not-a-confirmed-end", fmt.Sprintf("write #%d of the state (session %d) stores offset %d, which is neither the session's start offset %d nor the end of a record batch whose confirmation had begun", wi, w.Session, P, S),
				fmt.Sprintf("offset=%d", P), fmt.Sprintf("one of start=%d, confirmed ends=%v", S, sessEnds[w.Session]))
			break
		}
		if P < stale {
			restart := ""
			if infos[w.Session].stop == "crash" && wi == infos[w.Session].crashIdx {
				restart = " (the write the next session restarted from)"
			}
			fail("crash-resend-unbounded", fmt.Sprintf("write #%d of the state%s stores offset %d although records up to %d had been confirmed more than 250 ms earlier: a crash re-sends more than what was confirmed since the save", wi, restart, P, stale),
				fmt.Sprintf("offset=%d", P), fmt.Sprintf("offset>=%d", stale))
			break
		}
	}
	if verbose {
		fmt.Printf("scanner replay: %d bytes written, %d events confirmed, %d bytes confirmed, %d state writes, failures=%d\n", len(W), len(led), confirmedEnd, st.nWrites(), len(o.fails))
		for si, in := range infos {
			fmt.Printf("  session %d: start=%d stop=%s final=%d confirmed-ends=%v\n", si, in.start, in.stop, in.finalOff, sessEnds[si])
		}
	}
	return
}

type sessInfo struct {
	start      int64 // offset in the storage content the session started from
	crashIdx   int   // index of the write the next session restarts from (crash only)
	crashAt    time.Time
	stop       string
	finalOff   int64
	finalKnown bool
}

// covered: some session's start offset plus its confirmed bytes reaches n (used by the drain loop only)
func covered(led []confEvent, infos []sessInfo, n int64) bool {
	sums := map[int]int64{}
	for _, e := range led {
		sums[e.Session] += int64(len(e.Payload))
	}
	for s, sum := range sums {
		if s < len(infos) && infos[s].start+sum >= n {
			return true
		}
	}
	return n == 0
}

// runParallel runs n cases, at most par at once; results are collected by index so that the report does not depend
// on the scheduling
func runParallel(n, par int, f func(i int)) {
	var wg sync.WaitGroup
	sem := make(chan struct{}, par)
	for i := 0; i < n; i++ {
		wg.Add(1)
		sem <- struct{}{}
		go func(i int) {
			defer wg.Done()
			defer func() { <-sem }()
			f(i)
		}(i)
	}
	wg.Wait()
}

func parallelism() int {
	if args.Thorough {
		return 96
	}
	return 64
}

func reportScan(sec *vh.Section, s scanScript, o scanObs) {
	crashes, longest, withheld := s.stats()
	key := ""
	if len(s.Sessions) >= 2 || longest >= 64 {
		key = digest(s)
	}
	if o.infraErr != "" {
		res.Note("scanner: case could not run: %s", o.infraErr)
		return
	}
	res.Eval(sec, key)
	res.Dist(sec, fmt.Sprintf("sessions=%d", len(s.Sessions)))
	res.Dist(sec, fmt.Sprintf("crash-stops=%d", crashes))
	res.Dist(sec, lineClass(longest))
	res.Dist(sec, "format="+s.Format)
	if withheld {
		res.Dist(sec, "with-withheld-confirmation")
	}
	for k, n := range o.batches {
		for ; n > 0; n-- {
			res.Dist(sec, fmt.Sprintf("records-per-event=%d", k))
		}
	}
	for _, f := range o.fails {
		res.SpecFail(f)
	}
}

const scannerRule = "generated scripts: a file appended in pieces over time (line lengths 0,1,62..65,127..129,200 and 2..40; binary bytes; writes that end " +
	"mid-line and are completed by a later write, possibly in the next session), 1..3 scanner sessions on one per-case in-memory storage, RecordMaxSizeBytes=64, " +
	"EventMaxRecords 1..5, pure and text format; consumer copies payloads before Confirm, pauses 0..15 ms, may withhold confirmation until the stop; a session ends " +
	"by a graceful stop (no Confirm in flight for 30 ms, cancel, WaitAllJobsDone) or an emulated crash (storage content at that instant survives, the final persist is lost); " +
	"the last session ends the last line and drains. Oracle: per session the confirmed payloads are the file bytes from the session's start offset, contiguous; after a " +
	"graceful stop start offset = confirmed end (no byte twice, none skipped), after a crash start offset <= confirmed end; at the end everything written is confirmed; " +
	"every persisted offset is the start offset or the end of an event whose Confirm had been called before the write and is not behind what was confirmed 250 ms earlier; " +
	"record shape. non-trivial = at least 2 sessions or a line of at least 64 bytes, distinct by script"

func sectionScanner(rng *vh.Rng) {
	sec := res.Section("scanner", "spec-search", scannerRule)
	n := 128
	if args.Thorough {
		n = 1344
	}
	scripts := make([]scanScript, n)
	for i := range scripts {
		scripts[i] = genScanScript(rng.Fork(fmt.Sprint("case", i)))
	}
	obs := make([]scanObs, n)
	runParallel(n, parallelism(), func(i int) { obs[i] = runScanCase(scripts[i], false) })
	for i := range scripts {
		reportScan(sec, scripts[i], obs[i])
		if i < 2 {
			res.Sample(map[string]interface{}{"section": "scanner", "script": scripts[i]})
		}
	}
	res.Done(sec)
}

func replayScanner(input json.RawMessage, verbose bool) {
	var s scanScript
	if err := json.Unmarshal(input, &s); err != nil || len(s.Sessions) == 0 {
		res.Note("scanner replay: bad input: %v", err)
		return
	}
	sec := res.Section("scanner", "spec-search", scannerRule)
	reps := 1
	if verbose {
		reps = 3 // timing is part of the input only approximately: repeat
	}
	for r := 0; r < reps; r++ {
		reportScan(sec, s, runScanCase(s, verbose))
	}
	res.Done(sec)
}

// ---------------------------------------------------------------------------------------------
// section "rotation"

type rotScript struct {
	Mode            string  `json:"mode"` // rename | remove | truncate
	Format          string  `json:"format"`
	EventMaxRecords int     `json:"eventMaxRecords"`
	Old             []piece `json:"old"`           // lower-case lines, written while the scanner runs
	RotatePhaseMs   int     `json:"rotatePhaseMs"` // the rotation starts this long after a sync tick of the scanner
	Pre             []piece `json:"pre"`           // lower-case, appended immediately before the rotation
	GapMs           int     `json:"gapMs"`         // between rename/remove and the re-creation of app.log
	Tail            []piece `json:"tail"`          // rename: appended through the old handle right after the rename
	New             []piece `json:"new"`           // upper-case lines for the new file
	DelaysMs        []int   `json:"delaysMs"`
}

var rotLens = []int{1, 5, 30, 62, 63, 64, 65, 100, 127, 128, 129, 200}

func genRotLines(rng *vh.Rng, base byte, nLines int, waits []int, cuts bool, maxTotal int) (ps []piece, total int) {
	var cur []byte
	flush := func() {
		if len(cur) > 0 {
			ps = append(ps, piece{WaitMs: rng.PickI(waits), Hex: hex.EncodeToString(cur)})
			cur = nil
		}
	}
	for i := 0; i < nLines; i++ {
		n := rng.Range(1, 40)
		if rng.Chance(1, 3) {
			n = rng.PickI(rotLens)
		}
		if maxTotal > 0 && total+n+1 > maxTotal {
			break
		}
		l := make([]byte, n+1)
		for j := 0; j < n; j++ {
			l[j] = base + byte((i*5+j*3+j/26+total)%26)
		}
		l[n] = '\n'
		total += n + 1
		if cuts && rng.Chance(1, 6) && n > 1 {
			c := rng.Range(1, n)
			cur = append(cur, l[:c]...)
			flush()
			cur = append(cur, l[c:]...)
		} else {
			cur = append(cur, l...)
		}
		if rng.Chance(1, 2) {
			flush()
		}
	}
	flush()
	return
}

func genRotScript(rng *vh.Rng) rotScript {
	s := rotScript{Mode: rng.PickS([]string{"rename", "rename", "remove", "truncate"}), Format: "pure", EventMaxRecords: rng.Range(1, 5)}
	if rng.Chance(1, 4) {
		s.Format = "text"
	}
	waits := []int{0, 0, 0, 5, 30, 100, 250, 400}
	fast := []int{0, 0, 0, 1, 5, 20}
	var oldTotal int
	s.Old, oldTotal = genRotLines(rng, 'a', rng.Range(6, 24), waits, s.Mode != "truncate", 0)
	s.RotatePhaseMs = rng.Range(50, 450)
	if s.Mode != "truncate" && rng.Chance(3, 4) { // truncate: the old content is confirmed completely before, nothing is appended in between
		var n int
		s.Pre, n = genRotLines(rng, 'a', rng.Range(1, 8), fast, false, 0)
		oldTotal += n
	}
	s.GapMs = rng.PickI([]int{0, 0, 1, 5, 20})
	if s.Mode == "rename" && rng.Chance(3, 4) {
		s.Tail, _ = genRotLines(rng, 'a', rng.Range(1, 6), fast, false, 0)
	}
	max := 0
	if s.Mode == "truncate" {
		max = oldTotal - 1 // the new content stays shorter than the old offset
	}
	s.New, _ = genRotLines(rng, 'A', rng.Range(2, 20), waits, true, max)
	for k := rng.Range(1, 3); k > 0; k-- {
		s.DelaysMs = append(s.DelaysMs, rng.PickI([]int{0, 0, 0, 1, 3, 7}))
	}
	return s
}

type rotObs struct {
	oldClosedEarly bool // the scanner had released the rotated-out file before its last byte was written
	lateSync       bool // a lost tail was observed but a late sync fell into the rotation: not judged
	fails          []vh.SpecFailure
	skipped        string // reason the case could not be evaluated (counted in the distribution)
	unsent         bool   // part of the old file was not yet confirmed when the rotation began
	infraErr       string
}

// attribute splits the confirmed events into the old file's stream and the new file's stream: old content is lower
// case, new content upper case; an event of newlines only goes to the stream that expects a newline next
func attribute(led []confEvent, wOld, wNew []byte) (cOld, cNew []byte, mixed string) {
	letters := func(p []byte) (lo, up bool) {
		for _, b := range p {
			if b >= 'a' && b <= 'z' {
				lo = true
			} else if b >= 'A' && b <= 'Z' {
				up = true
			}
		}
		return
	}
	// a worker reads ONE file: the events of a worker that delivered letters of one case only all belong to that file
	// (this settles the newline-only events when both workers are active at the same time and both files have an empty
	// line next)
	srcOld, srcNew := map[uintptr]bool{}, map[uintptr]bool{}
	for _, e := range led {
		if e.Src == 0 {
			continue
		}
		lo, up := letters(e.Payload)
		if lo {
			srcOld[e.Src] = true
		}
		if up {
			srcNew[e.Src] = true
		}
	}
	lastOld := true
	for _, e := range led {
		lo, up := letters(e.Payload)
		if !lo && !up && e.Src != 0 && srcOld[e.Src] != srcNew[e.Src] {
			if srcOld[e.Src] {
				cOld = append(cOld, e.Payload...)
			} else {
				cNew = append(cNew, e.Payload...)
			}
			continue
		}
		switch {
		case lo && up:
			if mixed == "" {
				mixed = short(e.Payload)
			}
			cNew = append(cNew, e.Payload...)
			lastOld = false
		case lo:
			cOld = append(cOld, e.Payload...)
			lastOld = true
		case up:
			cNew = append(cNew, e.Payload...)
			lastOld = false
		default:
			oldWants := len(cOld) <= len(wOld) && bytes.HasPrefix(wOld[len(cOld):], e.Payload)
			newWants := len(cNew) <= len(wNew) && bytes.HasPrefix(wNew[len(cNew):], e.Payload)
			toOld := lastOld
			if oldWants != newWants {
				toOld = oldWants
			} else if oldWants {
				toOld = true
			}
			if toOld {
				cOld = append(cOld, e.Payload...)
			} else {
				cNew = append(cNew, e.Payload...)
			}
		}
	}
	return
}

const rotDrainDeadline = 8 * time.Second

func runRotCase(s rotScript, verbose bool) (o rotObs) {
	fail := func(kind, what, impl, spec string) {
		o.fails = append(o.fails, vh.SpecFailure{Section: "rotation", Kind: kind, Input: s, Impl: impl, Spec: spec, What: what})
	}
	dir := lrsrv.NewDir()
	defer os.RemoveAll(dir)
	fn := filepath.Join(dir, "app.log")
	open := func() *os.File {
		f, err := os.OpenFile(fn, os.O_CREATE|os.O_WRONLY|os.O_APPEND, 0644)
		if err != nil {
			o.infraErr = err.Error()
		}
		return f
	}
	f := open()
	if f == nil {
		return
	}
	var clock int64
	st := newMemStorage(&clock)
	cons := newConsumer(&clock)
	sc, err := scanner.NewScanner(scanCfg(fn, s.Format, s.EventMaxRecords, 1, 1), st)
	if err != nil {
		o.infraErr = err.Error()
		return
	}
	ctx, cancel := context.WithCancel(context.Background())
	events := make(chan *model.Event)
	tBefore := time.Now()
	if err := sc.Run(ctx, events); err != nil {
		cancel()
		o.infraErr = err.Error()
		return
	}
	tAfter := time.Now() // the sync ticker was created in [tBefore, tAfter]; it ticks every second from then
	var wg sync.WaitGroup
	wg.Add(1)
	go func() { defer wg.Done(); cons.run(ctx, events, 0, s.DelaysMs, -1) }()
	stop := func() {
		cons.freeze()
		time.Sleep(30 * time.Millisecond)
		cancel()
		wg.Wait()
		sc.WaitAllJobsDone()
	}
	var wOld, wNew []byte
	write := func(fl *os.File, w *[]byte, ps []piece) {
		for _, p := range ps {
			time.Sleep(time.Duration(p.WaitMs) * time.Millisecond)
			b := unhex(p.Hex)
			fl.Write(b)
			*w = append(*w, b...)
		}
	}
	waitFor := func(cond func() bool, noProgress time.Duration) bool {
		t0, lastProgress, lastVal := time.Now(), time.Now(), int64(-1)
		for !cond() {
			if v := cons.bytesConfirmed(); v != lastVal {
				lastVal, lastProgress = v, time.Now()
			}
			if time.Since(lastProgress) > noProgress || time.Since(t0) > 25*time.Second {
				return false
			}
			time.Sleep(20 * time.Millisecond)
		}
		return true
	}
	write(f, &wOld, s.Old)
	if s.Mode == "truncate" {
		// the user destroys the old content: to have a defined expectation, everything old is confirmed first (so the old
		// worker holds no partial line) and the new content stays shorter than the old offset
		if !waitFor(func() bool { return cons.bytesConfirmed() == int64(len(wOld)) }, 5*time.Second) {
			o.skipped = "truncate-precondition-not-met-skipped"
			stop()
			f.Close()
			return
		}
	}
	// choose the moment: RotatePhaseMs after a sync tick, so that the rotation and the writes through the old handle are
	// over at least 200 ms before the next tick (what is appended to a rotated file after the scanner noticed the
	// rotation and saw its end is, by design, not collected)
	if slack := tAfter.Sub(tBefore); slack > 50*time.Millisecond {
		o.skipped = "sync-phase-unknown-skipped"
		stop()
		f.Close()
		return
	}
	now := time.Now()
	k := int(now.Sub(tAfter)/time.Second) + 1
	target := tAfter.Add(time.Duration(k)*time.Second + time.Duration(s.RotatePhaseMs)*time.Millisecond)
	time.Sleep(time.Until(target))
	limit := tBefore.Add(time.Duration(k+1)*time.Second - 200*time.Millisecond)
	o.unsent = cons.bytesConfirmed() < int64(len(wOld)) || len(s.Pre) > 0
	if s.Mode != "truncate" {
		write(f, &wOld, s.Pre)
	}
	oldIno := inode(fn)
	var nf *os.File
	switch s.Mode {
	case "rename":
		os.Rename(fn, fn+".1")
		time.Sleep(time.Duration(s.GapMs) * time.Millisecond)
		nf = open()
		write(f, &wOld, s.Tail)
		f.Close()
		// observed, not presumed: does the scanner still hold the rotated-out file shortly after its last byte was
		// written? If not, its worker had been told to stop and met its EOF before the file was complete (a sync was
		// served inside the rotation — a loaded machine); what is appended after that is by design not collected.
		time.Sleep(20 * time.Millisecond)
		if fdsOn(fn+".1") == 0 {
			o.oldClosedEarly = true
		}
	case "remove":
		f.Close()
		os.Remove(fn)
		time.Sleep(time.Duration(s.GapMs) * time.Millisecond)
		nf = open()
	case "truncate":
		f.Truncate(0)
		nf = f
	}
	if nf == nil {
		stop()
		return
	}
	defer nf.Close()
	if time.Now().After(limit) {
		o.skipped = "rotation-overran-sync-window-skipped"
		stop()
		return
	}
	if s.Mode != "truncate" && inode(fn) == oldIno {
		o.skipped = "inode-reused-skipped"
		stop()
		return
	}
	write(nf, &wNew, s.New)
	done := func() bool {
		cOld, cNew, _ := attribute(cons.ledger(), wOld, wNew)
		return len(cNew) >= len(wNew) && (s.Mode == "truncate" || len(cOld) >= len(wOld))
	}
	waitFor(done, rotDrainDeadline)
	stop()
	cOld, cNew, mixed := attribute(cons.ledger(), wOld, wNew)
	if cons.shapeErr != "" {
		fail("record-shape", "a record handed over is empty, nil, or is shorter than the record limit without ending a line", cons.shapeErr, "non-empty records; a record not ending in \\n has at least 64 bytes")
	}
	if mixed != "" {
		fail("event-mixes-files", "one event carries bytes of the old and of the new file", mixed, "an event comes from one file")
	}
	diffAt := func(a, b []byte) int {
		d := 0
		for d < len(a) && d < len(b) && a[d] == b[d] {
			d++
		}
		return d
	}
	switch {
	case bytes.Equal(cNew, wNew):
	case len(cNew) < len(wNew) && bytes.HasPrefix(wNew, cNew):
		fail("new-file-incomplete", fmt.Sprintf("%s rotation: the new file has %d bytes ending with a complete line; %v without progress only its first %d bytes are confirmed", s.Mode, len(wNew), rotDrainDeadline, len(cNew)),
			fmt.Sprintf("confirmed=%d", len(cNew)), fmt.Sprintf("confirmed=%d", len(wNew)))
	case len(cNew) > len(wNew) && bytes.HasPrefix(cNew, wNew):
		fail("new-file-sent-twice", fmt.Sprintf("%s rotation: bytes of the new file are confirmed more than once", s.Mode), short(cNew[len(wNew):]), "nothing after the file's end")
	default:
		d := diffAt(cNew, wNew)
		fail("new-file-not-from-beginning", fmt.Sprintf("%s rotation: the confirmed bytes of the new file deviate from the file at byte %d (a file replaced under the same name must be read from its beginning, once)", s.Mode, d),
			short(cNew[d:]), short(wNew[d:]))
	}
	switch {
	case bytes.Equal(cOld, wOld):
	case len(cOld) < len(wOld) && bytes.HasPrefix(wOld, cOld):
		// the oracle presumes that the scanner's sync k ran before the rotation began and sync k+1 after the last write to
		// the old file. A sync that is served late (a loaded machine) can fall between the rename and the writer's last
		// bytes through the old handle; the old worker is then told to stop and meets its EOF before those bytes exist —
		// by design they are not collected. Such a sync also starts the new file's worker early: a record of the new file
		// confirmed before tick k+1 is the evidence; the case is then skipped, not failed.
		lateSync := false
		nextTick := tBefore.Add(time.Duration(k+1) * time.Second)
		for _, e := range cons.ledger() {
			isNew := false
			for _, b := range e.Payload {
				if b >= 'A' && b <= 'Z' {
					isNew = true
				}
			}
			if isNew && e.TRet.Before(nextTick.Add(-10*time.Millisecond)) {
				lateSync = true
			}
		}
		o.lateSync = lateSync || o.oldClosedEarly
		if s.Mode != "truncate" && !o.lateSync {
			fail("lost-tail-on-rotation", fmt.Sprintf("%s rotation: %d bytes were written to the old file (all before the scanner's next sync); only the first %d are confirmed %v after the last progress", s.Mode, len(wOld), len(cOld), rotDrainDeadline),
				fmt.Sprintf("confirmed=%d", len(cOld)), fmt.Sprintf("confirmed=%d missing=%s", len(wOld), short(wOld[len(cOld):])))
		}
	default:
		d := diffAt(cOld, wOld)
		fail("old-file-stream-differs", fmt.Sprintf("%s rotation: the confirmed bytes of the old file deviate from what was written at byte %d", s.Mode, d), short(cOld[d:]), short(wOld[d:]))
	}
	if verbose {
		fmt.Printf("rotation replay (%s): old written=%d confirmed=%d; new written=%d confirmed=%d; failures=%d\n", s.Mode, len(wOld), len(cOld), len(wNew), len(cNew), len(o.fails))
	}
	return
}

const rotationRule = "one scanner session on <dir>/app.log (IncludePaths matches only that name) while a writer appends lower-case lines; at a generated " +
	"phase after a sync tick the file is (rename) renamed to app.log.1 and re-created, the writer appending some more through the old handle, (remove) removed and " +
	"re-created, (truncate) truncated in place after everything old was confirmed; then upper-case lines go to the new file (truncate: fewer bytes than the old offset). " +
	"Everything written to the old file is written at least 200 ms before the scanner's next sync. Oracle: the confirmed upper-case stream equals the new file " +
	"(from its beginning, complete, once); rename/remove: the confirmed lower-case stream equals everything written to the old file. Cases where the new file got " +
	"the old inode number are skipped, and so is a lost-tail observation when a record of the new file was confirmed before the next tick (a late sync fell into the rotation).  non-trivial = every evaluated case, distinct by script"

func reportRot(sec *vh.Section, s rotScript, o rotObs) {
	if o.infraErr != "" {
		res.Note("rotation: case could not run: %s", o.infraErr)
		return
	}
	if o.skipped != "" {
		res.Dist(sec, o.skipped)
		return
	}
	res.Eval(sec, digest(s))
	res.Dist(sec, "mode="+s.Mode)
	if o.lateSync {
		res.Dist(sec, "late-sync-overlapped-rotation (lost tail not judged)")
	}
	if o.unsent {
		res.Dist(sec, "old-bytes-unconfirmed-when-rotated")
	}
	if len(s.Tail) > 0 {
		res.Dist(sec, "writes-through-old-handle-after-rename")
	}
	for _, f := range o.fails {
		res.SpecFail(f)
	}
}

func sectionRotation(rng *vh.Rng) {
	sec := res.Section("rotation", "spec-search", rotationRule)
	n := 64
	if args.Thorough {
		n = 576
	}
	scripts := make([]rotScript, n)
	for i := range scripts {
		scripts[i] = genRotScript(rng.Fork(fmt.Sprint("case", i)))
	}
	obs := make([]rotObs, n)
	runParallel(n, parallelism(), func(i int) { obs[i] = runRotCase(scripts[i], false) })
	for i := range scripts {
		reportRot(sec, scripts[i], obs[i])
		if i < 1 {
			res.Sample(map[string]interface{}{"section": "rotation", "script": scripts[i]})
		}
	}
	res.Done(sec)
}

func replayRotation(input json.RawMessage, verbose bool) {
	var s rotScript
	if err := json.Unmarshal(input, &s); err != nil || s.Mode == "" {
		res.Note("rotation replay: bad input: %v", err)
		return
	}
	sec := res.Section("rotation", "spec-search", rotationRule)
	reps := 1
	if verbose {
		reps = 3
	}
	for r := 0; r < reps; r++ {
		reportRot(sec, s, runRotCase(s, verbose))
	}
	res.Done(sec)
}

// ---------------------------------------------------------------------------------------------
// section "race17": the final persist of a graceful stop vs the setOffset of the last confirmed event (deterministic)

type race17Input struct {
	Section          string   `json:"section"`
	Lines            []string `json:"lines"`            // complete lines (without the newline) of the file
	EventMaxRecords  int      `json:"eventMaxRecords"`  // 0 = 1
	ParkAfterConfirm int      `json:"parkAfterConfirm"` // the worker is parked before setOffset after the n-th confirmation (1-based); 0 = control schedule, no parking
}

const race17Rule = "deterministic schedule on one file of complete lines, EventMaxRecords 1 or 2, StateStoreIntervalSec=3600 (only the final persist happens): " +
	"the consumer confirms events 1..n-1 normally; before the n-th Confirm the hook scanner.worker.beforeSetOffset (between the confirm rendez-vous and desc.setOffset) " +
	"is armed to park the worker; Confirm returns true; the harness cancels the context, waits for the final WriteData, releases the worker, WaitAllJobsDone. " +
	"Observed: persisted offset vs end of the n-th event; if behind, a second session on the same storage shows the confirmed event delivered again. " +
	"Control schedule without parking: persisted offset = confirmed end. non-trivial = every schedule"

func (in race17Input) content() (w []byte) {
	for _, l := range in.Lines {
		w = append(w, l...)
		w = append(w, '\n')
	}
	return
}

func runRace17(in race17Input, sec *vh.Section) {
	in.Section = "race17"
	if in.EventMaxRecords <= 0 {
		in.EventMaxRecords = 1
	}
	if !verifhook.Enabled && in.ParkAfterConfirm > 0 {
		res.Note("race17: hooks are not compiled in (build tag verif missing)")
		return
	}
	dir := lrsrv.NewDir()
	defer os.RemoveAll(dir)
	fn := filepath.Join(dir, "app.log")
	W := in.content()
	if err := os.WriteFile(fn, W, 0644); err != nil {
		res.Note("race17: %v", err)
		return
	}
	var clock int64
	st := newMemStorage(&clock)
	session := func(park int, maxEvents int) (payloads [][]byte, parked bool, persistedBeforeRelease bool) {
		sc, err := scanner.NewScanner(scanCfg(fn, "pure", in.EventMaxRecords, 1, 3600), st)
		if err != nil {
			res.Note("race17: %v", err)
			return
		}
		ctx, cancel := context.WithCancel(context.Background())
		events := make(chan *model.Event)
		if err := sc.Run(ctx, events); err != nil {
			cancel()
			res.Note("race17: %v", err)
			return
		}
		arrived, gate := make(chan struct{}), make(chan struct{})
		var fired int32
	loop:
		for len(payloads) < maxEvents {
			var ev *model.Event
			select {
			case ev = <-events:
			case <-time.After(3 * time.Second):
				break loop
			}
			var pay []byte
			for _, r := range ev.Records {
				if r != nil {
					pay = append(pay, r.Data...)
				}
			}
			if park > 0 && len(payloads)+1 == park {
				verifhook.Set("scanner.worker.beforeSetOffset", func() {
					if atomic.CompareAndSwapInt32(&fired, 0, 1) {
						close(arrived)
						<-gate
					}
				})
			}
			if !ev.Confirm() {
				break
			}
			payloads = append(payloads, pay)
			if park > 0 && len(payloads) == park {
				select {
				case <-arrived:
					parked = true
				case <-time.After(3 * time.Second):
				}
				break
			}
		}
		n0 := st.nWrites()
		if !parked {
			time.Sleep(50 * time.Millisecond) // control: let the last setOffset land
		}
		cancel()
		if parked {
			// the persist goroutine does not depend on the parked worker: wait for the final write
			// (since fix c6aad9a it waits for the parked worker: no write appears, which is the expected outcome; one
			// second is ample for the old order, where the write followed the cancel within milliseconds)
			for t0 := time.Now(); time.Since(t0) < time.Second; time.Sleep(2 * time.Millisecond) {
				if st.nWrites() > n0 {
					persistedBeforeRelease = true
					break
				}
			}
		}
		atomic.StoreInt32(&fired, 1) // a hook call from now on passes
		close(gate)
		sc.WaitAllJobsDone()
		verifhook.Reset()
		return
	}
	want := in.ParkAfterConfirm
	maxEv := want
	if want == 0 {
		maxEv = 2
	}
	pays, parked, persisted := session(want, maxEv)
	confirmedEnd := int64(0)
	for _, p := range pays {
		confirmedEnd += int64(len(p))
	}
	off, _ := st.current(fn)
	res.Eval(sec, digest(in))
	res.Dist(sec, fmt.Sprintf("parked=%v eventMaxRecords=%d", want > 0, in.EventMaxRecords))
	if !bytes.HasPrefix(W, bytes.Join(pays, nil)) {
		res.SpecFail(vh.SpecFailure{Section: "race17", Kind: "skipped-bytes", Input: in, Impl: short(bytes.Join(pays, nil)), Spec: short(W), What: "the confirmed payloads are not a prefix of the file"})
		return
	}
	if want > 0 && (!parked || !persisted) {
		if parked && !persisted {
			res.Note("race17: the final persist waited for the parked worker (expected since fix c6aad9a; events confirmed=%d)", len(pays))
		} else {
			res.Note("race17: schedule not reached (events confirmed=%d parked=%v final write seen=%v)", len(pays), parked, persisted)
		}
		return
	}
	if off == confirmedEnd {
		if want > 0 {
			res.Note("race17: the final persist carried the offset %d of the event confirmed while the worker was parked before setOffset: the race is not real in this schedule", off)
		}
		return
	}
	if want == 0 {
		res.SpecFail(vh.SpecFailure{Section: "race17", Kind: "graceful-stop-offset-not-confirmed-end", Input: in, Impl: fmt.Sprintf("persisted=%d", off), Spec: fmt.Sprintf("persisted=%d", confirmedEnd),
			What: "control schedule (no parking, 50 ms between the last Confirm and the cancel): the offset persisted by the graceful stop is not the end of the confirmed records"})
		return
	}
	// the defect: show its effect — a second session on the same storage delivers the confirmed event again
	again, _, _ := session(0, 1)
	resent := []byte(nil)
	if len(again) > 0 && off < confirmedEnd {
		resent = again[0]
	}
	res.SpecFail(vh.SpecFailure{Section: "race17", Kind: "confirmed-bytes-resent-after-graceful-stop", Finding: "F17", ImplEqModel: true, Input: in,
		Impl: fmt.Sprintf("persisted=%d confirmed-end=%d; next session's first event: %s", off, confirmedEnd, short(resent)),
		Spec: fmt.Sprintf("persisted=%d; next session starts with %s", confirmedEnd, short(W[confirmedEnd:])),
		What: fmt.Sprintf("schedule: event %d is confirmed (Confirm() returned true, the worker is between the confirm rendez-vous and desc.setOffset); the context is cancelled; the persist goroutine writes the final state with the previous offset %d; only then the worker stores %d. The graceful stop leaves an offset behind a confirmed record: the restart sends bytes %d..%d again", want, off, confirmedEnd, off, confirmedEnd)})
}

var race17Witness = race17Input{Section: "race17", Lines: []string{"first line", "second line", "third line", "fourth line"}, EventMaxRecords: 1, ParkAfterConfirm: 2}

func sectionRace17(rng *vh.Rng) {
	sec := res.Section("race17", "system-correspondence", race17Rule)
	runRace17(race17Input{Lines: race17Witness.Lines, EventMaxRecords: 1}, sec) // control
	runRace17(race17Input{Lines: race17Witness.Lines, EventMaxRecords: 2}, sec) // control
	n := 3
	if args.Thorough {
		n = 12
	}
	for i := 0; i < n; i++ {
		in := race17Input{EventMaxRecords: rng.Range(1, 2), ParkAfterConfirm: rng.Range(1, 3)}
		for k := rng.Range(in.EventMaxRecords*in.ParkAfterConfirm+1, 10); k > 0; k-- {
			in.Lines = append(in.Lines, string(genRotLines2(rng, len(in.Lines))))
		}
		runRace17(in, sec)
	}
	res.Done(sec)
}

func genRotLines2(rng *vh.Rng, idx int) []byte {
	n := rng.PickI([]int{1, 3, 10, 40, 63, 64, 100})
	b := make([]byte, n)
	for j := range b {
		b[j] = byte('a' + (idx*7+j*3)%26)
	}
	return b
}

func replayRace17(input json.RawMessage) {
	var in race17Input
	if err := json.Unmarshal(input, &in); err != nil || len(in.Lines) == 0 {
		res.Note("race17 replay: bad input: %v", err)
		return
	}
	sec := res.Section("race17", "system-correspondence", race17Rule)
	runRace17(in, sec)
	res.Done(sec)
}

// ---------------------------------------------------------------------------------------------
// section "recycle29": the record slice of an event the consumer still holds, after cancel

type recycle29Input struct {
	Section         string   `json:"section"`
	Lines           []string `json:"lines"`
	EventMaxRecords int      `json:"eventMaxRecords"`
}

const recycle29Rule = "deterministic: a file of complete lines, EventMaxRecords=2 (or as given); the consumer receives the first event and does not confirm it; " +
	"the context is cancelled and WaitAllJobsDone returns; then the consumer looks at ev.Records, as collector.toApiEvents does when its Write returns after the cancel. " +
	"non-trivial = every schedule"

func runRecycle29(in recycle29Input, sec *vh.Section) {
	in.Section = "recycle29"
	if in.EventMaxRecords <= 0 {
		in.EventMaxRecords = 2
	}
	dir := lrsrv.NewDir()
	defer os.RemoveAll(dir)
	fn := filepath.Join(dir, "app.log")
	var W []byte
	for _, l := range in.Lines {
		W = append(W, l...)
		W = append(W, '\n')
	}
	if err := os.WriteFile(fn, W, 0644); err != nil {
		res.Note("recycle29: %v", err)
		return
	}
	var clock int64
	st := newMemStorage(&clock)
	sc, err := scanner.NewScanner(scanCfg(fn, "pure", in.EventMaxRecords, 1, 3600), st)
	if err != nil {
		res.Note("recycle29: %v", err)
		return
	}
	ctx, cancel := context.WithCancel(context.Background())
	events := make(chan *model.Event)
	if err := sc.Run(ctx, events); err != nil {
		cancel()
		res.Note("recycle29: %v", err)
		return
	}
	var ev *model.Event
	select {
	case ev = <-events:
	case <-time.After(3 * time.Second):
	}
	if ev == nil {
		cancel()
		sc.WaitAllJobsDone()
		res.Note("recycle29: no event arrived")
		return
	}
	nrec := len(ev.Records)
	var before [][]byte
	for _, r := range ev.Records {
		if r != nil {
			before = append(before, append([]byte{}, r.Data...))
		}
	}
	cancel()
	sc.WaitAllJobsDone()
	nils := 0
	for _, r := range ev.Records {
		if r == nil {
			nils++
		}
	}
	res.Eval(sec, digest(in))
	res.Dist(sec, fmt.Sprintf("records-in-event=%d", nrec))
	if nils > 0 {
		res.SpecFail(vh.SpecFailure{Section: "recycle29", Kind: "records-recycled-under-consumer", Finding: "F29", ImplEqModel: true, Input: in,
			Impl: fmt.Sprintf("event received with %d records %s; after cancel %d of its %d elements are nil", nrec, short(bytes.Join(before, nil)), nils, len(ev.Records)),
			Spec: "the records handed to the consumer stay what they were",
			What: "the record slice handed to the consumer is the worker's own buffer; after cancel the worker clears it while the consumer may still read it (nil dereference in collector.toApiEvents at shutdown)"})
	} else {
		res.Note("recycle29: the event's records were intact after cancel (%d records)", nrec)
	}
}

var recycle29Witness = recycle29Input{Section: "recycle29", Lines: []string{"one", "two", "three"}, EventMaxRecords: 2}

func sectionRecycle29(rng *vh.Rng) {
	sec := res.Section("recycle29", "system-correspondence", recycle29Rule)
	runRecycle29(recycle29Input{Lines: []string{"alpha", "beta", "gamma", "delta"}, EventMaxRecords: rng.Range(1, 3)}, sec)
	res.Done(sec)
}

func replayRecycle29(input json.RawMessage) {
	var in recycle29Input
	if err := json.Unmarshal(input, &in); err != nil || len(in.Lines) == 0 {
		res.Note("recycle29 replay: bad input: %v", err)
		return
	}
	sec := res.Section("recycle29", "system-correspondence", recycle29Rule)
	runRecycle29(in, sec)
	res.Done(sec)
}
