// C17 harness — file collector: what is handed over is the file, byte for byte, once; the persisted offset is a
// confirmed record end; a replaced file is read from its beginning.
//
// Sections
//
//	linereader   unit: lineReader on a scripted io.Reader vs the Lean model                       (lr.go)
//	descs        unit: mergeDescs vs the Lean model                                               (lr.go)
//	scanner      spec-search: real scanner.Scanner on a growing file, 1..3 sessions, graceful stops and
//	             emulated crashes, slow / withholding consumer                                    (scan.go)
//	rotation     spec-search: rename / remove+create / truncate while a writer keeps appending    (scan.go)
//	race17       deterministic parked schedule: final persist vs the last setOffset (F17)         (scan.go)
//	recycle29    deterministic: the record slice of an unconfirmed event after cancel (F29)       (scan.go)
//	stale41      deterministic parked schedule: sync compares the live offset with a stale size (F17b) (stale.go)
//	jsonparsers  unit: k8s / logfmt parsers' record boundaries and offsets vs the line reader model  (jsonp.go)
//	leak50       deterministic: rotated / truncated file whose last line has no newline (F50)        (leak.go)
//	collector    the whole path collector.Run -> rpc client -> server with one server-side write failure (collect.go)
//	gaps         deterministic: torn state file, file missing from one scan, stop while draining a rotated file,
//	             replaced file regrown past the old offset (F60, F61, F62, F64)                       (gaps.go)
package main

import (
	"encoding/json"
	"sync"

	"github.com/jrivets/log4g"
	"verifharness/internal/vh"
)

var (
	args vh.Args
	res  *vh.Result
)

func init() {
	log4g.SetLogLevel("", log4g.FATAL)
}

type replayFile struct {
	Section string          `json:"section"`
	Input   json.RawMessage `json:"input"`
}

// dispatch re-executes one recorded input; false = unknown section
func dispatch(rp replayFile, verbose bool) bool {
	switch rp.Section {
	case "linereader":
		replayLineReader(rp.Input)
	case "descs":
		replayDescs(rp.Input)
	case "twopiece":
		replayTwoPiece(rp.Input)
	case "scanner":
		replayScanner(rp.Input, verbose)
	case "rotation":
		replayRotation(rp.Input, verbose)
	case "race17":
		replayRace17(rp.Input)
	case "recycle29":
		replayRecycle29(rp.Input)
	case "stale41":
		replayStale41(rp.Input)
	case "jsonparsers":
		replayJsonParsers(rp.Input)
	case "leak50":
		replayLeak50(rp.Input)
	case "gaps":
		replayGaps(rp.Input)
	case "flicker":
		replayFlicker(rp.Input)
	case "syncsteps":
		replaySyncSteps(rp.Input)
	case "staleopen":
		replayStaleOpen(rp.Input)
	case "collector":
		replayCollector(rp.Input)
	default:
		return false
	}
	return true
}

func replay(path string) {
	var rp replayFile
	if err := vh.ReadJSON(path, &rp); err != nil {
		res.Fatal(args.Out, "replay: %v", err)
	}
	if !dispatch(rp, true) {
		res.Note("replay: section %q has no single-input replay; re-run the check with the recorded seed", rp.Section)
	}
	res.Write(args.Out)
}

// corpus first: every file of the corpus directory is a replay document {"section":…, "input":…}
func replayCorpus() {
	for _, f := range vh.CorpusFiles(args.Corpus) {
		var rp replayFile
		if err := vh.ReadJSON(f, &rp); err != nil || rp.Section == "" {
			res.Note("corpus: %s is not a replay document: %v", f, err)
			continue
		}
		if !dispatch(rp, false) {
			res.Note("corpus: %s: unknown section %q", f, rp.Section)
		}
	}
}

func main() {
	args = vh.ParseArgs()
	res = vh.NewResult("C17", args)
	if args.Replay != "" {
		replay(args.Replay)
		return
	}
	replayCorpus()
	rng := vh.NewRng(args.Seed)
	// Wall time: the sections are mostly sleeps of the code under test (200 ms / 1 s polls, 5 s retry pause), so the ones
	// that do not interfere run side by side:
	//   phase 1  scanner, then rotation (many scanners at once), next to collector (5 s pause) and gaps (a handful of
	//            scanners on their own files); no hooks
	//   phase 2  the parked schedules race17, recycle29, stale41, leak50 one after the other (hooks and the fd / goroutine
	//            observation are process-global: no other scanner may run then), next to the unit-level sections
	//            (linereader, descs, jsonparsers: no scanner, no hook — CPU only)
	// Every section draws from its own fork of the PRNG, so the order does not change what is generated.
	var p1 sync.WaitGroup
	for _, f := range []func(){sectionCollector, sectionGaps} {
		p1.Add(1)
		go func(f func()) { defer p1.Done(); f() }(f)
	}
	// the two searches run many scanners at once and judge timing (which sync tick saw what): one after the other
	sectionScanner(rng.Fork("scanner"))
	sectionRotation(rng.Fork("rotation"))
	p1.Wait()
	unitDone := make(chan struct{})
	go func() {
		defer close(unitDone)
		sectionLineReader(rng.Fork("linereader"))
		sectionDescs(rng.Fork("descs"))
		sectionJsonParsers(rng.Fork("jsonparsers"))
	}()
	sectionRace17(rng.Fork("race17"))
	sectionRecycle29(rng.Fork("recycle29"))
	sectionStale41()
	sectionStaleOpen()
	sectionFlicker()
	sectionSyncSteps(rng.Fork("syncsteps"))
	sectionLeak50()
	<-unitDone
	res.Write(args.Out)
}
