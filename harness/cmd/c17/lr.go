// C17 harness, unit part: the real lineReader on a scripted io.Reader, the real parsers' offset accounting on real
// files, and the real mergeDescs — each against the Lean model (driver lrmodel_c17) and against a direct SPEC.
package main

import (
	"bytes"
	"context"
	"encoding/json"
	"fmt"
	"io"
	"os"
	"path/filepath"
	"strings"
	"time"

	"github.com/logrange/logrange/pkg/scanner"
	"github.com/logrange/logrange/pkg/scanner/parser"
	"github.com/logrange/logrange/pkg/utils"
	"verifharness/internal/lrsrv"
	"verifharness/internal/vh"
)

// ---------------------------------------------------------------------------------------------
// scripted source: pieces are hex data ("61620a"), "E" (report EOF once), "X" (cancel the context while a Read runs).
// A used-up script cancels the context and reports EOF (so that every run ends).

type lrCase struct {
	B      int      `json:"b"`
	Pieces []string `json:"pieces"`
}

type scripted struct {
	pieces [][]byte // nil = E, empty non-nil = X
	i      int
	cancel context.CancelFunc
}

func (s *scripted) Read(p []byte) (int, error) {
	for {
		if s.i >= len(s.pieces) {
			s.cancel()
			return 0, io.EOF
		}
		pc := s.pieces[s.i]
		if pc == nil {
			s.i++
			return 0, io.EOF
		}
		if len(pc) == 0 {
			s.cancel()
			s.i++
			continue
		}
		n := copy(p, pc)
		if n < len(pc) {
			s.pieces[s.i] = pc[n:]
		} else {
			s.i++
		}
		return n, nil
	}
}

func (c lrCase) content() []byte {
	var b []byte
	for _, p := range c.Pieces {
		if p != "E" && p != "X" {
			b = append(b, vh.UnHx(p)...)
		}
	}
	return b
}

// runLrImpl drives the real lineReader; returns the answer in the driver's vocabulary (without the pending bytes)
func runLrImpl(c lrCase) (toks []string, lines [][]byte, pos int) {
	ctx, cancel := context.WithCancel(context.Background())
	defer cancel()
	src := &scripted{cancel: cancel}
	for _, p := range c.Pieces {
		switch p {
		case "E":
			src.pieces = append(src.pieces, nil)
		case "X":
			src.pieces = append(src.pieces, []byte{})
		default:
			src.pieces = append(src.pieces, append([]byte{}, vh.UnHx(p)...))
		}
	}
	lr := parser.NewVerifLineReader(src, c.B, 0)
	for k := 0; k < 100000; k++ {
		line, err := lr.ReadLine(ctx)
		if err == io.EOF {
			toks = append(toks, "eof")
			continue
		}
		if err != nil {
			toks = append(toks, "closed")
			break
		}
		cp := append([]byte{}, line...)
		lines = append(lines, cp)
		pos += len(cp)
		toks = append(toks, vh.Hx(cp))
	}
	return
}

func lrLine(c lrCase) string {
	return fmt.Sprintf("lr %d 0 %s", c.B, strings.Join(c.Pieces, " "))
}

// stripPending turns the model's "… closed:<pending> pos=<n>" into ("… closed", pending, pos)
func stripPending(ans string) (string, string, string) {
	f := strings.Fields(ans)
	pend, pos := "", ""
	out := []string{}
	for _, t := range f {
		switch {
		case strings.HasPrefix(t, "closed:"):
			pend = strings.TrimPrefix(t, "closed:")
			out = append(out, "closed")
		case strings.HasPrefix(t, "pos="):
			pos = strings.TrimPrefix(t, "pos=")
		default:
			out = append(out, t)
		}
	}
	return strings.Join(out, " "), pend, pos
}

// lrSpec is the property on the reader's observable behaviour, without the model
func lrSpec(c lrCase, lines [][]byte) (kind, what string) {
	content := c.content()
	cat := bytes.Join(lines, nil)
	if !bytes.HasPrefix(content, cat) {
		return "bytes-not-in-order", "the returned lines concatenated are not a prefix of the source's bytes"
	}
	for _, l := range lines {
		if len(l) == 0 {
			return "record-shape", "empty line returned"
		}
		if l[len(l)-1] != '\n' && len(l) < c.B {
			return "record-shape", "a line without newline shorter than the buffer was returned"
		}
		if bytes.IndexByte(l[:len(l)-1], '\n') >= 0 {
			return "record-shape", "a returned line contains a newline before its last byte"
		}
	}
	hasX := false
	for _, p := range c.Pieces {
		if p == "X" {
			hasX = true
		}
	}
	if !hasX {
		// the whole script was delivered before the context was cancelled: everything through the last newline that
		// bufio could see must have been returned; what is left is a newline-free partial line
		if bytes.IndexByte(content[len(cat):], '\n') >= 0 {
			return "skipped-bytes", "a complete line of the source was never returned"
		}
	}
	return "", ""
}

var lrAlphabet = []string{"a", "b", "\n", "\n", "xyz", "0123456789", "\x00", "\xff", "\r\n", "é", "\n\n"}

func genLrCase(rng *vh.Rng) lrCase {
	c := lrCase{B: rng.PickI([]int{16, 16, 17, 20, 31, 32, 33, 48, 63, 64})}
	np := rng.Range(1, 8)
	for k := 0; k < np; k++ {
		switch {
		case rng.Chance(1, 4):
			c.Pieces = append(c.Pieces, "E")
			continue
		case rng.Chance(1, 25):
			c.Pieces = append(c.Pieces, "X")
			continue
		}
		var sb strings.Builder
		if rng.Chance(1, 3) {
			// a run around a multiple of the buffer size, with or without the newline
			n := rng.PickI([]int{c.B - 2, c.B - 1, c.B, c.B + 1, 2*c.B - 1, 2 * c.B, 2*c.B + 1, 3 * c.B})
			sb.WriteString(strings.Repeat("q", n))
			if rng.Bool() {
				sb.WriteString("\n")
			}
		} else {
			for j := rng.Range(1, 8); j > 0; j-- {
				sb.WriteString(rng.PickS(lrAlphabet))
			}
		}
		c.Pieces = append(c.Pieces, vh.HxS(sb.String()))
	}
	return c
}

func checkLrCases(sec *vh.Section, cases []lrCase) {
	lines := make([]string, len(cases))
	for i, c := range cases {
		lines[i] = lrLine(c)
	}
	var answers []string
	if driverUsable() {
		var err error
		answers, err = vh.Batch(args.Driver, lines)
		if err != nil {
			res.Fatal(args.Out, "driver: %v", err)
		}
	}
	for i, c := range cases {
		toks, got, pos := runLrImpl(c)
		key := ""
		if len(got) >= 2 || len(c.Pieces) >= 3 {
			key = lines[i]
		}
		res.Eval(sec, key)
		impl := strings.Join(toks, " ")
		implEqModel := true
		model := ""
		if answers != nil {
			var mpos string
			model, _, mpos = stripPending(answers[i])
			if model != impl || mpos != fmt.Sprint(pos) {
				implEqModel = false
				res.Mismatch(vh.Mismatch{Section: sec.Name, Function: "parser.lineReader.readLine (+ pos accounting)", Input: c,
					Impl: impl + " pos=" + fmt.Sprint(pos), Model: model + " pos=" + mpos})
			}
		}
		if kind, what := lrSpec(c, got); kind != "" {
			res.SpecFail(vh.SpecFailure{Section: sec.Name, Kind: kind, Input: c, Impl: impl, Spec: "lines = the source's bytes cut after each newline or at a full buffer, in order, none dropped",
				Model: model, ImplEqModel: implEqModel, What: what})
		}
	}
}

func driverUsable() bool {
	if args.Driver == "" {
		return false
	}
	st, err := os.Stat(args.Driver)
	if err != nil || st.Size() < 100000 { // /bin/true and stubs are not the model driver
		return false
	}
	return true
}

func lrCorpus(section string) (out []json.RawMessage) {
	for _, f := range vh.CorpusFiles(args.Corpus) {
		var rp struct {
			Section string          `json:"section"`
			Input   json.RawMessage `json:"input"`
		}
		if vh.ReadJSON(f, &rp) == nil && rp.Section == section {
			out = append(out, rp.Input)
		}
	}
	return
}

func sectionLineReader(rng *vh.Rng) {
	sec := res.Section("linereader", "unit-correspondence",
		"the real parser.lineReader (export NewVerifLineReader) over a scripted io.Reader — content appended in pieces, EOFs in between, cancellation at a scripted Read, bufio sizes 16..64 — against the Lean model (readLine/readSlice) token by token and against the direct SPEC (lines concatenated = prefix of the content, in order; every complete line returned; a line ends with newline or is >= B long; no inner newline). Exhaustive part: B=16, first line of every length 0..40 followed by \"yz\\n\", every cut position into two pieces, with and without an EOF between them. Random part: 1..8 pieces from a weighted alphabet incl. runs of B-2..3B bytes. non-trivial = at least 2 lines or 3 pieces, distinct by script")
	var cases []lrCase
	for _, raw := range lrCorpus("linereader") {
		var c lrCase
		if json.Unmarshal(raw, &c) == nil && c.B > 0 {
			cases = append(cases, c)
		}
	}
	// exhaustive small domain around B and 2B
	for L := 0; L <= 40; L++ {
		content := strings.Repeat("x", L) + "\nyz\n"
		for cut := 0; cut <= len(content); cut++ {
			for _, withEOF := range []bool{false, true} {
				c := lrCase{B: 16}
				if cut > 0 {
					c.Pieces = append(c.Pieces, vh.HxS(content[:cut]))
				}
				if withEOF {
					c.Pieces = append(c.Pieces, "E")
				}
				if cut < len(content) {
					c.Pieces = append(c.Pieces, vh.HxS(content[cut:]))
				}
				cases = append(cases, c)
			}
		}
	}
	res.Dist(sec, fmt.Sprintf("exhaustive=%d", len(cases)))
	n := 60000
	if args.Thorough {
		n = 600000
	}
	for i := 0; i < n; i++ {
		c := genLrCase(rng)
		res.Dist(sec, fmt.Sprintf("B=%d", c.B))
		if i < 2 {
			res.Sample(map[string]interface{}{"section": "linereader", "input": c})
		}
		cases = append(cases, c)
	}
	// in slices, to keep the driver's input bounded
	for len(cases) > 0 {
		k := len(cases)
		if k > 50000 {
			k = 50000
		}
		checkLrCases(sec, cases[:k])
		cases = cases[k:]
	}
	res.Done(sec)
	sectionParserPos(rng.Fork("parserpos"))
	sectionTwoPiece(rng.Fork("twopiece"))
}

func replayLineReader(input json.RawMessage) {
	var c lrCase
	if err := json.Unmarshal(input, &c); err != nil {
		res.Fatal(args.Out, "replay linereader: %v", err)
	}
	sec := res.Section("linereader", "replay", "replay of one recorded reader script")
	checkLrCases(sec, []lrCase{c})
	toks, _, pos := runLrImpl(c)
	fmt.Printf("impl : %s pos=%d\n", strings.Join(toks, " "), pos)
	if driverUsable() {
		a, _ := vh.Batch(args.Driver, []string{lrLine(c)})
		fmt.Printf("model: %s\n", strings.Join(a, ""))
	}
}

// ---------------------------------------------------------------------------------------------
// parser offsets on real files: NextRecord until EOF, GetStreamPos, SetStreamPos(k) and again

type posCase struct {
	Format  string `json:"format"`
	Content string `json:"content_hex"`
	Resume  int    `json:"resume_after_records"`
}

func runPosImpl(c posCase) (string, string, error) {
	dir := lrsrv.NewDir()
	defer os.RemoveAll(dir)
	fn := filepath.Join(dir, "app.log")
	content := vh.UnHx(c.Content)
	if err := os.WriteFile(fn, content, 0644); err != nil {
		return "", "", err
	}
	p, err := parser.NewParser(&parser.Config{File: fn, MaxRecSizeBytes: 64, DataFmt: parser.DataFormat(c.Format)})
	if err != nil {
		return "", "", err
	}
	defer p.Close()
	ctx, cancel := context.WithTimeout(context.Background(), 5*time.Second)
	defer cancel()
	readAll := func() string {
		var toks []string
		for k := 0; k < 10000; k++ {
			rec, err := p.NextRecord(ctx)
			if err != nil {
				if err == io.EOF {
					toks = append(toks, "eof")
				} else {
					toks = append(toks, "err")
				}
				break
			}
			toks = append(toks, vh.Hx(rec.Data))
		}
		return strings.Join(toks, " ") + fmt.Sprintf(" pos=%d", p.GetStreamPos())
	}
	if err := p.SetStreamPos(0); err != nil {
		return "", "", err
	}
	first := readAll()
	// resume at the end of the Resume-th record
	off := 0
	f := strings.Fields(first)
	for i := 0; i < c.Resume && i < len(f); i++ {
		if f[i] == "eof" || strings.HasPrefix(f[i], "pos=") {
			break
		}
		off += len(vh.UnHx(f[i]))
	}
	if err := p.SetStreamPos(int64(off)); err != nil {
		return "", "", err
	}
	second := readAll()
	return first, fmt.Sprintf("%d|%s", off, second), nil
}

// modelUpToEOF keeps the model's tokens up to and including the first eof and the position at that point
func modelUpToEOF(ans string, start int) string {
	var toks []string
	pos := start
	for _, t := range strings.Fields(ans) {
		if t == "eof" {
			toks = append(toks, "eof")
			break
		}
		if strings.HasPrefix(t, "closed") || strings.HasPrefix(t, "pos=") {
			break
		}
		toks = append(toks, t)
		pos += len(vh.UnHx(t))
	}
	return strings.Join(toks, " ") + fmt.Sprintf(" pos=%d", pos)
}

func sectionParserPos(rng *vh.Rng) {
	sec := res.Section("parserpos", "unit-correspondence",
		"the real pure and text parsers (record limit 64) on a real file whose content ends with a newline: NextRecord until io.EOF, GetStreamPos, then SetStreamPos(end of the k-th record) and NextRecord until EOF again — records and positions against the model (lr 64 <start> <content>) and the SPEC (position = start + bytes returned; the resumed run returns exactly the records after the k-th). non-trivial = at least 3 records or a line >= 64 bytes, distinct by content")
	n := 300
	if args.Thorough {
		n = 3000
	}
	var cases []posCase
	for _, raw := range lrCorpus("parserpos") {
		var c posCase
		if json.Unmarshal(raw, &c) == nil && c.Format != "" {
			cases = append(cases, c)
		}
	}
	for i := 0; i < n; i++ {
		var sb strings.Builder
		nl := rng.Range(1, 8)
		for j := 0; j < nl; j++ {
			L := rng.PickI([]int{0, 1, 5, 30, 62, 63, 64, 65, 127, 128, 129, 200})
			for k := 0; k < L; k++ {
				sb.WriteByte("abcXYZ \x00\xff\r"[rng.Intn(10)])
			}
			sb.WriteByte('\n')
		}
		cases = append(cases, posCase{Format: rng.PickS([]string{"pure", "text"}), Content: vh.HxS(sb.String()), Resume: rng.Range(0, nl+2)})
	}
	var lines []string
	type outT struct {
		first, second string
		off           int
		ok            bool
	}
	outs := make([]outT, len(cases))
	for i, c := range cases {
		first, second, err := runPosImpl(c)
		if err != nil {
			res.Note("parserpos: %v", err)
			continue
		}
		var off int
		fmt.Sscanf(second, "%d|", &off)
		outs[i] = outT{first, second[strings.Index(second, "|")+1:], off, true}
		content := vh.UnHx(c.Content)
		lines = append(lines, fmt.Sprintf("lr 64 0 %s", vh.Hx(content)), fmt.Sprintf("lr 64 %d %s", off, vh.Hx(content[off:])))
	}
	var answers []string
	if driverUsable() && len(lines) > 0 {
		var err error
		answers, err = vh.Batch(args.Driver, lines)
		if err != nil {
			res.Fatal(args.Out, "driver: %v", err)
		}
	}
	k := 0
	for i, c := range cases {
		o := outs[i]
		if !o.ok {
			continue
		}
		content := vh.UnHx(c.Content)
		key := ""
		if strings.Count(o.first, " ") >= 4 || len(content) >= 64 {
			key = c.Format + c.Content + fmt.Sprint(c.Resume)
		}
		res.Eval(sec, key)
		res.Dist(sec, c.Format)
		if answers != nil {
			m1, m2 := modelUpToEOF(answers[k], 0), modelUpToEOF(answers[k+1], o.off)
			if m1 != o.first || m2 != o.second {
				res.Mismatch(vh.Mismatch{Section: "parserpos", Function: "parser.NextRecord/GetStreamPos/SetStreamPos (" + c.Format + ")", Input: c,
					Impl: o.first + " || " + o.second, Model: m1 + " || " + m2})
			}
		}
		k += 2
		// SPEC
		check := func(ans string, start int) string {
			var cat []byte
			pos := -1
			for _, t := range strings.Fields(ans) {
				if strings.HasPrefix(t, "pos=") {
					fmt.Sscanf(t, "pos=%d", &pos)
				} else if t != "eof" && t != "err" {
					cat = append(cat, vh.UnHx(t)...)
				}
			}
			if !bytes.Equal(cat, content[start:]) {
				return "records from offset " + fmt.Sprint(start) + " are not the file's bytes from there"
			}
			if pos != start+len(cat) {
				return fmt.Sprintf("position %d is not start %d + %d bytes returned", pos, start, len(cat))
			}
			return ""
		}
		if w := check(o.first, 0); w != "" {
			res.SpecFail(vh.SpecFailure{Section: "parserpos", Kind: "offset-accounting", Input: c, Impl: o.first, Spec: "bytes of the file; pos = start + bytes", What: w})
		} else if w := check(o.second, o.off); w != "" {
			res.SpecFail(vh.SpecFailure{Section: "parserpos", Kind: "offset-accounting", Input: c, Impl: o.second, Spec: "bytes of the file from the resume offset; pos = start + bytes", What: w})
		}
	}
	res.Done(sec)
}

// ---------------------------------------------------------------------------------------------
// a line that reaches a real file in two pieces, the second one arriving while the reader waits in its 200 ms pause
// after the EOF (before its next poll): the record must be the file's bytes (payload compared, not only lengths)

type twoPieceCase struct {
	Format  string `json:"format"`
	First   string `json:"first_hex"`   // complete lines
	Partial string `json:"partial_hex"` // start of a line, no newline
	Rest    string `json:"rest_hex"`    // its continuation, ends with a newline
	DelayMs int    `json:"delay_ms"`
}

func runTwoPiece(c twoPieceCase) (impl string, err error) {
	dir := lrsrv.NewDir()
	defer os.RemoveAll(dir)
	fn := filepath.Join(dir, "app.log")
	first, partial, rest := vh.UnHx(c.First), vh.UnHx(c.Partial), vh.UnHx(c.Rest)
	if err = os.WriteFile(fn, append(append([]byte{}, first...), partial...), 0644); err != nil {
		return
	}
	p, err := parser.NewParser(&parser.Config{File: fn, MaxRecSizeBytes: 64, DataFmt: parser.DataFormat(c.Format)})
	if err != nil {
		return
	}
	defer p.Close()
	ctx, cancel := context.WithTimeout(context.Background(), 5*time.Second)
	defer cancel()
	if err = p.SetStreamPos(0); err != nil {
		return
	}
	var toks []string
	want := bytes.Count(first, []byte{'\n'}) // complete lines are shorter than the record limit here
	for k := 0; k < want; k++ {
		rec, e := p.NextRecord(ctx)
		if e != nil {
			return "", fmt.Errorf("record %d: %v", k, e)
		}
		toks = append(toks, vh.Hx(rec.Data))
	}
	type out struct {
		data []byte
		err  error
	}
	ch := make(chan out, 1)
	go func() {
		for {
			// sees the partial line at EOF: the reader pauses and polls again by itself, or (a reader that reports
			// EOF while it keeps the partial line) the caller polls again, as the worker loop does
			rec, e := p.NextRecord(ctx)
			if e == io.EOF && ctx.Err() == nil {
				time.Sleep(20 * time.Millisecond)
				continue
			}
			if e != nil {
				ch <- out{nil, e}
				return
			}
			ch <- out{append([]byte{}, rec.Data...), nil}
			return
		}
	}()
	time.Sleep(time.Duration(c.DelayMs) * time.Millisecond)
	f, e := os.OpenFile(fn, os.O_APPEND|os.O_WRONLY, 0644)
	if e != nil {
		return "", e
	}
	f.Write(rest)
	f.Close()
	select {
	case o := <-ch:
		if o.err != nil {
			toks = append(toks, "err")
		} else {
			toks = append(toks, vh.Hx(o.data))
		}
	case <-time.After(4 * time.Second):
		toks = append(toks, "timeout")
	}
	return strings.Join(toks, " ") + fmt.Sprintf(" pos=%d", p.GetStreamPos()), nil
}

// modelLines keeps the model's line tokens (every eof is a poll that found nothing new) and its final position
func modelLines(ans string) string {
	var toks []string
	pos := ""
	for _, t := range strings.Fields(ans) {
		switch {
		case t == "eof" || strings.HasPrefix(t, "closed") || strings.HasPrefix(t, "oof"):
		case strings.HasPrefix(t, "pos="):
			pos = t
		default:
			toks = append(toks, t)
		}
	}
	return strings.TrimSpace(strings.Join(toks, " ") + " " + pos)
}

func sectionTwoPiece(rng *vh.Rng) {
	sec := res.Section("twopiece", "unit-correspondence",
		"the real pure/text parsers on a real file whose last line is written in two pieces: the reader sees the first piece at EOF and pauses (200 ms); the continuation (with the newline) is appended 20-80 ms later, before the next poll; the record's payload bytes and the position against the model (lr 64 0 <first+partial> E <rest>) and the SPEC (record = the file's bytes of that line). The unchanged code is correct whatever the timing; only the power to see an aliasing defect depends on the continuation arriving within the pause. non-trivial = every case")
	n := 16
	if args.Thorough {
		n = 96
	}
	var cases []twoPieceCase
	for _, raw := range lrCorpus("twopiece") {
		var c twoPieceCase
		if json.Unmarshal(raw, &c) == nil && c.Format != "" {
			cases = append(cases, c)
		}
	}
	rnd := func(n int) string {
		var sb strings.Builder
		for k := 0; k < n; k++ {
			sb.WriteByte("abcdefghXYZ 0123;:"[rng.Intn(18)])
		}
		return sb.String()
	}
	for i := 0; i < n; i++ {
		var first strings.Builder
		for j := rng.Range(0, 2); j > 0; j-- {
			first.WriteString(rnd(rng.Range(0, 40)) + "\n")
		}
		cases = append(cases, twoPieceCase{Format: rng.PickS([]string{"pure", "text"}), First: vh.HxS(first.String()),
			Partial: vh.HxS(rnd(rng.Range(1, 30))), Rest: vh.HxS(rnd(rng.Range(1, 30)) + "\n"), DelayMs: rng.Range(20, 80)})
	}
	impls := make([]string, len(cases))
	errs := make([]error, len(cases))
	done := make(chan int, len(cases))
	for i := range cases {
		go func(i int) { impls[i], errs[i] = runTwoPiece(cases[i]); done <- i }(i)
	}
	for range cases {
		<-done
	}
	var lines []string
	for _, c := range cases {
		lines = append(lines, fmt.Sprintf("lr 64 0 %s E %s", vh.Hx(append(vh.UnHx(c.First), vh.UnHx(c.Partial)...)), c.Rest))
	}
	var answers []string
	if driverUsable() && len(lines) > 0 {
		var err error
		if answers, err = vh.Batch(args.Driver, lines); err != nil {
			res.Fatal(args.Out, "driver: %v", err)
		}
	}
	for i, c := range cases {
		if errs[i] != nil {
			res.Note("twopiece: %v", errs[i])
			continue
		}
		res.Eval(sec, c.Format+c.First+c.Partial+c.Rest)
		res.Dist(sec, c.Format)
		eq := true
		model := ""
		if answers != nil {
			model = modelLines(answers[i])
			if model != impls[i] {
				eq = false
				res.Mismatch(vh.Mismatch{Section: "twopiece", Function: "parser.NextRecord on a line appended in two pieces (" + c.Format + ")", Input: c, Impl: impls[i], Model: model})
			}
		}
		// SPEC
		all := append(append(vh.UnHx(c.First), vh.UnHx(c.Partial)...), vh.UnHx(c.Rest)...)
		var cat []byte
		for _, t := range strings.Fields(impls[i]) {
			if !strings.HasPrefix(t, "pos=") && t != "err" && t != "timeout" {
				cat = append(cat, vh.UnHx(t)...)
			}
		}
		if !bytes.Equal(cat, all) {
			res.SpecFail(vh.SpecFailure{Section: "twopiece", Kind: "payload-differs-from-file", Input: c, Impl: impls[i], Spec: vh.Hx(all), Model: model, ImplEqModel: eq,
				What: "the records handed over for a line that was appended in two pieces are not the file's bytes"})
		}
	}
	res.Done(sec)
}

func replayTwoPiece(input json.RawMessage) {
	var c twoPieceCase
	if err := json.Unmarshal(input, &c); err != nil {
		res.Fatal(args.Out, "replay twopiece: %v", err)
	}
	sec := res.Section("twopiece", "replay", "replay of one recorded two-piece line")
	impl, err := runTwoPiece(c)
	res.Eval(sec, "x")
	fmt.Printf("impl: %s err=%v\n", impl, err)
	all := append(append(vh.UnHx(c.First), vh.UnHx(c.Partial)...), vh.UnHx(c.Rest)...)
	var cat []byte
	for _, t := range strings.Fields(impl) {
		if !strings.HasPrefix(t, "pos=") && t != "err" && t != "timeout" {
			cat = append(cat, vh.UnHx(t)...)
		}
	}
	if !bytes.Equal(cat, all) {
		res.SpecFail(vh.SpecFailure{Section: "twopiece", Kind: "payload-differs-from-file", Input: c, Impl: impl, Spec: vh.Hx(all),
			What: "the records handed over for a line that was appended in two pieces are not the file's bytes"})
	}
}

// ---------------------------------------------------------------------------------------------
// mergeDescs
//
// A case names its files by index into a pool of real files (so that the second os.Stat of fix f247e22 has something
// to look at): "real sizes" are the pool files' sizes, the *scanned* size of a new descriptor may be stale (smaller),
// equal, or larger (the file shrank after the scan). Ids are real (utils.GetFileId) or, with Fake, another id for the
// same path (rotation: same name, new inode).

type descIn struct {
	File   int   `json:"file"` // index into the pool
	Fake   bool  `json:"fake_id,omitempty"`
	Offset int64 `json:"offset"`
	Size   int64 `json:"size"`             // LastSeenSize
	Missed bool  `json:"missed,omitempty"` // old descriptors: the scan before did not find the file (one-scan grace, repair of F61)
}

type descsCase struct {
	Old []descIn `json:"old"`
	New []descIn `json:"new"`
}

var descPoolSizes = []int64{0, 1, 10, 31, 64, 100}

type descPool struct {
	dir   string
	files []string
	ids   []string
}

func newDescPool() (*descPool, error) {
	p := &descPool{dir: lrsrv.NewDir()}
	for i, sz := range descPoolSizes {
		fn := filepath.Join(p.dir, fmt.Sprintf("f%d.log", i))
		if err := os.WriteFile(fn, bytes.Repeat([]byte{'x'}, int(sz)), 0644); err != nil {
			return nil, err
		}
		fi, err := os.Stat(fn)
		if err != nil {
			return nil, err
		}
		p.files = append(p.files, fn)
		p.ids = append(p.ids, utils.GetFileId(fn, fi))
	}
	return p, nil
}

func (p *descPool) desc(d descIn) scanner.VerifDesc {
	id := p.ids[d.File]
	if d.Fake {
		id = "other_" + id
	}
	return scanner.VerifDesc{Id: id, File: p.files[d.File], Offset: d.Offset, LastSeenSize: d.Size}
}

// tag is the canonical (path-independent) name of an id for the model and for comparison
func descTag(d descIn) string {
	if d.Fake {
		return fmt.Sprintf("o%d", d.File)
	}
	return fmt.Sprintf("r%d", d.File)
}

func descsLine(c descsCase) string {
	var sb strings.Builder
	fmt.Fprintf(&sb, "merge2 %d", len(c.Old))
	for _, d := range c.Old {
		m := 0
		if d.Missed && scanner.VerifDescHasMissed() { // a tree without the flag cannot be given one
			m = 1
		}
		fmt.Fprintf(&sb, " %s %d %d %d", vh.HxS(descTag(d)), d.Offset, d.Size, m)
	}
	fmt.Fprintf(&sb, " %d", len(c.New))
	for _, d := range c.New {
		restat := "-"
		if !d.Fake { // the second stat finds the pool file and its real id
			restat = fmt.Sprint(descPoolSizes[d.File])
		}
		fmt.Fprintf(&sb, " %s %d %d %s", vh.HxS(descTag(d)), d.Offset, d.Size, restat)
	}
	return sb.String()
}

func checkDescs(sec *vh.Section, pool *descPool, cases []descsCase) {
	lines := make([]string, len(cases))
	for i, c := range cases {
		lines[i] = descsLine(c)
	}
	var answers []string
	if driverUsable() {
		var err error
		answers, err = vh.Batch(args.Driver, lines)
		if err != nil {
			res.Fatal(args.Out, "driver: %v", err)
		}
	}
	for i, c := range cases {
		var old []scanner.VerifDescM
		var new []scanner.VerifDesc
		tagOf := map[string]string{}
		for _, d := range c.Old {
			v := pool.desc(d)
			old = append(old, scanner.VerifDescM{VerifDesc: v, Missed: d.Missed})
			tagOf[v.Id] = descTag(d)
		}
		for _, d := range c.New {
			v := pool.desc(d)
			new = append(new, v)
			tagOf[v.Id] = descTag(d)
		}
		// the whole result: the ids of the new scan in its order, then old descriptors kept although the scan did not
		// find them (none unless the code has the one-scan grace)
		got, kept := scanner.VerifMergeDescsAll(old, new)
		var toks []string
		for j, d := range got {
			k, m := 0, 0
			if kept[j] {
				k = 1
			}
			if d.Missed {
				m = 1
			}
			toks = append(toks, fmt.Sprintf("%s:%d:%d:%d:%d", vh.HxS(tagOf[d.Id]), d.Offset, d.LastSeenSize, k, m))
		}
		if len(got) > len(c.New) {
			res.Dist(sec, "old-descriptor-kept-although-not-scanned")
		}
		impl := strings.Join(toks, " ")
		if impl == "" {
			impl = "-"
		}
		key := ""
		if len(c.Old) > 0 && len(c.New) > 0 {
			key = lines[i]
		}
		res.Eval(sec, key)
		eq := true
		if answers != nil && answers[i] != impl {
			eq = false
			res.Mismatch(vh.Mismatch{Section: "descs", Function: "scanner.Scanner.mergeDescs", Input: c, Impl: impl, Model: answers[i]})
		}
		// SPEC (independent of how the merge finds its size): (a) an id that is new starts at the scanned offset 0;
		// (b) a file that only grew — seen size <= scanned size <= real size — whose offset is within the real size keeps
		// its offset, however stale the scanned size is; (c) a file whose real and scanned sizes are both below the seen
		// size or below the offset (truncated) starts at 0.
		oldBy := map[string]descIn{}
		for _, d := range c.Old {
			oldBy[descTag(d)] = d
		}
		for j, d := range got {
			if j >= len(c.New) {
				break // descriptors kept although the scan did not find them: compared with the model only
			}
			nd := c.New[j]
			od, known := oldBy[descTag(nd)]
			real := descPoolSizes[nd.File]
			want, rule := int64(-1), ""
			switch {
			case !known:
				want, rule = nd.Offset, "new id"
			case !nd.Fake && od.Size <= nd.Size && nd.Size <= real && od.Offset <= real:
				want, rule = od.Offset, "file only grew"
			case (nd.Size < od.Size || nd.Size < od.Offset) && (nd.Fake || real < od.Size || real < od.Offset):
				want, rule = nd.Offset, "file shrank"
			}
			if want >= 0 && d.Offset != want {
				kind := "replaced-file-not-from-beginning"
				if rule == "file only grew" {
					kind = "grown-file-offset-lost"
				}
				fid := ""
				if kind == "grown-file-offset-lost" && od.Offset > nd.Size && eq {
					fid = "F17b" // the stale-size class (fixed by f247e22): a recurrence
				}
				res.SpecFail(vh.SpecFailure{Section: "descs", Kind: kind, Input: c, Impl: impl, Spec: fmt.Sprintf("offset %d for %s (%s)", want, descTag(nd), rule), ImplEqModel: eq, Finding: fid,
					Model: func() string {
						if answers != nil {
							return answers[i]
						}
						return ""
					}(),
					What: "mergeDescs: a new or shrunk file must start at offset 0; a file that only grew keeps its offset even when the scanned size is older than the offset"})
				break
			}
		}
	}
}

func genDescsCase(rng *vh.Rng) descsCase {
	var c descsCase
	nf := len(descPoolSizes)
	for _, j := range rng.Perm(nf)[:rng.Range(0, 3)] {
		real := descPoolSizes[j]
		sz := int64(rng.PickI([]int{0, 1, 9, 10, 11, 17, 31, 64, 100}))
		if rng.Chance(1, 2) {
			sz = real - int64(rng.Intn(3))
			if sz < 0 {
				sz = 0
			}
		}
		off := sz
		switch rng.Intn(4) {
		case 0:
			off = int64(rng.Intn(int(sz) + 1))
		case 1:
			off = real // the worker has shipped everything that is in the file now (beyond the size seen last time)
		case 2:
			off = real + 1
		}
		c.Old = append(c.Old, descIn{File: j, Fake: rng.Chance(1, 6), Offset: off, Size: sz, Missed: rng.Chance(1, 4)})
	}
	for _, j := range rng.Perm(nf)[:rng.Range(0, 3)] {
		real := descPoolSizes[j]
		sz := real
		switch rng.Intn(4) {
		case 0:
			sz = real - int64(rng.Intn(int(real)+1)) // stale: the file grew after the scan's stat
		case 1:
			sz = real + int64(rng.Range(1, 3)) // the file shrank after the scan's stat
		}
		c.New = append(c.New, descIn{File: j, Fake: rng.Chance(1, 6), Offset: 0, Size: sz})
	}
	return c
}

func sectionDescs(rng *vh.Rng) {
	sec := res.Section("descs", "unit-correspondence",
		"the real Scanner.mergeDescs (export VerifMergeDescsAll: the whole result, also descriptors kept although the scan did not find their file, with the `missed` flag where the code has it) on generated old/new descriptor sets over a pool of 6 real files (sizes 0,1,10,31,64,100; real ids, or another id for the same path = rotation): old offsets within / equal to / beyond the seen size and the real size, scanned sizes stale (smaller than the real size), exact, or larger — against the Lean model (mergeDescs with the second stat as an input) and the SPEC (new id => offset 0; a file that only grew keeps its offset however stale the scanned size; a truncated file => 0). non-trivial = both sets non-empty, distinct by input")
	pool, err := newDescPool()
	if err != nil {
		res.Note("descs: %v", err)
		return
	}
	defer os.RemoveAll(pool.dir)
	var cases []descsCase
	for _, raw := range lrCorpus("descs") {
		var c descsCase
		if json.Unmarshal(raw, &c) == nil {
			cases = append(cases, c)
		}
	}
	// the stale-size class of F17b at unit level: 17 bytes scanned... here: file 3 (31 bytes), scanned 17, offset 31
	cases = append(cases, descsCase{Old: []descIn{{File: 3, Offset: 31, Size: 17}}, New: []descIn{{File: 3, Size: 17}}})
	n := 3000
	if args.Thorough {
		n = 60000
	}
	for i := 0; i < n; i++ {
		cases = append(cases, genDescsCase(rng))
	}
	checkDescs(sec, pool, cases)
	res.Done(sec)
}

func replayDescs(input json.RawMessage) {
	var c descsCase
	if err := json.Unmarshal(input, &c); err != nil {
		res.Fatal(args.Out, "replay descs: %v", err)
	}
	for _, d := range append(append([]descIn{}, c.Old...), c.New...) {
		if d.File < 0 || d.File >= len(descPoolSizes) {
			res.Fatal(args.Out, "replay descs: file index %d out of range", d.File)
		}
	}
	sec := res.Section("descs", "replay", "replay of one recorded descriptor merge")
	pool, err := newDescPool()
	if err != nil {
		res.Fatal(args.Out, "replay descs: %v", err)
	}
	defer os.RemoveAll(pool.dir)
	checkDescs(sec, pool, []descsCase{c})
}
