// C17 harness, unit part: the real lineReader on a scripted io.Reader, the real parsers' offset accounting on real
// files, and the real mergeDescs — each against the Lean model (driver lrmodel_c17) and against a direct SPEC.
package main

import (
	"bytes"
	"context"
	"encoding/json"
	"fmt"
	"io"
	"os"
	"path/filepath"
	"strings"
	"time"

	"github.com/logrange/logrange/pkg/scanner"
	"github.com/logrange/logrange/pkg/scanner/parser"
	"verifharness/internal/lrsrv"
	"verifharness/internal/vh"
)

// ---------------------------------------------------------------------------------------------
// scripted source: pieces are hex data ("61620a"), "E" (report EOF once), "X" (cancel the context while a Read runs).
// A used-up script cancels the context and reports EOF (so that every run ends).

type lrCase struct {
	B      int      `json:"b"`
	Pieces []string `json:"pieces"`
}

type scripted struct {
	pieces [][]byte // nil = E, empty non-nil = X
	i      int
	cancel context.CancelFunc
}

func (s *scripted) Read(p []byte) (int, error) {
	for {
		if s.i >= len(s.pieces) {
			s.cancel()
			return 0, io.EOF
		}
		pc := s.pieces[s.i]
		if pc == nil {
			s.i++
			return 0, io.EOF
		}
		if len(pc) == 0 {
			s.cancel()
			s.i++
			continue
		}
		n := copy(p, pc)
		if n < len(pc) {
			s.pieces[s.i] = pc[n:]
		} else {
			s.i++
		}
		return n, nil
	}
}

func (c lrCase) content() []byte {
	var b []byte
	for _, p := range c.Pieces {
		if p != "E" && p != "X" {
			b = append(b, vh.UnHx(p)...)
		}
	}
	return b
}

// runLrImpl drives the real lineReader; returns the answer in the driver's vocabulary (without the pending bytes)
func runLrImpl(c lrCase) (toks []string, lines [][]byte, pos int) {
	ctx, cancel := context.WithCancel(context.Background())
	defer cancel()
	src := &scripted{cancel: cancel}
	for _, p := range c.Pieces {
		switch p {
		case "E":
			src.pieces = append(src.pieces, nil)
		case "X":
			src.pieces = append(src.pieces, []byte{})
		default:
			src.pieces = append(src.pieces, append([]byte{}, vh.UnHx(p)...))
		}
	}
	lr := parser.NewVerifLineReader(src, c.B, 0)
	for k := 0; k < 100000; k++ {
		line, err := lr.ReadLine(ctx)
		if err == io.EOF {
			toks = append(toks, "eof")
			continue
		}
		if err != nil {
			toks = append(toks, "closed")
			break
		}
		cp := append([]byte{}, line...)
		lines = append(lines, cp)
		pos += len(cp)
		toks = append(toks, vh.Hx(cp))
	}
	return
}

func lrLine(c lrCase) string {
	return fmt.Sprintf("lr %d 0 %s", c.B, strings.Join(c.Pieces, " "))
}

// stripPending turns the model's "… closed:<pending> pos=<n>" into ("… closed", pending, pos)
func stripPending(ans string) (string, string, string) {
	f := strings.Fields(ans)
	pend, pos := "", ""
	out := []string{}
	for _, t := range f {
		switch {
		case strings.HasPrefix(t, "closed:"):
			pend = strings.TrimPrefix(t, "closed:")
			out = append(out, "closed")
		case strings.HasPrefix(t, "pos="):
			pos = strings.TrimPrefix(t, "pos=")
		default:
			out = append(out, t)
		}
	}
	return strings.Join(out, " "), pend, pos
}

// lrSpec is the property on the reader's observable behaviour, without the model
func lrSpec(c lrCase, lines [][]byte) (kind, what string) {
	content := c.content()
	cat := bytes.Join(lines, nil)
	if !bytes.HasPrefix(content, cat) {
		return "bytes-not-in-order", "the returned lines concatenated are not a prefix of the source's bytes"
	}
	for _, l := range lines {
		if len(l) == 0 {
			return "record-shape", "empty line returned"
		}
		if l[len(l)-1] != '\n' && len(l) < c.B {
			return "record-shape", "a line without newline shorter than the buffer was returned"
		}
		if bytes.IndexByte(l[:len(l)-1], '\n') >= 0 {
			return "record-shape", "a returned line contains a newline before its last byte"
		}
	}
	hasX := false
	for _, p := range c.Pieces {
		if p == "X" {
			hasX = true
		}
	}
	if !hasX {
		// the whole script was delivered before the context was cancelled: everything through the last newline that
		// bufio could see must have been returned; what is left is a newline-free partial line
		if bytes.IndexByte(content[len(cat):], '\n') >= 0 {
			return "skipped-bytes", "a complete line of the source was never returned"
		}
	}
	return "", ""
}

var lrAlphabet = []string{"a", "b", "\n", "\n", "xyz", "0123456789", "\x00", "\xff", "\r\n", "é", "\n\n"}

func genLrCase(rng *vh.Rng) lrCase {
	c := lrCase{B: rng.PickI([]int{16, 16, 17, 20, 31, 32, 33, 48, 63, 64})}
	np := rng.Range(1, 8)
	for k := 0; k < np; k++ {
		switch {
		case rng.Chance(1, 4):
			c.Pieces = append(c.Pieces, "E")
			continue
		case rng.Chance(1, 25):
			c.Pieces = append(c.Pieces, "X")
			continue
		}
		var sb strings.Builder
		if rng.Chance(1, 3) {
			// a run around a multiple of the buffer size, with or without the newline
			n := rng.PickI([]int{c.B - 2, c.B - 1, c.B, c.B + 1, 2*c.B - 1, 2 * c.B, 2*c.B + 1, 3 * c.B})
			sb.WriteString(strings.Repeat("q", n))
			if rng.Bool() {
				sb.WriteString("\n")
			}
		} else {
			for j := rng.Range(1, 8); j > 0; j-- {
				sb.WriteString(rng.PickS(lrAlphabet))
			}
		}
		c.Pieces = append(c.Pieces, vh.HxS(sb.String()))
	}
	return c
}

func checkLrCases(sec *vh.Section, cases []lrCase) {
	lines := make([]string, len(cases))
	for i, c := range cases {
		lines[i] = lrLine(c)
	}
	var answers []string
	if driverUsable() {
		var err error
		answers, err = vh.Batch(args.Driver, lines)
		if err != nil {
			res.Fatal(args.Out, "driver: %v", err)
		}
	}
	for i, c := range cases {
		toks, got, pos := runLrImpl(c)
		key := ""
		if len(got) >= 2 || len(c.Pieces) >= 3 {
			key = lines[i]
		}
		res.Eval(sec, key)
		impl := strings.Join(toks, " ")
		implEqModel := true
		model := ""
		if answers != nil {
			var mpos string
			model, _, mpos = stripPending(answers[i])
			if model != impl || mpos != fmt.Sprint(pos) {
				implEqModel = false
				res.Mismatch(vh.Mismatch{Section: sec.Name, Function: "parser.lineReader.readLine (+ pos accounting)", Input: c,
					Impl: impl + " pos=" + fmt.Sprint(pos), Model: model + " pos=" + mpos})
			}
		}
		if kind, what := lrSpec(c, got); kind != "" {
			res.SpecFail(vh.SpecFailure{Section: sec.Name, Kind: kind, Input: c, Impl: impl, Spec: "lines = the source's bytes cut after each newline or at a full buffer, in order, none dropped",
				Model: model, ImplEqModel: implEqModel, What: what})
		}
	}
}

func driverUsable() bool {
	if args.Driver == "" {
		return false
	}
	st, err := os.Stat(args.Driver)
	if err != nil || st.Size() < 100000 { // /bin/true and stubs are not the model driver
		return false
	}
	return true
}

func lrCorpus(section string) (out []json.RawMessage) {
	for _, f := range vh.CorpusFiles(args.Corpus) {
		var rp struct {
			Section string          `json:"section"`
			Input   json.RawMessage `json:"input"`
		}
		if vh.ReadJSON(f, &rp) == nil && rp.Section == section {
			out = append(out, rp.Input)
		}
	}
	return
}

func sectionLineReader(rng *vh.Rng) {
	sec := res.Section("linereader", "unit-correspondence",
		"the real parser.lineReader (export NewVerifLineReader) over a scripted io.Reader — content appended in pieces, EOFs in between, cancellation at a scripted Read, bufio sizes 16..64 — against the Lean model (readLine/readSlice) token by token and against the direct SPEC (lines concatenated = prefix of the content, in order; every complete line returned; a line ends with newline or is >= B long; no inner newline). Exhaustive part: B=16, first line of every length 0..40 followed by \"yz\\n\", every cut position into two pieces, with and without an EOF between them. Random part: 1..8 pieces from a weighted alphabet incl. runs of B-2..3B bytes. non-trivial = at least 2 lines or 3 pieces, distinct by script")
	var cases []lrCase
	for _, raw := range lrCorpus("linereader") {
		var c lrCase
		if json.Unmarshal(raw, &c) == nil && c.B > 0 {
			cases = append(cases, c)
		}
	}
	// exhaustive small domain around B and 2B
	for L := 0; L <= 40; L++ {
		content := strings.Repeat("x", L) + "\nyz\n"
		for cut := 0; cut <= len(content); cut++ {
			for _, withEOF := range []bool{false, true} {
				c := lrCase{B: 16}
				if cut > 0 {
					c.Pieces = append(c.Pieces, vh.HxS(content[:cut]))
				}
				if withEOF {
					c.Pieces = append(c.Pieces, "E")
				}
				if cut < len(content) {
					c.Pieces = append(c.Pieces, vh.HxS(content[cut:]))
				}
				cases = append(cases, c)
			}
		}
	}
	res.Dist(sec, fmt.Sprintf("exhaustive=%d", len(cases)))
	n := 60000
	if args.Thorough {
		n = 600000
	}
	for i := 0; i < n; i++ {
		c := genLrCase(rng)
		res.Dist(sec, fmt.Sprintf("B=%d", c.B))
		if i < 2 {
			res.Sample(map[string]interface{}{"section": "linereader", "input": c})
		}
		cases = append(cases, c)
	}
	// in slices, to keep the driver's input bounded
	for len(cases) > 0 {
		k := len(cases)
		if k > 50000 {
			k = 50000
		}
		checkLrCases(sec, cases[:k])
		cases = cases[k:]
	}
	res.Done(sec)
	sectionParserPos(rng.Fork("parserpos"))
}

func replayLineReader(input json.RawMessage) {
	var c lrCase
	if err := json.Unmarshal(input, &c); err != nil {
		res.Fatal(args.Out, "replay linereader: %v", err)
	}
	sec := res.Section("linereader", "replay", "replay of one recorded reader script")
	checkLrCases(sec, []lrCase{c})
	toks, _, pos := runLrImpl(c)
	fmt.Printf("impl : %s pos=%d\n", strings.Join(toks, " "), pos)
	if driverUsable() {
		a, _ := vh.Batch(args.Driver, []string{lrLine(c)})
		fmt.Printf("model: %s\n", strings.Join(a, ""))
	}
}

// ---------------------------------------------------------------------------------------------
// parser offsets on real files: NextRecord until EOF, GetStreamPos, SetStreamPos(k) and again

type posCase struct {
	Format  string `json:"format"`
	Content string `json:"content_hex"`
	Resume  int    `json:"resume_after_records"`
}

func runPosImpl(c posCase) (string, string, error) {
	dir := lrsrv.NewDir()
	defer os.RemoveAll(dir)
	fn := filepath.Join(dir, "app.log")
	content := vh.UnHx(c.Content)
	if err := os.WriteFile(fn, content, 0644); err != nil {
		return "", "", err
	}
	p, err := parser.NewParser(&parser.Config{File: fn, MaxRecSizeBytes: 64, DataFmt: parser.DataFormat(c.Format)})
	if err != nil {
		return "", "", err
	}
	defer p.Close()
	ctx, cancel := context.WithTimeout(context.Background(), 5*time.Second)
	defer cancel()
	readAll := func() string {
		var toks []string
		for k := 0; k < 10000; k++ {
			rec, err := p.NextRecord(ctx)
			if err != nil {
				if err == io.EOF {
					toks = append(toks, "eof")
				} else {
					toks = append(toks, "err")
				}
				break
			}
			toks = append(toks, vh.Hx(rec.Data))
		}
		return strings.Join(toks, " ") + fmt.Sprintf(" pos=%d", p.GetStreamPos())
	}
	if err := p.SetStreamPos(0); err != nil {
		return "", "", err
	}
	first := readAll()
	// resume at the end of the Resume-th record
	off := 0
	f := strings.Fields(first)
	for i := 0; i < c.Resume && i < len(f); i++ {
		if f[i] == "eof" || strings.HasPrefix(f[i], "pos=") {
			break
		}
		off += len(vh.UnHx(f[i]))
	}
	if err := p.SetStreamPos(int64(off)); err != nil {
		return "", "", err
	}
	second := readAll()
	return first, fmt.Sprintf("%d|%s", off, second), nil
}

// modelUpToEOF keeps the model's tokens up to and including the first eof and the position at that point
func modelUpToEOF(ans string, start int) string {
	var toks []string
	pos := start
	for _, t := range strings.Fields(ans) {
		if t == "eof" {
			toks = append(toks, "eof")
			break
		}
		if strings.HasPrefix(t, "closed") || strings.HasPrefix(t, "pos=") {
			break
		}
		toks = append(toks, t)
		pos += len(vh.UnHx(t))
	}
	return strings.Join(toks, " ") + fmt.Sprintf(" pos=%d", pos)
}

func sectionParserPos(rng *vh.Rng) {
	sec := res.Section("parserpos", "unit-correspondence",
		"the real pure and text parsers (record limit 64) on a real file whose content ends with a newline: NextRecord until io.EOF, GetStreamPos, then SetStreamPos(end of the k-th record) and NextRecord until EOF again — records and positions against the model (lr 64 <start> <content>) and the SPEC (position = start + bytes returned; the resumed run returns exactly the records after the k-th). non-trivial = at least 3 records or a line >= 64 bytes, distinct by content")
	n := 300
	if args.Thorough {
		n = 3000
	}
	var cases []posCase
	for _, raw := range lrCorpus("parserpos") {
		var c posCase
		if json.Unmarshal(raw, &c) == nil && c.Format != "" {
			cases = append(cases, c)
		}
	}
	for i := 0; i < n; i++ {
		var sb strings.Builder
		nl := rng.Range(1, 8)
		for j := 0; j < nl; j++ {
			L := rng.PickI([]int{0, 1, 5, 30, 62, 63, 64, 65, 127, 128, 129, 200})
			for k := 0; k < L; k++ {
				sb.WriteByte("abcXYZ \x00\xff\r"[rng.Intn(10)])
			}
			sb.WriteByte('\n')
		}
		cases = append(cases, posCase{Format: rng.PickS([]string{"pure", "text"}), Content: vh.HxS(sb.String()), Resume: rng.Range(0, nl+2)})
	}
	var lines []string
	type outT struct {
		first, second string
		off           int
		ok            bool
	}
	outs := make([]outT, len(cases))
	for i, c := range cases {
		first, second, err := runPosImpl(c)
		if err != nil {
			res.Note("parserpos: %v", err)
			continue
		}
		var off int
		fmt.Sscanf(second, "%d|", &off)
		outs[i] = outT{first, second[strings.Index(second, "|")+1:], off, true}
		content := vh.UnHx(c.Content)
		lines = append(lines, fmt.Sprintf("lr 64 0 %s", vh.Hx(content)), fmt.Sprintf("lr 64 %d %s", off, vh.Hx(content[off:])))
	}
	var answers []string
	if driverUsable() && len(lines) > 0 {
		var err error
		answers, err = vh.Batch(args.Driver, lines)
		if err != nil {
			res.Fatal(args.Out, "driver: %v", err)
		}
	}
	k := 0
	for i, c := range cases {
		o := outs[i]
		if !o.ok {
			continue
		}
		content := vh.UnHx(c.Content)
		key := ""
		if strings.Count(o.first, " ") >= 4 || len(content) >= 64 {
			key = c.Format + c.Content + fmt.Sprint(c.Resume)
		}
		res.Eval(sec, key)
		res.Dist(sec, c.Format)
		if answers != nil {
			m1, m2 := modelUpToEOF(answers[k], 0), modelUpToEOF(answers[k+1], o.off)
			if m1 != o.first || m2 != o.second {
				res.Mismatch(vh.Mismatch{Section: "parserpos", Function: "parser.NextRecord/GetStreamPos/SetStreamPos (" + c.Format + ")", Input: c,
					Impl: o.first + " || " + o.second, Model: m1 + " || " + m2})
			}
		}
		k += 2
		// SPEC
		check := func(ans string, start int) string {
			var cat []byte
			pos := -1
			for _, t := range strings.Fields(ans) {
				if strings.HasPrefix(t, "pos=") {
					fmt.Sscanf(t, "pos=%d", &pos)
				} else if t != "eof" && t != "err" {
					cat = append(cat, vh.UnHx(t)...)
				}
			}
			if !bytes.Equal(cat, content[start:]) {
				return "records from offset " + fmt.Sprint(start) + " are not the file's bytes from there"
			}
			if pos != start+len(cat) {
				return fmt.Sprintf("position %d is not start %d + %d bytes returned", pos, start, len(cat))
			}
			return ""
		}
		if w := check(o.first, 0); w != "" {
			res.SpecFail(vh.SpecFailure{Section: "parserpos", Kind: "offset-accounting", Input: c, Impl: o.first, Spec: "bytes of the file; pos = start + bytes", What: w})
		} else if w := check(o.second, o.off); w != "" {
			res.SpecFail(vh.SpecFailure{Section: "parserpos", Kind: "offset-accounting", Input: c, Impl: o.second, Spec: "bytes of the file from the resume offset; pos = start + bytes", What: w})
		}
	}
	res.Done(sec)
}

// ---------------------------------------------------------------------------------------------
// mergeDescs

type descsCase struct {
	Old []scanner.VerifDesc `json:"old"`
	New []scanner.VerifDesc `json:"new"`
}

func descsLine(c descsCase) string {
	var sb strings.Builder
	fmt.Fprintf(&sb, "merge %d", len(c.Old))
	for _, d := range c.Old {
		fmt.Fprintf(&sb, " %s %d %d", vh.HxS(d.Id), d.Offset, d.LastSeenSize)
	}
	fmt.Fprintf(&sb, " %d", len(c.New))
	for _, d := range c.New {
		fmt.Fprintf(&sb, " %s %d %d", vh.HxS(d.Id), d.Offset, d.LastSeenSize)
	}
	return sb.String()
}

func checkDescs(sec *vh.Section, cases []descsCase) {
	lines := make([]string, len(cases))
	for i, c := range cases {
		lines[i] = descsLine(c)
	}
	var answers []string
	if driverUsable() {
		var err error
		answers, err = vh.Batch(args.Driver, lines)
		if err != nil {
			res.Fatal(args.Out, "driver: %v", err)
		}
	}
	for i, c := range cases {
		got, kept := scanner.VerifMergeDescs(c.Old, c.New)
		var toks []string
		for j, d := range got {
			k := 0
			if kept[j] {
				k = 1
			}
			toks = append(toks, fmt.Sprintf("%s:%d:%d:%d", vh.HxS(d.Id), d.Offset, d.LastSeenSize, k))
		}
		impl := strings.Join(toks, " ")
		if impl == "" {
			impl = "-"
		}
		key := ""
		if len(c.Old) > 0 && len(c.New) > 0 {
			key = lines[i]
		}
		res.Eval(sec, key)
		eq := true
		if answers != nil && answers[i] != impl {
			eq = false
			res.Mismatch(vh.Mismatch{Section: "descs", Function: "scanner.Scanner.mergeDescs", Input: c, Impl: impl, Model: answers[i]})
		}
		// SPEC: a file that is new under its id, or whose size shrank below what was seen / below the offset, starts at 0;
		// a file that only grew keeps its offset
		old := map[string]scanner.VerifDesc{}
		for _, d := range c.Old {
			old[d.Id] = d
		}
		for j, d := range got {
			nd := c.New[j]
			od, known := old[d.Id]
			want := nd.Offset
			if known && od.LastSeenSize <= nd.LastSeenSize && od.Offset <= nd.LastSeenSize {
				want = od.Offset
			}
			if d.Offset != want {
				kind := "replaced-file-not-from-beginning"
				if want != 0 {
					kind = "grown-file-offset-lost"
				}
				res.SpecFail(vh.SpecFailure{Section: "descs", Kind: kind, Input: c, Impl: impl, Spec: fmt.Sprintf("offset %d for id %q", want, d.Id), ImplEqModel: eq,
					What: "mergeDescs: a new or shrunk file must start at offset 0, a file that only grew keeps its offset"})
				break
			}
		}
	}
}

func sectionDescs(rng *vh.Rng) {
	sec := res.Section("descs", "unit-correspondence",
		"the real Scanner.mergeDescs (export VerifMergeDescs) on generated old/new descriptor sets (ids from a pool of 4, offsets and sizes around each other: offset = size, size shrunk by one, grown, zero) against the Lean model (mergeDescs) and the SPEC (new id or shrunk file => offset 0; grown file keeps its offset). non-trivial = both sets non-empty, distinct by input")
	var cases []descsCase
	for _, raw := range lrCorpus("descs") {
		var c descsCase
		if json.Unmarshal(raw, &c) == nil {
			cases = append(cases, c)
		}
	}
	ids := []string{"p1_11_1", "p1_12_1", "p2_11_1", "p3_7_2"}
	n := 3000
	if args.Thorough {
		n = 60000
	}
	for i := 0; i < n; i++ {
		var c descsCase
		for _, j := range rng.Perm(len(ids))[:rng.Range(0, 3)] {
			sz := int64(rng.PickI([]int{0, 1, 10, 64, 100}))
			off := sz
			if rng.Bool() {
				off = int64(rng.Intn(int(sz) + 1))
			}
			c.Old = append(c.Old, scanner.VerifDesc{Id: ids[j], File: "/f" + ids[j][:2], Offset: off, LastSeenSize: sz})
		}
		for _, j := range rng.Perm(len(ids))[:rng.Range(0, 3)] {
			sz := int64(rng.PickI([]int{0, 1, 9, 10, 11, 63, 64, 65, 100, 101}))
			c.New = append(c.New, scanner.VerifDesc{Id: ids[j], File: "/f" + ids[j][:2], Offset: 0, LastSeenSize: sz})
		}
		cases = append(cases, c)
	}
	checkDescs(sec, cases)
	res.Done(sec)
}

func replayDescs(input json.RawMessage) {
	var c descsCase
	if err := json.Unmarshal(input, &c); err != nil {
		res.Fatal(args.Out, "replay descs: %v", err)
	}
	sec := res.Section("descs", "replay", "replay of one recorded descriptor merge")
	checkDescs(sec, []descsCase{c})
}
