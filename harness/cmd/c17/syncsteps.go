// C17 harness: unit-level correspondence of Model/ScanSync.lean (scan / merge / open / check against replacements of the
// watched name) with the real Scanner.sync, driven call by call (export NewVerifStepScanner; no tickers). A case is a
// sequence of syncs; before a sync and — through the hook scanner.sync.afterScanPaths — between its scanPaths and its
// mergeDescs the name is replaced a generated number of times (rename away + create; every generation has its own
// content). The model gets the same label sequence. Compared after every case: for every generation, how many workers
// were started on it (model: `opened = some g`; implementation: how often its content was confirmed, each time from its
// first byte). The window between the parser's open and the id check is reached through the hook
// scanner.newWorkerConfig.afterOpen (cases that need it are skipped on a tree without that hook line).
package main

import (
	"bytes"
	"context"
	"encoding/json"
	"fmt"
	"os"
	"path/filepath"
	"sort"
	"strconv"
	"strings"
	"sync"
	"time"

	"github.com/logrange/logrange/pkg/scanner"
	"github.com/logrange/logrange/pkg/scanner/model"
	"github.com/logrange/logrange/pkg/utils/verifhook"
	"verifharness/internal/lrsrv"
	"verifharness/internal/vh"
)

type syncStep struct {
	Before int `json:"before"` // replacements before the sync
	Inside int `json:"inside"` // replacements between scanPaths and mergeDescs of the sync
	// replacements between the parser's open of the path and the id check (hook scanner.newWorkerConfig.afterOpen; it
	// only runs when the sync starts a worker)
	AfterOpen int `json:"after_open,omitempty"`
}

type syncCase struct {
	Section string     `json:"section"`
	Steps   []syncStep `json:"steps"`
}

const syncStepsRule = "the real Scanner.sync called step by step on one watched name (export NewVerifStepScanner, fresh session) against Model/ScanSync.lean (driver request `sync`): before each sync and, through the hook scanner.sync.afterScanPaths, between its scanPaths and its mergeDescs and, through the hook scanner.newWorkerConfig.afterOpen, between the parser's open of the path and the id check the name is replaced 0..2 times (rename away + create, each generation with its own two lines); the model's label sequence is recorded as things happen. " +
	"MODEL: for every generation the number of workers started on it. SPEC: no generation is confirmed more than once, each from its first byte, and the generation under the name after the last (quiet) sync is confirmed. non-trivial = at least one replacement, distinct by script"

func genContent(g int) []byte {
	return []byte(fmt.Sprintf("gen%d first line\ngen%d second line\n", g, g))
}

// modelStarts parses `cur=… hit=… workers=k:o:off,…` into generation -> number of workers that opened it
func modelStarts(ans string) (map[int]int, bool) {
	i := strings.Index(ans, "workers=")
	if i < 0 {
		return nil, false
	}
	m := map[int]int{}
	for _, w := range strings.Split(ans[i+len("workers="):], ",") {
		p := strings.Split(w, ":")
		if len(p) != 3 {
			continue
		}
		if g, err := strconv.Atoi(p[1]); err == nil {
			m[g]++
		}
	}
	return m, true
}

func showStarts(m map[int]int) string {
	var ks []int
	for k := range m {
		ks = append(ks, k)
	}
	sort.Ints(ks)
	var sb strings.Builder
	for _, k := range ks {
		fmt.Fprintf(&sb, "gen%d×%d ", k, m[k])
	}
	return strings.TrimSpace(sb.String())
}

// the hook is process-global: one case at a time
func runSyncCase(c syncCase, sec *vh.Section) {
	c.Section = "syncsteps"
	if !verifhook.Enabled {
		res.Note("syncsteps: hooks are not compiled in (build tag verif missing)")
		return
	}
	dir := lrsrv.NewDir()
	defer os.RemoveAll(dir)
	fn := filepath.Join(dir, "app.log")
	gen := 0
	if err := os.WriteFile(fn, genContent(0), 0644); err != nil {
		res.Note("syncsteps: %v", err)
		return
	}
	// the label sequence of the model is recorded as things happen (the after-open hook only runs when a worker is started)
	var labels []string
	replace := func() {
		os.Rename(fn, fmt.Sprintf("%s.%d", fn, gen))
		gen++
		os.WriteFile(fn, genContent(gen), 0644)
		labels = append(labels, "r")
	}
	var clock int64
	vs, err := scanner.NewVerifStepScanner(scanCfg(fn, "pure", 2, 3600, 3600), newMemStorage(&clock))
	if err != nil {
		res.Note("syncsteps: %v", err)
		return
	}
	ctx, cancel := context.WithCancel(context.Background())
	events := make(chan *model.Event)
	var mu sync.Mutex
	var confirmed []byte
	var cwg sync.WaitGroup
	cwg.Add(1)
	go func() {
		defer cwg.Done()
		for {
			select {
			case <-ctx.Done():
				return
			case ev := <-events:
				var pay []byte
				for _, r := range ev.Records {
					if r != nil {
						pay = append(pay, r.Data...)
					}
				}
				if ev.Confirm() {
					mu.Lock()
					confirmed = append(confirmed, pay...)
					mu.Unlock()
				}
			}
		}
	}()
	inside, afterOpen, openHooks := 0, 0, 0
	verifhook.Set("scanner.sync.afterScanPaths", func() {
		for i := 0; i < inside; i++ {
			replace()
		}
		labels = append(labels, "m", "o")
	})
	verifhook.Set("scanner.newWorkerConfig.afterOpen", func() {
		openHooks++
		for ; afterOpen > 0; afterOpen-- {
			replace()
		}
	})
	nRepl, wantAfterOpen := 0, false
	for _, s := range c.Steps {
		for i := 0; i < s.Before; i++ {
			replace()
		}
		inside, afterOpen = s.Inside, s.AfterOpen
		wantAfterOpen = wantAfterOpen || s.AfterOpen > 0
		nRepl += s.Before + s.Inside
		labels = append(labels, "s")
		vs.Sync(ctx, events)
		labels = append(labels, "c")
	}
	verifhook.Reset()
	if wantAfterOpen && openHooks == 0 {
		res.Note("syncsteps: the hook scanner.newWorkerConfig.afterOpen is not in this tree: cases with replacements between open and id check are skipped")
		cancel()
		cwg.Wait()
		vs.Wait()
		return
	}
	answer := ""
	if driverUsable() {
		if ans, err := vh.Batch(args.Driver, []string{"sync " + strings.Join(labels, " ")}); err == nil && len(ans) == 1 {
			answer = ans[0]
		}
	}
	// every started worker reads its file at once (two lines = one event); wait until nothing new has arrived for 400 ms
	// (at most 5 s)
	last, lastLen := time.Now(), -1
	for t0 := time.Now(); time.Since(t0) < 5*time.Second && time.Since(last) < 400*time.Millisecond; time.Sleep(20 * time.Millisecond) {
		mu.Lock()
		n := len(confirmed)
		mu.Unlock()
		if n != lastLen {
			last, lastLen = time.Now(), n
		}
	}
	cancel()
	cwg.Wait()
	vs.Wait()
	key := ""
	for _, l := range labels {
		if l == "r" {
			key = digest(c)
		}
	}
	_ = nRepl
	res.Eval(sec, key)
	res.Dist(sec, fmt.Sprintf("replacement-between-open-and-id-check=%v", strings.Contains(strings.Join(labels, ""), "orc") || strings.Contains(strings.Join(labels, ""), "orr")))
	res.Dist(sec, fmt.Sprintf("replacements-inside-a-sync=%v", func() bool {
		for _, s := range c.Steps {
			if s.Inside > 0 {
				return true
			}
		}
		return false
	}()))
	// implementation: how often each generation's content was confirmed; anything else is a fragment
	impl := map[int]int{}
	rest := confirmed
	for len(rest) > 0 {
		found := false
		for g := 0; g <= gen; g++ {
			if bytes.HasPrefix(rest, genContent(g)) {
				impl[g]++
				rest = rest[len(genContent(g)):]
				found = true
				break
			}
		}
		if !found {
			res.SpecFail(vh.SpecFailure{Section: "syncsteps", Kind: "not-from-the-beginning", Input: c, Impl: short(rest), Spec: "whole generations, each from its first byte",
				What: "a worker delivered something that is not a generation's content from its first byte"})
			return
		}
	}
	eq := true
	if answer != "" {
		if want, ok := modelStarts(answer); ok && showStarts(want) != showStarts(impl) {
			eq = false
			res.Mismatch(vh.Mismatch{Section: "syncsteps", Function: "scanner.Scanner.sync (scanPaths / mergeDescs / syncWorkers / newWorkerConfig)", Input: c, Impl: showStarts(impl), Model: showStarts(want) + "   (" + answer + ")"})
		}
	}
	for g, n := range impl {
		if n > 1 {
			fid := ""
			if eq {
				fid = "F-C17-901"
			}
			res.SpecFail(vh.SpecFailure{Section: "syncsteps", Kind: "replaced-between-scan-and-open-shipped-twice", Input: c, Finding: fid, ImplEqModel: eq, Model: answer,
				Impl: fmt.Sprintf("generation %d confirmed %d times (%s)", g, n, showStarts(impl)), Spec: "every generation at most once",
				What: "a file that came under the watched name was shipped more than once: two workers were started on it"})
			return
		}
	}
	if last := c.Steps[len(c.Steps)-1]; last.Inside == 0 && last.AfterOpen == 0 && impl[gen] != 1 {
		res.SpecFail(vh.SpecFailure{Section: "syncsteps", Kind: "current-file-not-watched", Input: c, ImplEqModel: eq, Model: answer,
			Impl: showStarts(impl), Spec: fmt.Sprintf("gen%d×1 among them", gen),
			What: "after a sync without a replacement inside, the file under the name must be read by one worker, from its beginning"})
	}
}

func genSyncCase(rng *vh.Rng) syncCase {
	var c syncCase
	for i, n := 0, rng.Range(1, 4); i < n; i++ {
		s := syncStep{}
		if rng.Chance(1, 2) {
			s.Before = rng.Range(1, 2)
		}
		if rng.Chance(1, 3) {
			s.Inside = rng.Range(1, 2)
		}
		if rng.Chance(1, 4) {
			s.AfterOpen = rng.Range(1, 2)
		}
		c.Steps = append(c.Steps, s)
	}
	return c
}

func sectionSyncSteps(rng *vh.Rng) {
	sec := res.Section("syncsteps", "unit-correspondence", syncStepsRule)
	defer res.Done(sec)
	cases := []syncCase{
		{Steps: []syncStep{{}, {}}},                         // no replacement
		{Steps: []syncStep{{Inside: 1}, {}}},                // the F-C17-901 schedule
		{Steps: []syncStep{{}, {Before: 2}}},                // twice between two syncs
		{Steps: []syncStep{{}, {Before: 1, Inside: 1}, {}}}, // before and inside
		{Steps: []syncStep{{AfterOpen: 1}, {}}},             // between the parser's open and the id check
		{Steps: []syncStep{{}, {Before: 1, AfterOpen: 2}, {}}},
	}
	n := 12
	if args.Thorough {
		n = 120
	}
	for i := 0; i < n; i++ {
		cases = append(cases, genSyncCase(rng))
	}
	for _, c := range cases {
		runSyncCase(c, sec)
	}
}

func replaySyncSteps(input json.RawMessage) {
	var c syncCase
	if err := json.Unmarshal(input, &c); err != nil || len(c.Steps) == 0 {
		res.Fatal(args.Out, "replay syncsteps: %v", err)
	}
	sec := res.Section("syncsteps", "unit-correspondence", syncStepsRule)
	runSyncCase(c, sec)
}
