// C17 harness: unit-level correspondence of Model/ScanSync.lean (scan / merge / open / check against replacements of the
// watched name) with the real Scanner.sync, driven call by call (export NewVerifStepScanner; no tickers). A case is a
// sequence of syncs; before a sync and — through the hook scanner.sync.afterScanPaths — between its scanPaths and its
// mergeDescs the name is replaced a generated number of times (rename away + create; every generation has its own
// content). The model gets the same label sequence. Compared after every case: for every generation, how many workers
// were started on it (model: `opened = some g`; implementation: how often its content was confirmed, each time from its
// first byte). The window between the parser's open and the id check has no hook: it is covered by the theorems only.
package main

import (
	"bytes"
	"context"
	"encoding/json"
	"fmt"
	"os"
	"path/filepath"
	"sort"
	"strconv"
	"strings"
	"sync"
	"time"

	"github.com/logrange/logrange/pkg/scanner"
	"github.com/logrange/logrange/pkg/scanner/model"
	"github.com/logrange/logrange/pkg/utils/verifhook"
	"verifharness/internal/lrsrv"
	"verifharness/internal/vh"
)

type syncStep struct {
	Before int `json:"before"` // replacements before the sync
	Inside int `json:"inside"` // replacements between scanPaths and mergeDescs of the sync
}

type syncCase struct {
	Section string     `json:"section"`
	Steps   []syncStep `json:"steps"`
}

const syncStepsRule = "the real Scanner.sync called step by step on one watched name (export NewVerifStepScanner, fresh session) against Model/ScanSync.lean (driver request `sync`): before each sync and, through the hook scanner.sync.afterScanPaths, between its scanPaths and its mergeDescs the name is replaced 0..2 times (rename away + create, each generation with its own two lines). " +
	"MODEL: for every generation the number of workers started on it. SPEC: no generation is confirmed more than once, each from its first byte, and the generation under the name after the last (quiet) sync is confirmed. non-trivial = at least one replacement, distinct by script"

func genContent(g int) []byte {
	return []byte(fmt.Sprintf("gen%d first line\ngen%d second line\n", g, g))
}

func syncLabels(c syncCase) string {
	var ls []string
	for _, s := range c.Steps {
		for i := 0; i < s.Before; i++ {
			ls = append(ls, "r")
		}
		ls = append(ls, "s")
		for i := 0; i < s.Inside; i++ {
			ls = append(ls, "r")
		}
		ls = append(ls, "m", "o", "c")
	}
	return "sync " + strings.Join(ls, " ")
}

// modelStarts parses `cur=… hit=… workers=k:o:off,…` into generation -> number of workers that opened it
func modelStarts(ans string) (map[int]int, bool) {
	i := strings.Index(ans, "workers=")
	if i < 0 {
		return nil, false
	}
	m := map[int]int{}
	for _, w := range strings.Split(ans[i+len("workers="):], ",") {
		p := strings.Split(w, ":")
		if len(p) != 3 {
			continue
		}
		if g, err := strconv.Atoi(p[1]); err == nil {
			m[g]++
		}
	}
	return m, true
}

func showStarts(m map[int]int) string {
	var ks []int
	for k := range m {
		ks = append(ks, k)
	}
	sort.Ints(ks)
	var sb strings.Builder
	for _, k := range ks {
		fmt.Fprintf(&sb, "gen%d×%d ", k, m[k])
	}
	return strings.TrimSpace(sb.String())
}

// the hook is process-global: one case at a time
func runSyncCase(c syncCase, sec *vh.Section, answer string) {
	c.Section = "syncsteps"
	if !verifhook.Enabled {
		res.Note("syncsteps: hooks are not compiled in (build tag verif missing)")
		return
	}
	dir := lrsrv.NewDir()
	defer os.RemoveAll(dir)
	fn := filepath.Join(dir, "app.log")
	gen := 0
	if err := os.WriteFile(fn, genContent(0), 0644); err != nil {
		res.Note("syncsteps: %v", err)
		return
	}
	replace := func() {
		os.Rename(fn, fmt.Sprintf("%s.%d", fn, gen))
		gen++
		os.WriteFile(fn, genContent(gen), 0644)
	}
	var clock int64
	vs, err := scanner.NewVerifStepScanner(scanCfg(fn, "pure", 2, 3600, 3600), newMemStorage(&clock))
	if err != nil {
		res.Note("syncsteps: %v", err)
		return
	}
	ctx, cancel := context.WithCancel(context.Background())
	events := make(chan *model.Event)
	var mu sync.Mutex
	var confirmed []byte
	var cwg sync.WaitGroup
	cwg.Add(1)
	go func() {
		defer cwg.Done()
		for {
			select {
			case <-ctx.Done():
				return
			case ev := <-events:
				var pay []byte
				for _, r := range ev.Records {
					if r != nil {
						pay = append(pay, r.Data...)
					}
				}
				if ev.Confirm() {
					mu.Lock()
					confirmed = append(confirmed, pay...)
					mu.Unlock()
				}
			}
		}
	}()
	inside := 0
	verifhook.Set("scanner.sync.afterScanPaths", func() {
		for i := 0; i < inside; i++ {
			replace()
		}
	})
	nRepl := 0
	for _, s := range c.Steps {
		for i := 0; i < s.Before; i++ {
			replace()
		}
		inside = s.Inside
		nRepl += s.Before + s.Inside
		vs.Sync(ctx, events)
	}
	verifhook.Reset()
	// every started worker reads its file at once (two lines = one event); wait until nothing new has arrived for 400 ms
	// (at most 5 s)
	last, lastLen := time.Now(), -1
	for t0 := time.Now(); time.Since(t0) < 5*time.Second && time.Since(last) < 400*time.Millisecond; time.Sleep(20 * time.Millisecond) {
		mu.Lock()
		n := len(confirmed)
		mu.Unlock()
		if n != lastLen {
			last, lastLen = time.Now(), n
		}
	}
	cancel()
	cwg.Wait()
	vs.Wait()
	key := ""
	if nRepl > 0 {
		key = digest(c)
	}
	res.Eval(sec, key)
	res.Dist(sec, fmt.Sprintf("replacements-inside-a-sync=%v", func() bool {
		for _, s := range c.Steps {
			if s.Inside > 0 {
				return true
			}
		}
		return false
	}()))
	// implementation: how often each generation's content was confirmed; anything else is a fragment
	impl := map[int]int{}
	rest := confirmed
	for len(rest) > 0 {
		found := false
		for g := 0; g <= gen; g++ {
			if bytes.HasPrefix(rest, genContent(g)) {
				impl[g]++
				rest = rest[len(genContent(g)):]
				found = true
				break
			}
		}
		if !found {
			res.SpecFail(vh.SpecFailure{Section: "syncsteps", Kind: "not-from-the-beginning", Input: c, Impl: short(rest), Spec: "whole generations, each from its first byte",
				What: "a worker delivered something that is not a generation's content from its first byte"})
			return
		}
	}
	eq := true
	if answer != "" {
		if want, ok := modelStarts(answer); ok && showStarts(want) != showStarts(impl) {
			eq = false
			res.Mismatch(vh.Mismatch{Section: "syncsteps", Function: "scanner.Scanner.sync (scanPaths / mergeDescs / syncWorkers / newWorkerConfig)", Input: c, Impl: showStarts(impl), Model: showStarts(want) + "   (" + answer + ")"})
		}
	}
	for g, n := range impl {
		if n > 1 {
			fid := ""
			if eq {
				fid = "F-C17-901"
			}
			res.SpecFail(vh.SpecFailure{Section: "syncsteps", Kind: "replaced-between-scan-and-open-shipped-twice", Input: c, Finding: fid, ImplEqModel: eq, Model: answer,
				Impl: fmt.Sprintf("generation %d confirmed %d times (%s)", g, n, showStarts(impl)), Spec: "every generation at most once",
				What: "a file that came under the watched name was shipped more than once: two workers were started on it"})
			return
		}
	}
	if last := c.Steps[len(c.Steps)-1]; last.Inside == 0 && impl[gen] != 1 {
		res.SpecFail(vh.SpecFailure{Section: "syncsteps", Kind: "current-file-not-watched", Input: c, ImplEqModel: eq, Model: answer,
			Impl: showStarts(impl), Spec: fmt.Sprintf("gen%d×1 among them", gen),
			What: "after a sync without a replacement inside, the file under the name must be read by one worker, from its beginning"})
	}
}

func genSyncCase(rng *vh.Rng) syncCase {
	var c syncCase
	for i, n := 0, rng.Range(1, 4); i < n; i++ {
		s := syncStep{}
		if rng.Chance(1, 2) {
			s.Before = rng.Range(1, 2)
		}
		if rng.Chance(1, 3) {
			s.Inside = rng.Range(1, 2)
		}
		c.Steps = append(c.Steps, s)
	}
	return c
}

func sectionSyncSteps(rng *vh.Rng) {
	sec := res.Section("syncsteps", "unit-correspondence", syncStepsRule)
	defer res.Done(sec)
	cases := []syncCase{
		{Steps: []syncStep{{}, {}}},                         // no replacement
		{Steps: []syncStep{{Inside: 1}, {}}},                // the F-C17-901 schedule
		{Steps: []syncStep{{}, {Before: 2}}},                // twice between two syncs
		{Steps: []syncStep{{}, {Before: 1, Inside: 1}, {}}}, // before and inside
	}
	n := 12
	if args.Thorough {
		n = 120
	}
	for i := 0; i < n; i++ {
		cases = append(cases, genSyncCase(rng))
	}
	lines := make([]string, len(cases))
	for i, c := range cases {
		lines[i] = syncLabels(c)
	}
	var answers []string
	if driverUsable() {
		var err error
		if answers, err = vh.Batch(args.Driver, lines); err != nil {
			res.Fatal(args.Out, "driver: %v", err)
		}
	}
	for i, c := range cases {
		a := ""
		if answers != nil {
			a = answers[i]
		}
		runSyncCase(c, sec, a)
	}
}

func replaySyncSteps(input json.RawMessage) {
	var c syncCase
	if err := json.Unmarshal(input, &c); err != nil || len(c.Steps) == 0 {
		res.Fatal(args.Out, "replay syncsteps: %v", err)
	}
	sec := res.Section("syncsteps", "unit-correspondence", syncStepsRule)
	a := ""
	if driverUsable() {
		if ans, err := vh.Batch(args.Driver, []string{syncLabels(c)}); err == nil && len(ans) == 1 {
			a = ans[0]
		}
	}
	runSyncCase(c, sec, a)
}
