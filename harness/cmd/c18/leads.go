// C18 harness: deterministic schedules for behaviour of the unchanged forwarder path that breaks a clause of the
// property (open findings F80, F81, F82, F83) and their controls.
//
//	ensure-swallowed F80  rpc.Client.EnsurePipe returns nil although the call failed: the worker gets a zero api.Pipe and
//	                      queries "SELECT FROM " for ever
//	ensure-error     F81  worker.run returns on a getPipe error without marking itself stopped: syncWorkers (which restarts
//	                      only stopped workers) never starts it again
//	partial-answer   F82  clntQuerier.Query drops the decoding error: a partly decoded answer is handed over as success with
//	                      a prefix of the events and a zero next request
//	statefile        F83  forwarder.json is truncated and re-written in place (same root and repair as C17's F60)
//	syslog-reconnect —    (no finding; the sink's contract) the real syslog sink over TCP to a receiver that resets the connection
//	                      between two batches: a batch OnEvent reports as accepted must have reached the receiver
//	buffer-reused    —    (no finding; correspondence of the client's contract) what clntQuerier.Query hands over must not
//	                      point into the response buffer it gives back to the transport's pool
package main

import (
	"context"
	"encoding/json"
	"errors"
	"fmt"
	"net"
	"os"
	"path/filepath"
	"strings"
	"sync"
	"time"

	"github.com/logrange/logrange/api"
	"github.com/logrange/logrange/api/rpc"
	"github.com/logrange/logrange/pkg/forwarder"
	"github.com/logrange/logrange/pkg/forwarder/sink"
	"github.com/logrange/logrange/pkg/storage"
	"verifharness/internal/lrsrv"
	"verifharness/internal/vh"
)

type leadInput struct {
	Section string `json:"section"`
	Kind    string `json:"kind"` // ensure-swallowed | ensure-error | partial-answer | statefile
	Control bool   `json:"control,omitempty"`
}

type leadSink struct {
	mu  sync.Mutex
	got []string
}

func (s *leadSink) OnEvent(evs []*api.LogEvent) error {
	s.mu.Lock()
	for _, e := range evs {
		s.got = append(s.got, e.Message)
	}
	s.mu.Unlock()
	return nil
}
func (s *leadSink) Close() error { return nil }
func (s *leadSink) n() int       { s.mu.Lock(); defer s.mu.Unlock(); return len(s.got) }

type leadStore struct {
	mu   sync.Mutex
	data []byte
}

func (m *leadStore) ReadData(key string) ([]byte, error) {
	m.mu.Lock()
	defer m.mu.Unlock()
	if m.data == nil {
		return nil, os.ErrNotExist
	}
	return append([]byte{}, m.data...), nil
}
func (m *leadStore) WriteData(key string, val []byte) error {
	m.mu.Lock()
	m.data = append([]byte{}, val...)
	m.mu.Unlock()
	return nil
}

// leadClient: the real client, with the first EnsurePipe made to fail in one of two ways, and every query logged
type leadClient struct {
	*rpc.Client
	mode    string // "" | swallowed | error
	mu      sync.Mutex
	ensures int
	queries []string
}

func (c *leadClient) EnsurePipe(ctx context.Context, p api.Pipe, res *api.PipeCreateResult) error {
	c.mu.Lock()
	c.ensures++
	first := c.ensures == 1
	c.mu.Unlock()
	if first && c.mode == "swallowed" {
		// a genuine transport failure inside the real client: the call is made with a context that is already done
		dead, cancel := context.WithCancel(ctx)
		cancel()
		return c.Client.EnsurePipe(dead, p, res)
	}
	if first && c.mode == "error" {
		return errors.New("injected: EnsurePipe transport error")
	}
	return c.Client.EnsurePipe(ctx, p, res)
}

func (c *leadClient) Query(ctx context.Context, qr *api.QueryRequest, res *api.QueryResult) error {
	c.mu.Lock()
	c.queries = append(c.queries, qr.Query)
	c.mu.Unlock()
	q2 := *qr
	if q2.WaitTimeout > 0 {
		q2.WaitTimeout = 1
	}
	return c.Client.Query(ctx, &q2, res)
}

func leadFail(in leadInput, kind, finding, impl, spec, what string) {
	res.SpecFail(vh.SpecFailure{Section: "leads", Kind: kind, Finding: finding, ImplEqModel: true, Model: "not modelled (the model starts at the first query of a worker that has its destination; client decoding and the state file are outside it)",
		Input: in, Impl: impl, Spec: spec, What: what})
}

func leadWrite(srv *lrsrv.Srv, tags string, n int) error {
	evs := make([]*api.LogEvent, n)
	for i := range evs {
		evs[i] = &api.LogEvent{Timestamp: int64(i + 1), Message: fmt.Sprintf("m%d", i)}
	}
	var wr api.WriteResult
	if err := srv.Client.Write(context.Background(), tags, "", evs, &wr); err != nil {
		return err
	}
	if wr.Err != nil {
		return wr.Err
	}
	srv.FlushWait()
	return nil
}

// F80 / F81: a worker that has to ensure its pipe
func runLeadEnsure(srv *lrsrv.Srv, in leadInput, seq int) {
	src := fmt.Sprintf("leadsrc=e%d", seq)
	name := fmt.Sprintf("leadpipe%d", seq)
	const N = 5
	cl, err := newClient(srv.Addr)
	if err != nil {
		res.Note("leads/%s: %v", in.Kind, err)
		return
	}
	defer cl.Close()
	lc := &leadClient{Client: cl}
	if !in.Control {
		lc.mode = map[string]string{"ensure-swallowed": "swallowed", "ensure-error": "error"}[in.Kind]
	}
	cfg := &forwarder.Config{
		Workers:                []*forwarder.WorkerConfig{{Name: name, Pipe: &forwarder.PipeConfig{From: src}, Sink: &sink.Config{Type: sink.SnkTypeStdout}}},
		StateStoreIntervalSec:  3600,
		SyncWorkersIntervalSec: 3600,
	}
	snk := &leadSink{}
	ctx, cancel := context.WithCancel(context.Background())
	sess, err := forwarder.StartVerifSession(ctx, cfg, lc, &leadStore{}, snk)
	if err != nil {
		cancel()
		res.Note("leads/%s: %v", in.Kind, err)
		return
	}
	time.Sleep(300 * time.Millisecond) // the worker has asked for its pipe
	// make sure the pipe exists (the harness ensures it itself: in the failing schedules the worker's own call did not
	// reach the server) and put events into the source: the pipe copies them into its partition
	var pr api.PipeCreateResult
	if err := srv.Client.EnsurePipe(context.Background(), api.Pipe{Name: name, TagsCond: src}, &pr); err != nil || pr.Err != nil {
		res.Note("leads/%s: EnsurePipe by the harness: %v %v", in.Kind, err, pr.Err)
	}
	if err := leadWrite(srv, src, N); err != nil {
		res.Note("leads/%s: write: %v", in.Kind, err)
	}
	// 12 s: two retry periods of the worker (5 s) and the pipe's copying. A worker that marks itself stopped is started
	// again, as Forwarder.syncWorkers does with a stopped worker.
	restarts := 0
	for t0 := time.Now(); time.Since(t0) < 12*time.Second && snk.n() < N; time.Sleep(50 * time.Millisecond) {
		if sess.IsStopped() && restarts < 2 && time.Since(t0) > time.Second {
			restarts++
			cancel()
			sess.Wait()
			ctx, cancel = context.WithCancel(context.Background())
			if sess, err = forwarder.StartVerifSession(ctx, cfg, lc, &leadStore{}, snk); err != nil {
				cancel()
				res.Note("leads/%s: restart: %v", in.Kind, err)
				return
			}
		}
	}
	got, stopped := snk.n(), sess.IsStopped()
	lc.mu.Lock()
	queries, ensures := append([]string{}, lc.queries...), lc.ensures
	lc.mu.Unlock()
	cancel()
	sess.Wait()
	if got == N {
		return
	}
	uniq := map[string]bool{}
	for _, q := range queries {
		uniq[q] = true
	}
	var qs []string
	for q := range uniq {
		qs = append(qs, fmt.Sprintf("%q", q))
	}
	impl := fmt.Sprintf("12 s after the pipe partition held %d events: delivered %d; EnsurePipe calls by the worker: %d; its queries (%d): %s; isStopped=%v", N, got, ensures, len(queries), strings.Join(qs, " "), stopped)
	// the class is decided by what was observed, not by the schedule: (F80) the worker went on with an empty destination;
	// (F81) the worker is gone — no call at all — and does not say it has stopped
	switch {
	case in.Control:
		leadFail(in, "incomplete", "", impl, "all events delivered", "control schedule (no failure): the worker must deliver the pipe partition")
	case len(queries) > 0 && uniq["SELECT FROM "] && len(uniq) == 1:
		leadFail(in, "ensure-failure-swallowed-nothing-forwarded", "F80", impl, "a failed EnsurePipe is reported and retried; every event of the pipe's partition reaches the sink",
			"rpc.Client.EnsurePipe returns nil although the call failed (`return nil` after `err := pps.EnsurePipe(...)`): worker.getPipe takes the zero api.Pipe, the destination is empty, the worker asks `SELECT FROM ` (a server error) every 5 s for ever and never ensures the pipe again")
	case len(queries) == 0 && !stopped:
		leadFail(in, "worker-dead-after-ensure-error-not-restartable", "F81", impl, "a failed EnsurePipe is retried (at the latest by the next syncWorkers); every event of the pipe's partition reaches the sink",
			"worker.run returns the getPipe error without storing wsStopped; Forwarder.syncWorkers starts a worker again only if isStopped(): the worker's goroutine is gone (no EnsurePipe, no Query in 12 s), isStopped() stays false, the pipe is never forwarded until the forwarder restarts")
	default:
		leadFail(in, "incomplete", "", impl, "all events delivered", "after a failed EnsurePipe the pipe partition was not delivered")
	}
}

// F82: the real client-side decoding of a query answer
func runLeadPartial(in leadInput) {
	full := api.QueryResult{NextQueryRequest: api.QueryRequest{ReqId: 77, Query: "select from a=b position \"x\"", Pos: "x", Limit: 10}}
	for i := 0; i < 4; i++ {
		full.Events = append(full.Events, &api.LogEvent{Timestamp: int64(i + 1), Tags: "a=b", Message: fmt.Sprintf("event number %d", i), Fields: "f=1"})
	}
	body := rpc.VerifC18EncodeQueryResult(&full)
	if in.Control {
		var r api.QueryResult
		err := rpc.VerifC18ClientQueryOnBody(body, &r)
		if err != nil || r.Err != nil || len(r.Events) != 4 || r.NextQueryRequest.Pos != "x" {
			leadFail(in, "complete-answer-not-decoded", "", fmt.Sprintf("err=%v res.Err=%v events=%d next=%+v", err, r.Err, len(r.Events), r.NextQueryRequest), "4 events, next request at x", "control: a complete answer must be decoded")
		}
		return
	}
	// every proper prefix of the body that is long enough to hold at least one event
	reported := 0
	for cut := len(body) - 1; cut > 8; cut-- {
		var r api.QueryResult
		err := rpc.VerifC18ClientQueryOnBody(body[:cut], &r)
		if err == nil && r.Err == nil && len(r.Events) > 0 && len(r.Events) <= 4 && r.NextQueryRequest.Query == "" && reported == 0 {
			reported++
			leadFail(in, "truncated-answer-reported-as-success", "F82",
				fmt.Sprintf("answer body cut at %d of %d bytes: Query returns nil, res.Err nil, %d events, NextQueryRequest %+v", cut, len(body), len(r.Events), r.NextQueryRequest),
				"a response that cannot be decoded completely is reported as a failed query (and retried)",
				"clntQuerier.Query assigns the error of unmarshalQueryResult to a variable it never returns: the worker receives a prefix of the events with a zero next request as a success, delivers the prefix, then sets its request to the zero request (query \"\", position \"\") — every later page is empty, the rest of the partition is never delivered")
		}
	}
	if reported == 0 {
		res.Note("leads/partial-answer: no truncated body was handed over as a success — F82 does not reproduce")
	}
}

// the answer must outlive the response buffer: the forwarder gives ONE client to all its workers and the buffer pools are
// process-wide, so while one worker's sink is busy with a batch the answer for another worker is read into the buffer
// the client has collected
func runLeadBufferReused(in leadInput) {
	full := api.QueryResult{NextQueryRequest: api.QueryRequest{ReqId: 77, Query: "select from a=b position \"x\"", Pos: "x", Limit: 10, WaitTimeout: 3}}
	for i := 0; i < 5; i++ {
		full.Events = append(full.Events, &api.LogEvent{Timestamp: int64(i + 1), Tags: "a=b,c=d", Message: fmt.Sprintf("event number %d of the first answer", i), Fields: fmt.Sprintf("f=%d", i)})
	}
	body := rpc.VerifC18EncodeQueryResult(&full)
	var r api.QueryResult
	collected, err := rpc.VerifC18ClientQueryBufferReused(body, &r)
	if err != nil || r.Err != nil {
		leadFail(in, "complete-answer-not-decoded", "", fmt.Sprintf("err=%v res.Err=%v", err, r.Err), "5 events", "a complete answer must be decoded")
		return
	}
	if collected == 0 {
		res.Note("leads/buffer-reused: the client did not give the response buffer back (Collect not called): nothing to observe")
	}
	// clone the strings' bytes now: compare content, not headers
	show := func(q *api.QueryResult) string {
		var sb strings.Builder
		for _, e := range q.Events {
			fmt.Fprintf(&sb, "{%d %q %q %q} ", e.Timestamp, e.Tags, e.Message, e.Fields)
		}
		fmt.Fprintf(&sb, "next={%d %q %q %d}", q.NextQueryRequest.ReqId, q.NextQueryRequest.Query, q.NextQueryRequest.Pos, q.NextQueryRequest.Limit)
		return sb.String()
	}
	if got, want := show(&r), show(&full); got != want {
		leadFail(in, "answer-points-into-collected-buffer", "", got, want,
			"clntQuerier.Query gave the response buffer back to the transport (Collect) and the buffer was used again: the events / next request it handed over changed — a sink that is still working on the batch (another worker's answer arrives on the shared client) is handed foreign bytes, accepts them, and the position moves on")
	}
}

// syslogReceiver is a TCP syslog receiver that keeps everything it reads and can reset the connection it has open
type syslogReceiver struct {
	ln   net.Listener
	mu   sync.Mutex
	got  []byte
	cur  net.Conn
	nCon int
}

func newSyslogReceiver() (*syslogReceiver, error) {
	ln, err := net.Listen("tcp", "127.0.0.1:0")
	if err != nil {
		return nil, err
	}
	r := &syslogReceiver{ln: ln}
	go func() {
		for {
			c, err := ln.Accept()
			if err != nil {
				return
			}
			r.mu.Lock()
			r.cur = c
			r.nCon++
			r.mu.Unlock()
			go func(c net.Conn) {
				buf := make([]byte, 4096)
				for {
					n, err := c.Read(buf)
					r.mu.Lock()
					r.got = append(r.got, buf[:n]...)
					r.mu.Unlock()
					if err != nil {
						return
					}
				}
			}(c)
		}
	}()
	return r, nil
}

func (r *syslogReceiver) has(tok string) bool {
	r.mu.Lock()
	defer r.mu.Unlock()
	return strings.Contains(string(r.got), tok)
}

// reset closes the open connection with a TCP reset (linger 0): the sender's next write fails
func (r *syslogReceiver) reset() {
	r.mu.Lock()
	c := r.cur
	r.mu.Unlock()
	if tc, ok := c.(*net.TCPConn); ok {
		tc.SetLinger(0)
		tc.Close()
	}
}

// the sink's contract as the worker uses it: OnEvent = nil means the batch is delivered (the position moves on, the batch
// is never offered again); an error means "offer the same batch again"
func runLeadSyslogReconnect(in leadInput) {
	rcv, err := newSyslogReceiver()
	if err != nil {
		res.Note("leads/syslog-reconnect: %v", err)
		return
	}
	defer rcv.ln.Close()
	snk, err := sink.NewSink(&sink.Config{Type: sink.SnkTypeSyslog, Params: sink.Params{"Protocol": "tcp", "RemoteAddr": rcv.ln.Addr().String()}})
	if err != nil {
		res.Note("leads/syslog-reconnect: %v", err)
		return
	}
	defer snk.Close()
	tok := func(i int) string { return fmt.Sprintf("syslog-event-%04d-payload", i) }
	batch := func(b int) []*api.LogEvent {
		var evs []*api.LogEvent
		for i := 0; i < 3; i++ {
			evs = append(evs, &api.LogEvent{Timestamp: int64(b*3 + i + 1), Tags: "src=leads", Message: tok(b*3+i) + "\n"})
		}
		return evs
	}
	waitHas := func(t string) bool {
		for t0 := time.Now(); time.Since(t0) < 3*time.Second; time.Sleep(10 * time.Millisecond) {
			if rcv.has(t) {
				return true
			}
		}
		return rcv.has(t)
	}
	offers, errs := 0, 0
	for b := 0; b < 3; b++ {
		if b == 1 && !in.Control {
			// batch 0 has arrived completely; the receiver resets the connection; give the reset time to reach the sender
			rcv.reset()
			time.Sleep(300 * time.Millisecond)
		}
		accepted := false
		for try := 0; try < 5 && !accepted; try++ {
			offers++
			if err := snk.OnEvent(batch(b)); err != nil {
				errs++
				time.Sleep(50 * time.Millisecond) // the worker would sleep 5 s and offer the same batch again
				continue
			}
			accepted = true
		}
		if !accepted {
			leadFail(in, "sink-never-accepts", "", fmt.Sprintf("batch %d was refused 5 times although the receiver accepts connections", b), "accepted after a reconnect", "the syslog sink must recover from a reset connection")
			return
		}
		for i := 0; i < 3; i++ {
			if !waitHas(tok(b*3 + i)) {
				leadFail(in, "accepted-batch-not-delivered", "",
					fmt.Sprintf("OnEvent returned nil for batch %d (offers so far %d, errors reported %d, connections %d) but event %q never reached the receiver", b, offers, errs, rcv.nCon, tok(b*3+i)),
					"every event of a batch the sink accepted has been written to the receiver",
					"the real syslog sink (sink.NewSink, syslog.Logger over TCP) against a receiver that reset the connection between two batches: a failed write must be reported so that the worker offers the batch again; a batch reported as accepted is never offered again")
				return
			}
		}
	}
	if !in.Control && errs == 0 {
		res.Note("leads/syslog-reconnect: no write failed after the receiver had reset the connection — schedule not reached")
	}
}

// F83: forwarder.json
func runLeadStatefile(srv *lrsrv.Srv, in leadInput, seq int) {
	src := fmt.Sprintf("leadsrc=s%d", seq)
	const N = 7
	if err := leadWrite(srv, src, N); err != nil {
		res.Note("leads/statefile: %v", err)
		return
	}
	dir := lrsrv.NewDir()
	defer os.RemoveAll(dir)
	st, err := storage.NewStorage(&storage.Config{Type: storage.TypeFile, Location: dir})
	if err != nil {
		res.Note("leads/statefile: %v", err)
		return
	}
	cfg := &forwarder.Config{
		Workers:                []*forwarder.WorkerConfig{{Name: "w", Pipe: &forwarder.PipeConfig{Name: src}, Sink: &sink.Config{Type: sink.SnkTypeStdout}}},
		StateStoreIntervalSec:  3600,
		SyncWorkersIntervalSec: 3600,
	}
	session := func(wait int) (int, error) {
		cl, err := newClient(srv.Addr)
		if err != nil {
			return 0, err
		}
		defer cl.Close()
		snk := &leadSink{}
		ctx, cancel := context.WithCancel(context.Background())
		sess, err := forwarder.StartVerifSession(ctx, cfg, &leadClient{Client: cl}, st, snk)
		if err != nil {
			cancel()
			return 0, err
		}
		for t0 := time.Now(); time.Since(t0) < 4*time.Second && snk.n() < wait; time.Sleep(30 * time.Millisecond) {
		}
		if wait == 0 {
			time.Sleep(1500 * time.Millisecond)
		}
		cancel()
		sess.Wait()
		return snk.n(), nil
	}
	if n, err := session(N); err != nil || n != N {
		res.Note("leads/statefile: first session delivered %d of %d: %v", n, N, err)
		return
	}
	sf := filepath.Join(dir, forwarder.VerifStorageKey)
	good, err := os.ReadFile(sf)
	if err != nil || len(good) < 10 {
		res.Note("leads/statefile: no state file after a graceful stop: %v", err)
		return
	}
	link := filepath.Join(dir, "probe.link")
	os.Link(sf, link)
	st.WriteData(forwarder.VerifStorageKey, good)
	a, _ := os.Stat(sf)
	b, _ := os.Stat(link)
	inPlace := a != nil && b != nil && os.SameFile(a, b)
	os.Remove(link)
	if in.Control || !inPlace {
		n, err := session(0)
		if err != nil {
			leadFail(in, "restart-refused", "", err.Error(), "starts", "the forwarder must start on a complete state file")
		} else if n > 0 {
			leadFail(in, "redelivered-confirmed-events", "", fmt.Sprint(n), "0", "a restart on the complete state file re-delivered events")
		}
		if !in.Control && !inPlace {
			res.Note("leads/statefile: WriteData replaces the state file (new inode) — F83 does not reproduce")
		}
		return
	}
	os.WriteFile(sf, nil, 0640) // truncated, not yet re-written
	if n, err := session(N); err != nil {
		leadFail(in, "torn-state-file-refuses-start", "F83", err.Error(), "starts from the saved position", "forwarder.json is empty after the crash and the forwarder refuses to start")
	} else if n > 0 {
		leadFail(in, "torn-state-file-redelivers-everything", "F83", fmt.Sprintf("state file empty (truncated, not yet re-written) -> the restart delivers %d of %d events again", n, N),
			"a restart re-delivers at most the unconfirmed tail",
			"fileStorage.WriteData truncates forwarder.json and writes it in place (same inode observed through a hard link): a crash in between leaves an empty file, loadState takes it as no state, the whole partition is delivered again")
	}
	os.WriteFile(sf, good[:len(good)/2], 0640)
	if _, err := session(0); err != nil {
		leadFail(in, "torn-state-file-refuses-start", "F83", err.Error(), "starts from the saved position",
			"a crash during the in-place write leaves a prefix of forwarder.json; the forwarder then fails to start (cannot unmarshal state) until the file is removed")
	}
}

var (
	leadMu    sync.Mutex
	leadQueue []leadInput
	leadSeq   int
)

func runLead(srv *lrsrv.Srv, in leadInput) {
	in.Section = "leads"
	leadMu.Lock()
	leadSeq++
	seq := leadSeq
	leadMu.Unlock()
	switch in.Kind {
	case "ensure-swallowed", "ensure-error":
		runLeadEnsure(srv, in, seq)
	case "partial-answer":
		runLeadPartial(in)
	case "statefile":
		runLeadStatefile(srv, in, seq)
	case "buffer-reused":
		runLeadBufferReused(in)
	case "syslog-reconnect":
		runLeadSyslogReconnect(in)
	default:
		res.Note("leads: unknown kind %q", in.Kind)
	}
}

const leadsRule = "deterministic schedules on the real forwarder session (StartVerifSession), the real rpc client and one real in-process server: " +
	"ensure-swallowed — the worker has to ensure its pipe; its first EnsurePipe is made through the real client with a context that is already done (a genuine transport failure); " +
	"ensure-error — the first EnsurePipe returns an error; in both the harness then ensures the pipe itself and writes 5 events into the source: within 12 s (two retry periods) they must reach the sink; " +
	"partial-answer — the real client-side Query over a transport that delivers every proper prefix of an encoded 4-event answer: a body that cannot be decoded completely must not be handed over as a success; " +
	"statefile — real file storage; the way WriteData replaces forwarder.json is observed through a hard link; if in place, the states a crash during a save passes through (empty, a prefix) are installed and a new session is started: nothing may be re-delivered and it must start. " +
	"syslog-reconnect — the real syslog sink (sink.NewSink over TCP) hands three batches to a receiver that resets the connection after the first: a batch OnEvent reports as accepted must have reached the receiver (a failed write is an error, the batch is offered again). " +
	"buffer-reused — the real client-side Query over a transport that overwrites the response buffer as soon as the client has collected it (what the process-wide buffer pool does when the next answer arrives on the shared client): the events and the next request handed over must still say what the server sent. " +
	"Each with its control (no failure; complete body; complete state file). The witnesses of the open findings come from the corpus. non-trivial = every schedule"

func sectionLeads() {
	sec := res.Section("leads", "system-correspondence", leadsRule)
	defer res.Done(sec)
	leadMu.Lock()
	ins := append([]leadInput{}, leadQueue...)
	leadQueue = nil
	leadMu.Unlock()
	for _, k := range []string{"ensure-swallowed", "partial-answer", "statefile"} {
		ins = append(ins, leadInput{Kind: k, Control: true})
	}
	ins = append(ins, leadInput{Kind: "buffer-reused"}, leadInput{Kind: "syslog-reconnect"}, leadInput{Kind: "syslog-reconnect", Control: true})
	srv, err := lrsrv.Start(lrsrv.NewDir(), lrsrv.Opts{})
	if err != nil {
		res.Note("leads: %v", err)
		return
	}
	defer func() { srv.Stop(); os.RemoveAll(srv.Dir) }()
	var wg sync.WaitGroup
	for _, in := range ins {
		wg.Add(1)
		go func(in leadInput) {
			defer wg.Done()
			runLead(srv, in)
			b, _ := json.Marshal(in)
			res.Eval(sec, string(b))
			res.Dist(sec, fmt.Sprintf("%s control=%v", in.Kind, in.Control))
		}(in)
	}
	wg.Wait()
}

func queueLead(raw json.RawMessage) bool {
	var in leadInput
	if json.Unmarshal(raw, &in) != nil || in.Kind == "" {
		return false
	}
	leadMu.Lock()
	leadQueue = append(leadQueue, in)
	leadMu.Unlock()
	return true
}
