// C18 harness — forwarder worker: every event of the pipe's partition reaches the sink in stored order, a rejected
// batch / failed query is retried before anything later, the persisted position is never ahead of what the sink
// accepted, a restart re-delivers at most the unconfirmed tail and skips nothing.
//
// Sections
//
//	faults   system: the REAL forwarder code (forwarder.StartVerifSession: NewForwarder, loadState, toDescs/mergeDescs,
//	         newWorker + worker.run, runPersistState, persistState) against ONE real in-process server, with a scripted
//	         fault-injecting api.Client wrapper, a recording/rejecting sink and a per-case in-memory storage.
//	         IMPL vs SPEC (delivery log of the sink, persisted positions) and IMPL vs MODEL (lrmodel_c18 "fw" lines).
//
// Wall time: worker.run sleeps a real 5 s after every failed/empty query and every rejected batch (local variable
// sleepDur, no knob). The number of such steps per case is bounded and ALL cases of a wave run concurrently, so the
// sleeps are paid once per wave. The worker's long poll (WaitTimeout=10) is shortened in the client wrapper (the
// request is copied, WaitTimeout 10 -> 1; still > 0, so the server keeps the cursor cached by ReqId exactly as for the
// real forwarder).
package main

import (
	"context"
	"crypto/sha1"
	"encoding/hex"
	"encoding/json"
	"errors"
	"fmt"
	"os"
	"sort"
	"strconv"
	"strings"
	"sync"
	"sync/atomic"
	"time"

	"github.com/logrange/logrange/api"
	"github.com/logrange/logrange/api/rpc"
	"github.com/logrange/logrange/pkg/forwarder"
	"github.com/logrange/logrange/pkg/forwarder/sink"
	"github.com/logrange/range/pkg/transport"
	"verifharness/internal/lrsrv"
	"verifharness/internal/vh"
)

var (
	args vh.Args
	res  *vh.Result
)

const sectionRule = "each case: a fresh partition src=c<N> of ONE shared real in-process server, filled BEFORE the worker starts with N events " +
	"(N in {0,1,2,3,10,999,1000,1001,2500}; page limit 1000; N=0: the partition does not exist when the worker starts — its first real polls are answered empty after the wait (#11 is fixed) " +
	"with the server's next request for no partition, which loses the query text (#35, open, C03's): the worker must keep its own request and deliver everything once the partition appears), messages m<i>, timestamps i+1; " +
	"the real forwarder session (StartVerifSession) with a scripted api.Client wrapper, a scripted sink and a per-case in-memory storage; " +
	"script = list of: query outcomes lost | resplost (server really executes the request, answer dropped) | srverr (QueryResult.Err) — these three leave a junk event and a junk NextQueryRequest in the result, which must be ignored — | empty (no events, zero NextQueryRequest) | " +
	"ok+accept | ok+reject (real page, sink accepts/rejects), and harness actions executed while the worker is blocked in the wrapper (no query of the partition in flight): " +
	"persist (one tick of the periodic persist job), grow k (append k events + flush wait; growing only at this quiescent point avoids by construction the inherited " +
	"tail-reader race F34 of the journal iterator), stop (stopGracefully, the next script entry answers the query in flight, then cancel+wait: final persist), " +
	"cancel (ctx cancel, query in flight fails, wait: final persist), crash (as cancel, but the storage is rolled back to its content before the cancel: final persist lost); " +
	"after a stop/cancel/crash a new session starts on the same storage (<= 3 sessions); when the script is exhausted the worker runs undisturbed to the tail and is cancelled there. " +
	"The wrapper copies each request and lowers WaitTimeout 10 -> 1 (cached server cursor is kept). Every lost/resplost/srverr/empty/reject and every real empty page at the tail " +
	"costs the worker's real 5 s sleep: at most 6 (quick) / 20 (thorough) per case, all cases of a wave concurrently. " +
	"SPEC: per session the accepted batches are one gap-free duplicate-free run; after a reject the same batch start is offered next; a new session starts at or before the end of what was accepted and not before the persisted position; " +
	"every written position (resolved to an index by asking the server) is <= the accepted high-water mark and, after a graceful end, equals the end of the session's run; at the end everything is delivered. " +
	"MODEL: the observed label trace is replayed by lrmodel_c18 (fw) and deliveries/positions compared. non-trivial = at least one fault and one accepted page, distinct by script digest"

// ---------------------------------------------------------------------------------------------
// case input

type fcase struct {
	N      int      `json:"n"`
	Script []string `json:"script"`
}

func isQuery(a string) bool {
	switch a {
	case "lost", "resplost", "srverr", "empty", "ok+accept", "ok+reject", "ok+accept+cancel", "ok+reject+cancel":
		return true
	}
	return false
}

func isSleepingFault(a string) bool {
	switch a {
	case "lost", "resplost", "srverr", "empty", "ok+reject":
		return true
	}
	return false
}

var growSizes = []int{1, 1, 2, 3, 7, 1000, 1001, 1500}
var partSizes = []int{0, 0, 1, 1, 2, 3, 3, 10, 10, 999, 1000, 1001, 2500}

// genCase generates a script together with a simulation of the intended behaviour (only to place tails, growth and
// session ends sensibly and to bound the number of 5 s sleeps; the oracle never uses this simulation).
func genCase(rng *vh.Rng, maxFaults, maxSteps int) fcase {
	n := rng.PickI(partSizes)
	budget := rng.Range(1, maxFaults)
	total, pos, persisted := n, 0, 0
	faults, ends := 0, 0
	var s []string
	grow := func() {
		k := rng.PickI(growSizes)
		if total+k > 7000 {
			k = 1
		}
		total += k
		s = append(s, fmt.Sprintf("grow %d", k))
	}
	if n == 0 {
		// the partition does not exist yet when the worker starts: one or two real polls over no partition (each answers
		// empty after the wait, with the server's next request for "no partition"), then the partition appears
		for k := rng.Range(1, 2); k > 0 && faults < budget; k-- {
			s = append(s, "ok+accept")
			faults++
		}
		if rng.Chance(1, 3) && faults < budget {
			s = append(s, "empty")
			faults++
		}
		grow()
	}
	// one query outcome; false = nothing could be appended without exceeding the sleep budget
	query := func() bool {
		atTail := pos == total
		canFault := faults < budget
		r := rng.Intn(100)
		switch {
		case canFault && r < 11:
			s = append(s, "lost")
			faults++
		case canFault && r < 23:
			s = append(s, "resplost")
			faults++
		case canFault && r < 32:
			s = append(s, "srverr")
			faults++
		case canFault && r < 39:
			s = append(s, "empty")
			faults++
		case canFault && !atTail && r < 55:
			s = append(s, "ok+reject")
			faults++
		default:
			if atTail {
				if !canFault {
					return false
				}
				faults++ // a real empty page at the tail: 1 s server wait + 5 s sleep
				s = append(s, "ok+accept")
			} else {
				s = append(s, "ok+accept")
				k := total - pos
				if k > 1000 {
					k = 1000
				}
				pos += k
			}
		}
		return true
	}
	steps := rng.Range(2, maxSteps)
	for i := 0; i < steps; i++ {
		atTail := pos == total
		r := rng.Intn(100)
		switch {
		case r < 8:
			s = append(s, "persist")
		case r < 13 || (atTail && r < 45):
			grow()
		case ends < 2 && (r < 24 || (atTail && r < 70)):
			kind := rng.PickS([]string{"stop", "stop", "cancel", "crash", "crash"})
			if kind == "stop" {
				s = append(s, "stop")
				if !query() {
					s[len(s)-1] = "cancel"
				}
				persisted = pos
			} else if kind == "cancel" {
				s = append(s, "cancel")
				persisted = pos
			} else {
				s = append(s, "crash")
				pos = persisted
			}
			ends++
		default:
			if !query() {
				grow()
			}
		}
	}
	return fcase{N: n, Script: s}
}

// ---------------------------------------------------------------------------------------------
// per-case run state

type offer struct {
	sess     int
	start, k int
	accepted bool
	bad      string // the batch itself is not a consecutive run
}

type wrec struct {
	sess int
	pos  string
	ok   bool   // decodable
	raw  string // when not decodable
	hw   int    // accepted high-water mark at the time of the write
}

type sessRec struct {
	startPos  string // position in the storage when the session started
	end       string // stop | cancel | crash | final | deadline
	descPos   string // VerifSession.Position() after the end
	persisted string // storage position after the end (after the roll-back for crash)
	hasWrite  bool
}

type run struct {
	in   fcase
	tags string
	srv  *lrsrv.Srv
	cli  *rpc.Client

	mu         sync.Mutex
	ip         int
	total      int
	labels     []string
	known      map[string]int
	offers     []offer
	hw         int
	sessNo     int
	sess       *forwarder.VerifSession
	ready      chan struct{}
	cancel     context.CancelFunc
	endCh      chan string
	pend       string
	pendNext   string
	workerPos  string
	stopping   bool
	unscripted int
	lateSave   bool // one save (PersistNow) after the worker of this session has ended
	faults     map[string]int
	notes      []string
	sessions   []sessRec

	// storage
	data   []byte
	has    bool
	writes []wrec
	snap   []byte
	snapOk bool
}

var errInjected = errors.New("injected: transport error")

func newClient(addr string) (*rpc.Client, error) {
	var c *rpc.Client
	var err error
	for i := 0; i < 400; i++ {
		c, err = rpc.NewClient(transport.Config{ListenAddr: addr})
		if err == nil {
			return c, nil
		}
		time.Sleep(5 * time.Millisecond)
	}
	return nil, err
}

func (c *run) log(l string) {
	c.mu.Lock()
	c.labels = append(c.labels, l)
	c.mu.Unlock()
}

func (c *run) note(format string, a ...interface{}) {
	c.mu.Lock()
	if len(c.notes) < 10 {
		c.notes = append(c.notes, fmt.Sprintf(format, a...))
	}
	c.mu.Unlock()
}

func (c *run) fault(kind string) {
	c.mu.Lock()
	c.faults[kind]++
	c.mu.Unlock()
}

// write appends k events to the partition and waits for the flush. Only called when no query of this partition is in flight.
func (c *run) write(k int) error {
	for k > 0 {
		n := k
		if n > 500 {
			n = 500
		}
		evs := make([]*api.LogEvent, 0, n)
		for i := 0; i < n; i++ {
			evs = append(evs, &api.LogEvent{Timestamp: int64(c.total + 1), Message: "m" + strconv.Itoa(c.total), Fields: fieldsOf(c.total)})
			c.total++
		}
		var wr api.WriteResult
		if err := c.cli.Write(context.Background(), c.tags, "", evs, &wr); err != nil {
			return err
		} else if wr.Err != nil {
			return wr.Err
		}
		k -= n
	}
	c.srv.FlushWait()
	// the flush period is a lower bound only: on a loaded machine the last records may become readable later. Wait until
	// the newest event can be read back (a growth step must be complete before the worker's next query).
	want := "m" + strconv.Itoa(c.total-1)
	for t0 := time.Now(); time.Since(t0) < 3*time.Second; time.Sleep(5 * time.Millisecond) {
		var qres api.QueryResult
		qr := &api.QueryRequest{Query: "select from " + c.tags + " limit 1", Offset: c.total - 1, Limit: 1}
		if err := c.cli.Query(context.Background(), qr, &qres); err == nil && qres.Err == nil && len(qres.Events) == 1 && qres.Events[0].Message == want {
			return nil
		}
	}
	var dbg api.QueryResult
	derr := c.cli.Query(context.Background(), &api.QueryRequest{Query: "select from " + c.tags + " limit 1", Offset: c.total - 1, Limit: 1}, &dbg)
	first := ""
	if len(dbg.Events) > 0 {
		first = dbg.Events[0].Message
	}
	c.note("write: the newest event %s was not readable 3 s after the write (probe: err=%v res.Err=%v events=%d first=%q)", want, derr, dbg.Err, len(dbg.Events), first)
	return nil
}

// fieldsOf: the fields event i is written with — consecutive events differ, the encoded lengths are equal (a reader that
// caches the fields of the previous event by reference or by length would hand over the neighbour's)
func fieldsOf(i int) string {
	if i%2 == 0 {
		return "lvl=info"
	}
	return "lvl=warn"
}

func msgIdx(m string) int {
	if !strings.HasPrefix(m, "m") {
		return -1
	}
	i, err := strconv.Atoi(m[1:])
	if err != nil {
		return -1
	}
	return i
}

// ---- storage.Storage (per case; storage.NewDefaultStorage keeps a process-global map)

type memStore struct{ c *run }

func (m memStore) ReadData(key string) ([]byte, error) {
	c := m.c
	c.mu.Lock()
	defer c.mu.Unlock()
	if key != forwarder.VerifStorageKey || !c.has {
		return nil, os.ErrNotExist
	}
	return append([]byte{}, c.data...), nil
}

func decodePos(data []byte) (string, bool) {
	var l []struct {
		Worker   *forwarder.WorkerConfig
		Position string
	}
	if err := json.Unmarshal(data, &l); err != nil || len(l) != 1 || l[0].Worker == nil || l[0].Worker.Name != "w" {
		return "", false
	}
	return l[0].Position, true
}

func (m memStore) WriteData(key string, val []byte) error {
	c := m.c
	c.mu.Lock()
	defer c.mu.Unlock()
	if key != forwarder.VerifStorageKey {
		return fmt.Errorf("unexpected key %q", key)
	}
	c.data = append([]byte{}, val...)
	c.has = true
	p, ok := decodePos(val)
	w := wrec{sess: c.sessNo, pos: p, ok: ok, hw: c.hw}
	if !ok {
		w.raw = string(val)
	}
	c.writes = append(c.writes, w)
	return nil
}

func (c *run) storedPos() (string, bool) {
	c.mu.Lock()
	defer c.mu.Unlock()
	if !c.has {
		return "", false
	}
	p, _ := decodePos(c.data)
	return p, true
}

// ---- sink.Sink

type caseSink struct{ c *run }

func (s caseSink) Close() error { return nil }

func (s caseSink) OnEvent(evs []*api.LogEvent) error {
	c := s.c
	o := offer{k: len(evs), start: -1}
	prev := -1
	for i, e := range evs {
		x := msgIdx(e.Message)
		if x >= 0 && e.Fields != fieldsOf(x) && o.bad == "" {
			o.bad = fmt.Sprintf("content: event m%d was written with the fields %q and is handed to the sink with %q", x, fieldsOf(x), e.Fields)
		}
		if i == 0 {
			o.start = x
		} else if x != prev+1 && o.bad == "" {
			if x > prev+1 {
				o.bad = fmt.Sprintf("gap inside a batch: m%d follows m%d", x, prev)
			} else {
				o.bad = fmt.Sprintf("out-of-order inside a batch: m%d follows m%d", x, prev)
			}
		}
		prev = x
	}
	c.mu.Lock()
	act := c.pend
	c.pend = ""
	nw, cancel := len(c.writes), c.cancel
	c.mu.Unlock()
	if act == "ok+accept+cancel" {
		// opt-in (never generated): the context is cancelled while the batch is in the sink; the persist job's final
		// write happens at once, then the sink accepts. Label X; such traces are not sent to the model.
		cancel()
		for i := 0; i < 500; i++ {
			c.mu.Lock()
			n := len(c.writes)
			c.mu.Unlock()
			if n > nw {
				break
			}
			time.Sleep(10 * time.Millisecond)
		}
		c.log("X")
		defer c.endSession("cancel")
	}
	if act == "ok+reject+cancel" {
		// the context is cancelled while the batch is inside the sink, and the sink then fails the batch (a sink that
		// cannot deliver because of the shutdown). The worker must not move its position. The persist job's final save may
		// come before or after the worker's last statements: the harness makes one save after the worker has ended
		// (runCase, lateSave), which is the later of the two orders. In the model: a rejected page, then the graceful end.
		c.mu.Lock()
		c.lateSave = true
		c.mu.Unlock()
		c.endSession("cancel")
	}
	c.mu.Lock()
	o.sess = c.sessNo
	o.accepted = act != "ok+reject" && act != "ok+reject+cancel"
	if o.accepted {
		if prev+1 > c.hw {
			c.hw = prev + 1
		}
		c.workerPos = c.pendNext
		c.labels = append(c.labels, fmt.Sprintf("p%da", o.k))
	} else {
		c.faults["reject"]++
		c.labels = append(c.labels, fmt.Sprintf("p%dr", o.k))
	}
	c.offers = append(c.offers, o)
	c.mu.Unlock()
	if !o.accepted {
		return errors.New("injected: sink rejects the batch")
	}
	return nil
}

var _ sink.Sink = caseSink{}

// ---- api.Client wrapper

type faultyClient struct {
	*rpc.Client
	c *run
}

func (f *faultyClient) Query(ctx context.Context, qr *api.QueryRequest, qres *api.QueryResult) error {
	return f.c.onQuery(ctx, qr, qres)
}

// junk fills the result of a FAILED query with content that must be ignored (api.QueryResult: Events and
// NextQueryRequest are meaningful only when the call returned nil and Err is nil): one event that is not the next
// stored one and a next-request that points nowhere. A worker that forgets one of the two error checks hands the junk
// event to the sink, which the delivery oracle sees as a gap.
func junk(qr *api.QueryRequest, qres *api.QueryResult) {
	qres.Events = []*api.LogEvent{{Timestamp: 1, Message: "m900000000", Fields: fieldsOf(900000000)}}
	qres.NextQueryRequest = api.QueryRequest{Query: qr.Query, Pos: "junk", Limit: qr.Limit, WaitTimeout: qr.WaitTimeout}
}

// peek returns the next script entry without consuming it ("" = exhausted)
func (c *run) peek() string {
	c.mu.Lock()
	defer c.mu.Unlock()
	if c.ip >= len(c.in.Script) {
		return ""
	}
	return c.in.Script[c.ip]
}

func (c *run) consume() {
	c.mu.Lock()
	c.ip++
	c.mu.Unlock()
}

func (c *run) endSession(kind string) {
	c.mu.Lock()
	ch, cancel := c.endCh, c.cancel
	c.mu.Unlock()
	if kind != "stop" {
		cancel()
	}
	select {
	case ch <- kind:
	default:
	}
}

// onQuery runs in the worker's goroutine: the worker is blocked here, so everything done before the request is
// forwarded happens at a quiescent point of this partition.
func (c *run) onQuery(ctx context.Context, qr *api.QueryRequest, qres *api.QueryResult) error {
	c.mu.Lock()
	ready := c.ready
	c.mu.Unlock()
	<-ready
	if ctx.Err() != nil {
		return ctx.Err()
	}
	c.mu.Lock()
	c.workerPos = qr.Pos
	sess := c.sess
	c.mu.Unlock()
	for {
		a := c.peek()
		c.mu.Lock()
		stopping := c.stopping
		c.mu.Unlock()
		if stopping && !isQuery(a) {
			a = "ok+accept" // the query in flight when the stop was requested; the entry stays for the next session
		} else if a != "" {
			c.consume()
		}
		switch {
		case a == "persist":
			if err := sess.PersistNow(); err != nil {
				c.note("PersistNow: %v", err)
			}
			c.log("P")
		case strings.HasPrefix(a, "grow "):
			k, _ := strconv.Atoi(strings.TrimPrefix(a, "grow "))
			if k > 0 {
				if err := c.write(k); err != nil {
					c.note("grow: write failed: %v", err)
				}
				c.log(fmt.Sprintf("g%d", k))
			}
		case a == "stop":
			sess.StopGracefully()
			c.mu.Lock()
			c.stopping = true
			c.mu.Unlock()
			c.endSession("stop")
		case a == "cancel" || a == "crash":
			if a == "crash" {
				c.mu.Lock()
				c.snap, c.snapOk = append([]byte{}, c.data...), c.has
				c.mu.Unlock()
			}
			c.endSession(a)
			return context.Canceled
		case a == "lost":
			junk(qr, qres)
			c.fault("lost")
			c.log("qt")
			return errInjected
		case a == "resplost":
			q2 := *qr
			if q2.WaitTimeout > 0 {
				q2.WaitTimeout = 1
			}
			var tmp api.QueryResult
			_ = c.cli.Query(ctx, &q2, &tmp)
			junk(qr, qres)
			c.fault("resplost")
			c.log("qt")
			return errInjected
		case a == "srverr":
			junk(qr, qres)
			qres.Err = errors.New("injected: server-side error")
			c.fault("srverr")
			c.log("qs")
			return nil
		case a == "empty":
			c.fault("empty")
			c.log("qe")
			return nil
		case a == "ok+accept" || a == "ok+reject" || a == "ok+accept+cancel" || a == "ok+reject+cancel" || a == "":
			free := a == "" // script exhausted: run undisturbed to the tail, end there
			if free {
				c.mu.Lock()
				idx, ok := c.known[qr.Pos]
				atTail := ok && idx == c.total
				c.mu.Unlock()
				if atTail {
					c.endSession("final")
					return context.Canceled
				}
				a = "ok+accept"
			}
			q2 := *qr
			if q2.WaitTimeout > 0 {
				q2.WaitTimeout = 1
			}
			err := c.cli.Query(ctx, &q2, qres)
			if err != nil || qres.Err != nil {
				// not scripted: the real server refused the worker's request (never seen on the unchanged tree)
				c.note("real query failed: transport=%v server=%v (request pos=%q)", err, qres.Err, qr.Pos)
				c.mu.Lock()
				c.unscripted++
				stuck := free && c.unscripted >= 3
				c.mu.Unlock()
				if err != nil {
					c.fault("unscripted-transport-error")
					c.log("qt")
				} else {
					c.fault("unscripted-server-error")
					c.log("qs")
				}
				if stuck {
					c.endSession("deadline") // reported as "hang": the worker cannot make progress any more
				}
				return err
			}
			if len(qres.Events) == 0 {
				c.fault("tail-empty")
				c.log("qe")
				if free {
					c.endSession("final")
				}
				return nil
			}
			last := msgIdx(qres.Events[len(qres.Events)-1].Message)
			c.mu.Lock()
			if last >= 0 {
				c.known[qres.NextQueryRequest.Pos] = last + 1
			}
			c.pend = a
			c.pendNext = qres.NextQueryRequest.Pos
			c.mu.Unlock()
			return nil
		default:
			c.note("unknown script entry %q ignored", a)
		}
	}
}

// ---------------------------------------------------------------------------------------------
// running one case

var caseSeq int64

func runCase(srv *lrsrv.Srv, in fcase) *run {
	id := atomic.AddInt64(&caseSeq, 1)
	c := &run{in: in, tags: fmt.Sprintf("src=c%d", id), srv: srv, known: map[string]int{"": 0}, faults: map[string]int{}}
	cli, err := newClient(srv.Addr)
	if err != nil {
		c.note("no rpc client: %v", err)
		return c
	}
	c.cli = cli
	defer cli.Close()
	if in.N < 0 {
		in.N = 0
		c.in.N = 0
	}
	// n = 0: the partition does not exist when the worker starts (it appears with the first "grow")
	if in.N > 0 {
		if err := c.write(in.N); err != nil {
			c.note("initial write failed: %v", err)
			return c
		}
	}
	nSleep := 0
	for _, a := range in.Script {
		if isQuery(a) {
			nSleep++
		}
	}
	cfg := &forwarder.Config{
		Workers:                []*forwarder.WorkerConfig{{Name: "w", Pipe: &forwarder.PipeConfig{Name: c.tags}, Sink: &sink.Config{Type: sink.SnkTypeStdout}}},
		StateStoreIntervalSec:  3600, // the periodic persist happens only where the script says "persist"
		SyncWorkersIntervalSec: 3600,
	}
	for sessNo := 0; sessNo < 12; sessNo++ {
		ctx, cancel := context.WithCancel(context.Background())
		sp, _ := c.storedPos()
		c.mu.Lock()
		c.sessNo = sessNo
		c.ready = make(chan struct{})
		c.endCh = make(chan string, 1)
		c.cancel = cancel
		c.stopping = false
		c.pend = ""
		c.workerPos = sp
		c.sessions = append(c.sessions, sessRec{startPos: sp})
		ready, endCh := c.ready, c.endCh
		c.mu.Unlock()
		sess, err := forwarder.StartVerifSession(ctx, cfg, &faultyClient{Client: cli, c: c}, memStore{c}, caseSink{c})
		if err != nil {
			c.note("StartVerifSession: %v", err)
			cancel()
			close(ready)
			break
		}
		c.mu.Lock()
		c.sess = sess
		c.mu.Unlock()
		close(ready)
		kind := ""
		select {
		case kind = <-endCh:
		case <-time.After(time.Duration(nSleep*7+60) * time.Second):
			kind = "deadline"
		}
		if kind == "stop" {
			// the worker ends after the iteration in flight (which may include one 5 s sleep)
			for i := 0; i < 3000 && !sess.IsStopped(); i++ {
				time.Sleep(10 * time.Millisecond)
			}
			if !sess.IsStopped() {
				kind = "deadline"
			}
		}
		cancel()
		werr := sess.Wait()
		if werr != nil {
			c.note("session %d: %v", sessNo, werr)
			kind = "deadline"
		}
		c.mu.Lock()
		late := c.lateSave
		c.lateSave = false
		c.mu.Unlock()
		if late {
			// the final save of the shutdown, taken after the worker's last statement (a legal order of the two goroutines)
			if err := sess.PersistNow(); err != nil {
				c.note("session %d: late save: %v", sessNo, err)
			}
		}
		c.mu.Lock()
		switch kind {
		case "crash":
			c.data, c.has = c.snap, c.snapOk
			c.labels = append(c.labels, "C")
		case "stop":
			c.labels = append(c.labels, "S")
		default:
			c.labels = append(c.labels, "G")
		}
		s := &c.sessions[len(c.sessions)-1]
		s.end = kind
		s.descPos = sess.Position()
		c.mu.Unlock()
		s.persisted, s.hasWrite = c.storedPos()
		if kind == "final" || kind == "deadline" {
			break
		}
	}
	return c
}

// ---------------------------------------------------------------------------------------------
// oracle

type verdict struct {
	fails []vh.SpecFailure
	impl  string // in the model's vocabulary
	line  string // model request
}

// idxOf maps a position string to an event index by asking the real server: the index of the first event a query
// from that position returns, or the partition size when it returns none.
func (c *run) idxOf(cli *rpc.Client, cache map[string]int, pos string) int {
	if v, ok := cache[pos]; ok {
		return v
	}
	q := &api.QueryRequest{Query: "SELECT FROM " + c.tags, Pos: pos, Limit: 1}
	var r api.QueryResult
	v := -1
	if err := cli.Query(context.Background(), q, &r); err != nil || r.Err != nil {
		c.note("idxOf(%q): %v %v", pos, err, r.Err)
	} else if len(r.Events) == 0 {
		v = c.total
	} else {
		v = msgIdx(r.Events[0].Message)
	}
	cache[pos] = v
	return v
}

func (c *run) analyse() verdict {
	var v verdict
	fail := func(kind, what, impl, spec string) {
		v.fails = append(v.fails, vh.SpecFailure{Section: "faults", Kind: kind, Input: c.in, Impl: impl, Spec: spec, What: what})
	}
	cli, err := newClient(c.srv.Addr)
	if err != nil {
		c.note("analyse: no client: %v", err)
		return v
	}
	defer cli.Close()
	cache := map[string]int{}
	idx := func(p string) int { return c.idxOf(cli, cache, p) }

	// (a) per session: one gap-free duplicate-free run; a rejected batch is offered again first
	spans := make([]span, len(c.sessions))
	for s := range spans {
		spans[s] = span{-1, -1}
	}
	var ranges []string
	for s := range c.sessions {
		expected, lastRej := -1, false
		for _, o := range c.offers {
			if o.sess != s {
				continue
			}
			if o.bad != "" {
				k := "gap"
				if strings.HasPrefix(o.bad, "out") {
					k = "out-of-order"
				}
				if strings.HasPrefix(o.bad, "content") {
					fail("event-content-differs", "an event handed to the sink is not the stored event (fields)", o.bad, "the event as it was written")
				} else {
					fail(k, "the events of one batch are not consecutive stored events", o.bad, "consecutive events")
				}
			}
			if expected < 0 {
				spans[s] = span{o.start, o.start}
			} else if o.start != expected {
				switch {
				case lastRej && o.start > expected:
					fail("delivered-after-rejected-batch", "after the sink rejected a batch, a later batch was offered before the rejected one was retried",
						fmt.Sprintf("session %d: batch from m%d offered after the rejected batch from m%d", s, o.start, expected), fmt.Sprintf("batch from m%d again", expected))
				case lastRej:
					fail("out-of-order", "after a rejected batch an earlier batch was offered",
						fmt.Sprintf("session %d: batch from m%d offered after the rejected batch from m%d", s, o.start, expected), fmt.Sprintf("batch from m%d again", expected))
				case o.start > expected:
					fail("gap", "events were skipped between two accepted batches of one session",
						fmt.Sprintf("session %d: batch from m%d follows accepted events up to m%d", s, o.start, expected-1), fmt.Sprintf("batch from m%d", expected))
				default:
					fail("duplicate-without-restart", "events were delivered twice within one session",
						fmt.Sprintf("session %d: batch from m%d follows accepted events up to m%d", s, o.start, expected-1), fmt.Sprintf("batch from m%d", expected))
				}
			}
			if o.accepted {
				expected = o.start + o.k
				spans[s].end = expected
				ranges = append(ranges, fmt.Sprintf("%d-%d", o.start, o.start+o.k))
			} else {
				expected = o.start
			}
			lastRej = !o.accepted
		}
	}
	// (b) across restarts
	hw := 0
	for s, ss := range c.sessions {
		startIdx := idx(ss.startPos)
		sp := spans[s]
		if sp.i0 >= 0 {
			if sp.i0 > hw {
				k := "skipped-after-restart"
				if s == 0 {
					k = "gap"
				}
				fail(k, "a (re)started worker began after the end of what the sink had accepted: events are skipped",
					fmt.Sprintf("session %d starts delivering at m%d", s, sp.i0), fmt.Sprintf("at most m%d", hw))
			}
			if startIdx >= 0 && sp.i0 < startIdx {
				fail("redelivered-confirmed-events", "a restarted worker re-delivered events before the persisted position (more than the unconfirmed tail)",
					fmt.Sprintf("session %d starts delivering at m%d", s, sp.i0), fmt.Sprintf("persisted position is m%d", startIdx))
			}
			if sp.end > hw {
				hw = sp.end
			}
		}
		// (c) graceful end: the persisted position is exactly the end of the session's accepted run
		if ss.end == "stop" || ss.end == "cancel" || ss.end == "final" {
			want := sp.end
			if sp.i0 < 0 {
				want = startIdx
			} else if sp.end == sp.i0 && startIdx >= 0 {
				want = startIdx // only rejected offers
			}
			got := idx(ss.persisted)
			if !ss.hasWrite {
				fail("graceful-stop-not-persisted", "no state was written at a graceful end", "no write", fmt.Sprintf("position m%d", want))
			} else if got >= 0 && want >= 0 && got < want {
				fail("graceful-stop-position-behind", "after a graceful end the persisted position is behind the last accepted batch: a restart re-delivers confirmed events",
					fmt.Sprintf("session %d (%s): persisted m%d", s, ss.end, got), fmt.Sprintf("m%d", want))
			}
			if d := idx(ss.descPos); d >= 0 && got >= 0 && d != got {
				k := "graceful-stop-position-behind"
				if got > d {
					k = "persisted-position-ahead"
				}
				fail(k, "after a graceful end the persisted position differs from the worker's descriptor position",
					fmt.Sprintf("session %d (%s): persisted m%d, descriptor m%d", s, ss.end, got, d), "equal")
			}
		}
		if ss.end == "deadline" {
			fail("hang", "the session did not end (worker or persist job did not return after stop/cancel, or the script did not finish in time)",
				fmt.Sprintf("session %d, labels %s", s, strings.Join(c.labels, " ")), "ends")
		}
	}
	// (c) every written position <= accepted high-water mark at the time of the write
	for _, w := range c.writes {
		if !w.ok {
			fail("persisted-state-undecodable", "the written state is not a one-descriptor list for worker w", w.raw, "[{Worker:{Name:w…},Position}]")
			continue
		}
		if i := idx(w.pos); i > w.hw {
			fail("persisted-position-ahead", "a position was persisted that is beyond the last batch the sink accepted: a restart from it skips events",
				fmt.Sprintf("session %d: persisted position = m%d", w.sess, i), fmt.Sprintf("at most m%d (accepted so far)", w.hw))
		}
	}
	// (d) completeness
	if n := len(c.sessions); n > 0 && c.sessions[n-1].end == "final" {
		if hw != c.total || (len(spans) > 0 && firstI0(spans) != 0) {
			fail("incomplete", "the worker reached the tail of the partition but not every event was delivered",
				fmt.Sprintf("delivered up to m%d (first m%d)", hw-1, firstI0(spans)), fmt.Sprintf("m0..m%d", c.total-1))
		}
	}
	deliv := "-"
	if len(ranges) > 0 {
		deliv = strings.Join(ranges, ";")
	}
	last := sessRec{}
	if n := len(c.sessions); n > 0 {
		last = c.sessions[n-1]
	}
	fin, _ := c.storedPos()
	v.impl = fmt.Sprintf("deliv=%s pos=%d desc=%d persisted=%d", deliv, idx(c.workerPos), idx(last.descPos), idx(fin))
	v.line = fmt.Sprintf("fw %d 0 %s", c.in.N, strings.Join(c.labels, " "))
	return v
}

// span: first offered index of a session, end of its accepted run (i0 if nothing accepted)
type span struct{ i0, end int }

func firstI0(sp []span) int {
	for _, s := range sp {
		if s.i0 >= 0 {
			return s.i0
		}
	}
	return -1
}

func digest(in fcase) string {
	h := sha1.Sum([]byte(fmt.Sprint(in.N, in.Script)))
	return hex.EncodeToString(h[:8])
}

// ---------------------------------------------------------------------------------------------
// section

var modelNoted bool

func noteModelOnce(format string, a ...interface{}) {
	if !modelNoted {
		modelNoted = true
		res.Note(format, a...)
	}
}

func driverUsable() bool {
	if args.Driver == "" {
		return false
	}
	if st, err := os.Stat(args.Driver); err != nil || st.IsDir() {
		return false
	}
	return true
}

// finish compares with the model and reports
func finish(sec *vh.Section, runs []*run, verbose bool) {
	vs := make([]verdict, len(runs))
	var wg sync.WaitGroup
	sem := make(chan struct{}, 32)
	for i := range runs {
		wg.Add(1)
		sem <- struct{}{}
		go func(i int) {
			defer wg.Done()
			defer func() { <-sem }()
			vs[i] = runs[i].analyse()
		}(i)
	}
	wg.Wait()
	var answers []string
	modelOK := false
	if driverUsable() {
		lines := make([]string, len(vs))
		for i := range vs {
			lines[i] = vs[i].line
		}
		ans, err := vh.Batch(args.Driver, lines)
		switch {
		case err != nil || len(ans) != len(lines):
			noteModelOnce("faults: model comparison skipped: driver %s: %v (%d of %d answers)", args.Driver, err, len(ans), len(lines))
		case len(ans) > 0 && !strings.HasPrefix(ans[0], "deliv="):
			noteModelOnce("faults: model comparison skipped: the driver does not implement 'fw' yet (answer %q)", ans[0])
		default:
			answers, modelOK = ans, true
		}
	} else {
		noteModelOnce("faults: model comparison skipped: no model driver at %q", args.Driver)
	}
	for i, c := range runs {
		v := vs[i]
		nf, acc := 0, 0
		for k, n := range c.faults {
			nf += n
			for j := 0; j < n; j++ {
				res.Dist(sec, "fault="+k)
			}
		}
		for _, o := range c.offers {
			if o.accepted {
				acc++
			}
		}
		key := ""
		if nf >= 1 && acc >= 1 {
			key = digest(c.in)
		}
		res.Eval(sec, key)
		res.Dist(sec, fmt.Sprintf("sessions=%d", len(c.sessions)))
		res.Dist(sec, fmt.Sprintf("N=%d", c.in.N))
		for _, s := range c.sessions {
			res.Dist(sec, "end="+s.end)
		}
		for _, n := range c.notes {
			res.Note("faults case n=%d script=%v: %s", c.in.N, c.in.Script, n)
		}
		model := ""
		if modelOK && !strings.Contains(v.line, " X") {
			model = answers[i]
			if model != v.impl {
				res.Mismatch(vh.Mismatch{Section: "faults", Function: "forwarder worker loop",
					Input: map[string]interface{}{"n": c.in.N, "script": c.in.Script, "trace": v.line}, Impl: v.impl, Model: model})
			}
		}
		for _, f := range v.fails {
			f.Model = model
			f.ImplEqModel = modelOK && model == v.impl
			res.SpecFail(f)
		}
		if verbose {
			fmt.Printf("trace: %s\nimpl:  %s\nmodel: %s\nfails: %d\n", v.line, v.impl, model, len(v.fails))
			for _, f := range v.fails {
				fmt.Printf("  %s: %s (impl %s, spec %s)\n", f.Kind, f.What, f.Impl, f.Spec)
			}
		}
		if i < 3 {
			res.Sample(map[string]interface{}{"section": "faults", "n": c.in.N, "script": c.in.Script, "trace": v.line, "impl": v.impl})
		}
	}
}

func readCorpusCase(path string) (fcase, bool) {
	var w struct {
		Section string          `json:"section"`
		Input   json.RawMessage `json:"input"`
		fcase
	}
	if err := vh.ReadJSON(path, &w); err != nil {
		return fcase{}, false
	}
	if len(w.Input) > 0 {
		if w.Section != "" && w.Section != "faults" {
			return fcase{}, false
		}
		var c fcase
		if json.Unmarshal(w.Input, &c) != nil {
			return fcase{}, false
		}
		return c, c.N >= 0 && len(c.Script) > 0
	}
	return w.fcase, w.fcase.N >= 0 && len(w.fcase.Script) > 0
}

// fixed cases: the boundaries named in the design (page limit, reject then retry, crash after an unpersisted batch…)
func fixedCases() []fcase {
	return []fcase{
		{N: 3, Script: []string{"ok+accept"}},
		{N: 3, Script: []string{"ok+reject", "ok+accept"}},
		{N: 1001, Script: []string{"ok+accept", "lost", "ok+accept"}},
		{N: 2500, Script: []string{"ok+accept", "persist", "ok+accept", "crash"}},
		{N: 1000, Script: []string{"resplost", "ok+accept", "stop", "ok+accept"}},
		{N: 10, Script: []string{"srverr", "empty", "ok+accept", "cancel", "grow 2"}},
		{N: 999, Script: []string{"ok+reject", "crash", "ok+accept", "grow 1001", "ok+accept", "persist", "stop", "ok+reject"}},
		{N: 2, Script: []string{"ok+accept", "persist", "grow 3", "ok+accept", "crash", "resplost"}},
		// the shutdown arrives while a batch is inside the sink and the sink then fails it; final save after the worker
		{N: 5, Script: []string{"ok+reject+cancel", "ok+accept"}},
		{N: 1500, Script: []string{"ok+accept", "persist", "ok+reject+cancel", "ok+accept", "ok+accept"}},
		{N: 7, Script: []string{"ok+accept", "grow 3", "ok+reject+cancel", "lost", "ok+accept"}},
	}
}

func sectionFaults(rng *vh.Rng) {
	sec := res.Section("faults", "system-correspondence", sectionRule)
	srv, err := lrsrv.Start(lrsrv.NewDir(), lrsrv.Opts{})
	if err != nil {
		res.Fatal(args.Out, "faults: %v", err)
	}
	defer func() { srv.Stop(); os.RemoveAll(srv.Dir) }()
	type wave struct{ n, maxFaults, maxSteps int }
	waves := []wave{{260, 6, 18}}
	if args.Thorough {
		waves = []wave{{500, 20, 45}, {500, 12, 30}, {500, 6, 18}}
	}
	for wi, w := range waves {
		var cases []fcase
		if wi == 0 {
			for _, f := range vh.CorpusFiles(args.Corpus) {
				if c, ok := readCorpusCase(f); ok {
					cases = append(cases, c)
				}
			}
			cases = append(cases, fixedCases()...)
		}
		for i := 0; i < w.n; i++ {
			// fork per case BEFORE any goroutine starts
			cases = append(cases, genCase(rng.Fork(fmt.Sprintf("w%d/c%d", wi, i)), w.maxFaults, w.maxSteps))
		}
		runs := make([]*run, len(cases))
		var wg sync.WaitGroup
		for i := range cases {
			wg.Add(1)
			go func(i int) {
				defer wg.Done()
				runs[i] = runCase(srv, cases[i])
			}(i)
			if i%16 == 15 {
				time.Sleep(2 * time.Millisecond) // spread the initial writes a little
			}
		}
		wg.Wait()
		finish(sec, runs, false)
	}
	// order of Distribution keys is irrelevant; keep the section honest about wall time
	res.Done(sec)
}

func replay(path string) {
	var rp struct {
		Section string          `json:"section"`
		Input   json.RawMessage `json:"input"`
	}
	if err := vh.ReadJSON(path, &rp); err != nil {
		res.Fatal(args.Out, "replay: %v", err)
	}
	switch rp.Section {
	case "faults", "":
		c, ok := readCorpusCase(path)
		if !ok {
			res.Fatal(args.Out, "replay: no case in %s", path)
		}
		sec := res.Section("faults", "replay", "replay of one recorded case (n, script)")
		srv, err := lrsrv.Start(lrsrv.NewDir(), lrsrv.Opts{})
		if err != nil {
			res.Fatal(args.Out, "faults: %v", err)
		}
		r := runCase(srv, c)
		finish(sec, []*run{r}, true)
		srv.Stop()
		os.RemoveAll(srv.Dir)
		res.Done(sec)
	case "leads":
		if queueLead(rp.Input) {
			sectionLeads()
		}
	default:
		res.Note("replay: section %q has no single-input replay; re-run the check with the recorded seed", rp.Section)
	}
	res.Write(args.Out)
}

func main() {
	args = vh.ParseArgs()
	res = vh.NewResult("C18", args)
	if args.Replay != "" {
		replay(args.Replay)
		return
	}
	rng := vh.NewRng(args.Seed)
	for _, f := range vh.CorpusFiles(args.Corpus) {
		var rp struct {
			Section string          `json:"section"`
			Input   json.RawMessage `json:"input"`
		}
		if vh.ReadJSON(f, &rp) == nil && rp.Section == "leads" {
			queueLead(rp.Input)
		}
	}
	leadsDone := make(chan struct{})
	go func() { defer close(leadsDone); sectionLeads() }() // its own server; waits of up to 12 s run next to "faults"
	sectionFaults(rng.Fork("faults"))
	<-leadsDone
	sort.Strings(res.Notes)
	res.Write(args.Out)
}
