// C20 harness — timestamp text is parsed to the instant it denotes, for every supported format.
//
// IMPL  = the real code: date.NewDefaultParser().Parse (collector), date.NewParser(fmt).Parse (one format),
//
//	parser.NewLineParser on a real file (log line), lql.parseLqlDateTime (export), lql.ParseLql("select range …"),
//	lql.BuildWhereExpFunc("ts >= …"); Go's time.Parse / time.Format / regexp for the library models.
//
// MODEL = lrmodel_c20 (Lean): terms → layout/regexp, time.Parse on civil fields, leftmost-first matcher, Format.Parse,
//
//	first-format-wins, parseLqlDateTime. The model's civil fields are turned into an instant with Go's time.Date (trusted).
//
// SPEC  = the instant the text was produced from: text = time.Format(layout the format denotes), expected = time.Date(fields the
//
//	format carries; UTC without a zone; current year (previous one for a month later than the current month, as documented
//	in date.go) / current day when the format has none).
//
// Sections
//
//	corpus     committed witnesses of the known-finding classes and minimised past failures, replayed first
//	terms      unit: NewParser's layout / regexp text / flags per format (both lists + generated formats) vs model
//	timeparse  unit: time.Parse and time.Format vs the layout model (layouts of both lists; own, foreign, cut, mutated texts)
//	regexp     unit: regexp.FindSubmatch vs the model's matcher (regexps of both lists; same texts)
//	own        per format alone: date.NewParser(fmt).Parse(own text) vs model vs SPEC (no shadowing possible)
//	sweep-col  collector list: formats × boundary instants × {alone, start of a log line} — IMPL vs MODEL (incl. claiming format) vs SPEC
//	sweep-lql  LQL list: formats × boundary instants × {literal, padded literal, RANGE literal, ts condition} — IMPL vs MODEL vs SPEC
//	lineparser the real collector line parser on files (one line per file; and same-format multi-line files)
//	mutated    correspondence only: lower-cased / cut / mutated / foreign texts through both entry points
//	integer    LQL integer literals: boundary and random int64 — IMPL vs MODEL vs SPEC (Unix nanoseconds exactly)
//	relative   LQL relative literals: model shape, not-in-the-future, monotonicity over generated pairs
package main

import (
	"context"
	"encoding/json"
	"flag"
	"fmt"
	"io/ioutil"
	"math"
	"os"
	"path/filepath"
	"regexp"
	"sort"
	"strconv"
	"strings"
	"sync"
	"time"

	"github.com/logrange/logrange/pkg/lql"
	"github.com/logrange/logrange/pkg/model"
	"github.com/logrange/logrange/pkg/scanner/parser"
	"github.com/logrange/logrange/pkg/scanner/parser/date"
	"verifharness/internal/vh"
)

var (
	args vh.Args
	res  *vh.Result

	colList, lqlList []string
	colParser        = date.NewDefaultParser()
	classes          = map[string]string{} // class key "<list>:<i>:<by>" -> finding id
	fixedClasses     = map[string]string{} // class key -> id of the FIXED finding it belonged to (a deviation there = the defect is back)
	fixedDoc         = map[string][]string{}
	openIDs          = map[string]bool{} // ids of the open findings that are classified by a predicate, not by a class key
	curToday         today
	genTable         string
	genSeeds         int
	collected        = map[string]*classRec{}
	collMu           sync.Mutex
)

const lineSuffix = " INFO [main] request served in 35 ms"

// a rest of the line that holds a date of `YYYY-MM-DD HH:mm:ss` (finding F-C20-901: it wins against later formats of the list)
const laterDateSuffix = "\tsee 2018-01-01 10:00:00 for details"

var laterDateInstant = time.Date(2018, 1, 1, 10, 0, 0, 0, time.UTC)

// ---------------------------------------------------------------------------------------------
// SPEC: what the format letters denote (fixed here, deliberately NOT read from date.go's terms table)

var specTerms = [][2]string{
	{"ZZZZZ", "-07:00"}, {"YYYY", "2006"}, {"MMMM", "January"}, {"DDDD", "Monday"}, {".SSS", ".SSS"}, {"ZZZZ", "-0700"},
	{"MMM", "Jan"}, {"DDD", "Mon"}, {"ZZZ", "MST"}, {"MST", "MST"}, {"YY", "06"}, {"MM", "01"}, {"DD", "02"}, {"_D", "_2"},
	{"HH", "15"}, {"hh", "03"}, {"mm", "04"}, {"ss", "05"}, {"ZZ", "Z07:00"}, {"M", "1"}, {"D", "2"}, {"h", "3"}, {"m", "4"},
	{"s", "5"}, {"P", "PM"},
}

type feat struct {
	year4, year2, month, day, hour, min, sec, frac bool
	zoneNum, zoneName                             bool
	toks                                          []string
}

func (f feat) hasYear() bool { return f.year4 || f.year2 }
func (f feat) noDate() bool  { return !f.hasYear() && !f.month && !f.day }

// tokens of a format: spec terms (longest first at each position) and literal bytes
func features(format string) feat {
	var ft feat
	for i := 0; i < len(format); {
		m := false
		for _, t := range specTerms {
			if strings.HasPrefix(format[i:], t[0]) {
				ft.toks = append(ft.toks, t[0])
				switch t[0] {
				case "YYYY":
					ft.year4 = true
				case "YY":
					ft.year2 = true
				case "MMMM", "MMM", "MM", "M":
					ft.month = true
				case "DD", "_D", "D":
					ft.day = true
				case "HH", "hh", "h":
					ft.hour = true
				case "mm", "m":
					ft.min = true
				case "ss", "s":
					ft.sec = true
				case ".SSS":
					ft.frac = true
				case "ZZZZZ", "ZZZZ", "ZZ":
					ft.zoneNum = true
				case "ZZZ", "MST":
					ft.zoneName = true
				}
				i += len(t[0])
				m = true
				break
			}
		}
		if !m {
			ft.toks = append(ft.toks, "'"+format[i:i+1])
			i++
		}
	}
	return ft
}

// the Go layout the format denotes; frac = number of fraction digits written for .SSS
func intended(ft feat, frac int) string {
	var sb strings.Builder
	for _, t := range ft.toks {
		if t[0] == '\'' {
			sb.WriteString(t[1:])
			continue
		}
		if t == ".SSS" {
			sb.WriteString("." + strings.Repeat("0", frac))
			continue
		}
		for _, st := range specTerms {
			if st[0] == t {
				sb.WriteString(st[1])
			}
		}
	}
	return sb.String()
}

type inst struct {
	Y      int    `json:"y"`
	Mo     int    `json:"mo"`
	D      int    `json:"d"`
	H      int    `json:"h"`
	Mi     int    `json:"mi"`
	S      int    `json:"s"`
	Ns     int    `json:"ns"`
	OffMin int    `json:"off_min"`
	ZName  string `json:"zname,omitempty"`
}

type kase struct {
	List     string `json:"list"` // col | lql | one
	Format   string `json:"format"`
	I        inst   `json:"instant"`
	Frac     int    `json:"frac_digits"`
	Surround string `json:"surround"` // alone | line | padded | range | ts | file
	Text     string `json:"text,omitempty"`
}

// abbreviations with a conventional offset (minutes): Go resolves only those of the process's local zone, others get 0 (finding F72)
var zoneTrue = map[string]int{"UTC": 0, "GMT": 0, "PST": -480, "EST": -300, "CET": 60}

var zoneNames = map[int]string{0: "UTC", 60: "CET", -420: "MST", 330: "IST", -30: "XYT", 840: "LIT", -720: "BIT", 120: "EET", -300: "EST"}

func (k kase) loc(ft feat) *time.Location {
	switch {
	case ft.zoneNum && ft.zoneName:
		n := zoneNames[k.I.OffMin]
		if n == "" {
			n = "QQT"
		}
		return time.FixedZone(n, k.I.OffMin*60)
	case ft.zoneNum:
		return time.FixedZone("", k.I.OffMin*60)
	case ft.zoneName:
		n := k.I.ZName
		if n == "" {
			n = "UTC"
		}
		return time.FixedZone(n, zoneTrue[n]*60) // the offset the abbreviation conventionally denotes (0 for UTC, GMT)
	}
	return time.UTC
}

// text of the instant in the format; ok=false: the instant is not expressible in the format
func (k kase) render() (string, bool) {
	ft := features(k.Format)
	if ft.year2 && (k.I.Y < 1969 || k.I.Y > 2068) {
		return "", false
	}
	t := time.Date(k.I.Y, time.Month(k.I.Mo), k.I.D, k.I.H, k.I.Mi, k.I.S, k.I.Ns, k.loc(ft))
	if t.Day() != k.I.D { // not a calendar date
		return "", false
	}
	return t.Format(intended(ft, k.Frac)), true
}

type today struct{ y, m, d int }

func getToday() today {
	n := time.Now()
	return today{n.Year(), int(n.Month()), n.Day()}
}

// the instant the property demands
func (k kase) expected(td today) time.Time {
	ft := features(k.Format)
	y, mo, d, h, mi, s, ns := k.I.Y, k.I.Mo, k.I.D, 0, 0, 0, 0
	if !ft.month {
		mo = 1
	}
	if !ft.day {
		d = 1
	}
	if ft.noDate() {
		y, mo, d = td.y, td.m, td.d
	} else if !ft.hasYear() {
		y = td.y // "the current year when it has none" — literally (date.go's previous-year rule for later months is finding F73)
	}
	if ft.hour {
		h = k.I.H
	}
	if ft.min {
		mi = k.I.Mi
	}
	if ft.sec {
		s = k.I.S
	}
	if ft.frac {
		ns = k.I.Ns
	}
	return time.Date(y, time.Month(mo), d, h, mi, s, ns, k.loc(ft))
}

func (k kase) input(text string) string {
	switch k.Surround {
	case "line", "file":
		return text + lineSuffix
	case "line-tab": // an inert separator (no format's expression can consume it) + a rest without a date: C20_collector_line
		return text + "\t" + lineSuffix[1:]
	case "line-bar":
		return text + "|INFO|35 ms"
	case "line-bracket":
		return text + "[main] x=1; took 35 ms"
	case "line-later-date": // a date of an earlier format later in the line (finding F-C20-901)
		return text + laterDateSuffix
	case "padded":
		return "  " + text + " "
	case "lower-ampm": // the P term's expression admits am|pm
		return strings.Replace(strings.Replace(text, " AM", " am", 1), " PM", " pm", 1)
	}
	return text
}

// ---------------------------------------------------------------------------------------------
// instants: boundary-directed ("star" around a base instant, then seeded combinations of the boundary pools)

var (
	yearPool  = []int{1000, 1969, 1970, 1999, 2000, 2019, 2024, 2068, 2069, 2999}
	dayPool   = []int{1, 2, 9, 10, 11, 19, 20, 28, 29, 30, 31}
	hourPool  = []int{0, 1, 9, 10, 11, 12, 13, 20, 21, 23}
	minPool   = []int{0, 5, 9, 10, 59}
	secPool   = []int{0, 7, 10, 59}
	offPool   = []int{0, 60, -420, 330, -30, 840, -720}
	fracPool  = [][2]int{{3, 120000000}, {3, 7000000}, {3, 0}, {6, 123000}, {6, 999999000}, {9, 123456789}, {9, 1}}
	namedPool = []string{"UTC", "GMT", "PST", "EST", "CET"}
)

func instantsFor(format string, rng *vh.Rng, nRandom int) []kase {
	ft := features(format)
	base := inst{Y: 2019, Mo: 3, D: 11, H: 13, Mi: 14, S: 15}
	frac0 := 0
	if ft.frac {
		frac0 = 3
		base.Ns = 120000000
	}
	if ft.zoneName && !ft.zoneNum {
		base.ZName = "UTC"
	}
	var out []kase
	add := func(i inst, frac int) { out = append(out, kase{Format: format, I: i, Frac: frac}) }
	add(base, frac0)
	if ft.hasYear() {
		for _, y := range yearPool {
			i := base
			i.Y = y
			add(i, frac0)
		}
		i := base
		i.Y, i.Mo, i.D = 2000, 2, 29
		add(i, frac0)
		i.Y = 2024
		add(i, frac0)
	}
	if ft.month {
		for m := 1; m <= 12; m++ {
			i := base
			i.Mo, i.D = m, 15
			add(i, frac0)
			i.D = 3
			add(i, frac0)
		}
	}
	if ft.day {
		for _, d := range dayPool {
			i := base
			i.Mo, i.D = 1, d
			add(i, frac0)
			i.Mo = 10
			add(i, frac0)
		}
		for d := 10; d <= 16; d++ { // every weekday name
			i := base
			i.D = d
			add(i, frac0)
		}
	}
	if ft.hour {
		for _, h := range hourPool {
			i := base
			i.H = h
			add(i, frac0)
			i.Mi = 5
			add(i, frac0)
		}
	}
	if ft.min {
		for _, m := range minPool {
			i := base
			i.Mi = m
			add(i, frac0)
		}
	}
	if ft.sec {
		for _, s := range secPool {
			i := base
			i.S = s
			add(i, frac0)
		}
	}
	if ft.frac {
		for _, f := range fracPool {
			i := base
			i.Ns = f[1]
			add(i, f[0])
		}
	}
	if ft.zoneNum {
		for _, o := range offPool {
			i := base
			i.OffMin = o
			add(i, frac0)
			i.H = 23
			add(i, frac0)
		}
	}
	if ft.zoneName && !ft.zoneNum {
		for _, n := range namedPool {
			i := base
			i.ZName = n
			add(i, frac0)
		}
	}
	for n := 0; n < nRandom; n++ {
		i := inst{Y: rng.PickI(yearPool), Mo: rng.Range(1, 12), D: rng.PickI(dayPool), H: rng.PickI(hourPool), Mi: rng.PickI(minPool), S: rng.PickI(secPool)}
		if rng.Chance(1, 3) { // any instant, not only boundary values
			i = inst{Y: rng.Range(1000, 2999), Mo: rng.Range(1, 12), D: rng.Range(1, 28), H: rng.Range(0, 23), Mi: rng.Range(0, 59), S: rng.Range(0, 59)}
		}
		fr := 0
		if ft.frac {
			f := fracPool[rng.Intn(len(fracPool))]
			fr, i.Ns = f[0], f[1]
		}
		if ft.zoneNum {
			i.OffMin = rng.PickI(offPool)
		}
		if ft.zoneName && !ft.zoneNum {
			i.ZName = rng.PickS(namedPool)
		}
		add(i, fr)
	}
	return out
}

// ---------------------------------------------------------------------------------------------
// canonical answers: "ok <idx> <unixsec> <nsec> <zone offset>" | "err" | …

func canonTime(idx int, tm time.Time) string {
	_, off := tm.Zone()
	return fmt.Sprintf("ok %d %d %d %d", idx, tm.Unix(), tm.Nanosecond(), off)
}

func unixOf(canon string) (time.Time, bool) {
	p := strings.Fields(canon)
	if len(p) == 5 && p[0] == "ok" {
		sec, e1 := strconv.ParseInt(p[2], 10, 64)
		ns, e2 := strconv.ParseInt(p[3], 10, 64)
		if e1 == nil && e2 == nil {
			return time.Unix(sec, ns).UTC(), true
		}
	}
	return time.Time{}, false
}

func instantOf(canon string) string { // drop index and zone offset: what SPEC compares
	p := strings.Fields(canon)
	if len(p) == 5 && p[0] == "ok" {
		return p[2] + " " + p[3]
	}
	return canon
}

func dropIdx(canon string) string {
	p := strings.Fields(canon)
	if len(p) == 5 && p[0] == "ok" {
		return "ok " + p[2] + " " + p[3] + " " + p[4]
	}
	return canon
}

func idxOf(canon string) string {
	p := strings.Fields(canon)
	if len(p) == 5 && p[0] == "ok" {
		return p[1]
	}
	return "rej"
}

// model answer "ok <idx> Y M D h m s ns <instOff> <dispOff>" -> canonical (time.Date applied here: trusted)
func canonModel(ans string) string {
	p := strings.Fields(ans)
	if len(p) == 11 && p[0] == "ok" {
		n := make([]int, 10)
		for i := 0; i < 10; i++ {
			v, err := strconv.Atoi(p[i+1])
			if err != nil {
				return "BAD " + ans
			}
			n[i] = v
		}
		t := time.Date(n[1], time.Month(n[2]), n[3], n[4], n[5], n[6], n[7], time.UTC).Add(-time.Duration(n[8]) * time.Second)
		return fmt.Sprintf("ok %d %d %d %d", n[0], t.Unix(), t.Nanosecond(), n[9])
	}
	return ans
}

// indexIn finds a format in a list. A recorded witness may name format 2 with the literal MST (the list before /repo
// bf37a58) or with the term ZZZ (after): both denote the same layout, so they are the same list entry.
func indexIn(list []string, f string) int {
	for i, x := range list {
		if x == f {
			return i
		}
	}
	n := strings.Replace(f, "MST", "ZZZ", -1)
	for i, x := range list {
		if strings.Replace(x, "MST", "ZZZ", -1) == n {
			return i
		}
	}
	return -1
}

// ---------------------------------------------------------------------------------------------
// IMPL entry points

func implCol(in string) string {
	tm, ft := colParser.Parse([]byte(in))
	if ft == nil {
		return "err"
	}
	return canonTime(indexIn(colList, ft.GetFormat()), tm)
}

func implOne(format, in string) string {
	var out string
	p := vh.Recover(func() {
		tm, ft := date.NewParser(format).Parse([]byte(in))
		if ft == nil {
			out = "err"
		} else {
			out = canonTime(0, tm)
		}
	})
	if p != "" {
		return "panic"
	}
	return out
}

func implLql(in string) (time.Time, string) {
	tm, err := lql.VerifParseLqlDateTime(in)
	if err != nil {
		return tm, "err"
	}
	return tm, canonTime(-1, tm)
}

// the RANGE literal through the LQL parser: Unix nanoseconds
func implRange(text string) string {
	l, err := lql.ParseLql("select range " + strconv.Quote(text))
	if err != nil || l.Select == nil || l.Select.Range == nil || l.Select.Range.TmPoint1 == nil {
		return "err"
	}
	return fmt.Sprintf("nano %d", int64(*l.Select.Range.TmPoint1))
}

// the literal of a ts condition: the smallest timestamp for which `ts >= "<text>"` holds, probed around want
func implTsCond(text string, want int64) string {
	f, err := lql.BuildWhereExpFunc("ts >= " + strconv.Quote(text))
	if err != nil {
		return "err"
	}
	at := func(ts int64) bool { return f(&model.LogEvent{Timestamp: ts}) }
	if at(want) && !at(want-1) {
		return fmt.Sprintf("nano %d", want)
	}
	return fmt.Sprintf("not-at %d (ge(want)=%v ge(want-1)=%v)", want, at(want), at(want-1))
}

func implLineParser(line string) string {
	dir, err := ioutil.TempDir(os.Getenv("VERIF_TMP"), "c20-")
	if err != nil {
		return "tmp-error " + err.Error()
	}
	defer os.RemoveAll(dir)
	fn := filepath.Join(dir, "x.log")
	if err := ioutil.WriteFile(fn, []byte(line+"\n"), 0644); err != nil {
		return "tmp-error " + err.Error()
	}
	lp, err := parser.NewLineParser(fn, date.NewDefaultParser(), 4096)
	if err != nil {
		return "open-error " + err.Error()
	}
	defer lp.Close()
	rec, err := lp.NextRecord(context.Background())
	if err != nil {
		return "read-error " + err.Error()
	}
	tm := rec.GetDate()
	if tm.IsZero() {
		return "err"
	}
	return canonTime(-1, tm)
}

// ---------------------------------------------------------------------------------------------
// model in parallel

func askModel(lines []string) []string {
	const workers = 12
	if len(lines) == 0 {
		return nil
	}
	out := make([]string, len(lines))
	var wg sync.WaitGroup
	chunk := (len(lines) + workers - 1) / workers
	var ferr error
	var mu sync.Mutex
	for w := 0; w < workers; w++ {
		lo, hi := w*chunk, (w+1)*chunk
		if lo >= len(lines) {
			break
		}
		if hi > len(lines) {
			hi = len(lines)
		}
		wg.Add(1)
		go func(lo, hi int) {
			defer wg.Done()
			r, err := vh.Batch(args.Driver, lines[lo:hi])
			if err != nil {
				mu.Lock()
				ferr = err
				mu.Unlock()
				return
			}
			copy(out[lo:hi], r)
		}(lo, hi)
	}
	wg.Wait()
	if ferr != nil {
		res.Fatal(args.Out, "driver: %v", ferr)
	}
	return out
}

// ---------------------------------------------------------------------------------------------
// known-finding classes (committed table, read-only)

type classRec struct {
	Key     string `json:"key"`
	List    string `json:"list"`
	Index   int    `json:"format_index"`
	Format  string `json:"format"`
	By      string `json:"claimed_by_index"` // index of the format that claims the text, or "rej"
	ByFmt   string `json:"claimed_by,omitempty"`
	Cause   string `json:"cause"`
	Witness kase   `json:"-"`
	Got     string `json:"-"`
	Want    string `json:"-"`
	n       int
}

type findingEntry struct {
	ID        string                 `json:"id"`
	Property  string                 `json:"property"`
	Status    string                 `json:"status"`
	Site      string                 `json:"site"`
	WhatFails string                 `json:"what_fails"`
	Kinds     []string               `json:"kinds"`
	Witness   map[string]interface{} `json:"witness"`
	Class     classRec               `json:"class"`
	LeanCex   string                 `json:"lean_counterexample,omitempty"`
	Fix       string                 `json:"proposed_fix,omitempty"`
}

func loadClasses() {
	path := filepath.Join(args.Corpus, "..", "..", "known_findings.d", "C20.json")
	var doc struct {
		Findings     []findingEntry      `json:"findings"`
		FixedClasses map[string][]string `json:"fixed_classes"`
	}
	defer func() {
		for id, keys := range doc.FixedClasses {
			fixedDoc[id] = keys
			for _, k := range keys {
				fixedClasses[k] = id
			}
		}
	}()
	if err := vh.ReadJSON(path, &doc); err != nil {
		res.Note("no class table (%v): every deviation is unattributed", err)
		return
	}
	for _, f := range doc.Findings {
		if f.Status == "open" && f.Class.Key != "" {
			classes[f.Class.Key] = f.ID
		}
		if f.Status == "open" {
			openIDs[f.ID] = true
		}
	}
}

func failKind(impl string) string {
	if strings.HasPrefix(impl, "ok") || strings.HasPrefix(impl, "nano") {
		return "wrong-instant"
	}
	return "rejected-own-text"
}

// one evaluated sweep case: classify a deviation from SPEC
func judge(section string, k kase, listIdx int, impl, modelC, want string, byIdx string) {
	if instantOf(impl) == instantOf(want) {
		return
	}
	eq := dropIdx(impl) == dropIdx(modelC)
	key := fmt.Sprintf("%s:%d:%s", k.List, listIdx, byIdx)
	fid := ""
	if eq {
		fid = classes[key]
	}
	if eq && fid == "" {
		ft := features(k.Format)
		switch {
		case k.Surround == "lower-ampm" && strings.Contains(strings.Join(ft.toks, ","), "P"):
			fid, key = "F69", "lower-case am/pm"
		case k.Surround == "line-later-date":
			// the answer must be exactly the later date of the line, claimed by a format that comes earlier in the list
			if tmImpl, ok := unixOf(impl); ok && tmImpl.Equal(laterDateInstant) {
				fid, key = "F-C20-901", "a date later in the line, of a format earlier in the list"
			}
		case ft.zoneName && !ft.zoneNum && zoneTrue[k.I.ZName] != 0:
			fid, key = "F72", "zone abbreviation unknown to the process's local zone"
		case !ft.hasYear() && !ft.noDate() && k.I.Mo > curToday.m:
			// the deviation must be exactly date.go's rule: the previous year
			kk := k
			prev := time.Date(curToday.y-1, time.Month(k.I.Mo), 1, 0, 0, 0, 0, time.UTC)
			if strings.Fields(instantOf(impl) + " 0")[0] != "" {
				exp := kk.expected(curToday)
				if tmImpl, ok := unixOf(impl); ok && tmImpl.Year() == prev.Year() && tmImpl.Equal(exp.AddDate(-1, 0, 0)) {
					fid, key = "F73", "year-less format, month later than the current month"
				}
			}
		}
		if fid != "" && !openIDs[fid] {
			fid = ""
		}
	}
	if fid == "" {
		fid = fixedClasses[key] // not an open finding: the orchestrator reports "the FIXED finding is back"
	}
	if genTable != "" && eq {
		collMu.Lock()
		c := collected[key]
		if c == nil {
			c = &classRec{Key: key, List: k.List, Index: listIdx, Format: k.Format, By: byIdx, Witness: k, Got: impl, Want: want}
			collected[key] = c
		}
		// prefer a plain witness: alone/literal, typical year
		better := func(a, b kase) bool {
			sa, sb := 0, 0
			for _, x := range []struct {
				k *kase
				s *int
			}{{&a, &sa}, {&b, &sb}} {
				if x.k.Surround == "alone" {
					*x.s += 4
				}
				if x.k.I.Y == 2019 {
					*x.s += 2
				}
				if x.k.I.OffMin == 0 {
					*x.s++
				}
			}
			return sa > sb
		}
		if better(k, c.Witness) {
			c.Witness, c.Got, c.Want = k, impl, want
		}
		c.n++
		collMu.Unlock()
	}
	res.SpecFail(vh.SpecFailure{Section: section, Kind: failKind(impl), Input: k, Impl: impl, Spec: want, Model: modelC,
		ImplEqModel: eq, Finding: fid,
		What: fmt.Sprintf("%s format %d %q: text %q (%s) is %s, expected %s [class %s]", k.List, listIdx, k.Format, k.Text, k.Surround, impl, want, key)})
}

// ---------------------------------------------------------------------------------------------
// the sweep over one list

type evald struct {
	k       kase
	idx     int
	in      string
	impl    string
	want    string
	mline   string
	extra   []string // further IMPL observations that must agree with impl's instant (range, ts, file)
	extraAt []string
}

func nowStr(td today) string { return fmt.Sprintf("%d %d %d", td.y, td.m, td.d) }

func runSweep(section, list string, cases []kase, sec *vh.Section) {
	fmts := colList
	if list == "lql" {
		fmts = lqlList
	}
	var evs []evald
	var td today
	for attempt := 0; attempt < 3; attempt++ { // the run must not straddle midnight (year/day defaulting reads the clock)
		evs = evs[:0]
		td = getToday()
		curToday = td
		for _, k := range cases {
			text, ok := k.render()
			if !ok {
				res.Dist(sec, "not-expressible")
				continue
			}
			k.Text = text
			k.List = list
			e := evald{k: k, idx: indexIn(fmts, k.Format), in: k.input(text), want: canonTime(-1, k.expected(td))}
			switch list {
			case "col":
				if k.Surround == "file" {
					e.impl = implLineParser(e.in)
				} else {
					e.impl = implCol(e.in)
				}
				e.mline = "col " + nowStr(td) + " " + vh.HxS(e.in)
			case "lql":
				_, e.impl = implLql(e.in)
				e.mline = "lql " + nowStr(td) + " " + vh.HxS(e.in)
				if k.Surround == "range" || k.Surround == "ts" {
					// through the LQL parser the result is int64 Unix nanoseconds: only instants representable there
					tm, c := implLql(e.in)
					if c != "err" && !tm.Before(time.Unix(0, math.MinInt64)) && !tm.After(time.Unix(0, math.MaxInt64)) {
						var got string
						if k.Surround == "range" {
							got = implRange(e.in)
						} else {
							got = implTsCond(e.in, tm.UnixNano())
						}
						if got != fmt.Sprintf("nano %d", tm.UnixNano()) {
							res.Mismatch(vh.Mismatch{Section: section, Function: "lql literal (" + k.Surround + ") vs parseLqlDateTime", Input: k,
								Impl: got, Model: fmt.Sprintf("nano %d", tm.UnixNano())})
						}
					} else if c == "err" {
						if k.Surround == "range" && implRange(e.in) != "err" {
							res.Mismatch(vh.Mismatch{Section: section, Function: "lql RANGE literal accepted but parseLqlDateTime rejects", Input: k, Impl: implRange(e.in), Model: "err"})
						}
					} else {
						// the property quantifies over 1000..2999; a logrange timestamp is int64 nanoseconds (1677-09-21 … 2262-04-11): the
						// literal is accepted and tm.UnixNano() wraps silently (finding F71)
						res.Dist(sec, "range/ts-literal-outside-int64-nanos")
						if k.Surround == "range" {
							if got := implRange(e.in); got != "err" {
								fid := ""
								if openIDs["F71"] {
									fid = "F71"
								}
								res.SpecFail(vh.SpecFailure{Section: section, Kind: "wrong-instant", Input: k, Impl: got, Spec: "the instant " + tm.UTC().Format(time.RFC3339) + " (not representable as int64 nanoseconds: reject)",
									Model: c, ImplEqModel: true, Finding: fid,
									What: fmt.Sprintf("RANGE literal %q denotes %s; the parser accepts it and the bound becomes %s (UnixNano wrapped)", e.in, tm.UTC().Format(time.RFC3339), got)})
							}
						}
					}
				}
			}
			evs = append(evs, e)
		}
		if getToday() == td {
			break
		}
	}
	lines := make([]string, len(evs))
	for i := range evs {
		lines[i] = evs[i].mline
	}
	// the text the theorems are about (renderLayout of the list's format) must be the text Go's Format produced
	for _, e := range evs {
		ft := features(e.k.Format)
		t := time.Date(e.k.I.Y, time.Month(e.k.I.Mo), e.k.I.D, e.k.I.H, e.k.I.Mi, e.k.I.S, e.k.I.Ns, e.k.loc(ft))
		zn, _ := t.Zone()
		if len(zn) != 3 {
			zn = "UTC"
		}
		fd := e.k.Frac
		if fd == 0 {
			fd = 3
		}
		lines = append(lines, fmt.Sprintf("render %s %d %d %d %d %d %d %d %d %d %d %d %s", list, e.idx, e.k.I.Y, e.k.I.Mo, e.k.I.D, e.k.I.H, e.k.I.Mi, e.k.I.S,
			e.k.I.Ns, int(t.Weekday()), fd, e.k.I.OffMin, vh.HxS(zn)))
	}
	outs := askModel(lines)
	for i, e := range evs {
		if e.idx >= 0 {
			if got := outs[len(evs)+i]; got != "text "+vh.HxS(e.k.Text) {
				res.Mismatch(vh.Mismatch{Section: section, Function: "renderLayout (text of the instant in the format) vs time.Format", Input: e.k, Impl: "text " + vh.HxS(e.k.Text), Model: got})
			}
		}
		mc := canonModel(outs[i])
		res.Eval(sec, e.k.Format+"|"+e.in)
		res.Dist(sec, "surround="+e.k.Surround)
		implCmp, modelCmp := e.impl, mc
		if list == "lql" || e.k.Surround == "file" { // the claiming format is not observable there
			implCmp, modelCmp = dropIdx(e.impl), dropIdx(mc)
		}
		if implCmp != modelCmp {
			res.Mismatch(vh.Mismatch{Section: section, Function: list + " parse", Input: e.k, Impl: e.impl, Model: mc + "   [" + outs[i] + "]"})
		}
		if instantOf(e.impl) == instantOf(e.want) {
			res.Dist(sec, "as-spec")
		} else {
			res.Dist(sec, "deviates")
		}
		judge(section, e.k, e.idx, e.impl, mc, e.want, idxOf(mc))
	}
}

func sweepCases(list []string, rng *vh.Rng, nRandom int, surrounds []string) []kase {
	var all []kase
	for _, f := range list {
		seen := map[string]bool{}
		for _, k := range instantsFor(f, rng, nRandom) {
			t, ok := k.render()
			if ok && seen[t] {
				continue
			}
			seen[t] = true
			for _, s := range surrounds {
				kk := k
				kk.Surround = s
				all = append(all, kk)
			}
			if strings.Contains(f, " P") && len(seen)%3 == 0 {
				kk := k
				kk.Surround = "lower-ampm"
				all = append(all, kk)
			}
			if len(surrounds) > 1 { // the collector sweep: other line contexts on a share of the cases
				switch len(seen) % 4 {
				case 0:
					kk := k
					kk.Surround = "line-tab"
					all = append(all, kk)
				case 1:
					kk := k
					kk.Surround = "line-bar"
					all = append(all, kk)
				case 2:
					kk := k
					kk.Surround = "line-bracket"
					all = append(all, kk)
				}
				if len(seen) == 1 {
					kk := k
					kk.Surround = "line-later-date"
					all = append(all, kk)
				}
			}
		}
	}
	return all
}

func sectionSweepCol(rng *vh.Rng) {
	sec := res.Section("sweep-col", "spec-search",
		"every collector format × boundary instants (years 1000/1969/1970/1999/2000/2019/2024/2068/2069/2999, every month and weekday name, 1/2-digit fields, hours 0/11/12/13/23, fractions of 3/6/9 digits, zones ±hh:mm and UTC/GMT) + seeded combinations × {alone, start of a log line}; IMPL = default parser incl. the claiming format, MODEL, SPEC = the instant the text was produced from; non-trivial = distinct (format, input text)")
	n := 160
	if args.Thorough {
		n = 1500
	}
	runSweep("sweep-col", "col", sweepCases(colList, rng, n, []string{"alone", "line"}), sec)
	res.Done(sec)
}

func sectionSweepLql(rng *vh.Rng) {
	sec := res.Section("sweep-lql", "spec-search",
		"every LQL format × the same boundary instants × {literal, blank-padded literal, RANGE literal through ParseLql, ts condition through BuildWhereExpFunc}; IMPL = parseLqlDateTime, MODEL, SPEC; the RANGE/ts paths must give the same Unix nanoseconds as parseLqlDateTime (instants representable as int64 nanoseconds only)")
	n := 120
	if args.Thorough {
		n = 1200
	}
	cs := sweepCases(lqlList, rng, n, []string{"alone"})
	// the other surroundings on a third of the cases
	var extra []kase
	for i, k := range cs {
		switch i % 6 {
		case 0:
			k.Surround = "padded"
			extra = append(extra, k)
		case 2:
			k.Surround = "range"
			extra = append(extra, k)
		case 4:
			k.Surround = "ts"
			extra = append(extra, k)
		}
	}
	runSweep("sweep-lql", "lql", append(cs, extra...), sec)
	res.Done(sec)
}

func sectionLineParser(rng *vh.Rng) {
	sec := res.Section("lineparser", "system-correspondence",
		"the real collector line parser (parser.NewLineParser + default date parser) reading a file whose single line starts with the text: record date vs MODEL vs SPEC; plus files of several lines in one format (the remembered format must keep giving each line's own instant)")
	n := 2
	if args.Thorough {
		n = 12
	}
	var cs []kase
	for _, f := range colList {
		ks := instantsFor(f, rng, n)
		pick := []kase{ks[0]}
		for i := 0; i < n && len(ks) > 1; i++ {
			pick = append(pick, ks[1+rng.Intn(len(ks)-1)])
		}
		for _, k := range pick {
			k.Surround = "file"
			cs = append(cs, k)
		}
	}
	runSweep("lineparser", "col", cs, sec)
	// multi-line files: every line in the same format; each record must carry what the default parser gives for that line alone
	files := 6
	if args.Thorough {
		files = 40
	}
	for i := 0; i < files; i++ {
		f := colList[rng.Intn(len(colList))]
		ks := instantsFor(f, rng, 6)
		var lines []string
		for j := 0; j < 5; j++ {
			k := ks[rng.Intn(len(ks))]
			if t, ok := k.render(); ok {
				lines = append(lines, t+lineSuffix)
			}
		}
		if len(lines) == 0 {
			continue
		}
		dir, _ := ioutil.TempDir(os.Getenv("VERIF_TMP"), "c20m-")
		fn := filepath.Join(dir, "m.log")
		ioutil.WriteFile(fn, []byte(strings.Join(lines, "\n")+"\n"), 0644)
		lp, err := parser.NewLineParser(fn, date.NewDefaultParser(), 4096)
		if err == nil {
			// the remembered format is tried first: the record date must be that format's own answer for the line, or the
			// default parser's when it fails
			var cur *date.Format
			var lastDate time.Time // lineParser.lastDate: the date of the last line whose format had to be searched and was found
			for _, ln := range lines {
				rec, err := lp.NextRecord(context.Background())
				if err != nil {
					break
				}
				res.Eval(sec, f+"|multi|"+ln)
				res.Dist(sec, "surround=multi-line-file")
				var want time.Time
				ok := false
				if cur != nil {
					if tm, e := cur.Parse([]byte(ln + "\n")); e == nil {
						want, ok = tm, true
					}
				}
				if !ok {
					tm, ft := colParser.Parse([]byte(ln + "\n"))
					want, cur = tm, ft
					if ft != nil {
						lastDate = tm
					} else {
						want = lastDate // calcDate: a line no format claims carries the last found date (fewer than maxFailCnt failures here)
					}
				}
				if !rec.GetDate().Equal(want) {
					res.Mismatch(vh.Mismatch{Section: "lineparser", Function: "lineParser.parse (remembered format)", Input: map[string]interface{}{"format": f, "lines": lines, "line": ln},
						Impl: rec.GetDate().UTC().Format(time.RFC3339Nano), Model: want.UTC().Format(time.RFC3339Nano)})
				}
			}
			lp.Close()
		}
		os.RemoveAll(dir)
	}
	res.Done(sec)
}


// ---------------------------------------------------------------------------------------------
// linefile: one lineParser over a whole file — headers with a timestamp, undated continuation lines in between

var undatedPool = []string{"INFO: request handled without incident", "\tat com.acme.Server.handle(Server.java)", "Caused by: java.lang.IllegalStateException: closed",
	"  ... more frames omitted", "WARNING: the connection pool is exhausted; retrying", "    continued message text, wrapped by the logger"}

type fileCase struct {
	Formats []string `json:"formats,omitempty"` // per header (cyclic); empty = every header in Format
	Format  string   `json:"format"`
	Pattern []int  `json:"undated_after_each_header"` // Pattern[i] = number of undated lines after header i
	Minute0 int    `json:"first_minute"`
}

// the file's lines: header i carries the instant 2019-03-11 + i minutes (so a stale date is visible), rendered in the format
func (fc fileCase) lines() (lines []string, header []int, kases []kase) {
	for i, nu := range fc.Pattern {
		hf := fc.Format
		if len(fc.Formats) > 0 {
			hf = fc.Formats[i%len(fc.Formats)]
		}
		ft := features(hf)
		t := time.Date(2019, 3, 11, 0, 0, 0, 0, time.UTC).Add(time.Duration(fc.Minute0+i*7) * time.Minute).Add(time.Duration(i%60) * time.Second)
		k := kase{List: "col", Format: hf, Surround: "line", I: inst{Y: t.Year(), Mo: int(t.Month()), D: t.Day(), H: t.Hour(), Mi: t.Minute(), S: t.Second()}}
		if ft.frac {
			k.Frac, k.I.Ns = 3, 789000000
		}
		if ft.zoneNum {
			k.I.OffMin = 180
		}
		if ft.zoneName && !ft.zoneNum {
			k.I.ZName = "UTC"
		}
		text, ok := k.render()
		if !ok {
			continue
		}
		k.Text = text
		lines = append(lines, text+" com.acme.Server handle")
		header = append(header, len(kases))
		kases = append(kases, k)
		for j := 0; j < nu; j++ {
			lines = append(lines, undatedPool[(i+j)%len(undatedPool)])
			header = append(header, -1)
		}
	}
	return
}

func runFileCase(fc fileCase, section string, sec *vh.Section) {
	lines, header, kases := fc.lines()
	if len(lines) == 0 {
		return
	}
	maxFail := 10 // documented: this many consecutive undated lines switch the parser to 'skipping' (dated lines are then not read, by design)
	var td today
	var impl []string
	for attempt := 0; attempt < 3; attempt++ {
		td = getToday()
		impl = impl[:0]
		dir, err := ioutil.TempDir(os.Getenv("VERIF_TMP"), "c20f-")
		if err != nil {
			res.Note("linefile: %v", err)
			return
		}
		fn := filepath.Join(dir, "f.log")
		ioutil.WriteFile(fn, []byte(strings.Join(lines, "\n")+"\n"), 0644)
		lp, err := parser.NewLineParser(fn, date.NewDefaultParser(), 4096)
		if err == nil {
			for range lines {
				rec, err := lp.NextRecord(context.Background())
				if err != nil {
					impl = append(impl, "read-error")
					continue
				}
				if rec.GetDate().IsZero() {
					impl = append(impl, "zero")
				} else {
					impl = append(impl, instantOf(canonTime(-1, rec.GetDate())))
				}
			}
			lp.Close()
		}
		os.RemoveAll(dir)
		if getToday() == td {
			break
		}
	}
	if len(impl) != len(lines) {
		res.Note("linefile: could not read %d lines", len(lines))
		return
	}
	req := []string{"lp.reset"}
	for _, ln := range lines {
		req = append(req, "lp.line "+nowStr(td)+" "+vh.HxS(ln+"\n"))
	}
	outs, err := vh.Batch(args.Driver, req) // one process: the model keeps the parser's state between lines
	if err != nil {
		res.Fatal(args.Out, "driver: %v", err)
	}
	run, skipSeen := 0, false
	prevState, prevCur := "", ""
	_ = prevCur
	for i, ln := range lines {
		ans := outs[i+1]
		state := ""
		if j := strings.Index(ans, " | "); j >= 0 {
			ans, state = ans[:j], ans[j+3:]
		}
		var mc string
		switch {
		case strings.HasPrefix(ans, "dated "):
			mc = instantOf(canonModel("ok " + strings.TrimPrefix(ans, "dated ")))
		case ans == "carried zero":
			mc = "zero"
		case strings.HasPrefix(ans, "carried "):
			mc = instantOf(canonModel("ok 0 " + strings.TrimPrefix(ans, "carried ")))
		default:
			mc = ans
		}
		res.Eval(sec, fc.Format+"|"+fmt.Sprint(fc.Pattern)+"|"+strconv.Itoa(i))
		if header[i] >= 0 {
			res.Dist(sec, "line=header")
		} else {
			res.Dist(sec, "line=undated")
		}
		if strings.HasPrefix(state, "skip=1") {
			res.Dist(sec, "model-state=skipping")
		}
		if impl[i] != mc {
			res.Mismatch(vh.Mismatch{Section: section, Function: "lineParser.parse (remembered format, fail/skip counters)", Input: map[string]interface{}{"file": fc, "line_no": i, "line": ln},
				Impl: impl[i], Model: mc + "   [" + outs[i+1] + "]"})
			return
		}
		// SPEC: while no run of maxFail consecutive undated lines has occurred, every header carries its own instant
		if header[i] < 0 {
			run++
			if run >= maxFail {
				skipSeen = true
			}
			prevState = state
			continue
		}
		run = 0
		k := kases[header[i]]
		if skipSeen {
			// the property has no exemption for the documented 'skipping' state (finding F68)
			res.Dist(sec, "header-after-a-long-undated-run")
			want := instantOf(canonTime(-1, k.expected(td)))
			if instantOf(implCol(ln+"\n")) == want && impl[i] != want {
				fid := ""
				if impl[i] == mc && strings.HasPrefix(prevState, "skip=1") && openIDs["F68"] {
					fid = "F68"
				}
				res.SpecFail(vh.SpecFailure{Section: section, Kind: "stale-instant-in-file", Input: fc, Impl: impl[i], Spec: want, Model: mc, ImplEqModel: impl[i] == mc, Finding: fid,
					What: fmt.Sprintf("line %d (%q) starts with its timestamp but the parser is in its 'skipping' state after %d undated lines in a row: the record carries %s instead of %s", i, ln, maxFail, impl[i], want)})
			}
			prevState = state
			continue
		}
		want := instantOf(canonTime(-1, k.expected(td)))
		alone := instantOf(implCol(ln + "\n"))
		if alone != want {
			res.Dist(sec, "header-format-deviates-alone(known class, not asserted here)")
			prevState = state
			continue
		}
		if impl[i] != want {
			// sticky format (finding F67): the line was dated by the format remembered from an earlier line (fast path) although the
			// default parser, given the line alone, finds the line's own format
			kind, fid := "stale-instant-in-file", ""
			if strings.HasPrefix(ans, "dated ") && len(strings.Fields(ans)) > 1 && strings.HasSuffix(prevState, "cur="+strings.Fields(ans)[1]) {
				kind = "wrong-instant"
				if impl[i] == mc && openIDs["F67"] {
					fid = "F67"
				}
			}
			res.SpecFail(vh.SpecFailure{Section: section, Kind: kind, Input: fc, Impl: impl[i], Spec: want, Model: mc, ImplEqModel: impl[i] == mc, Finding: fid,
				What: fmt.Sprintf("line %d of the file (%q) starts with its timestamp, fewer than %d undated lines in a row precede it, yet its record carries %s instead of %s", i, ln, maxFail, impl[i], want)})
			return
		}
		prevState = state
	}
}

// sticky: files whose lines are in DIFFERENT formats — the format remembered from line 1 is tried first on line 2
func sectionSticky(rng *vh.Rng) {
	sec := res.Section("sticky", "spec-search",
		"one real lineParser over files whose lines are in two different collector formats A, B, B (instants 7 minutes apart; fraction .789, zone +0300 where the format has them): every ordered pair in which A's expression matches somewhere in B's line (so the remembered format can claim it), plus a sample of the others; each record vs the MODEL of lineParser.parse and vs SPEC (the line's own instant)")
	type pr struct{ a, b string }
	var hits, others []pr
	comp := map[string]*regexp.Regexp{}
	for _, f := range colList {
		_, rx, _, _, _ := date.VerifFormatInternals(f)
		comp[f] = regexp.MustCompile(rx)
	}
	for _, b := range colList {
		lb, _, _ := fileCase{Format: b, Pattern: []int{0}}.lines()
		if len(lb) == 0 {
			continue
		}
		for _, a := range colList {
			if a == b {
				continue
			}
			if comp[a].Match([]byte(lb[0])) {
				hits = append(hits, pr{a, b})
			} else {
				others = append(others, pr{a, b})
			}
		}
	}
	n := 60
	if args.Thorough {
		n = len(others)
	} else if len(hits) > 160 {
		p := rng.Perm(len(hits))
		var h2 []pr
		for _, i := range p[:160] {
			h2 = append(h2, hits[i])
		}
		hits = h2
	}
	p := rng.Perm(len(others))
	for i := 0; i < n && i < len(p); i++ {
		hits = append(hits, others[p[i]])
	}
	var wg sync.WaitGroup
	ch := make(chan fileCase)
	for w := 0; w < 8; w++ {
		wg.Add(1)
		go func() {
			defer wg.Done()
			for fc := range ch {
				runFileCase(fc, "sticky", sec)
			}
		}()
	}
	for _, x := range hits {
		ch <- fileCase{Format: x.a, Formats: []string{x.a, x.b, x.b}, Pattern: []int{0, 0, 0}, Minute0: rng.Intn(600)}
	}
	close(ch)
	wg.Wait()
	res.Done(sec)
}

// history: the parsers are long-lived objects — an answer must not depend on what was parsed before
type histCase struct {
	List string `json:"list"` // col: a fresh date.NewParser(KnownFormats...) per sequence; lql: the package's one parser
	Seq  []kase `json:"sequence"`
}

func runHistCase(hc histCase, section string, sec *vh.Section) { runHistCases([]histCase{hc}, section, sec) }

func runHistCases(hcs []histCase, section string, sec *vh.Section) {
	td := getToday()
	type row struct {
		c        int
		i, n     int
		k        kase
		im, want string
	}
	var rows []row
	var lines []string
	for ci, hc := range hcs {
		var p interface {
			Parse([]byte) (time.Time, *date.Format)
		}
		if hc.List == "col" {
			p = date.NewParser(colList...)
		}
		for i, k := range hc.Seq {
			text, ok := k.render()
			if !ok {
				continue
			}
			k.Text, k.List, k.Surround = text, hc.List, "alone"
			var im string
			if hc.List == "col" {
				tm, ft := p.Parse([]byte(text))
				if ft == nil {
					im = "err"
				} else {
					im = canonTime(indexIn(colList, ft.GetFormat()), tm)
				}
			} else {
				_, im = implLql(text)
			}
			rows = append(rows, row{ci, i, len(hc.Seq), k, im, canonTime(-1, k.expected(td))})
			lines = append(lines, hc.List+" "+nowStr(td)+" "+vh.HxS(text))
		}
	}
	outs := askModel(lines)
	bad := map[int]bool{}
	for j, r := range rows {
		if bad[r.c] {
			continue
		}
		hc := hcs[r.c]
		mc := canonModel(outs[j])
		res.Eval(sec, fmt.Sprint(r.i)+"|"+r.k.Format+"|"+r.k.Text+"|"+fmt.Sprint(r.n)+"|"+hc.List)
		a, b := r.im, mc
		if hc.List == "lql" {
			a, b = dropIdx(a), dropIdx(b)
		}
		if a != b {
			res.Mismatch(vh.Mismatch{Section: section, Function: hc.List + " parse after a history of " + fmt.Sprint(r.i) + " earlier calls", Input: hc, Impl: r.im, Model: mc})
			// the model is stateless: its answer is the answer for the text alone
			if r.i == r.n-1 && instantOf(r.im) != instantOf(r.want) && instantOf(mc) == instantOf(r.want) {
				res.SpecFail(vh.SpecFailure{Section: section, Kind: "wrong-instant-after-history", Input: hc, Impl: r.im, Spec: r.want, Model: mc, ImplEqModel: false,
					What: fmt.Sprintf("%q in format %q is %s after %d earlier calls of the same parser, expected %s", r.k.Text, r.k.Format, r.im, r.i, r.want)})
			}
			bad[r.c] = true
		}
	}
}

func sectionHistory(rng *vh.Rng) {
	sec := res.Section("history", "system-correspondence",
		"sequences through ONE parser object: the text of a shorter format A parsed 1..4 times, then the text of a longer format B whose text A's expression also matches (B comes before A in the list) — a fresh date.NewParser(KnownFormats...) per sequence, and the package's one LQL parser; every answer vs the (stateless) MODEL, the last one vs SPEC")
	base := inst{Y: 2019, Mo: 3, D: 11, H: 13, Mi: 14, S: 15}
	var all []histCase
	defer func() { runHistCases(all, "history", sec); res.Done(sec) }()
	for _, lst := range []string{"col", "lql"} {
		fl := colList
		if lst == "lql" {
			fl = lqlList
		}
		comp := map[string]*regexp.Regexp{}
		for _, f := range fl {
			_, rx, _, _, _ := date.VerifFormatInternals(f)
			comp[f] = regexp.MustCompile(rx)
		}
		mk := func(f string) kase {
			ft := features(f)
			k := kase{Format: f, I: base}
			if ft.frac {
				k.Frac, k.I.Ns = 3, 789000000
			}
			if ft.zoneNum {
				k.I.OffMin = 180
			}
			if ft.zoneName && !ft.zoneNum {
				k.I.ZName = "UTC"
			}
			return k
		}
		count := 0
		for bi, b := range fl {
			kb := mk(b)
			tb, ok := kb.render()
			if !ok {
				continue
			}
			for ai := bi + 1; ai < len(fl); ai++ {
				a := fl[ai]
				if !comp[a].Match([]byte(tb)) {
					continue
				}
				count++
				if !args.Thorough && count%3 != 0 {
					continue
				}
				reps := ai - bi // enough hits for a bubble-up heuristic to overtake
				if reps > 6 {
					reps = 6
				}
				var seq []kase
				for r := 0; r < reps; r++ {
					seq = append(seq, mk(a))
				}
				seq = append(seq, kb)
				all = append(all, histCase{List: lst, Seq: seq})
			}
		}
	}
}

func sectionLineFile(rng *vh.Rng) {
	sec := res.Section("linefile", "system-correspondence",
		"one real lineParser (default date parser) over a whole file: time-stamped header lines (instants 7 minutes apart) each followed by k undated continuation lines, every constant k in 0..12 and 25, growing and random patterns, up to and beyond the 10-failure skip threshold and through several skip cycles; each record's date vs the MODEL of lineParser.parse (remembered format, failSkipCnt/maxSkipCnt/state, lastDate); SPEC: until 10 undated lines IN A ROW have occurred every header carries its own instant")
	fmts := []string{"YYYY-MM-DD HH:mm:ss.SSS", "MMM D, YYYY h:mm:ss P", "DD/MMM/YYYY:HH:mm:ss ZZZZ", "YYYY-MM-DDTHH:mm:ssZ", "MMM _D HH:mm:ss", "DDD MMM _D HH:mm:ss ZZZ YYYY"}
	if args.Thorough {
		fmts = colList
	}
	var cases []fileCase
	for fi, f := range fmts {
		if indexIn(colList, f) < 0 {
			continue
		}
		ks := []int{0, 1, 2, 3, 4, 5, 9, 10, 11, 25}
		if args.Thorough || fi == 0 {
			ks = []int{0, 1, 2, 3, 4, 5, 6, 7, 8, 9, 10, 11, 12, 25}
		}
		for _, k := range ks {
			n := 14
			if k >= 9 {
				n = 6
			}
			if k <= 2 {
				n = 24
			}
			p := make([]int, n)
			for i := range p {
				p[i] = k
			}
			cases = append(cases, fileCase{Format: f, Pattern: p, Minute0: rng.Intn(600)})
		}
		// growing, alternating and random patterns
		cases = append(cases, fileCase{Format: f, Pattern: []int{0, 1, 2, 3, 4, 5, 6, 7, 8, 9, 10, 11, 0, 0, 1, 12, 0, 3}, Minute0: rng.Intn(600)})
		cases = append(cases, fileCase{Format: f, Pattern: []int{9, 9, 9, 0, 9, 1, 9, 0, 0, 9, 9}, Minute0: rng.Intn(600)})
		cases = append(cases, fileCase{Format: f, Pattern: []int{10, 0, 0, 0, 0, 0, 0, 0, 0, 0, 0, 0, 0, 30, 0, 0, 0, 0, 0, 0, 0, 0, 0, 0, 0, 0, 0, 0, 0, 0, 0, 0, 0, 0, 0, 0, 1, 1}, Minute0: rng.Intn(600)})
		nr := 3
		if args.Thorough {
			nr = 10
		}
		for r := 0; r < nr; r++ {
			p := make([]int, rng.Range(8, 30))
			for i := range p {
				switch rng.Intn(4) {
				case 0:
					p[i] = 0
				case 1:
					p[i] = rng.Range(1, 3)
				case 2:
					p[i] = rng.Range(0, 9)
				case 3:
					p[i] = rng.Range(8, 13)
				}
			}
			cases = append(cases, fileCase{Format: f, Pattern: p, Minute0: rng.Intn(600)})
		}
	}
	var wg sync.WaitGroup
	ch := make(chan fileCase)
	for w := 0; w < 8; w++ {
		wg.Add(1)
		go func() {
			defer wg.Done()
			for fc := range ch {
				runFileCase(fc, "linefile", sec)
			}
		}()
	}
	for _, fc := range cases {
		ch <- fc
	}
	close(ch)
	wg.Wait()
	res.Done(sec)
}

// each format alone: no other format can claim the text
func sectionOwn(rng *vh.Rng) {
	sec := res.Section("own", "spec-search",
		"date.NewParser(fmt).Parse(own text) for every distinct format of both lists × boundary instants (alone and as a log-line prefix): IMPL vs MODEL vs SPEC")
	n := 10
	if args.Thorough {
		n = 300
	}
	seenF := map[string]bool{}
	var evs []evald
	var td today
	var fl []string
	for _, f := range append(append([]string{}, colList...), lqlList...) {
		if !seenF[f] {
			seenF[f] = true
			fl = append(fl, f)
		}
	}
	for attempt := 0; attempt < 3; attempt++ {
		evs = evs[:0]
		td = getToday()
		curToday = td
		r := rng.Fork("own-instants")
		for fi, f := range fl {
			seen := map[string]bool{}
			for _, k := range instantsFor(f, r, n) {
				text, ok := k.render()
				if !ok || seen[text] {
					continue
				}
				seen[text] = true
				k.Text, k.List, k.Surround = text, "one", "alone"
				if len(seen)%4 == 0 {
					k.Surround = "line"
				}
				in := k.input(text)
				evs = append(evs, evald{k: k, idx: fi, in: in, impl: implOne(f, in), want: canonTime(-1, k.expected(td)),
					mline: "one " + vh.HxS(f) + " " + nowStr(td) + " " + vh.HxS(in)})
			}
		}
		if getToday() == td {
			break
		}
	}
	lines := make([]string, len(evs))
	for i := range evs {
		lines[i] = evs[i].mline
	}
	outs := askModel(lines)
	for i, e := range evs {
		mc := canonModel(outs[i])
		res.Eval(sec, e.k.Format+"|"+e.in)
		if e.impl != mc {
			res.Mismatch(vh.Mismatch{Section: "own", Function: "date.NewParser(fmt).Parse", Input: e.k, Impl: e.impl, Model: mc + "   [" + outs[i] + "]"})
		}
		// class index = the format's index in the collector list, else in the LQL list
		li, ln := indexIn(colList, e.k.Format), "one-col"
		if li < 0 {
			li, ln = indexIn(lqlList, e.k.Format), "one-lql"
		}
		k := e.k
		k.List = ln
		by := "own"
		if !strings.HasPrefix(mc, "ok") {
			by = "rej"
		}
		if instantOf(e.impl) == instantOf(e.want) {
			res.Dist(sec, "as-spec")
		} else {
			res.Dist(sec, "deviates")
		}
		judge("own", k, li, e.impl, mc, e.want, by)
	}
	res.Done(sec)
}

// ---------------------------------------------------------------------------------------------
// unit-level correspondence of the mirrored pieces

func genFormats(rng *vh.Rng, n int) []string {
	pieces := []string{"YYYY", "YY", "MMMM", "MMM", "MM", "M", "DDDD", "DDD", "DD", "_D", "D", "HH", "hh", "h", "mm", "m", "ss", "s", ".SSS", "P",
		"ZZZZZ", "ZZZZ", "ZZZ", "ZZ", "Z", "MST", "T", " ", "  ", "-", "/", ":", ",", ".", "at", "x"}
	var out []string
	for i := 0; i < n; i++ {
		k := rng.Range(1, 9)
		var sb strings.Builder
		for j := 0; j < k; j++ {
			sb.WriteString(rng.PickS(pieces))
		}
		out = append(out, sb.String())
	}
	return out
}

const leftGuard = "(?:^|[^0-9])"

func stripGroup(rx string) string {
	rx = strings.TrimPrefix(rx, leftGuard)
	rx = strings.TrimPrefix(rx, "(?P<date>")
	return strings.TrimSuffix(rx, ")")
}

func sectionTerms(rng *vh.Rng) {
	sec := res.Section("terms", "unit-correspondence",
		"NewParser's derived layout, regular-expression text and flags (hasLocation, hasYear, noDate) for every format of both lists (exhaustive) and generated concatenations of terms and literals — IMPL (export) vs MODEL (dateMap/regexpMap over the regenerated terms table)")
	n := 300
	if args.Thorough {
		n = 5000
	}
	fl := append(append(append([]string{}, colList...), lqlList...), genFormats(rng, n)...)
	var lines, impls []string
	for _, f := range fl {
		var im string
		p := vh.Recover(func() {
			lay, rx, loc, yr, nd := date.VerifFormatInternals(f)
			im = fmt.Sprintf("layout=%s rx=%s loc=%s year=%s nodate=%s guard=%s", vh.HxS(lay), vh.HxS(stripGroup(rx)), b2i(loc), b2i(yr), b2i(nd), b2i(strings.HasPrefix(rx, leftGuard)))
		})
		if p != "" {
			im = "panic"
		}
		impls = append(impls, im)
		lines = append(lines, "fmt "+vh.HxS(f))
	}
	outs := askModel(lines)
	for i := range outs {
		res.Eval(sec, fl[i])
		m := outs[i]
		if j := strings.Index(m, " rxok="); j >= 0 {
			if strings.Contains(m, "rxok=0") {
				res.Dist(sec, "regexp-outside-model-subset")
			}
			m = m[:j]
		}
		if impls[i] == "panic" {
			res.Dist(sec, "NewParser-panics(regexp does not compile)")
			continue
		}
		if m != impls[i] {
			res.Mismatch(vh.Mismatch{Section: "terms", Function: "date.NewParser (dateMap/regexpMap/flags)", Input: map[string]string{"format": fl[i]}, Impl: impls[i], Model: m})
		}
	}
	res.Done(sec)
}

func b2i(b bool) string {
	if b {
		return "1"
	}
	return "0"
}

// texts for the library models: own-format, foreign-format, cut, mutated, lower-cased
func libTexts(rng *vh.Rng, layouts []string, n int) [][2]string {
	var out [][2]string
	locs := []*time.Location{time.UTC, time.FixedZone("CET", 3600), time.FixedZone("XYZT", -5*3600-1800), time.FixedZone("GMT+3", 3*3600), time.FixedZone("", 7200)}
	for i := 0; i < n; i++ {
		l := layouts[rng.Intn(len(layouts))]
		t := time.Date(rng.PickI(yearPool), time.Month(rng.Range(1, 12)), rng.Range(1, 28), rng.Range(0, 23), rng.Range(0, 59), rng.Range(0, 59),
			rng.PickI([]int{0, 120000000, 123456789, 5000}), locs[rng.Intn(len(locs))])
		v := t.Format(layouts[rng.Intn(len(layouts))])
		if rng.Bool() {
			v = t.Format(l)
		}
		switch rng.Intn(8) {
		case 0:
			if len(v) > 2 {
				a := rng.Intn(len(v))
				b := a + 1 + rng.Intn(len(v)-a)
				v = v[a:b]
			}
		case 1:
			p := rng.Intn(len(v) + 1)
			v = v[:p] + string("0123456789 :/-.,APMZamT+"[rng.Intn(24)]) + v[p:]
		case 2:
			v = strings.ToLower(v)
		case 3:
			v = v + lineSuffix
		}
		out = append(out, [2]string{l, v})
	}
	return out
}

func canonGoParse(tm time.Time, err error) string {
	if err != nil {
		return "err"
	}
	return canonTime(0, tm)
}

func sectionTimeParse(rng *vh.Rng) {
	sec := res.Section("timeparse", "unit-correspondence",
		"Go time.Parse(layout, value) vs the layout model for the layouts of all formats of both lists and a few standard ones × texts produced by the same or another layout, cut, mutated, lower-cased, with a log-line suffix; and time.Format vs the model's formatter for the covered elements")
	n := 6000
	if args.Thorough {
		n = 120000
	}
	var layouts []string
	seen := map[string]bool{}
	for _, f := range append(append([]string{}, colList...), lqlList...) {
		lay, _, _, _, _ := date.VerifFormatInternals(f)
		if !seen[lay] {
			seen[lay] = true
			layouts = append(layouts, lay)
		}
	}
	layouts = append(layouts, "Jan 2, 2006 3:04:05 PM", "02 January 2006", "15:04:05.999999999 -0700", "15:04 MST", time.RFC1123, time.RFC850, time.RFC3339Nano, time.Kitchen, time.StampMicro, "06-1-2 3:4:5pm", "2006-01-02 15:04:05.000")
	pairs := libTexts(rng, layouts, n)
	lines := make([]string, len(pairs))
	impls := make([]string, len(pairs))
	for i, p := range pairs {
		impls[i] = canonGoParse(time.Parse(p[0], p[1]))
		lines[i] = "tparse " + vh.HxS(p[0]) + " " + vh.HxS(p[1])
	}
	outs := askModel(lines)
	for i := range outs {
		key := ""
		if impls[i] != "err" {
			key = pairs[i][0] + "|" + pairs[i][1]
			res.Dist(sec, "parses")
		} else {
			res.Dist(sec, "rejected")
		}
		res.Eval(sec, key)
		if mc := canonModel(outs[i]); mc != impls[i] {
			res.Mismatch(vh.Mismatch{Section: "timeparse", Function: "time.Parse", Input: map[string]string{"layout": pairs[i][0], "value": pairs[i][1]}, Impl: impls[i], Model: mc + "   [" + outs[i] + "]"})
		}
	}
	// time.Format for the elements the theorem format_parse_fields is about
	var fl, fi []string
	m := n / 4
	for i := 0; i < m; i++ {
		l := layouts[rng.Intn(len(layouts))]
		t := time.Date(rng.Range(1000, 2999), time.Month(rng.Range(1, 12)), rng.Range(1, 28), rng.PickI(hourPool), rng.PickI(minPool), rng.PickI(secPool), 0, time.UTC)
		fl = append(fl, fmt.Sprintf("tformat %s %d %d %d %d %d %d %d %d", vh.HxS(l), t.Year(), int(t.Month()), t.Day(), t.Hour(), t.Minute(), t.Second(), 0, int(t.Weekday())))
		fi = append(fi, "text "+vh.HxS(t.Format(l)))
	}
	fo := askModel(fl)
	for i := range fo {
		if fo[i] == "none" {
			res.Dist(sec, "format:element-not-covered")
			res.Eval(sec, "")
			continue
		}
		res.Dist(sec, "format:covered")
		res.Eval(sec, fl[i])
		if fo[i] != fi[i] {
			res.Mismatch(vh.Mismatch{Section: "timeparse", Function: "time.Format", Input: fl[i], Impl: fi[i], Model: fo[i]})
		}
	}
	res.Done(sec)
}

func sectionRegexp(rng *vh.Rng) {
	sec := res.Section("regexp", "unit-correspondence",
		"Go regexp (FindSubmatch, leftmost-first) vs the model's matcher for the regular expressions of all formats of both lists × own/foreign/cut/mutated texts: the matched substring")
	n := 6000
	if args.Thorough {
		n = 100000
	}
	var rxs, layouts []string
	seen := map[string]bool{}
	for _, f := range append(append([]string{}, colList...), lqlList...) {
		lay, rx, _, _, _ := date.VerifFormatInternals(f)
		rx = stripGroup(rx)
		if !seen[rx] {
			seen[rx] = true
			rxs = append(rxs, rx)
			layouts = append(layouts, lay)
		}
	}
	comp := map[string]*regexp.Regexp{}
	for _, r := range rxs {
		comp[r] = regexp.MustCompile(r)
	}
	texts := libTexts(rng, layouts, n)
	lines := make([]string, len(texts))
	impls := make([]string, len(texts))
	which := make([]string, len(texts))
	for i, t := range texts {
		r := rxs[rng.Intn(len(rxs))]
		if rng.Bool() { // the layout's own regexp
			for j, l := range layouts {
				if l == t[0] {
					r = rxs[j]
				}
			}
		}
		which[i] = r
		m := comp[r].FindSubmatch([]byte(t[1]))
		if m == nil {
			impls[i] = "nomatch"
		} else {
			impls[i] = "m " + vh.Hx(m[0])
		}
		lines[i] = "find " + vh.HxS(r) + " " + vh.HxS(t[1])
	}
	outs := askModel(lines)
	for i := range outs {
		key := ""
		if impls[i] != "nomatch" {
			key = which[i] + "|" + texts[i][1]
			res.Dist(sec, "matches")
		} else {
			res.Dist(sec, "no-match")
		}
		res.Eval(sec, key)
		if outs[i] != impls[i] {
			res.Mismatch(vh.Mismatch{Section: "regexp", Function: "regexp.FindSubmatch", Input: map[string]string{"regexp": which[i], "text": texts[i][1]}, Impl: impls[i], Model: outs[i]})
		}
	}
	res.Done(sec)
}

// ---------------------------------------------------------------------------------------------
// arbitrary texts: correspondence only

type rawCase struct {
	List string `json:"list"`
	Text string `json:"text"`
}

// compare one LQL answer of the model with the implementation's; "" = agree
func cmpLql(text string, modelAns string, before, after time.Time, tm time.Time, implC string) string {
	p := strings.Fields(modelAns)
	if len(p) == 0 {
		return "empty model answer"
	}
	switch p[0] {
	case "rel":
		// rel <unit> <num> ELSE <rest…>: resolved with the real strconv.ParseFloat (the float contract's instance)
		num := string(vh.UnHx(p[2]))
		val, err := strconv.ParseFloat(num, 64)
		if err != nil || (len(p) > 3 && p[3] == "NONNEG" && !(val >= 0)) {
			j := strings.Index(modelAns, " ELSE ")
			return cmpLql(text, modelAns[j+6:], before, after, tm, implC)
		}
		if implC == "err" {
			return "model: relative, impl: err"
		}
		u, _ := strconv.Atoi(p[1])
		mult := map[int]float64{'m': float64(time.Minute), 'h': float64(time.Hour), 'd': float64(24 * time.Hour)}[u]
		d := time.Duration(val * mult)
		lo, hi := before.Add(-d), after.Add(-d)
		if math.IsNaN(val) || math.IsInf(val, 0) || val < 0 {
			return "" // not a number / negative: the float→int64 conversion is implementation-defined, not compared
		}
		if val*mult > 9e18 {
			if val*mult < 9.3e18 {
				return "" // at the horizon itself rounding decides
			}
			// beyond the int64-nanosecond horizon (~292 years) the float→int64 conversion saturates (amd64: MinInt64, whose
			// negation is itself; arm64: MaxInt64): the instant is ~292 years before now, never after it
			lo, hi := before.Add(time.Duration(math.MinInt64)), after.Add(-time.Duration(math.MaxInt64))
			if tm.Before(lo) || tm.After(hi) {
				return fmt.Sprintf("relative beyond the int64 horizon: impl %v, expected the saturated instant in [%v, %v]", tm, lo, hi)
			}
			return ""
		}
		if tm.Before(lo) || tm.After(hi) {
			return fmt.Sprintf("relative: impl %v outside [%v, %v]", tm, lo, hi)
		}
		return ""
	case "const":
		if implC == "err" {
			return "model: constant, impl: err"
		}
		if tm.After(after) || tm.Before(before.Add(-8*24*time.Hour)) {
			return "constant outside (now-8d, now]"
		}
		return ""
	case "nano":
		n, _ := strconv.ParseInt(p[1], 10, 64)
		if implC == "err" || !tm.Equal(time.Unix(0, n)) {
			return "integer literal: impl " + implC + " model " + modelAns
		}
		return ""
	case "ok":
		if dropIdx(canonModel(modelAns)) != dropIdx(implC) {
			return "impl " + implC + " model " + canonModel(modelAns)
		}
		return ""
	case "err":
		if implC != "err" {
			return "model err, impl " + implC
		}
		return ""
	}
	return "model answered " + modelAns
}

func sectionMutated(rng *vh.Rng) {
	sec := res.Section("mutated", "unit-correspondence",
		"texts that are NOT clean own-format texts: lower-cased, cut, one byte inserted, produced by another format, bracketed, with digits/times after the date — through the collector's default parser (incl. the claiming format) and through parseLqlDateTime: IMPL vs MODEL only")
	n := 4000
	if args.Thorough {
		n = 80000
	}
	var layouts []string
	for _, f := range append(append([]string{}, colList...), lqlList...) {
		layouts = append(layouts, intended(features(f), 3))
	}
	texts := libTexts(rng, layouts, n)
	var td today
	var implsC, implsL []string
	var tms []time.Time
	var bef, aft []time.Time
	for attempt := 0; attempt < 3; attempt++ {
		td = getToday()
		implsC, implsL, tms, bef, aft = nil, nil, nil, nil, nil
		for i := range texts {
			v := texts[i][1]
			switch rng.Intn(6) {
			case 0:
				v = "[" + v + "] x 12:34:56"
			case 1:
				v = "took 15ms at " + v
			}
			texts[i][1] = v
			implsC = append(implsC, implCol(v))
			b := time.Now()
			tm, c := implLql(v)
			a := time.Now()
			implsL = append(implsL, c)
			tms = append(tms, tm)
			bef = append(bef, b)
			aft = append(aft, a)
		}
		if getToday() == td {
			break
		}
	}
	var lines []string
	for _, t := range texts {
		lines = append(lines, "col "+nowStr(td)+" "+vh.HxS(t[1]))
	}
	for _, t := range texts {
		lines = append(lines, "lql "+nowStr(td)+" "+vh.HxS(t[1]))
	}
	outs := askModel(lines)
	for i, t := range texts {
		key := ""
		if implsC[i] != "err" {
			key = "col|" + t[1]
			res.Dist(sec, "col:claimed")
		} else {
			res.Dist(sec, "col:rejected")
		}
		res.Eval(sec, key)
		if mc := canonModel(outs[i]); mc != implsC[i] {
			res.Mismatch(vh.Mismatch{Section: "mutated", Function: "date default parser", Input: rawCase{"col", t[1]}, Impl: implsC[i], Model: mc + "   [" + outs[i] + "]"})
		}
		key = ""
		if implsL[i] != "err" {
			key = "lql|" + t[1]
			res.Dist(sec, "lql:accepted")
		} else {
			res.Dist(sec, "lql:rejected")
		}
		res.Eval(sec, key)
		if d := cmpLql(t[1], outs[len(texts)+i], bef[i], aft[i], tms[i], implsL[i]); d != "" {
			res.Mismatch(vh.Mismatch{Section: "mutated", Function: "parseLqlDateTime", Input: rawCase{"lql", t[1]}, Impl: implsL[i], Model: outs[len(texts)+i] + "   (" + d + ")"})
		}
	}
	res.Done(sec)
}

// ---------------------------------------------------------------------------------------------
// integer and relative literals

func sectionInteger(rng *vh.Rng) {
	sec := res.Section("integer", "spec-search",
		"LQL integer literals: int64 boundaries, powers of ten ±1, every digit count 1..19, digit strings that look like dates (10 and 8 digits), random int64, with and without blanks and '+': IMPL vs MODEL vs SPEC = time.Unix(0, n) exactly")
	n := 3000
	if args.Thorough {
		n = 60000
	}
	vals := []int64{0, 1, -1, 9, 10, -10, math.MaxInt64, math.MinInt64, math.MaxInt64 - 1, math.MinInt64 + 1, 1552305600000000000, 102032006, 1020306, 20190311, 2019031112, 1231235959, 3112992359, 0102032006}
	p := int64(1)
	for i := 0; i < 18; i++ {
		p *= 10
		vals = append(vals, p, p-1, p+1, -p, -p+1, -p-1)
	}
	for i := 0; i < n; i++ {
		switch rng.Intn(4) {
		case 0:
			vals = append(vals, int64(rng.U64()))
		case 1:
			vals = append(vals, int64(rng.U64()>>uint(rng.Intn(64))))
		case 2:
			vals = append(vals, -int64(rng.U64()>>uint(1+rng.Intn(63))))
		case 3: // around "now" in nanoseconds, and date-looking digit runs
			vals = append(vals, time.Now().UnixNano()+int64(rng.Intn(1000000)), int64(rng.Range(1, 12))*100000000+int64(rng.Range(1, 31))*1000000+int64(rng.Range(1000, 2999)))
		}
	}
	td := getToday()
	var lines, impls, texts []string
	for i, v := range vals {
		s := strconv.FormatInt(v, 10)
		if i%7 == 3 {
			s = " " + s + "  "
		}
		texts = append(texts, s)
		_, c := implLql(s)
		impls = append(impls, c)
		lines = append(lines, "lql "+nowStr(td)+" "+vh.HxS(s))
	}
	// out of range and malformed: must be rejected by both
	for _, s := range []string{"9223372036854775808", "-9223372036854775809", "+5", "1_000", "0x10", "12a", "--5", "", " ", "1e3", "１２"} {
		texts = append(texts, s)
		_, c := implLql(s)
		impls = append(impls, c)
		lines = append(lines, "lql "+nowStr(td)+" "+vh.HxS(s))
	}
	outs := askModel(lines)
	for i := range outs {
		res.Eval(sec, texts[i])
		want := "err"
		if i < len(vals) {
			want = canonTime(-1, time.Unix(0, vals[i]))
		}
		m := outs[i]
		mc := m
		if strings.HasPrefix(m, "nano ") {
			nv, _ := strconv.ParseInt(strings.Fields(m)[1], 10, 64)
			mc = canonTime(-1, time.Unix(0, nv))
			res.Dist(sec, "model:integer")
		} else {
			mc = dropIdx(canonModel(m))
			res.Dist(sec, "model:"+strings.Fields(m+" -")[0])
		}
		if dropIdx(mc) != dropIdx(impls[i]) {
			res.Mismatch(vh.Mismatch{Section: "integer", Function: "parseLqlDateTime (integer literal)", Input: rawCase{"lql", texts[i]}, Impl: impls[i], Model: m})
		}
		if i < len(vals) && instantOf(impls[i]) != instantOf(want) {
			res.SpecFail(vh.SpecFailure{Section: "integer", Kind: failKind(impls[i]), Input: rawCase{"lql", texts[i]}, Impl: impls[i], Spec: want, Model: m,
				ImplEqModel: dropIdx(mc) == dropIdx(impls[i]), What: "integer literal " + texts[i] + " is not taken as Unix nanoseconds exactly"})
		}
	}
	res.Done(sec)
}


// the number of a relative literal as ParseFloat reads it
func relNumber(text string) (float64, bool) {
	t := strings.ToLower(strings.Trim(text, " "))
	if len(t) < 3 || t[0] != '-' {
		return 0, false
	}
	v, err := strconv.ParseFloat(t[1:len(t)-1], 64)
	return v, err == nil
}

// effective duration of a relative literal under the float contract: ParseFloat × unit, saturated at the int64 horizon
func relEffDur(text string) (float64, bool) {
	t := strings.ToLower(strings.Trim(text, " "))
	if len(t) < 3 || t[0] != '-' {
		return 0, false
	}
	mult := map[byte]float64{'m': float64(time.Minute), 'h': float64(time.Hour), 'd': float64(24 * time.Hour)}[t[len(t)-1]]
	v, err := strconv.ParseFloat(t[1:len(t)-1], 64)
	if err != nil || mult == 0 || math.IsNaN(v) || v < 0 {
		return 0, false
	}
	d := v * mult
	if d > 9.2e18 {
		d = 9.2e18 // saturated (everything at or beyond the horizon counts as equal)
	}
	return d, true
}

// monotonicity of one pair (smaller literal first): the larger literal must not denote a later instant. The larger one is parsed
// second (its "now" is later by at most gap), so the order is asserted only when the effective durations differ by more than the gap.
func checkRelPair(section string, sec *vh.Section, smaller, larger string) {
	da, oka := relEffDur(smaller)
	db, okb := relEffDur(larger)
	if !oka || !okb {
		return
	}
	if da > db {
		smaller, larger, da, db = larger, smaller, db, da
	}
	t0 := time.Now()
	ta, ca := implLql(smaller)
	tb, cb := implLql(larger)
	gap := time.Since(t0)
	after := time.Now()
	res.Eval(sec, "pair|"+smaller+"|"+larger)
	res.Dist(sec, "pairs")
	in := map[string]string{"smaller": smaller, "larger": larger}
	for _, x := range []struct {
		t    time.Time
		c, s string
	}{{ta, ca, smaller}, {tb, cb, larger}} {
		if x.c == "err" || x.t.After(after) {
			res.SpecFail(vh.SpecFailure{Section: section, Kind: "relative-in-future-or-rejected", Input: in, Impl: x.c, Spec: "≤ " + after.String(),
				What: "relative literal " + x.s + " is rejected or denotes an instant later than now"})
			return
		}
	}
	if db-da < 1 { // equal effective durations (less than a nanosecond apart, or both saturated): nothing to order
		res.Dist(sec, "pairs:equal-effective-duration")
		return
	}
	if db-da >= float64(gap)+1024 && tb.After(ta) { // 1024 ns: float64 spacing near the horizon
		res.SpecFail(vh.SpecFailure{Section: section, Kind: "relative-not-monotone", Input: in, Impl: ta.String() + " / " + tb.String(),
			Spec: "larger literal earlier or equal", What: "the larger relative literal " + larger + " denotes a later instant than " + smaller})
	}
}

func sectionRelative(rng *vh.Rng) {
	sec := res.Section("relative", "spec-search",
		"LQL relative literals -<n>(m|h|d): n from integers, decimals, exponents, boundaries (0, 0.5, 1e3, 59, 60, 1440, 36500d); each parsed between two clock reads: result within [before−d, after−d] (so not later than now); generated pairs a<b of one unit and across units: the larger literal denotes an earlier-or-equal instant; MODEL: shape (unit, number text) and fall-through")
	n := 1500
	if args.Thorough {
		n = 30000
	}
	nums := []string{"0", "1", "2", "0.5", "1.5", "59", "60", "61", "1440", "1e3", "1E2", "0.001", "10", "100", "36500", "3.25", "007", "1.", ".5", "24", "23.999", "1e-9", "0.0000001"}
	units := []string{"m", "h", "d"}
	mult := map[string]float64{"m": float64(time.Minute), "h": float64(time.Hour), "d": float64(24 * time.Hour)}
	type rl struct {
		text string
		dur  float64
	}
	var lits []rl
	for _, u := range units {
		for _, x := range nums {
			v, _ := strconv.ParseFloat(x, 64)
			lits = append(lits, rl{"-" + x + u, v * mult[u]})
		}
	}
	for i := 0; i < n; i++ {
		u := rng.PickS(units)
		var x string
		switch rng.Intn(3) {
		case 0:
			x = strconv.Itoa(rng.Intn(100000))
		case 1:
			x = strconv.FormatFloat(float64(rng.Intn(1000000))/float64(rng.PickI([]int{1, 10, 100, 1000, 7})), 'f', -1, 64)
		case 2:
			x = strconv.FormatFloat(float64(rng.Intn(1000))*math.Pow(10, float64(rng.Range(-4, 3))), 'e', -1, 64)
		}
		v, err := strconv.ParseFloat(x, 64)
		if err != nil || v*mult[u] > 8e18 {
			continue
		}
		lits = append(lits, rl{"-" + x + u, v * mult[u]})
	}
	// at and beyond the int64-nanosecond horizon (2^63 ns = 106751.99 d = 2562047.79 h = 153722867.28 m), every unit: whole numbers
	// (where an exact integer path would wrap) and decimal / exponent spellings
	horizon := map[string]float64{"d": 106751.99, "h": 2562047.79, "m": 153722867.28}
	for _, u := range units {
		hz := horizon[u]
		for _, f := range []float64{0.5, 0.9, 0.999, 1, 1.001, 1.5, 1.874, 2, 2.5, 3, 3.5, 4, 7.3, 10, 46.8, 100, 1000, 86400, 1e6} {
			n := int64(hz * f)
			for _, x := range []string{strconv.FormatInt(n, 10), strconv.FormatInt(n+1, 10), strconv.FormatFloat(float64(n)+0.5, 'f', -1, 64), strconv.FormatFloat(float64(n), 'e', -1, 64)} {
				v, err := strconv.ParseFloat(x, 64)
				if err == nil {
					lits = append(lits, rl{"-" + x + u, v * mult[u]})
				}
			}
		}
		for i := 0; i < n/20; i++ {
			x := strconv.FormatInt(int64(hz*(0.9+float64(rng.Intn(100000))/1000)), 10)
			v, _ := strconv.ParseFloat(x, 64)
			lits = append(lits, rl{"-" + x + u, v * mult[u]})
		}
	}
	for _, x := range []string{"200000d", "5000000h", "200000000m", "9223372036854775807m", "9223372036854775807d", "18446744073709551616h", "1e30d"} {
		v, _ := strconv.ParseFloat(x[:len(x)-1], 64)
		lits = append(lits, rl{"-" + x, v * mult[x[len(x)-1:]]})
	}
	// numbers that are not plain naturals: the relative branch hands whatever stands between '-' and the unit to ParseFloat
	for _, x := range []string{"-5m", "-0.5h", "-1d", "+5m", "-0m", "nanm", "infd", "-infd", "+infh", "-1e3m", "0x10m", "-0x1p4h"} {
		v, err := strconv.ParseFloat(x[:len(x)-1], 64)
		if err == nil {
			lits = append(lits, rl{"-" + x, v * mult[x[len(x)-1:]]})
		}
	}
	td := getToday()
	var lines []string
	type obs struct {
		tm       time.Time
		c        string
		bef, aft time.Time
	}
	var ob []obs
	for _, l := range lits {
		t := l.text
		if rng.Chance(1, 5) {
			t = strings.ToUpper(t)
		}
		b := time.Now()
		tm, c := implLql(t)
		a := time.Now()
		ob = append(ob, obs{tm, c, b, a})
		lines = append(lines, "lql "+nowStr(td)+" "+vh.HxS(t))
	}
	outs := askModel(lines)
	for i, l := range lits {
		res.Eval(sec, l.text)
		res.Dist(sec, "unit="+l.text[len(l.text)-1:])
		if l.dur > 9.3e18 {
			res.Dist(sec, "beyond-int64-horizon")
		}
		if d := cmpLql(l.text, outs[i], ob[i].bef, ob[i].aft, ob[i].tm, ob[i].c); d != "" || !strings.HasPrefix(outs[i], "rel ") {
			res.Mismatch(vh.Mismatch{Section: "relative", Function: "parseLqlDateTime (relative literal)", Input: rawCase{"lql", l.text}, Impl: ob[i].c, Model: outs[i] + "  (" + d + ")"})
		}
		// SPEC: not later than now
		if !(l.dur >= 0) && ob[i].c == "err" {
			res.Dist(sec, "negative-or-NaN-number:rejected") // not a relative literal -<n>: rejecting it is right
		} else if ob[i].c == "err" || ob[i].tm.After(ob[i].aft) {
			fid := ""
			if l.dur < 0 && ob[i].c != "err" && strings.HasPrefix(outs[i], "rel ") && openIDs["F70"] {
				fid = "F70" // a negative number after the '-': now + |n|
			}
			res.SpecFail(vh.SpecFailure{Section: "relative", Kind: "relative-in-future-or-rejected", Input: rawCase{"lql", l.text}, Impl: ob[i].c, Spec: "≤ " + ob[i].aft.String(),
				Model: outs[i], ImplEqModel: fid != "", Finding: fid, What: "relative literal " + l.text + " is rejected or denotes an instant later than now"})
		}
	}
	// monotone: pairs with a strictly larger duration, parsed back to back (the later parse sees a later now, which only helps
	// the smaller literal; so parse the LARGER one second: it must still be earlier or equal when the difference exceeds the gap)
	var far, near []rl
	for _, l := range lits {
		if l.dur > 9e18 {
			far = append(far, l)
		} else {
			near = append(near, l)
		}
	}
	pairs := n
	for i := 0; i < pairs; i++ {
		a, b := lits[rng.Intn(len(lits))], lits[rng.Intn(len(lits))]
		switch i % 4 {
		case 1: // one below, one beyond the horizon
			a, b = near[rng.Intn(len(near))], far[rng.Intn(len(far))]
		case 2: // both at or beyond it
			a, b = far[rng.Intn(len(far))], far[rng.Intn(len(far))]
		}
		if a.dur > b.dur {
			a, b = b, a
		}
		checkRelPair("relative", sec, a.text, b.text)
	}
	res.Done(sec)
}

// ---------------------------------------------------------------------------------------------
// corpus and replay

type corpusDoc struct {
	Section string          `json:"section"`
	Input   json.RawMessage `json:"input"`
}

func replayDoc(doc corpusDoc, sec *vh.Section) {
	switch doc.Section { // the glue sections are re-run as a whole (their inputs name the failing literal)
	case "lqltime":
		sectionLqlTime(vh.NewRng(args.Seed).Fork("lqltime"))
		return
	case "pipepath":
		sectionPipePath(vh.NewRng(args.Seed).Fork("pipepath"))
		return
	}
	var k kase
	if json.Unmarshal(doc.Input, &k) == nil && k.Format != "" && k.I.Mo != 0 {
		switch {
		case k.List == "col":
			runSweep(sec.Name, "col", []kase{k}, sec)
		case k.List == "lql":
			runSweep(sec.Name, "lql", []kase{k}, sec)
		default: // one-col / one-lql
			replayOwn(k, sec)
		}
		return
	}
	var fc fileCase
	if json.Unmarshal(doc.Input, &fc) == nil && fc.Format != "" && len(fc.Pattern) > 0 {
		runFileCase(fc, sec.Name, sec)
		return
	}
	var hc histCase
	if json.Unmarshal(doc.Input, &hc) == nil && len(hc.Seq) > 0 {
		runHistCase(hc, sec.Name, sec)
		return
	}
	var pr struct {
		Smaller string `json:"smaller"`
		Larger  string `json:"larger"`
	}
	if json.Unmarshal(doc.Input, &pr) == nil && pr.Larger != "" {
		checkRelPair(sec.Name, sec, pr.Smaller, pr.Larger)
		return
	}
	var r rawCase
	if json.Unmarshal(doc.Input, &r) == nil && r.List != "" {
		td := getToday()
		if r.List == "col" {
			im := implCol(r.Text)
			out := askModel([]string{"col " + nowStr(td) + " " + vh.HxS(r.Text)})
			res.Eval(sec, "raw|"+r.Text)
			if canonModel(out[0]) != im {
				res.Mismatch(vh.Mismatch{Section: sec.Name, Function: "date default parser", Input: r, Impl: im, Model: out[0]})
			}
		} else {
			b := time.Now()
			tm, c := implLql(r.Text)
			a := time.Now()
			out := askModel([]string{"lql " + nowStr(td) + " " + vh.HxS(r.Text)})
			res.Eval(sec, "raw|"+r.Text)
			if d := cmpLql(r.Text, out[0], b, a, tm, c); d != "" {
				res.Mismatch(vh.Mismatch{Section: sec.Name, Function: "parseLqlDateTime", Input: r, Impl: c, Model: out[0] + " (" + d + ")"})
			}
			if strings.HasPrefix(out[0], "rel ") && c != "err" && tm.After(a) {
				fid := ""
				if d, ok := relNumber(r.Text); ok && d < 0 && openIDs["F70"] {
					fid = "F70"
				}
				res.SpecFail(vh.SpecFailure{Section: sec.Name, Kind: "relative-in-future-or-rejected", Input: r, Impl: c, Spec: "≤ " + a.String(), Model: out[0],
					ImplEqModel: fid != "", Finding: fid, What: "relative literal " + r.Text + " denotes an instant later than now"})
			}
			if n, err := strconv.ParseInt(strings.Trim(r.Text, " "), 10, 64); err == nil && instantOf(c) != instantOf(canonTime(-1, time.Unix(0, n))) {
				res.SpecFail(vh.SpecFailure{Section: sec.Name, Kind: failKind(c), Input: r, Impl: c, Spec: canonTime(-1, time.Unix(0, n)), Model: out[0],
					What: "integer literal " + r.Text + " is not taken as Unix nanoseconds exactly"})
			}
		}
		return
	}
	res.Note("corpus/replay: input not understood: %s", string(doc.Input))
}

func replayOwn(k kase, sec *vh.Section) {
	td := getToday()
	text, ok := k.render()
	if !ok {
		return
	}
	k.Text = text
	in := k.input(text)
	// the format under test is the list's CURRENT entry at the witness' position (see indexIn)
	li := indexIn(colList, k.Format)
	if li >= 0 {
		k.Format = colList[li]
	} else if li = indexIn(lqlList, k.Format); li >= 0 {
		k.Format = lqlList[li]
	}
	im := implOne(k.Format, in)
	out := askModel([]string{"one " + vh.HxS(k.Format) + " " + nowStr(td) + " " + vh.HxS(in)})
	mc := canonModel(out[0])
	res.Eval(sec, k.Format+"|"+in)
	if im != mc {
		res.Mismatch(vh.Mismatch{Section: sec.Name, Function: "date.NewParser(fmt).Parse", Input: k, Impl: im, Model: mc})
	}
	by := "own"
	if !strings.HasPrefix(mc, "ok") {
		by = "rej"
	}
	judge(sec.Name, k, li, im, mc, canonTime(-1, k.expected(td)), by)
}

func sectionCorpus() {
	sec := res.Section("corpus", "corpus", "committed witnesses of the known-finding classes (one per class) and minimised past failures, replayed against IMPL, MODEL and SPEC")
	for _, f := range vh.CorpusFiles(args.Corpus) {
		var doc corpusDoc
		if err := vh.ReadJSON(f, &doc); err != nil || len(doc.Input) == 0 {
			res.Note("corpus: cannot read %s", f)
			continue
		}
		replayDoc(doc, sec)
	}
	res.Done(sec)
}

func replay(path string) {
	var doc corpusDoc
	if err := vh.ReadJSON(path, &doc); err != nil {
		res.Fatal(args.Out, "replay: %v", err)
	}
	sec := res.Section("replay", "corpus", "one recorded input re-executed")
	if len(doc.Input) == 0 || string(doc.Input) == "null" {
		fmt.Println("replay: the file names broken obligations / a correspondence difference without an input")
	} else {
		replayDoc(doc, sec)
	}
	res.Done(sec)
	for _, m := range res.Mismatches {
		fmt.Printf("REPLAY mismatch %s: impl=%s model=%s\n", m.Function, m.Impl, m.Model)
	}
	for _, f := range res.SpecFailures {
		fmt.Printf("REPLAY spec-failure kind=%s finding=%q: %s\n", f.Kind, f.Finding, f.What)
	}
	if len(res.Mismatches)+len(res.SpecFailures) == 0 {
		fmt.Println("REPLAY: the input passes (IMPL = MODEL = SPEC)")
	}
	res.Write(args.Out)
}

// ---------------------------------------------------------------------------------------------
// class table generation (maintainer tool; never used by ./check)

func writeTable(dir string) {
	td := getToday()
	keys := []string{}
	for k := range collected {
		keys = append(keys, k)
	}
	sort.Slice(keys, func(i, j int) bool {
		a, b := collected[keys[i]], collected[keys[j]]
		if a.List != b.List {
			return a.List < b.List
		}
		if a.Index != b.Index {
			return a.Index < b.Index
		}
		return a.By < b.By
	})
	var out struct {
		Comment      string              `json:"comment"`
		Findings     []findingEntry      `json:"findings"`
		FixedClasses map[string][]string `json:"fixed_classes,omitempty"`
	}
	out.FixedClasses = fixedDoc // carried over from the committed file
	out.Comment = "C20 known-finding classes, computed ONCE from the tree at the time of writing by `c20 -gentable` (thorough sweeps, several seeds) and committed; never regenerated at run time. One class per (list, format index, what claims the text). A deviation whose (list, format, claiming format) is not listed here is a VIOLATION."
	os.MkdirAll(filepath.Join(dir, "corpus"), 0755)
	for _, key := range keys {
		c := collected[key]
		fl := colList
		if strings.HasSuffix(c.List, "lql") {
			fl = lqlList
		}
		if j, err := strconv.Atoi(c.By); err == nil && j >= 0 && j < len(fl) && !strings.HasPrefix(c.List, "one") {
			c.ByFmt = fl[j]
		}
		// cause family
		cause := "shadowed-by-another-format"
		switch {
		case strings.Contains(c.Format, "MST"):
			cause = "MST-literal-damaged-by-sequential-term-replacement"
		case strings.HasSuffix(c.List, "lql") && !strings.HasPrefix(c.List, "one"):
			text, _ := c.Witness.render()
			o := askModel([]string{"lqlnl " + nowStr(td) + " " + vh.HxS(c.Witness.input(text))})
			if instantOf(canonModel(o[0])) == instantOf(canonTime(-1, c.Witness.expected(td))) {
				cause = "lower-casing-before-format-matching"
			}
		case c.By == "rej" || c.By == "own":
			cause = "own-regexp-or-layout"
		}
		c.Cause = cause
		id := fmt.Sprintf("F19-%s-%d-%s", c.List, c.Index, c.By)
		text, _ := c.Witness.render()
		c.Witness.Text = text
		what := ""
		kind := failKind(c.Got)
		if kind == "rejected-own-text" {
			what = fmt.Sprintf("%s: text of format %d %q (e.g. %q) is rejected [%s]", c.List, c.Index, c.Format, text, cause)
		} else if c.ByFmt != "" {
			what = fmt.Sprintf("%s: text of format %d %q (e.g. %q) is claimed by format %s %q and gives a wrong instant [%s]", c.List, c.Index, c.Format, text, c.By, c.ByFmt, cause)
		} else {
			what = fmt.Sprintf("%s: text of format %d %q (e.g. %q) gives a wrong instant [%s]", c.List, c.Index, c.Format, text, cause)
		}
		site := "pkg/scanner/parser/date/date.go: parser.Parse (unanchored regexps, first format wins)"
		fix := ""
		switch cause {
		case "lower-casing-before-format-matching":
			site = "pkg/lql/datetime.go: parseLqlDateTime (strings.ToLower before dateTimeParser.Parse)"
			fix = "proposed-fixes/F19a.diff"
		case "MST-literal-damaged-by-sequential-term-replacement":
			site = "pkg/scanner/parser/date/date.go: dateMap/regexpMap (sequential strings.Replace turns the literal MST into 1ST)"
		}
		wit := map[string]interface{}{"section": "sweep", "input": c.Witness}
		out.Findings = append(out.Findings, findingEntry{ID: id, Property: "C20", Status: "open", Site: site, WhatFails: what, Kinds: []string{kind},
			Witness: wit, Class: *c, Fix: fix})
		b, _ := json.Marshal(wit)
		ioutil.WriteFile(filepath.Join(dir, "corpus", id+".json"), append(b, '\n'), 0644)
	}
	b, _ := json.MarshalIndent(out, "", " ")
	ioutil.WriteFile(filepath.Join(dir, "C20.json"), append(b, '\n'), 0644)
	fmt.Printf("gentable: %d classes written to %s\n", len(keys), dir)
}

// ---------------------------------------------------------------------------------------------

func main() {
	os.Setenv("TZ", "UTC")
	time.Local = time.UTC
	flag.StringVar(&genTable, "gentable", "", "maintainer: compute the known-finding class table into this directory")
	flag.IntVar(&genSeeds, "genseeds", 6, "maintainer: number of seeds swept by -gentable")
	args = vh.ParseArgs()
	res = vh.NewResult("C20", args)
	colList = append([]string{}, date.KnownFormats...)
	lqlList = lql.VerifLqlFormats()
	if len(lqlList) == 0 {
		res.Fatal(args.Out, "the LQL format list is not reachable through the verif export")
	}
	loadClasses()
	if genTable != "" {
		classes = map[string]string{}
		for s := int64(1); s <= int64(genSeeds); s++ {
			rng := vh.NewRng(s)
			sectionSweepCol(rng.Fork("sweep-col"))
			sectionSweepLql(rng.Fork("sweep-lql"))
			sectionOwn(rng.Fork("own"))
			sectionLineParser(rng.Fork("lineparser"))
		}
		writeTable(genTable)
		return
	}
	if args.Replay != "" {
		replay(args.Replay)
		return
	}
	rng := vh.NewRng(args.Seed)
	sectionCorpus()
	sectionTerms(rng.Fork("terms"))
	sectionTimeParse(rng.Fork("timeparse"))
	sectionRegexp(rng.Fork("regexp"))
	sectionOwn(rng.Fork("own"))
	sectionSweepCol(rng.Fork("sweep-col"))
	sectionSweepLql(rng.Fork("sweep-lql"))
	sectionLineParser(rng.Fork("lineparser"))
	sectionLineFile(rng.Fork("linefile"))
	sectionSticky(rng.Fork("sticky"))
	sectionHistory(rng.Fork("history"))
	sectionMutated(rng.Fork("mutated"))
	sectionInteger(rng.Fork("integer"))
	sectionRelative(rng.Fork("relative"))
	sectionFloatModel(rng.Fork("floatmodel"))
	sectionLqlTime(rng.Fork("lqltime"))
	sectionPipePath(rng.Fork("pipepath"))
	res.Write(args.Out)
}
