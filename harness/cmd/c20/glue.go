// C20 harness — the glue around the date-time parsers (facts: Generated/C20G.lean, obligations: Props/C20Glue.lean).
//
// Section `lqltime`: the LQL clauses over TIME. The same literal text is parsed repeatedly by one process across a clock advance,
// through parseLqlDateTime AND through the RANGE literal of a statement (`(*DateTime).Capture`): every answer to a relative
// literal `-<n>(m|h|d)` must be now − n·unit for the `now` of THAT call (window between two clock reads), so a remembered answer
// (a memo keyed by the literal's text) is stale by the sleep; a fresh `-2x` parsed later must not be later than a re-parsed `-x`.
//
// Section `pipepath`: the ts literal of a pipe's WHERE condition. For the formats whose rendering can contain two blanks in a
// row (`_D` with a day 1..9, `YYYY-MM-DD  HH:mm:ss`) and a sample of the others: CREATE PIPE … WHERE ts >= "<text>" through the
// admin statement and through the direct definition; the condition the pipe service STORES (what newPPipe compiles into the
// filter of the copy) must select exactly the events from the instant the literal denotes when parsed directly.
package main

import (
	"fmt"
	"os"
	"strconv"
	"strings"
	"time"

	"github.com/logrange/logrange/pkg/lql"
	"github.com/logrange/logrange/pkg/model"
	"github.com/logrange/logrange/pkg/pipe"
	"verifharness/internal/lrsrv"
	"verifharness/internal/vh"
)

// the RANGE literal through the statement parser: Unix nanoseconds of the lower bound
func rangeNano(text string) (int64, bool) {
	l, err := lql.ParseLql("select range " + strconv.Quote(text))
	if err != nil || l.Select == nil || l.Select.Range == nil || l.Select.Range.TmPoint1 == nil {
		return 0, false
	}
	return int64(*l.Select.Range.TmPoint1), true
}

func sectionLqlTime(rng *vh.Rng) {
	sec := res.Section("lqltime", "spec-search",
		"relative literals parsed REPEATEDLY by one process across a clock advance (3 rounds, 60 ms apart), through parseLqlDateTime and through the RANGE literal of a statement ((*DateTime).Capture): every answer must be now − n·unit for the now of that call (between two clock reads); a fresh `-2x` must not be later than `-x` re-parsed after it. non-trivial = every (text, path, round)")
	mult := map[byte]time.Duration{'m': time.Minute, 'h': time.Hour, 'd': 24 * time.Hour}
	texts := []string{"-0.001m", "-0.002m", "-1m", "-2m", "-0.5h", "-1h", "-1d", "-0.25d", "-90m", "-0.0001h"}
	for i := 0; i < 6; i++ {
		texts = append(texts, fmt.Sprintf("-%d.%03d%s", rng.Intn(50), rng.Intn(1000), rng.PickS([]string{"m", "h", "d"})))
	}
	type path struct {
		name string
		f    func(string) (int64, bool)
	}
	paths := []path{
		{"parseLqlDateTime", func(t string) (int64, bool) {
			tm, c := implLql(t)
			return tm.UnixNano(), c != "err"
		}},
		{"RANGE literal (DateTime.Capture)", rangeNano},
	}
	rounds := 3
	for r := 0; r < rounds; r++ {
		if r > 0 {
			time.Sleep(60 * time.Millisecond)
		}
		for _, t := range texts {
			v, _ := strconv.ParseFloat(t[1:len(t)-1], 64)
			d := time.Duration(v * float64(mult[t[len(t)-1]]))
			for _, p := range paths {
				bef := time.Now()
				got, ok := p.f(t)
				aft := time.Now()
				res.Eval(sec, fmt.Sprintf("%s/%s/%d", t, p.name, r))
				res.Dist(sec, "path="+p.name)
				lo, hi := bef.Add(-d).UnixNano(), aft.Add(-d).UnixNano()
				if !ok || got < lo-1 || got > hi+1 { // ±1 ns: the truncation of the float product
					res.SpecFail(vh.SpecFailure{Section: "lqltime", Kind: "relative-literal-stale-or-wrong", Input: map[string]interface{}{"text": t, "path": p.name, "round": r, "rounds_60ms_apart": rounds},
						Impl: fmt.Sprintf("%d (ok=%v)", got, ok), Spec: fmt.Sprintf("between %d and %d (now − n·unit at the time of THIS call)", lo, hi),
						What: fmt.Sprintf("relative literal %s parsed through %s in round %d (the same text was parsed before by this process) does not denote now − n·unit", t, p.name, r)})
				}
			}
		}
		// monotone over time: `-x` re-parsed now, then a fresh larger literal: the larger one must not be later
		for _, p := range paths {
			// a minute apart, so that a preemption between the two calls (loaded machine) cannot reverse them
			small := "-1m"
			fresh := fmt.Sprintf("-2.%03dm", r*7+rng.Intn(7)) // a text this process has not seen
			a, oka := p.f(small)
			b, okb := p.f(fresh)
			res.Eval(sec, fmt.Sprintf("pair/%s/%d", p.name, r))
			if !oka || !okb || b > a {
				res.SpecFail(vh.SpecFailure{Section: "lqltime", Kind: "relative-not-monotone", Input: map[string]interface{}{"smaller": small, "larger_parsed_after_it": fresh, "path": p.name, "round": r},
					Impl: fmt.Sprintf("%s -> %d, %s -> %d", small, a, fresh, b), Spec: "the larger literal denotes an earlier-or-equal instant",
					What: "a larger relative literal parsed after a smaller one denotes a LATER instant"})
			}
		}
	}
	res.Done(sec)
}

func sectionPipePath(rng *vh.Rng) {
	sec := res.Section("pipepath", "spec-search",
		"the ts literal of a pipe's WHERE condition: for every LQL format, instants incl. days 1..9 (two blanks in a `_D` text), CREATE PIPE … WHERE ts >= \"<text>\" as an admin statement and as a direct definition; the condition the pipe service stores must select exactly the events from the instant parseLqlDateTime gives for the text. non-trivial = distinct (format, text, path)")
	dir := lrsrv.NewDir()
	defer os.RemoveAll(dir)
	srv, err := lrsrv.Start(dir, lrsrv.Opts{}) // with the loop-back RPC client: the statement goes the way a client's goes
	if err != nil {
		res.Note("pipepath: server did not start: %v", err)
		res.Done(sec)
		return
	}
	defer srv.Stop()
	n := 2
	if args.Thorough {
		n = 12
	}
	seq := 0
	for _, f := range lqlList {
		ks := instantsFor(f, rng, n)
		pick := []kase{ks[0]}
		// a day 1..9 and a month 1..9: the renderings with blank-padded / one-digit fields
		k1 := ks[0]
		k1.I.D, k1.I.Mo = 4, 3
		pick = append(pick, k1)
		for i := 0; i < n && len(ks) > 1; i++ {
			pick = append(pick, ks[1+rng.Intn(len(ks)-1)])
		}
		seen := map[string]bool{}
		for _, k := range pick {
			text, ok := k.render()
			if !ok || seen[text] || strings.ContainsAny(text, "\"\\") {
				continue
			}
			seen[text] = true
			tm, c := implLql(text)
			if c == "err" {
				continue // judged by the sweeps
			}
			if y := tm.Year(); y < 1678 || y > 2261 {
				continue // outside int64 nanoseconds (F71)
			}
			want := tm.UnixNano()
			cond := "ts >= " + strconv.Quote(text)
			for _, path := range []string{"CREATE PIPE statement", "direct definition"} {
				seq++
				name := fmt.Sprintf("tp%d", seq)
				var cerr error
				if path == "direct definition" {
					_, cerr = srv.Pipes.CreatePipe(pipe.Pipe{Name: name, TagsCond: "a=b", FltCond: cond})
				} else {
					_, cerr = srv.Exec("create pipe " + name + " from a=b where " + cond)
				}
				res.Eval(sec, f+"|"+text+"|"+path)
				res.Dist(sec, "path="+path)
				if strings.Contains(text, "  ") {
					res.Dist(sec, "text=two blanks in a row")
				}
				input := map[string]interface{}{"format": f, "text": text, "path": path, "statement_condition": cond}
				if cerr != nil {
					res.SpecFail(vh.SpecFailure{Section: "pipepath", Kind: "pipe-with-ts-literal-refused", Input: input, Impl: cerr.Error(), Spec: "created", What: "a ts literal that parseLqlDateTime accepts is refused on the pipe path"})
					continue
				}
				pd, gerr := srv.Pipes.GetPipe(name)
				stored := ""
				if gerr == nil {
					stored = pd.FltCond
				}
				got := "stored condition does not compile"
				if fn, ferr := lql.BuildWhereExpFunc(stored); gerr == nil && ferr == nil {
					at := func(ts int64) bool { return fn(&model.LogEvent{Timestamp: ts}) }
					if at(want) && !at(want-1) {
						got = "ok"
					} else {
						got = fmt.Sprintf("selects(want)=%v selects(want-1ns)=%v", at(want), at(want-1))
						// a today's-date format across midnight: the literal denotes another instant now — compare again
						if tm2, c2 := implLql(text); c2 != "err" && tm2.UnixNano() != want {
							if w2 := tm2.UnixNano(); at(w2) && !at(w2-1) {
								got = "ok"
							}
						}
					}
				}
				if got != "ok" {
					res.SpecFail(vh.SpecFailure{Section: "pipepath", Kind: "pipe-ts-literal-other-instant", Input: input, Impl: fmt.Sprintf("stored %q: %s", stored, got),
						Spec:  fmt.Sprintf("the stored condition selects exactly the events from %d (%s)", want, tm.UTC().Format(time.RFC3339Nano)),
						What:  fmt.Sprintf("pipe created through %s with `%s`: the condition the pipe service stores does not denote the literal's instant", path, cond)})
				}
				srv.Pipes.DeletePipe(name)
			}
		}
	}
	res.Done(sec)
}
