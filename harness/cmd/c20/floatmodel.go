// C20 harness — section `floatmodel`: the IEEE-754 model of relative literals (Model/DateFloat.lean) against the real
// parseRalativeDateTime: (1) the expression `time.Duration(strconv.ParseFloat(num, 64) * float64(unit))` evaluated here, exactly;
// (2) the repository's function itself through parseLqlDateTime, bracketed by two clock reads (window containment).
//
// The model covers decimal texts `digits`, `digits.digits`, `digits.`, `.digits` (no sign, no exponent): correctly rounded
// parse (round-half-even, subnormals, overflow = range error), correctly rounded product with the exactly representable
// unit, truncation to int64 with the amd64 result of an out-of-range conversion (MinInt64, whose negation is itself: the
// amount subtracted from now is 2^63 ns). Theorems tied: relative_monotone_ieee / relative_not_future_ieee /
// relative_exact_small_ieee (Props/C20.lean), relDur_mono, relDur_exact_small (Proofs/DateFloat.lean).
package main

import (
	"fmt"
	"math/big"
	"strconv"
	"strings"
	"time"

	"verifharness/internal/vh"
)

// the amount of nanoseconds the real code subtracts from now for the number text and the unit
func implRelDur(num string, unit time.Duration) string {
	v, err := strconv.ParseFloat(num, 64)
	if err != nil {
		return "err"
	}
	val := v * float64(unit)
	d := -time.Duration(val) // as in time.Now().Add(-time.Duration(val)); out of range: implementation-defined, amd64 gives MinInt64
	return new(big.Int).Neg(big.NewInt(int64(d))).String()
}

func decimalShape(s string) bool {
	if s == "" || s == "." {
		return false
	}
	dots := 0
	for _, c := range s {
		if c == '.' {
			dots++
		} else if c < '0' || c > '9' {
			return false
		}
	}
	return dots <= 1
}

func sectionFloatModel(rng *vh.Rng) {
	sec := res.Section("floatmodel", "unit-correspondence",
		"the IEEE model of `-<n>(m|h|d)` vs the real ParseFloat · float64(unit) → time.Duration: integers and decimal fractions at the boundaries (2^53 ± k ties, 0.1/0.7/4.35/2.675, 17..25-digit numbers, the int64-nanosecond horizon of every unit ± 1, products near 2^53 and 2^63, 310-digit integers = range error, tiny fractions = subnormal/zero) + seeded random digit strings; non-trivial = distinct (text, unit) whose value is not a small exact integer")
	n := 1500
	if args.Thorough {
		n = 40000
	}
	units := []time.Duration{time.Minute, time.Hour, 24 * time.Hour}
	var nums []string
	add := func(xs ...string) { nums = append(nums, xs...) }
	add("0", "1", "2", "59", "60", "90", "1440", "007", "1.", ".5", "0.5", "1.5", "0.1", "0.2", "0.3", "0.7", "4.35", "2.675", "1.005", "0.1000000000000000055511151231257827",
		"9007199254740991", "9007199254740992", "9007199254740993", "9007199254740994", "9007199254740995", "9007199254740996", "9007199254740997",
		"9007199254740993.0000000000000000000001", "9007199254740992.5", "9007199254740993.5", "18014398509481985", "18014398509481986", "18014398509481987",
		"123456789012345678", "1234567890123456789012345", "99999999999999999999", "0.000000000000000000000000000001",
		"179769313486231570814527423731704356798070567525844996598917476803157260780028538760589558632766878171540458953514382464234321326889464182768467546703537516986049910576551282076245490090389328944075868508455133942304583236903222948165808559332123348274797826204144723168738177180919299881250404026184124858368",
		"179769313486231580793728971405303415079934132710037826936173778980444968292764750946649017977587207096330286416692887910946555547851940402630657488671505820681908902000708383676273854845817711531764475730270069855571366959622842914819860834936475292719074168444365510704342711559699508093042880177904174497791",
		"179769313486231580793728971405303415079934132710037826936173778980444968292764750946649017977587207096330286416692887910946555547851940402630657488671505820681908902000708383676273854845817711531764475730270069855571366959622842914819860834936475292719074168444365510704342711559699508093042880177904174497792",
		"0."+strings.Repeat("0", 330)+"1", "0."+strings.Repeat("0", 322)+"25", "0."+strings.Repeat("0", 323)+"5", "0."+strings.Repeat("0", 307)+"22250738585072014",
		strings.Repeat("9", 310), "1"+strings.Repeat("0", 400))
	// the horizon of every unit: 2^63 ns = 106751.99 d = 2562047.79 h = 153722867.28 m; and products near 2^53
	for _, u := range units {
		for _, b := range []*big.Int{new(big.Int).Lsh(big.NewInt(1), 63), new(big.Int).Lsh(big.NewInt(1), 53), new(big.Int).Lsh(big.NewInt(1), 62), new(big.Int).Lsh(big.NewInt(1), 64)} {
			q := new(big.Int).Div(b, big.NewInt(int64(u)))
			for d := int64(-3); d <= 3; d++ {
				x := new(big.Int).Add(q, big.NewInt(d))
				if x.Sign() >= 0 {
					add(x.String(), x.String()+".5", x.String()+".999999999999")
				}
			}
		}
	}
	for i := 0; i < n; i++ {
		var x string
		switch rng.Intn(5) {
		case 0:
			x = strconv.Itoa(rng.Intn(200000))
		case 1:
			x = strconv.Itoa(rng.Intn(100000)) + "." + strconv.Itoa(rng.Intn(1000000))
		case 2: // long digit strings
			k := rng.Range(15, 40)
			b := make([]byte, k)
			for j := range b {
				b[j] = byte('0' + rng.Intn(10))
			}
			x = string(b)
			if rng.Bool() {
				p := rng.Range(1, k-1)
				x = x[:p] + "." + x[p:]
			}
		case 3: // around 2^53 / unit and 2^63 / unit with a fraction
			u := units[rng.Intn(3)]
			base := new(big.Int).Div(new(big.Int).Lsh(big.NewInt(1), uint(rng.PickI([]int{53, 63}))), big.NewInt(int64(u)))
			base.Add(base, big.NewInt(int64(rng.Range(-1000, 1000))))
			if base.Sign() < 0 {
				base.SetInt64(0)
			}
			x = base.String() + "." + strconv.Itoa(rng.Intn(1000))
		default: // tiny
			x = "0." + strings.Repeat("0", rng.Range(0, 20)) + strconv.Itoa(1+rng.Intn(99999))
		}
		add(x)
	}
	// a stream the model does not cover (reported as `unsupported`, never compared): signs, exponents, underscores, hex, words
	add("1e3", "-5", "+5", "1_000", "0x10", "inf", "nan", "", ".", "1..2", "1e", "١")
	var lines []string
	type q struct {
		num string
		u   time.Duration
	}
	var qs []q
	for _, x := range nums {
		for _, u := range units {
			qs = append(qs, q{x, u})
			lines = append(lines, fmt.Sprintf("reldur %s %d", vh.HxS(x), int64(u)))
		}
	}
	ans, err := vh.Batch(args.Driver, lines)
	if err != nil {
		res.Mismatch(vh.Mismatch{Section: "floatmodel", Function: "driver", Impl: err.Error()})
		res.Done(sec)
		return
	}
	for i, c := range qs {
		impl := implRelDur(c.num, c.u)
		model := ans[i]
		if !decimalShape(c.num) {
			res.Eval(sec, "")
			res.Dist(sec, "text=outside-the-model")
			if model != "unsupported" {
				res.Mismatch(vh.Mismatch{Section: "floatmodel", Function: "decValue: a text outside digits[.digits] must be unsupported", Input: c.num, Impl: impl, Model: model})
			}
			continue
		}
		key := c.num + "/" + c.u.String()
		if v, e := strconv.ParseUint(c.num, 10, 64); e == nil && v < 100000 {
			key = ""
		}
		res.Eval(sec, key)
		switch {
		case impl == "err":
			res.Dist(sec, "value=range-error")
		case impl == "9223372036854775808":
			res.Dist(sec, "value=beyond-int64 (saturated)")
		case strings.Contains(c.num, "."):
			res.Dist(sec, "value=decimal-fraction")
		default:
			res.Dist(sec, "value=integer")
		}
		if impl != model {
			res.Mismatch(vh.Mismatch{Section: "floatmodel", Function: "time.Duration(ParseFloat(num)*float64(unit)) vs relDur (IEEE model)", Input: map[string]interface{}{"num": c.num, "unit_ns": int64(c.u)}, Impl: impl, Model: model})
		}
		// the REAL parseRalativeDateTime (through parseLqlDateTime), bracketed by two clock reads: it answers now − d for a `now`
		// between the reads, so before − answer ≤ d ≤ after − answer must hold for the model's d (containment: a slow machine
		// only widens the window); a range error of ParseFloat must make the literal an error
		lit := "-" + c.num + map[time.Duration]string{time.Minute: "m", time.Hour: "h", 24 * time.Hour: "d"}[c.u]
		bef := time.Now()
		tm, cn := implLql(lit)
		aft := time.Now()
		switch {
		case model == "err":
			if cn != "err" {
				res.Mismatch(vh.Mismatch{Section: "floatmodel", Function: "parseLqlDateTime(relative literal) vs relDur: a ParseFloat range error must reject the literal", Input: rawCase{"lql", lit}, Impl: cn, Model: model})
			}
		case cn == "err":
			res.Mismatch(vh.Mismatch{Section: "floatmodel", Function: "parseLqlDateTime(relative literal) vs relDur", Input: rawCase{"lql", lit}, Impl: cn, Model: model})
		default:
			d, _ := new(big.Int).SetString(model, 10)
			ns := func(t time.Time) *big.Int {
				return new(big.Int).Add(new(big.Int).Mul(big.NewInt(t.Unix()), big.NewInt(1000000000)), big.NewInt(int64(t.Nanosecond())))
			}
			lo, hi := new(big.Int).Sub(ns(bef), ns(tm)), new(big.Int).Sub(ns(aft), ns(tm))
			if d == nil || d.Cmp(lo) < 0 || d.Cmp(hi) > 0 {
				res.Mismatch(vh.Mismatch{Section: "floatmodel", Function: "parseLqlDateTime(relative literal): now − answer vs relDur (IEEE model)", Input: rawCase{"lql", lit},
					Impl: fmt.Sprintf("subtracted between %s and %s ns", lo, hi), Model: model})
			}
		}
	}
	res.Done(sec)
}
