package main

// e2eReuse (C05, "a SELECT with WHERE e returns exactly those events … for which e is true", seen through the RPC glue): a
// request that names the ReqId of a cursor the server HOLDS (WaitTimeout > 0) but carries ANOTHER query must be answered with
// the new query — crsr.ApplyState refuses the cached cursor (query differs) and provider.GetOrCreate builds a new one — or
// rejected when the new expression has no meaning. The dangerous case is a new query of EQUAL LENGTH: anything that keeps
// the cached cursor's query text in memory the next request is read into (a pooled request buffer given back too early, a
// weak string) makes the comparison compare the new text with itself. The step pins GOMAXPROCS(1) while it runs so that a
// sync.Pool hands the buffer of the previous request to the next one deterministically.

import (
	"context"
	"fmt"
	"os"
	"runtime"
	"strconv"
	"strings"
	"time"

	"github.com/logrange/logrange/api"
	"github.com/logrange/logrange/pkg/model/field"

	"verifharness/internal/lrsrv"
	"verifharness/internal/vh"
)

const minTs, maxTs = int64(-9223372036854775808), int64(9223372036854775807)

// specFilterIdx: for each text the indices of `all` for which the reference meaning holds; nil = parse error / unsupported
func specFilterIdx(all []*api.LogEvent, texts []string) [][]int {
	tb := newTables()
	var sb strings.Builder
	fmt.Fprintf(&sb, "%d", len(all))
	for _, e := range all {
		f, _ := field.NewFieldsFromKVString(e.Fields)
		ev := event{Ts: e.Timestamp, Msg: e.Message, Fields: string(f)}
		tb.addEvent(ev)
		sb.WriteString(" " + ev.line())
	}
	first := make([]int, len(texts))
	asts := make([]string, len(texts))
	for i, t := range texts {
		exp, perr := parseExpr(t)
		if perr != nil || exp == nil {
			first[i] = -1
			continue
		}
		asts[i] = realAstString(exp)
		tb.addExpr(exp)
	}
	lines := append([]string{}, tb.lines...)
	for i := range texts {
		if first[i] == -1 {
			continue
		}
		first[i] = len(lines)
		lines = append(lines, "expr "+asts[i], "specexpr "+asts[i], fmt.Sprintf("spec.filter %d %d %s", minTs, maxTs, sb.String()))
	}
	ans, err := vh.Batch(args.Driver, lines)
	if err != nil {
		res.Fatal(args.Out, "driver: %v", err)
	}
	out := make([][]int, len(texts))
	for i := range texts {
		if first[i] == -1 || !strings.HasPrefix(ans[first[i]+2], "ok") {
			continue
		}
		out[i] = []int{}
		for _, f := range strings.Fields(ans[first[i]+2])[1:] {
			k, _ := strconv.Atoi(f)
			out[i] = append(out[i], k)
		}
	}
	return out
}

func e2eReuse(srv *lrsrv.Srv, sec *vh.Section, cases []e2eCase) {
	const src = `select from c05="p2" `
	all, err := queryAll(srv, src+"limit 1000", 1000)
	if err != nil || len(all) == 0 {
		res.Note("e2e reuse: unfiltered read of the single partition failed: %v", err)
		return
	}
	type pair struct{ first, second string }
	var pairs []pair
	for _, c := range cases {
		if c.ReuseAfter != "" {
			pairs = append(pairs, pair{c.ReuseAfter, c.Text})
		}
	}
	if !(len(cases) == 1) {
		// equal-length variations of one condition (other letter, other operator of the same length, other field, NOT moved),
		// and equal-length texts without a meaning (must be rejected, not answered from the held cursor)
		base := []string{`msg contains "a"`, `msg contains "b"`, `msg contains "x"`, `msg contains "A"`, `msg contains "B"`,
			`fields:a contains "a"`, `fields:b contains "a"`, `fields:a contains "b"`, `fields:b contains "b"`, `fields:a contains "x"`,
			`lower(msg) contains "a"`, `lower(msg) contains "b"`, `upper(msg) contains "A"`, `upper(msg) contains "B"`, `lower(msg) contains "x"`,
			`fields:a >= "b"`, `fields:a <= "b"`, `fields:b >= "b"`, `fields:b <= "b"`, `fields:a != "b"`,
			`ts >= 45`, `ts <= 45`, `ts >= 48`, `ts <= 48`, `ts >= 42`,
			`mzg contains "a"`, `msg kontains "a"`, `fields:a ~~ "b"`, `tz >= 45`}
		for _, a := range base {
			for _, b := range base {
				if a != b && len(a) == len(b) {
					pairs = append(pairs, pair{a, b})
				}
			}
		}
	}
	var texts []string
	idx := map[string]int{}
	for _, p := range pairs {
		for _, t := range []string{p.first, p.second} {
			if _, ok := idx[t]; !ok {
				idx[t] = len(texts)
				texts = append(texts, t)
			}
		}
	}
	spec := specFilterIdx(all, texts)
	pos := map[string]int{}
	for i, e := range all {
		pos[evKey(e)] = i
	}
	prev := runtime.GOMAXPROCS(1)
	defer runtime.GOMAXPROCS(prev)
	max := 40
	if args.Thorough {
		max = 400
	}
	ctx := context.Background()
	ran := 0
	rounds := 1
	if len(cases) == 1 {
		rounds = 6 // a replayed case: the buffer of the first request is the next one's from the second round on at the latest
	}
	var work []pair
	for _, p := range pairs {
		for r := 0; r < rounds; r++ {
			work = append(work, p)
		}
	}
	for _, p := range work {
		if ran >= max {
			break
		}
		s1, s2 := spec[idx[p.first]], spec[idx[p.second]]
		if s1 == nil || len(s1) < 3 {
			continue // the first request must be accepted and must not reach the end of the data (it would wait)
		}
		if s2 != nil && fmt.Sprint(s1) == fmt.Sprint(s2) {
			continue // same answer: nothing to see
		}
		ran++
		c := e2eCase{Text: p.second, ReuseAfter: p.first, Page: 1000}
		// both requests must fall into the same size class of the server's buffer pool (100, 200, 500, 1000 … bytes) although the
		// second carries a position (~45 bytes) and the first does not: an always-true conjunct pads the text (lengths vary)
		pad := ` AND NOT msg contains "` + strings.Repeat("p", []int{150, 150, 460, 30}[ran%4]) + `"`
		var r1 api.QueryResult
		if err := srv.Client.Query(ctx, &api.QueryRequest{Query: src + "where " + p.first + pad, Limit: 2, WaitTimeout: 1}, &r1); err != nil || r1.Err != nil || len(r1.Events) != 2 {
			res.Note("e2e reuse: first request %q failed: %v %v", p.first, err, r1.Err)
			continue
		}
		last, ok := pos[evKey(r1.Events[1])]
		if !ok {
			continue
		}
		// the second request: same ReqId, the returned position, the other query
		rq := r1.NextQueryRequest
		rq.Query = src + "where " + p.second + pad
		rq.WaitTimeout = 0
		rq.Limit = 1000
		var r2 api.QueryResult
		err2 := srv.Client.Query(ctx, &rq, &r2)
		if err2 == nil {
			err2 = r2.Err
		}
		var got []string
		for _, e := range r2.Events {
			got = append(got, evKey(e))
		}
		// the same request without a ReqId: a cursor of its own
		fq := rq
		fq.ReqId = 0
		var r3 api.QueryResult
		err3 := srv.Client.Query(ctx, &fq, &r3)
		if err3 == nil {
			err3 = r3.Err
		}
		var fresh []string
		for _, e := range r3.Events {
			fresh = append(fresh, evKey(e))
		}
		if os.Getenv("C05_DEBUG") != "" {
			fmt.Printf("reuse %q -> %q: got=%v fresh=%v err=%v\n", p.first, p.second, got, fresh, err2)
		}
		res.Eval(sec, "reuse|"+p.first+"|"+p.second)
		res.Dist(sec, "reuse-held-reqid")
		if s2 == nil {
			res.Dist(sec, "reuse-held-reqid:new-query-unsupported")
			if err2 == nil {
				res.SpecFail(vh.SpecFailure{Section: "e2e", Kind: "accepted-unevaluable", Input: c, Impl: fmt.Sprintf("%d events", len(got)), Spec: "query error",
					What: "a request that re-uses the ReqId of a held cursor with another query of equal length, whose WHERE cannot be evaluated, is answered (from the earlier query's cursor) instead of being rejected"})
			}
			continue
		}
		// the position the first request returned stands at the next event the OLD filter lets through (the filter reads ahead),
		// so the new query's answer is: only events for which the new expression holds, all of them from some event of the
		// partition on (a suffix of the new expression's matches), and the same as a cursor of its own gives
		in2 := map[string]bool{}
		var want []string
		for _, k := range s2 {
			in2[evKey(all[k])] = true
			if k > last {
				want = append(want, evKey(all[k]))
			}
		}
		bad := 0
		for _, k := range got {
			if !in2[k] {
				bad++
			}
		}
		g, w, f := strings.Join(got, " "), strings.Join(want, " "), strings.Join(fresh, " ")
		switch {
		case err2 != nil:
			res.SpecFail(vh.SpecFailure{Section: "e2e", Kind: "rejected-valid", Input: c, Impl: err2.Error(), Spec: w, What: "a request that re-uses a held ReqId with another supported query fails"})
		case bad > 0 || !strings.HasSuffix(" "+w, " "+g) && g != "":
			res.SpecFail(vh.SpecFailure{Section: "e2e", Kind: "wrong-result", Input: c, Impl: g, Spec: "a suffix of: " + w, Model: "a cursor of its own (no ReqId): " + f, ImplEqModel: g == f,
				What: fmt.Sprintf("after `WHERE %s` left its cursor held (WaitTimeout 1), the same ReqId and position with `WHERE %s` (equal length) returns %d of %d events for which the NEW expression is false (or misses later matches): the answer is not computed from the query that was sent", p.first, p.second, bad, len(got))})
		case err3 == nil && g != f:
			res.SpecFail(vh.SpecFailure{Section: "e2e", Kind: "wrong-result", Input: c, Impl: g, Spec: f, Model: "a cursor of its own (no ReqId): " + f,
				What: fmt.Sprintf("after `WHERE %s` left its cursor held, the same ReqId and position with `WHERE %s` is answered differently from the same request with a cursor of its own", p.first, p.second)})
		}
	}
	res.Note("e2e reuse: %d held-ReqId requests with another equal-length query", ran)
}

// e2eEarly (finding F-C05-902 (fixed in /repo d9d7013; a recurrence is tagged)): a partition with events stamped below / at / above model.MinTimestamp (the lower bound
// of the range newFIterator installs when the statement has no RANGE). The SELECT without WHERE returns all of them; with a
// WHERE that is true for all of them the events below the bound are missing.
func e2eEarly(srv *lrsrv.Srv, sec *vh.Section) {
	ctx := context.Background()
	tss := []int64{minTs + 1, f902Bound - 1, f902Bound, f902Bound + 1, -5, 7}
	var batch []*api.LogEvent
	for i, ts := range tss {
		batch = append(batch, &api.LogEvent{Timestamp: ts, Message: fmt.Sprintf("m%d", i), Fields: "a=x"})
	}
	var wr api.WriteResult
	if err := srv.Client.Write(ctx, "c05=early", "", batch, &wr); err != nil || wr.Err != nil {
		res.Note("e2e early: write failed: %v %v", err, wr.Err)
		return
	}
	srv.FlushWait()
	const src = `select from c05="early" `
	var all []*api.LogEvent
	for i := 0; i < 200; i++ {
		all, _ = queryAll(srv, src+"limit 100", 100)
		if len(all) == len(tss) {
			break
		}
		time.Sleep(20 * time.Millisecond)
	}
	if len(all) != len(tss) {
		res.SpecFail(vh.SpecFailure{Section: "e2e", Kind: "wrong-result", Input: e2eCase{Text: "", Page: 100}, Impl: fmt.Sprintf("%d events", len(all)), Spec: fmt.Sprintf("%d events", len(tss)),
			What: "the unfiltered SELECT does not return the events written (timestamps around model.MinTimestamp)"})
		return
	}
	for _, text := range []string{`msg contains "m"`, `fields:a = "x"`, `NOT msg contains "zz"`, `ts < 100`} {
		got, err := queryAll(srv, src+"where "+text+" limit 100", 100)
		var g, w, known []string
		for _, e := range got {
			g = append(g, evKey(e))
		}
		for _, e := range all {
			w = append(w, evKey(e))
			if e.Timestamp >= f902Bound {
				known = append(known, evKey(e))
			}
		}
		res.Eval(sec, "early|"+text)
		res.Dist(sec, "early-timestamps")
		if err != nil || fmt.Sprint(g) != fmt.Sprint(w) {
			finding := ""
			if err == nil && fmt.Sprint(g) == fmt.Sprint(known) {
				finding = "F-C05-902" // exactly the events below the pinned bound are missing
			}
			res.SpecFail(vh.SpecFailure{Section: "e2e", Kind: "early-events-dropped", Input: e2eCase{Text: text, Page: 100, Early: true}, Finding: finding, ImplEqModel: finding != "",
				Impl: fmt.Sprintf("err=%v %d of %d events", err, len(g), len(w)), Spec: fmt.Sprintf("all %d events of the unfiltered SELECT (the expression is true for each)", len(w)),
				Model: "fiterator with the regenerated default range: the events below it are dropped",
				What:  "SELECT … WHERE e without RANGE does not return events stamped before model.MinTimestamp (1754-08-30) although e is true for them and the SELECT without WHERE returns them"})
		}
	}
}
