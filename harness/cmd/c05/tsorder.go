package main

// Section tsorder (C05, "ts compares the event's timestamp with the instant the literal denotes"): absolute time literals
// are GENERATED from instants — the text of instant i in format k of the LQL format list — so the instant a literal denotes is
// known without asking the code (reference: Go's own time package; spec theorem Props.C05Env.ts_format_literal_c20). Each
// literal is built into `ts >= "<literal>"` in this one process
//   (a) as the first ts literal after every OTHER literal of the pool (all ordered pairs, any format after any format), and
//   (b) along a seeded random walk over the pool,
// and evaluated at the denoted instant -1 / 0 / +1 ns. What a literal denotes must not depend on which literals the process
// has parsed before (a most-recently-used format cache, a remembered zone, a parser that keeps state…).
//   (c) literals with text the format does not cover (a fraction a zoneless format has no place for, text after / before the
// date) must be rejected or denote the instant written — class of the open finding F-C05-901.

import (
	"encoding/json"
	"fmt"
	"io/ioutil"
	"os"
	"os/exec"
	"strconv"
	"time"

	"github.com/logrange/logrange/pkg/lql"
	"github.com/logrange/logrange/pkg/model"

	"verifharness/internal/vh"
)

type tsFmt struct{ lql, layout string }

// formats of pkg/lql/datetime.go's list that carry a year and a date (independent of "now"), with Go's layout of the same text
var tsFmts = []tsFmt{
	{"YYYY-MM-DD", "2006-01-02"},
	{"YYYY-MM-DD HH:mm", "2006-01-02 15:04"},
	{"YYYY-MM-DD HH:mm:ss", "2006-01-02 15:04:05"},
	{"YYYY-MM-DD hh:mm:ss P", "2006-01-02 03:04:05 PM"},
	{"YYYY-MM-DD HH:mm:ss ZZZZ", "2006-01-02 15:04:05 -0700"},
	{"YYYY-MM-DD HH:mm:ss.SSS ZZZZ", "2006-01-02 15:04:05.000 -0700"},
	{"YYYY-MM-DDTHH:mm:ss", "2006-01-02T15:04:05"},
	{"YYYY-MM-DDTHH:mm:ssZZZZ", "2006-01-02T15:04:05-0700"},
	{"YYYY-MM-DDTHH:mm:ss.SSSZZZZ", "2006-01-02T15:04:05.000-0700"},
	{"YYYY/MM/DD", "2006/01/02"},
	{"YYYY/MM/DD HH:mm", "2006/01/02 15:04"},
	{"YYYY/MM/DD HH:mm:ss", "2006/01/02 15:04:05"},
	{"YYYY/MM/DD HH:mm:ss.SSS", "2006/01/02 15:04:05.000"},
	{"DD/MM/YYYY", "02/01/2006"},
	{"DD/MM/YYYY HH:mm", "02/01/2006 15:04"},
	{"DD/MM/YYYY HH:mm:ss", "02/01/2006 15:04:05"},
	{"DD/MM/YYYY HH:mm:ss.SSS", "02/01/2006 15:04:05.000"},
	{"MMM D, YYYY h:mm:ss P", "Jan 2, 2006 3:04:05 PM"},
	{"DD MMM YYYY, HH:mm", "02 Jan 2006, 15:04"},
	{"YYYY-MMM-DD", "2006-Jan-02"},
	{"DD MMMM YYYY", "02 January 2006"},
	{"MM.DD.YYYY", "01.02.2006"},
}

type tsLit struct {
	Format string `json:"format"`
	Text   string `json:"text"`
	Ref    int64  `json:"ref_unix_nano"`
}

type tsOrderCase struct {
	Prev []string `json:"prev"` // ts literals built before, in this order (texts)
	Lit  tsLit    `json:"literal"`
	// Extra: the literal is Lit.Text with this text appended ("+…") or put in front ("-…"): must be rejected, or (fraction) denote Ref
	Extra string `json:"extra,omitempty"`
}

func tsPool() []tsLit {
	z := time.FixedZone("", 5*3600+30*60)
	insts := []time.Time{
		time.Date(2019, 1, 2, 12, 34, 55, 123000000, time.UTC),
		time.Date(2019, 3, 11, 6, 0, 0, 0, time.UTC),
		time.Date(2021, 12, 31, 23, 59, 59, 900000000, z),
	}
	var out []tsLit
	for _, f := range tsFmts {
		for _, t := range insts {
			text := t.Format(f.layout)
			r, err := time.Parse(f.layout, text)
			if err != nil {
				continue
			}
			out = append(out, tsLit{f.lql, text, r.UnixNano()})
		}
	}
	return out
}

// tsHist: every ts literal this section has built so far, in order (the process-wide history a stateful parser could depend on)
var tsHist []string
var tsNoShrink bool

// tsFailsFresh: does the case fail in a FRESH process (this binary re-executed in replay mode)?
func tsFailsFresh(c tsOrderCase) bool {
	dir, err := ioutil.TempDir("", "c05ts")
	if err != nil {
		return false
	}
	defer os.RemoveAll(dir)
	in, _ := json.Marshal(map[string]interface{}{"section": "tsorder", "input": c})
	ioutil.WriteFile(dir+"/in.json", in, 0644)
	cmd := exec.Command(os.Args[0], "-replay", dir+"/in.json", "-out", dir+"/out.json", "-driver", args.Driver)
	cmd.Run()
	var r struct {
		SpecFailures []struct {
			Section string `json:"section"`
		} `json:"spec_failures"`
	}
	if vh.ReadJSON(dir+"/out.json", &r) != nil {
		return false
	}
	for _, f := range r.SpecFailures {
		if f.Section == "tsorder" {
			return true
		}
	}
	return false
}

func tsBuild(op, lit string) (lql.WhereExpFunc, error) {
	tsHist = append(tsHist, lit)
	exp, err := parseExpr("ts " + op + " " + strconv.Quote(lit))
	if err != nil {
		return nil, fmt.Errorf("parse: %v", err)
	}
	var f lql.WhereExpFunc
	if p := vh.Recover(func() { f, err = lql.BuildWhereExpFuncByExpression(exp) }); p != "" {
		return nil, fmt.Errorf("panic: %s", p)
	}
	return f, err
}

// tsEval: `ts >= lit` at ref-1, ref, ref+1; "011" is what the denoted instant gives
func tsEval(lit string, ref int64) string {
	f, err := tsBuild(">=", lit)
	if err != nil || f == nil {
		return "rejected"
	}
	s := ""
	for _, d := range []int64{-1, 0, 1} {
		if f(&model.LogEvent{Timestamp: ref + d}) {
			s += "1"
		} else {
			s += "0"
		}
	}
	return s
}

func tsCaptured(lit string) string {
	var dt lql.DateTime
	if err := dt.Capture([]string{lit}); err != nil {
		return "err"
	}
	return time.Unix(0, int64(dt)).UTC().Format("2006-01-02T15:04:05.000000000Z")
}

func tsCheck(sec *vh.Section, c tsOrderCase, key string) bool {
	for _, p := range c.Prev {
		tsBuild("<", p)
	}
	nBefore := len(tsHist)
	got := tsEval(c.Lit.Text, c.Lit.Ref)
	res.Eval(sec, key)
	if got == "011" {
		return true
	}
	// the history that reproduces it in a FRESH process: the shortest suffix of what this process built before the literal
	// (0 = the literal is misread whatever came before)
	if !tsNoShrink {
		before := tsHist[:nBefore]
		found := false
		for _, k := range []int{0, 1, 2, 3, 5, 8, 16, 64, 400} {
			if k > len(before) {
				k = len(before)
			}
			cand := tsOrderCase{Prev: append([]string{}, before[len(before)-k:]...), Lit: c.Lit}
			if tsFailsFresh(cand) {
				c.Prev, found = cand.Prev, true
				break
			}
			if k == len(before) {
				break
			}
		}
		if !found {
			c.Prev = append([]string{}, before...)
			res.Note("tsorder: the misreading of %q is not reproduced in a fresh process by a suffix of this section's history (%d literals): the state comes from elsewhere in the run", c.Lit.Text, len(before))
		}
	}
	refT := time.Unix(0, c.Lit.Ref).UTC().Format("2006-01-02T15:04:05.000000000Z")
	what := "a ts literal is not compared as the instant it denotes"
	kind := "ts-literal-wrong-instant"
	if len(c.Prev) > 0 {
		kind = "ts-literal-order-dependent"
		what = "what a ts literal denotes depends on the ts literals the process parsed before: after `ts < " + strconv.Quote(c.Prev[len(c.Prev)-1]) + "` the literal is compared as another instant (or rejected) than when it is the first one"
	}
	res.SpecFail(vh.SpecFailure{Section: "tsorder", Kind: kind, Input: c,
		Impl: fmt.Sprintf("ts >= %q at the denoted instant -1/0/+1 ns: %s; the parser alone (DateTime.Capture) reads %s", c.Lit.Text, got, tsCaptured(c.Lit.Text)),
		Spec: "011 (the text of " + refT + " in format " + c.Lit.Format + ")", What: what})
	return false
}

func tsExtraCheck(sec *vh.Section, c tsOrderCase) {
	text := c.Lit.Text + c.Extra[1:]
	ref := c.Lit.Ref
	if c.Extra[0] == '-' {
		text = c.Extra[1:] + c.Lit.Text
	}
	frac := int64(0)
	if c.Extra[0] == '+' && len(c.Extra) == 5 && c.Extra[1] == '.' {
		if n, err := strconv.Atoi(c.Extra[2:]); err == nil {
			frac = int64(n) * 1000000
		}
	}
	got := tsEval(text, ref+frac)
	res.Eval(sec, "extra|"+text)
	if got == "rejected" || (frac > 0 && got == "011") {
		res.Dist(sec, "extra-text:"+got)
		return
	}
	// the finding's class: the literal is accepted and compared exactly as the literal without the extra text
	bare := tsEval(c.Lit.Text, ref+frac)
	finding := ""
	if got == bare && tsCaptured(text) == tsCaptured(c.Lit.Text) {
		finding = "F-C05-901"
	}
	res.Dist(sec, "extra-text-ignored")
	res.SpecFail(vh.SpecFailure{Section: "tsorder", Kind: "ts-literal-part-ignored", Input: c, Finding: finding, ImplEqModel: true,
		Impl: fmt.Sprintf("ts >= %q is accepted and compared as %s", text, tsCaptured(text)),
		Spec: "rejected" + map[bool]string{true: ", or compared as the instant with the fraction written", false: ""}[frac > 0],
		Model: "Env.parseTs = the real parser's answer: same",
		What:  "an absolute ts literal with text the matching format does not cover (a fraction, text after or before the date) is accepted and the uncovered text is silently ignored"})
}

func sectionTsOrder(rng *vh.Rng, only *tsOrderCase) {
	sec := res.Section("tsorder", "spec-search",
		"absolute ts literals generated from instants (22 year-bearing formats of the LQL list x 3 instants incl. a +05:30 zone and fractions; reference = Go's time package): `ts >= lit` built in this process after every other literal of the pool (all ordered pairs) and along a seeded random walk, evaluated at the denoted instant -1/0/+1 ns — the denotation must not depend on earlier literals; literals with uncovered text (fraction after a zoneless seconds format, trailing / leading text) must be rejected or denote what is written (open finding F-C05-901). non-trivial = every (history, literal) case")
	if only != nil {
		tsNoShrink = true
		if only.Extra != "" {
			tsExtraCheck(sec, *only)
		} else {
			tsCheck(sec, *only, "replay")
		}
		res.Done(sec)
		return
	}
	pool := tsPool()
	res.Dist(sec, fmt.Sprintf("pool=%d", len(pool)))
	// fresh: each literal as the first of its format family (the process has parsed other literals in other sections already;
	// a failure here that does not depend on history is reported as wrong-instant)
	bad := map[string]bool{}
	for _, l := range pool {
		if !tsCheck(sec, tsOrderCase{Lit: l}, "fresh|"+l.Text) {
			bad[l.Text] = true
		}
	}
	// (a) all ordered pairs
	nfail := 0
	for _, a := range pool {
		for _, b := range pool {
			if bad[b.Text] || a.Text == b.Text || nfail >= 5 {
				continue
			}
			if !tsCheck(sec, tsOrderCase{Prev: []string{a.Text}, Lit: b}, "pair|"+a.Text+"|"+b.Text) {
				nfail++
			}
		}
	}
	// (b) random walk
	n := 3000
	if args.Thorough {
		n = 40000
	}
	for i := 0; i < n && nfail < 8; i++ {
		l := pool[rng.Intn(len(pool))]
		if bad[l.Text] {
			continue
		}
		if !tsCheck(sec, tsOrderCase{Lit: l}, fmt.Sprintf("walk|%d", i)) {
			nfail++
		}
	}
	// (c) uncovered text
	for _, l := range pool {
		switch l.Format {
		case "YYYY-MM-DD HH:mm:ss", "YYYY-MM-DDTHH:mm:ss":
			tsExtraCheck(sec, tsOrderCase{Lit: l, Extra: "+.900"})
			tsExtraCheck(sec, tsOrderCase{Lit: l, Extra: "+ trailing"})
			tsExtraCheck(sec, tsOrderCase{Lit: l, Extra: "-x"})
		case "YYYY/MM/DD HH:mm:ss.SSS":
			tsExtraCheck(sec, tsOrderCase{Lit: l, Extra: "+ trailing"})
		}
	}
	res.Done(sec)
}

func tsOrderFromRecorded(raw json.RawMessage) (*tsOrderCase, bool) {
	var c tsOrderCase
	if json.Unmarshal(raw, &c) != nil || c.Lit.Text == "" {
		return nil, false
	}
	return &c, true
}
