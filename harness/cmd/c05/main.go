// C05 harness — WHERE filtering equals the reference meaning of the expression.
//
// Sections
//
//	corpus      minimised past failures / witnesses, replayed first (section "where" or "e2e" inputs)
//	pathmatch   unit: Go's path.Match vs the Lean model (exhaustive short patterns x names, seeded random with
//	            classes/escapes/non-UTF-8) + search: a pattern accepted on the probe name never errs on another name
//	fieldsvalue unit: field.Fields.Value vs the model on well-formed (duplicates, empty, absent) and malformed encodings;
//	            SPEC = first pair of that name, else ""
//	where       core: texts generated from the grammar (all operand x function x operator x value atoms; all
//	            connective shapes without nesting; sampled shapes to depth 3) -> real lql.ParseExpr (AST must be the
//	            intended one: NOT > AND > OR, parentheses) -> real BuildWhereExpFuncByExpression -> evaluated on a
//	            pool of events; compared with the model builder (IMPL~MODEL) and with evalRef / supported (IMPL vs SPEC)
//	fiter       the real cursor.fiterator over a scripted model.Iterator vs the model state machine: random
//	            get/next/set-backward scripts and full drains; SPEC = List.filter
//	e2e         in-process server, events written through the RPC client into two partitions, SELECT … [RANGE] WHERE e
//	            paged with several page sizes vs SPEC filtering of the unfiltered result
package main

import (
	"context"
	"encoding/json"
	"fmt"
	"hash/fnv"
	"io"
	"os"
	"path"
	"sort"
	"strconv"
	"strings"
	"sync"
	"time"
	"unicode/utf8"

	"github.com/logrange/logrange/api"
	"github.com/logrange/logrange/pkg/cursor"
	"github.com/logrange/logrange/pkg/lql"
	"github.com/logrange/logrange/pkg/model"
	"github.com/logrange/logrange/pkg/model/field"
	"github.com/logrange/logrange/pkg/model/tag"
	"github.com/logrange/logrange/pkg/pipe"
	"github.com/logrange/range/pkg/records"
	rbytes "github.com/logrange/range/pkg/utils/bytes"
	"verifharness/internal/lrsrv"
	"verifharness/internal/vh"
)

var (
	args vh.Args
	res  *vh.Result
)

// ---------------------------------------------------------------------------------------------
// generator-side AST (what the text is intended to mean) and its two printings

type gIdent struct {
	Operand string
	Params  []*gIdent
}
type gCond struct {
	Ident   *gIdent
	Op      string
	Value   string // decoded value
	ValText string // as written in the text
}
type gX struct {
	Not  bool
	Cond *gCond
	Expr *gExpr
}
type gAnd struct{ Xs []*gX }
type gExpr struct{ Ors []*gAnd }

func (i *gIdent) text() string {
	if len(i.Params) == 0 {
		return i.Operand
	}
	ps := make([]string, len(i.Params))
	for k, p := range i.Params {
		ps[k] = p.text()
	}
	return i.Operand + "(" + strings.Join(ps, ",") + ")"
}
func (i *gIdent) ast(sb *strings.Builder) {
	fmt.Fprintf(sb, " I %s %d", vh.HxS(i.Operand), len(i.Params))
	for _, p := range i.Params {
		p.ast(sb)
	}
}
func (c *gCond) text() string { return c.Ident.text() + " " + c.Op + " " + c.ValText }
func (x *gX) text() string {
	s := ""
	if x.Not {
		s = "NOT "
	}
	if x.Expr != nil {
		return s + "(" + x.Expr.text() + ")"
	}
	return s + x.Cond.text()
}
func (a *gAnd) text() string {
	ps := make([]string, len(a.Xs))
	for i, x := range a.Xs {
		ps[i] = x.text()
	}
	return strings.Join(ps, " AND ")
}
func (e *gExpr) text() string {
	ps := make([]string, len(e.Ors))
	for i, a := range e.Ors {
		ps[i] = a.text()
	}
	return strings.Join(ps, " OR ")
}
func b01(b bool) string {
	if b {
		return "1"
	}
	return "0"
}
func (e *gExpr) ast(sb *strings.Builder) {
	fmt.Fprintf(sb, " E %d", len(e.Ors))
	for _, a := range e.Ors {
		fmt.Fprintf(sb, " A %d", len(a.Xs))
		for _, x := range a.Xs {
			if x.Expr != nil {
				fmt.Fprintf(sb, " S %s", b01(x.Not))
				x.Expr.ast(sb)
			} else {
				fmt.Fprintf(sb, " C %s", b01(x.Not))
				x.Cond.Ident.ast(sb)
				fmt.Fprintf(sb, " %s %s", vh.HxS(x.Cond.Op), vh.HxS(x.Cond.Value))
			}
		}
	}
}
func (e *gExpr) astString() string {
	var sb strings.Builder
	e.ast(&sb)
	return strings.TrimSpace(sb.String())
}

// parseExpr is lql.ParseExpr with a panic turned into an error (one panicking text must be reported with its input, not
// kill the harness)
func parseExpr(text string) (exp *lql.Expression, err error) {
	defer func() {
		if r := recover(); r != nil {
			exp, err = nil, fmt.Errorf("PANIC in lql.ParseExpr: %v", r)
		}
	}()
	return lql.ParseExpr(text)
}

// the real parser's AST in the same serialisation
func realIdentAst(i *lql.Identifier, sb *strings.Builder) {
	fmt.Fprintf(sb, " I %s %d", vh.HxS(i.Operand), len(i.Params))
	for _, p := range i.Params {
		realIdentAst(p, sb)
	}
}
func realAst(e *lql.Expression, sb *strings.Builder) {
	fmt.Fprintf(sb, " E %d", len(e.Or))
	for _, a := range e.Or {
		fmt.Fprintf(sb, " A %d", len(a.And))
		for _, x := range a.And {
			if x.Expr != nil {
				fmt.Fprintf(sb, " S %s", b01(x.Not))
				realAst(x.Expr, sb)
			} else if x.Cond != nil && x.Cond.Ident != nil {
				fmt.Fprintf(sb, " C %s", b01(x.Not))
				realIdentAst(x.Cond.Ident, sb)
				fmt.Fprintf(sb, " %s %s", vh.HxS(x.Cond.Op), vh.HxS(x.Cond.Value))
			} else {
				sb.WriteString(" ?")
			}
		}
	}
}
func realAstString(e *lql.Expression) string {
	var sb strings.Builder
	realAst(e, &sb)
	return strings.TrimSpace(sb.String())
}

// every operand / operator / value string of a real AST (for the case tables and the ts literal table)
func collectStrings(e *lql.Expression, names, values map[string]bool) {
	var id func(i *lql.Identifier)
	id = func(i *lql.Identifier) {
		names[i.Operand] = true
		for _, p := range i.Params {
			id(p)
		}
	}
	for _, a := range e.Or {
		for _, x := range a.And {
			if x.Expr != nil {
				collectStrings(x.Expr, names, values)
			} else if x.Cond != nil && x.Cond.Ident != nil {
				id(x.Cond.Ident)
				names[x.Cond.Op] = true
				values[x.Cond.Value] = true
			}
		}
	}
}

// ---------------------------------------------------------------------------------------------
// pools

type event struct {
	Ts     int64  `json:"ts"`
	Msg    string `json:"-"`
	Fields string `json:"-"` // binary encoding
	MsgHex string `json:"msg"`
	FldHex string `json:"fields"`
}

func mkEvent(ts int64, msg string, kv ...string) event {
	f, err := field.NewFieldsFromSlice(kv...)
	if err != nil {
		panic(err)
	}
	return event{Ts: ts, Msg: msg, Fields: string(f), MsgHex: vh.HxS(msg), FldHex: vh.HxS(string(f))}
}
func (e *event) fill() {
	e.Msg = string(vh.UnHx(e.MsgHex))
	e.Fields = string(vh.UnHx(e.FldHex))
}
func (e event) line() string { return fmt.Sprintf("%d %s %s", e.Ts, vh.HxS(e.Msg), vh.HxS(e.Fields)) }

const absDate = "2019-01-02 12:34:55"

// f902Bound: model.MinTimestamp as it is in the tree the finding F-C05-902 was established on (pinned, not read from the code)
const f902Bound = int64(-6795364578871345152)

// realistic nanosecond magnitudes: above 2^53, odd, not multiples of 256 (float64(bigT) = bigT-21, float64(bigT2) = bigT2-1)
const (
	bigT  int64 = 1552307683123456789
	bigT2 int64 = 1500000000000000001
	maxI  int64 = 9223372036854775807
	minI  int64 = -9223372036854775808
)

var absNano int64

// events: messages with case variants, pattern characters, non-UTF-8; field sets with duplicates (first empty, first
// non-empty), absent fields, empty values, upper-case names, non-ASCII / invalid UTF-8 values; timestamps at the
// literals 10, -5, 0 and the absolute date, each -1/0/+1
func eventPool() []event {
	return []event{
		mkEvent(9, "ab", "a", "ab", "b", "10"),
		mkEvent(10, "", "a", "", "a", "second"),
		mkEvent(11, "A b", "a", "x", "a", "y"),
		mkEvent(-6, "zzab", "b", "B"),
		mkEvent(-5, "é[", "zz", "a*", "a", "b"),
		mkEvent(-4, "abc", "a", "abc"),
		mkEvent(0, "a"),
		mkEvent(1, "A", "A", "upper"),
		mkEvent(-1, "aB", "a", "aB", "b", ""),
		mkEvent(absNano-1, "a*", "a", "a*"),
		mkEvent(absNano, "[", "a", "["),
		mkEvent(absNano+1, "x y", "a", "x y", "b", "9"),
		mkEvent(9223372036854775807, "\xff", "a", "\xff\xfe"),
		mkEvent(-9223372036854775808, "a/b", "a", "a/b", "b", "a"),
		mkEvent(10, "10", "a", "10", "b", "9"),
		mkEvent(10, "9", "a", "9", "b", "10"),
		mkEvent(5, "É", "a", "É"),
		mkEvent(5, "é", "a", "é", "a", "a"),
		mkEvent(5, "ǅ", "a", "ß"),
		mkEvent(5, "a\xc3", "b", "a\xc3"),
		mkEvent(5, "bx", "a", "bx"),
		mkEvent(5, "cx", "a", "cx", "b", "bx"),
		mkEvent(5, "AB", "a", "AB"),
		mkEvent(5, "b", "a", "b", "b", "b"),
		mkEvent(5, "zz", "a", "zz"),
		mkEvent(5, "a", "a", "a"),
		mkEvent(5, "aa", "a", "aa", "a", ""),
		mkEvent(5, "\\", "a", "\\"),
		mkEvent(5, "?", "a", "?"),
		mkEvent(5, "-5", "a", "-5"),
		mkEvent(5, "abcabc", "fields:a", "a", "a", "abcabc"),
		mkEvent(5, "", "", "emptyname", "a", ""),
		mkEvent(5, "x", "aa", "ab", "a", "x"),
		mkEvent(5, "a\x00", "a", "a\x00"),
		mkEvent(5, strings.Repeat("a", 255), "a", strings.Repeat("a", 255)),
		mkEvent(5, "K", "a", "K"), // Kelvin sign: lower-cases to ASCII k
		mkEvent(5, "k", "a", "k"),
		mkEvent(5, "ı", "a", "İ"),
		mkEvent(5, "Ab", "b", "ab"),
		mkEvent(5, "ba", "a", "ba"),
		// field names differing in letter case only: the name is taken as written (fields:Level is not fields:level)
		mkEvent(5, "lv1", "Level", "ab", "level", "zz"),
		mkEvent(5, "lv2", "level", "ab", "Level", "zz"),
		mkEvent(5, "lv3", "Level", "a"),
		mkEvent(5, "lv4", "level", "a", "a", "Level"),
		// around numeric literals of nanosecond magnitude and the int64 extremes
		mkEvent(bigT-21, "t-21", "a", "t"),
		mkEvent(bigT-1, "t-1", "a", "t"),
		mkEvent(bigT, "t", "a", "t"),
		mkEvent(bigT+1, "t+1", "a", "t"),
		mkEvent(bigT2-1, "u-1", "a", "u"),
		mkEvent(bigT2, "u", "a", "u"),
		mkEvent(bigT2+1, "u+1", "a", "u"),
		mkEvent(maxI-1, "max-1"),
		mkEvent(minI+1, "min+1"),
	}
}

// two-byte values that differ in case / content: consecutive stored events with these land on the same bytes of the read buffer
var sameLen = []string{"bx", "cx", "AB", "ab", "zz", "Ab", "aB", "ba", "BX", "a*", "*b", "??", "10", "xb"}

type valT struct{ text, val string }

func q(s string) valT { return valT{strconv.Quote(s), s} }

var strVals = []valT{q(""), q("a"), q("A"), q("ab"), q("a*"), q("*b"), q("[a-c]x"), q("["), q("\\"), q("é"), q("É"), {"10", "10"}, q("10"), q("-5"),
	q("x y"), q("?"), q("b"), q("zz"), q("*"), q("[^a]*"), q("a\\*"), {"'a'", "a"}, {"ab", "ab"}, q("a[b"), q("??"), q("k"), q("9")}
var tsVals = []valT{{"10", "10"}, q("10"), q("-5"), {"0", "0"}, q(absDate), q("abc"), q(""), q(" 10 "), q("1e3"),
	{"1552307683123456789", "1552307683123456789"}, q("1552307683123456789"), {"1500000000000000001", "1500000000000000001"}, q("1552307683123456790"),
	{"9223372036854775807", "9223372036854775807"}, q("-9223372036854775808"), q("9223372036854775808"), q("+10")}

// literals for the atoms inside larger shapes: small, the date, nanosecond magnitudes, the extremes
var tsGood = []valT{{"10", "10"}, q("10"), q("-5"), {"0", "0"}, q(absDate), {"1552307683123456789", "1552307683123456789"}, {"1500000000000000001", "1500000000000000001"},
	{"9223372036854775807", "9223372036854775807"}, q("-9223372036854775808")}
var operands = []string{"msg", "MSG", "Msg", "ts", "TS", "fields:a", "fields:b", "Fields:a", "FIELDS:A", "fields:zz", "fields:", "fields:fields:a", "tags", "limit", "field:a", "fields:aa", "fields:Level"}
var wrappers = []string{"", "upper", "LOWER", "lower", "Upper", "lower(upper", "upper(lower", "upper(upper", "trim", "upper,2", "lower(trim", "like"}
var opsAll = []string{"<", ">", ">=", "<=", "!=", "=", "contains", "CONTAINS", "PREFIX", "Prefix", "suffix", "LIKE", "like", "liKe"}

// wrap builds the identifier: w is "", "f", "f(g" or "f,2" (f with two parameters)
func wrap(w, operand string) *gIdent {
	leaf := &gIdent{Operand: operand}
	if w == "" {
		return leaf
	}
	if strings.HasSuffix(w, ",2") {
		return &gIdent{Operand: strings.TrimSuffix(w, ",2"), Params: []*gIdent{leaf, {Operand: "msg"}}}
	}
	fs := strings.Split(w, "(")
	id := leaf
	for i := len(fs) - 1; i >= 0; i-- {
		id = &gIdent{Operand: fs[i], Params: []*gIdent{id}}
	}
	return id
}

func isTsOperand(o string) bool { return strings.ToLower(o) == "ts" }

func atom(operand, w, op string, v valT) *gCond {
	return &gCond{Ident: wrap(w, operand), Op: op, Value: v.val, ValText: v.text}
}

func single(c *gCond, not bool) *gExpr {
	return &gExpr{Ors: []*gAnd{{Xs: []*gX{{Not: not, Cond: c}}}}}
}

// atoms usable inside larger shapes (mostly supported ones, so that the connectives are evaluated)
func goodAtom(rng *vh.Rng) *gCond {
	if rng.Chance(1, 5) {
		return atom(rng.PickS([]string{"ts", "TS"}), "", rng.PickS([]string{"<", ">", "<=", ">="}), tsGood[rng.Intn(len(tsGood))])
	}
	o := rng.PickS([]string{"msg", "MSG", "fields:a", "fields:b", "fields:zz", "Fields:a"})
	w := rng.PickS([]string{"", "", "", "upper", "lower", "lower(upper"})
	ops := opsAll[6:13]
	if strings.HasPrefix(strings.ToLower(o), "fields") {
		ops = opsAll[:13]
	}
	op := rng.PickS(ops)
	v := strVals[rng.Intn(len(strVals))]
	if strings.ToLower(op) == "like" && rng.Chance(9, 10) {
		lv := []valT{q("a*"), q("*b"), q("[a-c]x"), q("?"), q("*"), q("[^a]*"), q("a\\*"), q("??"), q("")}
		v = lv[rng.Intn(len(lv))]
	}
	if rng.Chance(1, 25) { // an unsupported atom now and then: the whole expression must be rejected
		return atom(rng.PickS(operands), rng.PickS(wrappers), rng.PickS(opsAll), strVals[rng.Intn(len(strVals))])
	}
	return atom(o, w, op, v)
}

func genExpr(rng *vh.Rng, depth int) *gExpr {
	e := &gExpr{}
	nor := rng.PickI([]int{1, 1, 2, 2, 3})
	for i := 0; i < nor; i++ {
		a := &gAnd{}
		nand := rng.PickI([]int{1, 1, 2, 2, 3})
		for j := 0; j < nand; j++ {
			x := &gX{Not: rng.Chance(1, 3)}
			if depth > 0 && rng.Chance(1, 3) {
				x.Expr = genExpr(rng, depth-1)
			} else {
				x.Cond = goodAtom(rng)
			}
			a.Xs = append(a.Xs, x)
		}
		e.Ors = append(e.Ors, a)
	}
	return e
}

// ---------------------------------------------------------------------------------------------
// case mapping and time literal tables for the driver

func isASCII(s string) bool {
	for i := 0; i < len(s); i++ {
		if s[i] >= 0x80 {
			return false
		}
	}
	return true
}

type tables struct {
	mu    sync.Mutex
	up    map[string]string
	lo    map[string]string
	ts    map[string]string
	lines []string
}

func newTables() *tables {
	return &tables{up: map[string]string{}, lo: map[string]string{}, ts: map[string]string{}}
}

// addCase records Go's ToUpper/ToLower on s and on everything reachable from it by up to depth further mappings
func (t *tables) addCase(s string, depth int) {
	if depth == 0 {
		return
	}
	u, l := strings.ToUpper(s), strings.ToLower(s)
	if !isASCII(s) {
		if _, ok := t.up[s]; !ok {
			t.up[s] = u
			t.lines = append(t.lines, fmt.Sprintf("case U %s %s", vh.HxS(s), vh.HxS(u)))
		}
		if _, ok := t.lo[s]; !ok {
			t.lo[s] = l
			t.lines = append(t.lines, fmt.Sprintf("case L %s %s", vh.HxS(s), vh.HxS(l)))
		}
	}
	if u != s {
		t.addCase(u, depth-1)
	}
	if l != s {
		t.addCase(l, depth-1)
	}
}

// addTs records what the real time literal parser answers for a condition value (public entry: lql.DateTime.Capture)
func (t *tables) addTs(v string) {
	if _, ok := t.ts[v]; ok {
		return
	}
	var dt lql.DateTime
	r := "err"
	if err := dt.Capture([]string{v}); err == nil {
		r = strconv.FormatInt(int64(dt), 10)
	}
	t.ts[v] = r
	t.lines = append(t.lines, fmt.Sprintf("tslit %s %s", vh.HxS(v), r))
}

func (t *tables) addExpr(e *lql.Expression) {
	names, values := map[string]bool{}, map[string]bool{}
	collectStrings(e, names, values)
	for n := range names {
		t.addCase(n, 2)
	}
	for v := range values {
		t.addTs(v)
	}
}
func (t *tables) addEvent(e event) {
	t.addCase(e.Msg, 4)
	f := e.Fields
	for i := 0; i < len(f); {
		n := int(f[i])
		if i+1+n > len(f) {
			break
		}
		t.addCase(f[i+1:i+1+n], 4)
		i += n + 1
	}
}

// ---------------------------------------------------------------------------------------------
// where: one case = one text (+ intended AST) evaluated on a list of events

type whereCase struct {
	Text    string  `json:"text"`
	WantAst string  `json:"want_ast,omitempty"` // intended AST ("" = unknown: take the real parser's)
	Events  []event `json:"events,omitempty"`   // nil = the standard pool
	// Buffered: the events are evaluated one after another through ONE reused read buffer (message and fields of every
	// event are copied to the same place and the LogEvent aliases it), as the chunk iterator hands stored events out
	Buffered bool `json:"buffered,omitempty"`
}

type whereOut struct {
	lines []string
	impls []string // per line: expected answer prefix from IMPL ("" = not compared)
	perr  bool
}

func evalImpl(f lql.WhereExpFunc, e event) string {
	r := ""
	p := vh.Recover(func() {
		le := model.LogEvent{Timestamp: e.Ts, Msg: []byte(e.Msg), Fields: field.Fields(e.Fields)}
		if f(&le) {
			r = "1"
		} else {
			r = "0"
		}
	})
	if p != "" {
		return "panic"
	}
	return r
}

// readBuf imitates the chunk iterator's read buffer (chunkfs cIterator.buf + LogEvent.Unmarshal(rec, false)): every
// record is read to the same place, the LogEvent's Msg and Fields alias the buffer and are overwritten by the next record.
type readBuf struct{ msg, fld []byte }

func newReadBuf() *readBuf { return &readBuf{msg: make([]byte, 0, 1024), fld: make([]byte, 0, 4096)} }

func (b *readBuf) load(e event) model.LogEvent {
	b.msg = append(b.msg[:0], e.Msg...)
	b.fld = append(b.fld[:0], e.Fields...)
	return model.LogEvent{Timestamp: e.Ts, Msg: records.Record(b.msg), Fields: field.Fields(rbytes.ByteArrayToString(b.fld))}
}

// evalBuffered evaluates f over the events in order through one read buffer
func evalBuffered(f lql.WhereExpFunc, evs []event) []string {
	b := newReadBuf()
	out := make([]string, len(evs))
	for i, e := range evs {
		r := ""
		p := vh.Recover(func() {
			le := b.load(e)
			if f(&le) {
				r = "1"
			} else {
				r = "0"
			}
		})
		if p != "" {
			r = "panic"
		}
		out[i] = r
	}
	return out
}

func hashKey(s string, i int) string {
	h := fnv.New64a()
	h.Write([]byte(s))
	return strconv.FormatUint(h.Sum64(), 36) + "#" + strconv.Itoa(i)
}

// runWhere evaluates the cases on IMPL, sends them to the driver (in parallel chunks) and compares
func runWhere(secName string, sec *vh.Section, cases []whereCase, pool []event) {
	type prepared struct {
		c       whereCase
		exp     *lql.Expression
		real    string
		f       lql.WhereExpFunc
		berr    error
		bpanic  string
		evs     []event
		impl    []string
		implBuf []string // the same events in the same order through one reused read buffer, on a freshly built filter
		skipped bool
	}
	tb := newTables()
	for _, e := range pool {
		tb.addEvent(e)
	}
	ps := make([]*prepared, len(cases))
	for i, c := range cases {
		p := &prepared{c: c, evs: pool}
		if c.Events != nil {
			p.evs = c.Events
			for _, e := range c.Events {
				tb.addEvent(e)
			}
		}
		ps[i] = p
		exp, perr := parseExpr(c.Text)
		if perr != nil || exp == nil {
			p.skipped = true
			res.Dist(sec, "parse-error")
			if c.WantAst != "" {
				res.SpecFail(vh.SpecFailure{Section: secName, Kind: "parse-rejected", Input: c, Impl: fmt.Sprint(perr), Spec: c.WantAst,
					What: "a well-formed WHERE expression is rejected by the parser"})
			}
			continue
		}
		p.exp = exp
		p.real = realAstString(exp)
		if c.WantAst != "" && p.real != c.WantAst {
			res.SpecFail(vh.SpecFailure{Section: secName, Kind: "parse-differs", Input: c, Impl: p.real, Spec: c.WantAst,
				What: "the parsed expression is not the documented reading of the text (NOT binds tighter than AND, AND tighter than OR, parentheses group)"})
		}
		tb.addExpr(exp)
		p.bpanic = vh.Recover(func() { p.f, p.berr = lql.BuildWhereExpFuncByExpression(exp) })
		if p.bpanic == "" && p.berr == nil && p.f == nil {
			p.bpanic = "nil function without error"
		}
		for _, e := range p.evs {
			if p.bpanic != "" || p.berr != nil {
				p.impl = append(p.impl, "err")
			} else if !c.Buffered {
				p.impl = append(p.impl, evalImpl(p.f, e))
			}
		}
		if p.bpanic == "" && p.berr == nil {
			// stored events reach the filter through the chunk iterator's reused buffer: evaluate the sequence that way too,
			// on a filter built afresh (a filter must not carry anything from one event to the next)
			if f2, err2 := lql.BuildWhereExpFuncByExpression(exp); err2 == nil && f2 != nil {
				p.implBuf = evalBuffered(f2, p.evs)
			}
			if c.Buffered {
				p.impl = p.implBuf
			}
		}
	}
	// driver, in parallel chunks
	nw := 16
	chunk := (len(ps) + nw - 1) / nw
	if chunk == 0 {
		chunk = 1
	}
	type ans struct {
		idx   []int // index into ps per expr line
		first []int // line number of the expr answer
		out   []string
	}
	var wg sync.WaitGroup
	results := make([]ans, 0)
	var rmu sync.Mutex
	for lo := 0; lo < len(ps); lo += chunk {
		hi := lo + chunk
		if hi > len(ps) {
			hi = len(ps)
		}
		wg.Add(1)
		go func(lo, hi int) {
			defer wg.Done()
			lines := append([]string{}, tb.lines...)
			var a ans
			for i := lo; i < hi; i++ {
				p := ps[i]
				if p.skipped {
					continue
				}
				a.idx = append(a.idx, i)
				a.first = append(a.first, len(lines))
				lines = append(lines, "expr "+p.real)
				if p.c.WantAst != "" && p.c.WantAst != p.real {
					lines = append(lines, "specexpr "+p.c.WantAst)
				} else {
					lines = append(lines, "specexpr "+p.real)
				}
				for _, e := range p.evs {
					lines = append(lines, "ev "+e.line())
				}
			}
			out, err := vh.Batch(args.Driver, lines)
			if err != nil {
				res.Fatal(args.Out, "driver: %v", err)
			}
			a.out = out
			rmu.Lock()
			results = append(results, a)
			rmu.Unlock()
		}(lo, hi)
	}
	wg.Wait()
	for _, a := range results {
		for k, pi := range a.idx {
			p := ps[pi]
			exprAns := a.out[a.first[k]]
			specAns := a.out[a.first[k]+1]
			mBuildOk := strings.HasPrefix(exprAns, "build=ok")
			supported := strings.Contains(specAns, "supported=1")
			wf := strings.Contains(exprAns, "wf=1")
			iBuild := "ok"
			if p.bpanic != "" {
				iBuild = "panic"
			} else if p.berr != nil {
				iBuild = "err"
			}
			res.Dist(sec, "build-"+iBuild)
			in := whereCase{Text: p.c.Text, WantAst: p.c.WantAst, Events: p.c.Events}
			if !wf {
				res.Mismatch(vh.Mismatch{Section: secName, Function: "lql.ParseExpr (grammar: no empty OR list)", Input: in, Impl: p.real, Model: exprAns})
			}
			if (iBuild == "ok") != mBuildOk {
				res.Mismatch(vh.Mismatch{Section: secName, Function: "lql.BuildWhereExpFuncByExpression (accept/reject)", Input: in, Impl: iBuild + " " + fmt.Sprint(p.berr), Model: exprAns})
			}
			if iBuild == "panic" {
				res.SpecFail(vh.SpecFailure{Section: secName, Kind: "panic", Input: in, Impl: p.bpanic, Spec: specAns, Model: exprAns, What: "building the filter panics"})
			} else if iBuild == "ok" && !supported {
				res.SpecFail(vh.SpecFailure{Section: secName, Kind: "accepted-unevaluable", Input: in, Impl: "accepted", Spec: "rejected", Model: exprAns,
					ImplEqModel: mBuildOk, What: "an expression the server cannot evaluate is accepted instead of being rejected"})
			} else if iBuild == "err" && supported {
				res.SpecFail(vh.SpecFailure{Section: secName, Kind: "rejected-valid", Input: in, Impl: p.berr.Error(), Spec: "accepted", Model: exprAns,
					ImplEqModel: !mBuildOk, What: "a supported WHERE expression is rejected"})
			}
			for j, e := range p.evs {
				o := a.out[a.first[k]+2+j]
				var m, s, fw string
				for _, kv := range strings.Fields(o) {
					switch {
					case strings.HasPrefix(kv, "model="):
						m = kv[6:]
					case strings.HasPrefix(kv, "spec="):
						s = kv[5:]
					case strings.HasPrefix(kv, "fwf="):
						fw = kv[4:]
					}
				}
				impl := p.impl[j]
				key := ""
				if impl == "0" || impl == "1" {
					key = hashKey(p.c.Text, j)
				}
				res.Eval(sec, key)
				if fw != "1" {
					continue // malformed fields: Fields.Value may panic, not this property
				}
				one := whereCase{Text: p.c.Text, WantAst: p.c.WantAst, Events: []event{e}}
				if p.c.Buffered {
					one = whereCase{Text: p.c.Text, WantAst: p.c.WantAst, Buffered: true, Events: append([]event{}, p.evs[:j+1]...)}
				}
				if p.implBuf != nil && !p.c.Buffered && p.implBuf[j] != impl {
					// the answer depends on what was evaluated before through the same buffer: record the shortest event sequence
					// (previous + this one, else the whole prefix) that reproduces it on a fresh filter
					seq := whereCase{Text: p.c.Text, WantAst: p.c.WantAst, Buffered: true, Events: append([]event{}, p.evs[:j+1]...)}
					if j > 0 {
						if f3, e3 := lql.BuildWhereExpFuncByExpression(p.exp); e3 == nil {
							if r := evalBuffered(f3, p.evs[j-1:j+1]); r[1] == p.implBuf[j] {
								seq.Events = append([]event{}, p.evs[j-1:j+1]...)
							}
						}
					}
					if p.implBuf[j] != m {
						res.Mismatch(vh.Mismatch{Section: secName, Function: "WhereExpFunc(event) over consecutive events in one read buffer", Input: seq, Impl: p.implBuf[j], Model: m})
					}
					if (s == "0" || s == "1") && p.implBuf[j] != s {
						res.SpecFail(vh.SpecFailure{Section: secName, Kind: "wrong-result", Input: seq, Impl: p.implBuf[j], Spec: s, Model: m, ImplEqModel: p.implBuf[j] == m,
							What: "the filter's answer for the last event of the sequence differs from the reference meaning when the events are handed over through one reused read buffer (as stored events are): the filter carries state from the previous event"})
					}
				}
				if impl != m {
					res.Mismatch(vh.Mismatch{Section: secName, Function: "WhereExpFunc(event)", Input: one, Impl: impl, Model: m})
				}
				switch {
				case impl == "panic":
					res.SpecFail(vh.SpecFailure{Section: secName, Kind: "panic", Input: one, Impl: "panic", Spec: s, Model: m, ImplEqModel: impl == m, What: "evaluating the filter panics"})
				case (impl == "0" || impl == "1") && (s == "0" || s == "1") && impl != s:
					res.SpecFail(vh.SpecFailure{Section: secName, Kind: "wrong-result", Input: one, Impl: impl, Spec: s, Model: m, ImplEqModel: impl == m,
						What: "the filter's answer for an event differs from the reference meaning of the expression"})
				}
			}
		}
	}
}

func sectionWhere(rng *vh.Rng) {
	sec := res.Section("where", "unit-correspondence",
		"texts from the grammar: (a) every single condition operand(16) x function wrapper(12) x operator(14) x value(27 strings / 9 time literals), quick tier a seeded half; (b) every connective shape without nesting (1-2 OR alternatives of 1-2 AND members, each with/without NOT) over seeded atoms; (c) seeded shapes to depth 3 (thorough: a tenth to depth 4) (1-3 alternatives, 1-3 members, NOT 1/3, parenthesised sub-expression 1/3, 4% unsupported atoms). Each parsed by the real parser (AST compared with the intended one), built by the real builder, evaluated on 40 events (duplicate/absent/empty fields, non-UTF-8, case variants, timestamps at the literals -1/0/+1) and compared with the Lean builder (MODEL) and evalRef/supported (SPEC). non-trivial = an evaluation of an accepted expression, distinct by (text, event)")
	pool := eventPool()
	var cases []whereCase
	add := func(e *gExpr) { cases = append(cases, whereCase{Text: e.text(), WantAst: e.astString()}) }
	// (a) atoms
	stride, off := 2, rng.Intn(2)
	if args.Thorough {
		stride, off = 1, 0
	}
	n := 0
	for _, o := range operands {
		for _, w := range wrappers {
			for _, op := range opsAll {
				vals := strVals
				if isTsOperand(o) {
					vals = tsVals
				}
				for _, v := range vals {
					n++
					if n%stride != off {
						continue
					}
					add(single(atom(o, w, op, v), n%7 == 0))
				}
			}
		}
	}
	res.Dist(sec, "atoms")
	na := len(cases)
	// (b) all flat shapes
	for nor := 1; nor <= 2; nor++ {
		for n1 := 1; n1 <= 2; n1++ {
			for n2 := 1; n2 <= 2; n2++ {
				if nor == 1 && n2 > 1 {
					continue
				}
				sizes := []int{n1, n2}[:nor]
				tot := 0
				for _, s := range sizes {
					tot += s
				}
				for mask := 0; mask < 1<<uint(tot); mask++ {
					reps := 3
					if args.Thorough {
						reps = 12
					}
					for r := 0; r < reps; r++ {
						e := &gExpr{}
						k := 0
						for _, s := range sizes {
							a := &gAnd{}
							for j := 0; j < s; j++ {
								a.Xs = append(a.Xs, &gX{Not: mask&(1<<uint(k)) != 0, Cond: goodAtom(rng)})
								k++
							}
							e.Ors = append(e.Ors, a)
						}
						add(e)
					}
				}
			}
		}
	}
	nb := len(cases) - na
	// (c) nested
	nn := 6000
	if args.Thorough {
		nn = 150000
	}
	for i := 0; i < nn; i++ {
		d := rng.Range(1, 3)
		if args.Thorough && i%10 == 0 {
			d = 4
		}
		add(genExpr(rng, d))
	}
	res.Note("where: %d single-condition texts, %d flat shapes, %d nested shapes, %d events", na, nb, nn, len(pool))
	for i := 0; i < 3; i++ {
		res.Sample(map[string]interface{}{"section": "where", "text": cases[len(cases)-1-i].Text})
	}
	runWhere("where", sec, cases, pool)
	res.Done(sec)
}

// ---------------------------------------------------------------------------------------------
// path.Match

func goMatch(p, n string) string {
	m, err := path.Match(p, n)
	if err != nil {
		return "bad"
	}
	if m {
		return "1"
	}
	return "0"
}

func sectionPathMatch(rng *vh.Rng) {
	sec := res.Section("pathmatch", "unit-correspondence",
		"path.Match(pattern, name) vs the Lean model: exhaustive patterns of length 0..3 over {* ? [ ] ^ - \\ / a b} x names of length 0..2 over {a b / -} and the probe name abc; seeded random patterns (<=7 pieces incl. classes, escapes, é, 0xff) x names; search: no pattern accepted on the probe name abc reports ErrBadPattern on another name; every case also against the documented pattern language (SPEC PathSpec.specMatch: must agree without '*', counted with '*'). non-trivial = pattern with a metacharacter, distinct by (pattern, name)")
	type cs struct{ p, n string }
	var cases []cs
	pa := []string{"*", "?", "[", "]", "^", "-", "\\", "/", "a", "b"}
	na := []string{"a", "b", "/", "-"}
	var pats, names []string
	var gen func(al []string, pre string, d int, out *[]string)
	gen = func(al []string, pre string, d int, out *[]string) {
		*out = append(*out, pre)
		if d == 0 {
			return
		}
		for _, a := range al {
			gen(al, pre+a, d-1, out)
		}
	}
	gen(pa, "", 3, &pats)
	gen(na, "", 2, &names)
	names = append(names, "abc")
	for _, p := range pats {
		for _, n := range names {
			cases = append(cases, cs{p, n})
		}
	}
	// the two kernel-checked counterexamples to "path.Match = documented language" with '*' (Props.C05.cex_star_greedy_*): kept in
	// the run so that the model comparison covers them and the difference is counted every time
	cases = append(cases, cs{"**[^a]*", "*x*]/"}, cs{"*?*\xac", "\xe2\x82\xac"})
	rp := []string{"*", "*", "?", "[", "]", "^", "-", "\\", "/", "a", "b", "c", "é", "\xff", "[a-c]", "[^a]", "ab", "[a-", "\\*", "[é-ü]"}
	rn := []string{"a", "b", "c", "/", "é", "\xff", "x", "-", "]", "*", "ab", "ü"}
	nr := 30000
	if args.Thorough {
		nr = 400000
	}
	mk := func(al []string, m int) string {
		k := rng.Intn(m + 1)
		var sb strings.Builder
		for i := 0; i < k; i++ {
			sb.WriteString(rng.PickS(al))
		}
		return sb.String()
	}
	for i := 0; i < nr; i++ {
		p, n := mk(rp, 7), mk(rn, 5)
		if i%4 == 0 {
			n = "abc"
		}
		cases = append(cases, cs{p, n})
	}
	lines := make([]string, len(cases))
	for i, c := range cases {
		lines[i] = "match " + vh.HxS(c.p) + " " + vh.HxS(c.n)
	}
	outs := batchParallel(lines)
	slines := make([]string, len(cases))
	for i, c := range cases {
		slines[i] = "specmatch " + vh.HxS(c.p) + " " + vh.HxS(c.n)
	}
	specs := batchParallel(slines)
	probeOk := map[string]bool{}
	// the SPEC answer of a well-formed pattern carries the leftmost-commit reading (PathSpec.greedyMatch) and the decidable
	// classes of the round-2 theorems: g=… safe=… safeA=… plain=…
	greedy := make([]string, len(cases))
	flags := make([]map[string]bool, len(cases))
	for i := range specs {
		f := strings.Fields(specs[i])
		flags[i] = map[string]bool{}
		if len(f) > 1 {
			specs[i] = f[0]
			for _, kv := range f[1:] {
				if strings.HasPrefix(kv, "g=") {
					greedy[i] = kv[2:]
				} else if j := strings.IndexByte(kv, '='); j > 0 {
					flags[i][kv[:j]] = kv[j+1:] == "1"
				}
			}
		}
	}
	isASCII := func(s string) bool {
		for i := 0; i < len(s); i++ {
			if s[i] >= 0x80 {
				return false
			}
		}
		return true
	}
	for i, c := range cases {
		g := goMatch(c.p, c.n)
		if greedy[i] != "" && strings.Contains(c.p, "*") {
			// Props.C05Like: on a well-formed pattern path.Match IS the leftmost-commit reading of '*' (greedyMatch) — proved for
			// patterns whose '*' bytes are all star terms (plain), brute-force validated beyond; and leftmost-commit = documented
			// language under starSafe (every name) / starSafeAscii (ASCII names)
			switch {
			case g == greedy[i]:
				res.Dist(sec, "star-pattern-is-leftmost-commit")
			case flags[i]["plain"]:
				res.SpecFail(vh.SpecFailure{Section: "pathmatch", Kind: "leftmost-commit", Input: map[string]string{"pattern": vh.HxS(c.p), "name": vh.HxS(c.n)},
					Impl: g, Spec: greedy[i], Model: outs[i], ImplEqModel: g == outs[i], What: "path.Match differs from the leftmost-commit reading of '*' (PathSpec.greedyMatch) on a well-formed pattern"})
			default:
				res.Dist(sec, "star-pattern-differs-from-leftmost-commit-nonplain")
				res.Note("pathmatch: pattern %q on %q: path.Match=%s leftmost-commit=%s (pattern with an escaped or bracketed '*': not covered by the theorem)", c.p, c.n, g, greedy[i])
			}
			if flags[i]["safe"] || (flags[i]["safeA"] && isASCII(c.n)) {
				res.Dist(sec, "star-safe")
				if g != specs[i] {
					res.SpecFail(vh.SpecFailure{Section: "pathmatch", Kind: "pattern-semantics-star-safe", Input: map[string]string{"pattern": vh.HxS(c.p), "name": vh.HxS(c.n)},
						Impl: g, Spec: specs[i], Model: outs[i], ImplEqModel: g == outs[i], What: "path.Match differs from the documented pattern language on a star-safe pattern (segments between stars are literal, or one-byte terms on an ASCII name)"})
				}
			} else {
				res.Dist(sec, "star-unsafe")
			}
		}
		// SPEC = the documented pattern language (PathSpec): proved equal to the algorithm for patterns without '*'
		// (pathMatch_eq_spec_noStar); with '*' the greedy algorithm is known to differ on inputs that split a multi-byte
		// character (cex_star_greedy_splits_rune), so a difference there is only counted
		if g != specs[i] {
			if !strings.Contains(c.p, "*") {
				res.SpecFail(vh.SpecFailure{Section: "pathmatch", Kind: "pattern-semantics", Input: map[string]string{"pattern": vh.HxS(c.p), "name": vh.HxS(c.n)},
					Impl: g, Spec: specs[i], Model: outs[i], ImplEqModel: g == outs[i], What: "path.Match differs from the documented pattern language on a pattern without '*'"})
			} else if utf8.ValidString(c.p) && utf8.ValidString(c.n) {
				res.Dist(sec, "star-pattern-differs-from-spec-valid-utf8")
				res.Note("pathmatch: star pattern %q on %q: path.Match=%s documented-language=%s (valid UTF-8; tested only)", c.p, c.n, g, specs[i])
			} else {
				res.Dist(sec, "star-pattern-differs-from-spec-invalid-utf8")
			}
		} else if strings.Contains(c.p, "*") {
			res.Dist(sec, "star-pattern-agrees-with-spec")
		}
		key := ""
		if strings.ContainsAny(c.p, "*?[\\") {
			key = c.p + "\x00" + c.n
		}
		res.Eval(sec, key)
		res.Dist(sec, "go="+g)
		if g != outs[i] {
			res.Mismatch(vh.Mismatch{Section: "pathmatch", Function: "path.Match", Input: map[string]string{"pattern": vh.HxS(c.p), "name": vh.HxS(c.n)}, Impl: g, Model: outs[i]})
		}
		if _, ok := probeOk[c.p]; !ok {
			probeOk[c.p] = goMatch(c.p, "abc") != "bad"
		}
		if probeOk[c.p] && g == "bad" {
			// the builder's pre-test accepted the pattern but evaluation on this name errs: `res, _ := path.Match` reads it as false
			res.Dist(sec, "probe-ok-but-bad-on-name")
			res.SpecFail(vh.SpecFailure{Section: "pathmatch", Kind: "pattern-check-incomplete", Input: map[string]string{"pattern": vh.HxS(c.p), "name": vh.HxS(c.n)},
				Impl: "path.Match(p, \"abc\") accepts, path.Match(p, name) = ErrBadPattern", Spec: "a pattern accepted by the pre-test is evaluable on every name", Model: outs[i], ImplEqModel: g == outs[i],
				What: "a LIKE pattern that passes the builder's pre-test is malformed for another subject"})
		}
	}
	res.Done(sec)
}

// sectionCaseMap: the hypothesis `AsciiCase` of Props.C05Env (string_clause_ascii, upper_eq_caseless, lower_eq_caseless): on a
// string without a byte >= 0x80 Go's strings.ToUpper / strings.ToLower are the byte-wise mappings a-z <-> A-Z of
// Where.asciiUpper / asciiLower (mirrored here; the driver's environment uses the Lean definitions for ASCII strings, so the
// where section compares them through every UPPER()/LOWER() evaluation as well).
func sectionCaseMap(rng *vh.Rng) {
	sec := res.Section("casemap", "unit-correspondence",
		"strings.ToUpper / strings.ToLower vs the byte-wise ASCII mapping (Where.asciiUpper/asciiLower): every string of length <= 2 over the 128 ASCII bytes, seeded random ASCII strings up to 40 bytes (letters 1/2); non-trivial = a string the mapping changes")
	up := func(s string) string {
		b := []byte(s)
		for i, c := range b {
			if 'a' <= c && c <= 'z' {
				b[i] = c - 32
			}
		}
		return string(b)
	}
	lo := func(s string) string {
		b := []byte(s)
		for i, c := range b {
			if 'A' <= c && c <= 'Z' {
				b[i] = c + 32
			}
		}
		return string(b)
	}
	check := func(s string) {
		key := ""
		if up(s) != s || lo(s) != s {
			key = s
		}
		res.Eval(sec, key)
		if g := strings.ToUpper(s); g != up(s) {
			res.Mismatch(vh.Mismatch{Section: "casemap", Function: "strings.ToUpper on ASCII", Input: map[string]string{"s": vh.HxS(s)}, Impl: vh.HxS(g), Model: vh.HxS(up(s))})
		}
		if g := strings.ToLower(s); g != lo(s) {
			res.Mismatch(vh.Mismatch{Section: "casemap", Function: "strings.ToLower on ASCII", Input: map[string]string{"s": vh.HxS(s)}, Impl: vh.HxS(g), Model: vh.HxS(lo(s))})
		}
	}
	check("")
	for a := 0; a < 128; a++ {
		check(string([]byte{byte(a)}))
		for b := 0; b < 128; b++ {
			check(string([]byte{byte(a), byte(b)}))
		}
	}
	n := 20000
	if args.Thorough {
		n = 200000
	}
	for i := 0; i < n; i++ {
		k := rng.Intn(41)
		b := make([]byte, k)
		for j := range b {
			if rng.Chance(1, 2) {
				b[j] = byte('A' + rng.Intn(26) + 32*rng.Intn(2))
			} else {
				b[j] = byte(rng.Intn(128))
			}
		}
		check(string(b))
	}
	res.Done(sec)
}

func batchParallel(lines []string) []string {
	nw := 16
	chunk := (len(lines) + nw - 1) / nw
	if chunk == 0 {
		return nil
	}
	outs := make([]string, len(lines))
	var wg sync.WaitGroup
	for lo := 0; lo < len(lines); lo += chunk {
		hi := lo + chunk
		if hi > len(lines) {
			hi = len(lines)
		}
		wg.Add(1)
		go func(lo, hi int) {
			defer wg.Done()
			o, err := vh.Batch(args.Driver, lines[lo:hi])
			if err != nil {
				res.Fatal(args.Out, "driver: %v", err)
			}
			copy(outs[lo:hi], o)
		}(lo, hi)
	}
	wg.Wait()
	return outs
}

// ---------------------------------------------------------------------------------------------
// Fields.Value

func sectionFieldsValue(rng *vh.Rng) {
	sec := res.Section("fieldsvalue", "unit-correspondence",
		"field.Fields.Value(name) vs the Lean model and SPEC (first pair of that name, else empty): encodings of 0..4 pairs over names {\"\", a, b, aa, A, é} and values {\"\", a, ab, b, \\x01a, 255 bytes} (all pair lists of length <=2 exhaustively, longer ones seeded) x every name; malformed encodings (every truncation of a valid one, seeded byte mutations) where a panic must be mirrored as panic. non-trivial = at least two pairs or malformed, distinct by (encoding, name)")
	names := []string{"", "a", "b", "aa", "A", "é"}
	vals := []string{"", "a", "ab", "b", "\x01a", strings.Repeat("v", 255)}
	var encs []string
	var pairsL [][]string
	var rec func(pre []string, d int)
	rec = func(pre []string, d int) {
		pairsL = append(pairsL, append([]string{}, pre...))
		if d == 0 {
			return
		}
		for _, n := range names {
			for _, v := range vals {
				rec(append(pre, n, v), d-1)
			}
		}
	}
	rec(nil, 2)
	nr := 300
	if args.Thorough {
		nr = 5000
	}
	for i := 0; i < nr; i++ {
		k := rng.Range(3, 4)
		var kv []string
		for j := 0; j < k; j++ {
			kv = append(kv, rng.PickS(names), rng.PickS(vals))
		}
		pairsL = append(pairsL, kv)
	}
	for _, kv := range pairsL {
		f, _ := field.NewFieldsFromSlice(kv...)
		encs = append(encs, string(f))
	}
	nv := len(encs)
	// malformed: truncations and mutations of some valid encodings
	for i := 0; i < nv; i += 7 {
		e := encs[i]
		if len(e) > 40 {
			continue
		}
		for c := 1; c < len(e); c++ {
			encs = append(encs, e[:c])
		}
		if len(e) > 0 {
			b := []byte(e)
			b[rng.Intn(len(b))] = byte(rng.PickI([]int{0, 1, 2, 3, 255, 97}))
			encs = append(encs, string(b))
		}
	}
	type cs struct{ f, n string }
	var cases []cs
	for _, e := range encs {
		for _, n := range names {
			cases = append(cases, cs{e, n})
		}
	}
	lines := make([]string, len(cases))
	for i, c := range cases {
		lines[i] = "value " + vh.HxS(c.f) + " " + vh.HxS(c.n)
	}
	outs := batchParallel(lines)
	for i, c := range cases {
		impl := ""
		p := vh.Recover(func() { impl = "ok " + vh.HxS(field.Fields(c.f).Value(c.n)) })
		if p != "" {
			impl = "panic"
		}
		o := outs[i]
		sp := ""
		if k := strings.Index(o, " spec="); k >= 0 {
			sp = o[k+6:]
			o = o[:k]
		}
		key := ""
		if len(c.f) > 6 || sp == "malformed" {
			key = c.f + "\x00" + c.n
		}
		res.Eval(sec, key)
		if sp == "malformed" {
			res.Dist(sec, "malformed-"+strings.Fields(impl)[0])
		} else {
			res.Dist(sec, "wellformed")
		}
		in := map[string]string{"fields": vh.HxS(c.f), "name": vh.HxS(c.n)}
		if impl != o {
			res.Mismatch(vh.Mismatch{Section: "fieldsvalue", Function: "field.Fields.Value", Input: in, Impl: impl, Model: o})
		}
		if sp != "malformed" && impl != "ok "+sp {
			res.SpecFail(vh.SpecFailure{Section: "fieldsvalue", Kind: "wrong-field-value", Input: in, Impl: impl, Spec: sp, Model: o, ImplEqModel: impl == o,
				What: "Fields.Value is not the value of the first field of that name (missing = empty)"})
		}
	}
	res.Done(sec)
}

// ---------------------------------------------------------------------------------------------
// fiterator over a scripted iterator

type sliceIt struct {
	evs  []model.LogEvent
	pos  int
	bkwd bool
	jump bool // does not keep its place on a direction switch: moves one step in the new direction
	buf  *readBuf
	src  []event // when set, Get hands the events out through buf (Msg and Fields alias it), as the chunk iterator does
}

func (s *sliceIt) Next(ctx context.Context) {
	if s.bkwd {
		s.pos--
	} else {
		s.pos++
	}
}
func (s *sliceIt) Get(ctx context.Context) (model.LogEvent, tag.Line, error) {
	if s.pos < 0 || s.pos >= len(s.evs) {
		return model.LogEvent{}, "", io.EOF
	}
	if s.src != nil {
		if s.buf == nil {
			s.buf = newReadBuf()
		}
		return s.buf.load(s.src[s.pos]), "", nil
	}
	e := s.evs[s.pos]
	e.Msg = append([]byte{}, e.Msg...)
	return e, "", nil
}
func (s *sliceIt) Release()                        {}
func (s *sliceIt) SetBackward(b bool) {
	if s.jump && b != s.bkwd {
		if b {
			s.pos--
		} else {
			s.pos++
		}
	}
	s.bkwd = b
}
func (s *sliceIt) CurrentPos() records.IteratorPos { return nil }

type fiterCase struct {
	Text   string   `json:"text"` // "" = no WHERE
	Range  *[2]int64 `json:"range,omitempty"`
	Events []event  `json:"events"`
	Jump   bool     `json:"jump,omitempty"` // the wrapped iterator moves on a direction switch
	Ops    []string `json:"ops"`            // get | next | back0 | back1 | drain
}

func runFiter(c fiterCase, sec *vh.Section) (lines, impls []string, ok bool) {
	tb := newTables()
	var exp *lql.Expression
	if c.Text != "" {
		var err error
		exp, err = parseExpr(c.Text)
		if err != nil {
			return nil, nil, false
		}
		tb.addExpr(exp)
	}
	idx := map[int64]int{}
	si := &sliceIt{jump: c.Jump, src: c.Events}
	for i, e := range c.Events {
		tb.addEvent(e)
		idx[e.Ts] = i
		si.evs = append(si.evs, model.LogEvent{Timestamp: e.Ts, Msg: []byte(e.Msg), Fields: field.Fields(e.Fields)})
	}
	var tr *model.TimeRange
	mn, mx := minTs, maxTs
	if c.Range != nil {
		tr = &model.TimeRange{MinTs: c.Range[0], MaxTs: c.Range[1]}
		mn, mx = c.Range[0], c.Range[1]
	}
	fit, err := cursor.NewFIteratorVerif(si, exp, tr)
	lines = append(lines, tb.lines...)
	for range tb.lines {
		impls = append(impls, "ok")
	}
	if exp != nil {
		lines = append(lines, "expr "+realAstString(exp))
		if err != nil {
			impls = append(impls, "build=err")
			lines = append(lines, "spec.filter 0 0 0")
			impls = append(impls, "\x00spec")
			return lines, impls, true
		}
		impls = append(impls, "build=ok")
	} else {
		lines = append(lines, "noexpr")
		impls = append(impls, "build=ok")
	}
	var sb strings.Builder
	fmt.Fprintf(&sb, "%d %d %d", mn, mx, len(c.Events))
	for _, e := range c.Events {
		sb.WriteString(" " + e.line())
	}
	// MODEL: without a RANGE the model filters with the code's default range as regenerated (Generated.C05.fiterDefaultRange*);
	// SPEC (spec.filter below): without a RANGE every int64 timestamp is in range
	fitArgs := sb.String()
	if c.Range == nil {
		fitArgs = "dflt dflt" + strings.TrimPrefix(fitArgs, fmt.Sprintf("%d %d", mn, mx))
	}
	if c.Jump {
		lines = append(lines, "fit.newjump "+fitArgs)
	} else {
		lines = append(lines, "fit.new "+fitArgs)
	}
	impls = append(impls, "ok")
	ctx := context.Background()
	for _, op := range c.Ops {
		res.Dist(sec, op)
		switch op {
		case "get":
			le, _, e := fit.Get(ctx)
			lines = append(lines, "fit.get")
			if e != nil {
				impls = append(impls, "eof")
			} else {
				impls = append(impls, fmt.Sprintf("ok %d", idx[le.Timestamp]))
			}
		case "next":
			fit.Next(ctx)
			lines = append(lines, "fit.next")
			impls = append(impls, "ok")
		case "back0", "back1":
			fit.SetBackward(op == "back1")
			lines = append(lines, "fit.back "+op[4:])
			impls = append(impls, "ok")
		case "drain":
			// the model drains a copy of its state; the implementation is drained for real, so this is the last op
			out := "ok"
			var got []int
			for k := 0; k < len(c.Events)+3; k++ {
				le, _, e := fit.Get(ctx)
				if e != nil {
					break
				}
				out += fmt.Sprintf(" %d", idx[le.Timestamp])
				got = append(got, idx[le.Timestamp])
				fit.Next(ctx)
			}
			lines = append(lines, "fit.drain")
			impls = append(impls, out)
		}
	}
	// SPEC: which events pass (evalRef and the range) — asked from the driver; the expected answers of the script are then
	// computed by specScript: a filtering iterator without any cache
	lines = append(lines, "spec.filter "+sb.String())
	impls = append(impls, "\x00spec")
	return lines, impls, true
}

// specScript is the reference behaviour of a filtering iterator over the scripted iterator: Get scans from the wrapped
// iterator's current position in its current direction to the first passing event; nothing is remembered between calls.
func specScript(c fiterCase, pass map[int]bool) []string {
	ref := &sliceIt{jump: c.Jump}
	ref.evs = make([]model.LogEvent, len(c.Events))
	get := func() int {
		for ref.pos >= 0 && ref.pos < len(ref.evs) {
			if pass[ref.pos] {
				return ref.pos
			}
			ref.Next(nil)
		}
		return -1
	}
	var out []string
	for _, op := range c.Ops {
		switch op {
		case "get":
			if i := get(); i >= 0 {
				out = append(out, fmt.Sprintf("ok %d", i))
			} else {
				out = append(out, "eof")
			}
		case "next":
			ref.Next(nil)
			out = append(out, "ok")
		case "back0", "back1":
			ref.SetBackward(op == "back1")
			out = append(out, "ok")
		case "drain":
			o := "ok"
			for k := 0; k < len(c.Events)+3; k++ {
				i := get()
				if i < 0 {
					break
				}
				o += fmt.Sprintf(" %d", i)
				ref.Next(nil)
			}
			out = append(out, o)
		}
	}
	return out
}

func checkFiter(c fiterCase, lines, impls, outs []string) {
	n := len(lines) - 1
	// SPEC first
	if strings.HasPrefix(outs[n], "ok") && len(impls) >= len(c.Ops)+1 {
		pass := map[int]bool{}
		for _, f := range strings.Fields(outs[n])[1:] {
			k, _ := strconv.Atoi(f)
			pass[k] = true
		}
		want := specScript(c, pass)
		got := impls[len(impls)-1-len(c.Ops) : len(impls)-1]
		// finding F-C05-902 (fixed in /repo d9d7013; a recurrence is tagged): without a RANGE the filter's default range starts at -6795364578871345152, not at the int64
		// minimum. The failure belongs to it iff there is no RANGE, some event is stamped below that bound, and the whole script
		// behaves exactly as the reference does once those events are taken out of the passing set.
		finding := ""
		if c.Range == nil {
			pass2, early := map[int]bool{}, false
			for k, v := range pass {
				if c.Events[k].Ts < f902Bound {
					early = true
				} else {
					pass2[k] = v
				}
			}
			if early && fmt.Sprint(specScript(c, pass2)) == fmt.Sprint(got) {
				finding = "F-C05-902"
			}
		}
		for i := range want {
			if i < len(got) && got[i] != want[i] {
				mdl := outs[n-len(c.Ops)+i]
				res.SpecFail(vh.SpecFailure{Section: "fiter", Kind: "filter-not-exact", Input: c, Impl: fmt.Sprintf("op %d (%s): %s", i, c.Ops[i], got[i]),
					Spec: want[i], Model: mdl, ImplEqModel: mdl == got[i], Finding: map[bool]string{true: finding, false: ""}[mdl == got[i]],
					What: "the filtering iterator does not deliver exactly the passing events of the wrapped iterator from its current position (altered, reordered, duplicated, skipped or stale event)"})
				break
			}
		}
	}
	for i := 0; i < n; i++ {
		want := impls[i]
		if strings.HasPrefix(lines[i], "expr ") || lines[i] == "noexpr" {
			if strings.HasPrefix(outs[i], want) {
				continue
			}
		} else if outs[i] == want {
			continue
		}
		res.Mismatch(vh.Mismatch{Section: "fiter", Function: "cursor.fiterator: " + lines[i], Input: c, Impl: want, Model: outs[i]})
		return
	}
}

func fiterEarlyCases() []fiterCase {
	mk := func(ts int64, msg string) event {
		e := mkEvent(ts, msg, "a", "x")
		return e
	}
	evs := []event{mk(minTs+1, "m0"), mk(f902Bound-1, "m1"), mk(f902Bound, "m2"), mk(f902Bound+1, "m3"), mk(-5, "m4"), mk(7, "m5")}
	return []fiterCase{
		{Text: `msg contains "m"`, Events: evs, Ops: []string{"drain"}},
		{Text: `fields:a = "x" AND NOT msg contains "4"`, Events: evs, Ops: []string{"get", "next", "get", "back1", "get", "back0", "drain"}},
		{Text: "", Events: evs, Ops: []string{"drain"}},
	}
}

func sectionFiter(rng *vh.Rng) {
	sec := res.Section("fiter", "system-correspondence",
		"the real cursor.fiterator (newFIterator, Get, Next, SetBackward) over a scripted model.Iterator holding 0..9 events with distinct timestamps, handed out through one reused read buffer as the chunk iterator does (half of the cases hold runs of equal-length messages and field values that differ only in case), with a generated WHERE expression (or none) and an optional time range whose bounds sit on event timestamps: (a) a plain forward drain — IMPL vs MODEL vs SPEC (List.filter); (b) scripts of 4..16 get/next/set-backward operations ending in a drain, half of them over an iterator that moves one step on a direction switch (so a stale cached event is observable) — IMPL vs MODEL step by step. non-trivial = at least 2 events and a filter that lets through some but not all, distinct by case")
	n := 1500
	if args.Thorough {
		n = 20000
	}
	pool := eventPool()
	var cases []fiterCase
	for i := 0; i < n; i++ {
		c := fiterCase{}
		if rng.Chance(5, 6) {
			c.Text = genExpr(rng, rng.Range(0, 2)).text()
		}
		k := rng.Range(0, 9)
		perm := rng.Perm(len(pool))
		runs := rng.Bool()
		aroundBig := rng.Chance(1, 3)
		for j := 0; j < k; j++ {
			e := pool[perm[j]]
			if runs {
				v := rng.PickS(sameLen)
				e = mkEvent(0, v, "a", rng.PickS(sameLen), "b", rng.PickS(sameLen))
			}
			e.Ts = int64(j*2) + int64(rng.Intn(2)) + 3 // distinct, around the literal 10
			if aroundBig {
				e.Ts += bigT - 12 // distinct, around the literal 1552307683123456789
			} else if i%4 == 1 {
				e.Ts -= 14 // crossing zero: -11 … 8, around the literal -5 (events before the Unix epoch are events)
			} else if i%4 == 3 {
				e.Ts -= 1500000000000000000 // far before the epoch (1922): no default range may cut them off
			}
			e.MsgHex, e.FldHex = vh.HxS(e.Msg), vh.HxS(e.Fields)
			c.Events = append(c.Events, e)
		}
		if rng.Chance(1, 3) && k > 0 {
			a, b := c.Events[rng.Intn(k)].Ts, c.Events[rng.Intn(k)].Ts
			if a > b && rng.Chance(3, 4) {
				a, b = b, a
			}
			c.Range = &[2]int64{a, b}
		}
		if i%2 == 0 {
			c.Ops = []string{"drain"}
		} else {
			m := rng.Range(4, 16)
			c.Jump = rng.Bool()
			for j := 0; j < m; j++ {
				c.Ops = append(c.Ops, rng.PickS([]string{"get", "get", "get", "next", "next", "back0", "back1"}))
			}
			c.Ops = append(c.Ops, "drain")
		}
		cases = append(cases, c)
	}
	// fixed scripts for the finding F-C05-902 (fixed in /repo d9d7013; a recurrence is tagged): events stamped below / at / above the default range's lower bound, no RANGE
	cases = append(cases, fiterEarlyCases()...)
	var all []string
	type span struct{ lo, hi int }
	spans := make([]span, len(cases))
	implsAll := make([][]string, len(cases))
	linesAll := make([][]string, len(cases))
	for i, c := range cases {
		var l, im []string
		var ok bool
		if pmsg := vh.Recover(func() { l, im, ok = runFiter(c, sec) }); pmsg != "" {
			res.SpecFail(vh.SpecFailure{Section: "fiter", Kind: "panic", Input: c, Impl: "panic: " + pmsg, Spec: "events or EOF", What: "the filtering iterator panics on well-formed events"})
			continue
		}
		if !ok {
			res.Note("fiter: generator produced an unparsable text %q", c.Text)
			continue
		}
		linesAll[i], implsAll[i] = l, im
		spans[i] = span{len(all) + 1, len(all) + 1 + len(l)}
		all = append(all, "reset")
		all = append(all, l...)
	}
	outs, err := vh.Batch(args.Driver, all)
	if err != nil {
		res.Fatal(args.Out, "driver: %v", err)
	}
	for i, c := range cases {
		if linesAll[i] == nil {
			continue
		}
		o := outs[spans[i].lo:spans[i].hi]
		checkFiter(c, linesAll[i], implsAll[i], o)
		nout := 0
		if k := len(implsAll[i]); k >= 2 {
			nout = len(strings.Fields(implsAll[i][k-2])) - 1
		}
		key := ""
		if len(c.Events) >= 2 && nout > 0 && nout < len(c.Events) {
			key = hashKey(c.Text+fmt.Sprint(c.Ops, c.Range), len(c.Events))
		}
		res.Eval(sec, key)
	}
	res.Sample(map[string]interface{}{"section": "fiter", "case": cases[1]})
	res.Done(sec)
}

// ---------------------------------------------------------------------------------------------
// end to end

type e2eCase struct {
	// Retry: the held-cursor scenario — one partition, WaitTimeout > 0 (the server keeps the cursor between the requests),
	// pages of 2: page 1, page 2, page 2 AGAIN (the same request sent twice: same ReqId, the older position), page 3
	Retry bool      `json:"retry,omitempty"`
	// ReuseAfter: the held-ReqId scenario (reuse.go): `WHERE <ReuseAfter>` with WaitTimeout 1 first, then the same ReqId and the
	// returned position with `WHERE <Text>` (equal length)
	ReuseAfter string `json:"reuse_after,omitempty"`
	// Early: the partition with timestamps around model.MinTimestamp (reuse.go: e2eEarly)
	Early bool `json:"early,omitempty"`
	Text  string    `json:"text"`
	Want  string    `json:"want_ast,omitempty"`
	Range *[2]int64 `json:"range,omitempty"`
	Page  int       `json:"page"`
}

type e2eEvent struct {
	Part   int
	Ts     int64
	Msg    string
	Fields string // kv string
}

func e2eEvents() []e2eEvent {
	msgs := []string{"ab", "", "A b", "zzab", "é[", "abc", "a", "A", "aB", "a*", "[", "x y", "\xff", "a/b", "10", "9", "É", "bx", "cx", "AB", "b", "zz", "aa", "?", "abcabc", "K", "k", "Ab", "ba", "a\xc3", "lv1", "lv2"}
	flds := []string{"a=ab,b=10", "a=,a=second", "a=x,a=y", "b=B", "zz=a*,a=b", "a=abc", "", "A=upper", "a=aB,b=", "a=a*", "a=[", "a=x y,b=9", "a=\xff\xfe", "a=a/b,b=a",
		"a=10,b=9", "a=9,b=10", "a=É", "a=bx", "a=cx,b=bx", "a=AB", "a=b,b=b", "a=zz", "a=aa,a=", "a=?", "a=abcabc", "a=K", "a=k", "b=ab", "a=ba", "b=a\xc3", "Level=ab,level=zz", "level=ab,Level=zz"}
	var evs []e2eEvent
	for i := range msgs {
		evs = append(evs, e2eEvent{Part: i % 2, Ts: int64(i + 1), Msg: msgs[i], Fields: flds[i]})
	}
	// timestamps at the literals: 10 is there (i=9); -5 and the date
	evs = append(evs, e2eEvent{0, -6, "neg6", "a=n"}, e2eEvent{1, -5, "neg5", "a=n"}, e2eEvent{0, -4, "neg4", "a=n"}, e2eEvent{1, -1500000000000000000, "ab", "a=ab,b=10"}, e2eEvent{0, -1499999999999999999, "A b", "a=x,a=y"},
		e2eEvent{1, absNano - 1, "d-1", "a=d"}, e2eEvent{0, absNano, "d", "a=d"}, e2eEvent{1, absNano + 1, "d+1", "a=d"},
		e2eEvent{0, bigT - 21, "t-21", "a=t"}, e2eEvent{1, bigT - 1, "t-1", "a=t"}, e2eEvent{0, bigT, "t", "a=t"}, e2eEvent{1, bigT + 1, "t+1", "a=t"},
		e2eEvent{0, bigT2 - 1, "u-1", "a=u"}, e2eEvent{1, bigT2, "u", "a=u"}, e2eEvent{0, bigT2 + 1, "u+1", "a=u"})
	// partition 2: one batch = one chunk, consecutive records of identical layout (2-byte message, a=<2 bytes>,b=<2 bytes>) that
	// differ in case / content, with contiguous timestamps so that they are consecutive in the merged stream too
	seq := [][3]string{{"bx", "bx", "AB"}, {"cx", "cx", "ab"}, {"AB", "AB", "zz"}, {"zz", "zz", "Ab"}, {"ab", "ab", "bx"}, {"ba", "ba", "aB"}, {"Ab", "Ab", "ba"},
		{"aB", "aB", "BX"}, {"BX", "BX", "cx"}, {"a*", "xb", "ab"}, {"xb", "a*", "AB"}, {"??", "ab", "??"}, {"ab", "??", "10"}, {"10", "AB", "ab"}, {"AB", "10", "xb"}}
	for i, t := range seq {
		evs = append(evs, e2eEvent{2, int64(40 + i), t[0], "a=" + t[1] + ",b=" + t[2]})
	}
	return evs
}

func queryAll(srv *lrsrv.Srv, q string, page int) ([]*api.LogEvent, error) {
	var out []*api.LogEvent
	req := &api.QueryRequest{Query: q, Limit: page}
	for rounds := 0; rounds < 400; rounds++ {
		var qr api.QueryResult
		if err := srv.Client.Query(context.Background(), req, &qr); err != nil {
			return out, err
		}
		if qr.Err != nil {
			return out, qr.Err
		}
		for _, e := range qr.Events {
			c := *e
			out = append(out, &c)
		}
		if len(qr.Events) < page {
			return out, nil
		}
		nq := qr.NextQueryRequest
		req = &nq
	}
	return out, fmt.Errorf("paging did not end")
}

func evKey(e *api.LogEvent) string { return fmt.Sprintf("%d|%s|%s", e.Timestamp, vh.HxS(e.Message), vh.HxS(e.Fields)) }

func sectionE2E(rng *vh.Rng, extra []e2eCase) {
	sec := res.Section("e2e", "spec-search",
		"in-process server (all components, RPC loop-back): 58 events with distinct timestamps written through the RPC client into three partitions (duplicate, empty and absent fields, non-UTF-8 messages and values, timestamps at the ts literals -1/0/+1; the third partition is one batch of 15 identically laid out records — equal-length messages and field values differing in case/content, contiguous timestamps — so that consecutive stored events reuse the same bytes of the chunk iterator's buffer); for generated expressions (depth <= 3) and a fixed list of boundary expressions: SELECT [RANGE] WHERE e paged with page size 1, 3, 7 or 1000 vs SPEC = the unfiltered SELECT filtered by evalRef (and the range) on the intended AST; unsupported expressions must make the query fail. non-trivial = the filter keeps some but not all events, distinct by (text, range, page)")
	dir := lrsrv.NewDir()
	defer os.RemoveAll(dir)
	srv, err := lrsrv.Start(dir, lrsrv.Opts{})
	if err != nil {
		res.Fatal(args.Out, "e2e: %v", err)
	}
	defer srv.Stop()
	evs := e2eEvents()
	sort.Slice(evs, func(i, j int) bool { return evs[i].Ts < evs[j].Ts })
	for part := 0; part < 3; part++ {
		var batch []*api.LogEvent
		for _, e := range evs {
			if e.Part == part {
				batch = append(batch, &api.LogEvent{Timestamp: e.Ts, Message: e.Msg, Fields: e.Fields})
			}
		}
		var wr api.WriteResult
		if err := srv.Client.Write(context.Background(), fmt.Sprintf("c05=p%d", part), "", batch, &wr); err != nil || wr.Err != nil {
			res.Fatal(args.Out, "e2e write: %v %v", err, wr.Err)
		}
	}
	srv.FlushWait()
	base := "select from c05 like \"p*\" "
	// readers only see flushed records: poll (generously — the machine may be heavily loaded) until the unfiltered result is
	// complete and stable, instead of trusting one fixed sleep
	all, err := queryAll(srv, base+"limit 1000", 1000)
	for i := 0; i < 300 && (err != nil || len(all) != len(evs)); i++ {
		time.Sleep(100 * time.Millisecond)
		all, err = queryAll(srv, base+"limit 1000", 1000)
	}
	if err != nil || len(all) != len(evs) {
		res.Fatal(args.Out, "e2e: unfiltered query returned %d of %d events, err=%v", len(all), len(evs), err)
	}
	// the unfiltered result as the driver's event list
	tb := newTables()
	var sb strings.Builder
	fmt.Fprintf(&sb, "%d", len(all))
	for _, e := range all {
		f, ferr := field.NewFieldsFromKVString(e.Fields)
		if ferr != nil {
			res.Fatal(args.Out, "e2e: returned fields %q do not parse: %v", e.Fields, ferr)
		}
		ev := event{Ts: e.Timestamp, Msg: e.Message, Fields: string(f)}
		tb.addEvent(ev)
		sb.WriteString(" " + ev.line())
	}
	evList := sb.String()
	var cases []e2eCase
	cases = append(cases, extra...)
	fixed := []string{
		`msg contains "a"`, `NOT msg contains "a"`, `fields:a = ""`, `fields:zz = ""`, `fields:a = "x"`, `fields:a = "y"`, `fields:a != "x" AND fields:a != ""`,
		`fields:Level = "ab"`, `fields:level = "ab"`, `NOT FIELDS:Level contains "z"`, `ts < 10`, `ts <= 10`, `ts > 10`, `ts >= 10`, `ts >= "-5" AND ts <= 0`, `ts < "` + absDate + `"`, `ts <= "` + absDate + `"`, `NOT ts > "` + absDate + `"`,
		`msg like "a*"`, `msg like "["`, `fields:a like "[a-c]x"`, `upper(msg) = "AB"`, `upper(msg) contains "AB"`, `lower(fields:a) prefix "a"`, `upper(fields:a) >= "B"`,
		`msg contains "a" OR msg contains "b" AND NOT fields:a = "b"`, `(msg contains "a" OR msg contains "b") AND NOT fields:a = "b"`,
		`NOT (msg contains "a" OR msg contains "b")`, `NOT msg contains "a" OR msg contains "b"`, `tags = "x"`, `msg = "a"`, `ts = 10`, `fields: = "a"`, `trim(msg) contains "a"`,
		`ts >= 1552307683123456789`, `NOT ts < 1552307683123456789`, `ts <= 1552307683123456789`, `ts > "1552307683123456789"`, `NOT ts >= 1500000000000000001 OR msg = "u"`,
		`ts < 1500000000000000001`, `ts <= 9223372036854775807 AND ts >= "-9223372036854775808"`,
		`fields:a > "a" AND fields:a < "b"`, `fields:b <= "10"`, `fields:b >= "9"`, `msg suffix "b"`, `msg prefix ""`, `upper(msg) contains "é"`, `lower(msg) contains "é"`, `lower(msg) = "k"`,
	}
	for _, t := range fixed {
		cases = append(cases, e2eCase{Text: t, Page: rng.PickI([]int{1, 3, 7, 1000})})
	}
	// conversions over the run of identically laid out records of partition 2 (one cursor = one filter for the whole run)
	for _, t := range []string{`lower(msg) contains "a"`, `upper(msg) prefix "A"`, `lower(msg) = "ab"`, `NOT upper(msg) = "AB"`, `lower(fields:a) = "ab"`, `upper(fields:a) = "AB"`,
		`NOT upper(fields:a) = "AB"`, `lower(fields:b) suffix "b"`, `upper(fields:b) like "?B"`, `lower(upper(fields:a)) >= "b"`, `upper(lower(msg)) < "B"`,
		`lower(msg) contains "a" AND NOT upper(fields:b) = "AB"`, `upper(fields:a) = "AB" OR lower(fields:b) = "ab"`} {
		cases = append(cases, e2eCase{Text: t, Page: 1000}, e2eCase{Text: t, Page: 7})
	}
	n := 150
	if args.Thorough {
		n = 2500
	}
	for i := 0; i < n; i++ {
		g := genExpr(rng, rng.Range(0, 3))
		c := e2eCase{Text: g.text(), Want: g.astString(), Page: rng.PickI([]int{1, 3, 7, 1000})}
		if rng.Chance(1, 4) {
			a, b := int64(rng.Range(-7, 32)), int64(rng.Range(-7, 32))
			if a > b {
				a, b = b, a
			}
			c.Range = &[2]int64{a, b}
		}
		cases = append(cases, c)
	}
	// IMPL
	type outT struct {
		got     []string
		qerr    error
		q       string
		skipped bool
	}
	outs := make([]outT, len(cases))
	var wg sync.WaitGroup
	sem := make(chan struct{}, 8)
	for i := range cases {
		wg.Add(1)
		sem <- struct{}{}
		go func(i int) {
			defer wg.Done()
			defer func() { <-sem }()
			c := cases[i]
			if c.Retry {
				outs[i] = outT{skipped: true, q: c.Text}
				return
			}
			// pre-screen in this process: a filter that panics (or is nil) would kill the in-process server's goroutine
			if exp, perr := parseExpr(c.Text); perr == nil && exp != nil {
				var f lql.WhereExpFunc
				var berr error
				pmsg := vh.Recover(func() { f, berr = lql.BuildWhereExpFuncByExpression(exp) })
				if pmsg == "" && berr == nil {
					pmsg = vh.Recover(func() {
						for _, e := range all {
							fl, _ := field.NewFieldsFromKVString(e.Fields)
							f(&model.LogEvent{Timestamp: e.Timestamp, Msg: []byte(e.Message), Fields: fl})
						}
					})
				}
				if pmsg != "" {
					res.SpecFail(vh.SpecFailure{Section: "e2e", Kind: "panic", Input: c, Impl: "panic: " + pmsg, Spec: "answer or error",
						What: "the filter of this query panics when built or evaluated (the query would crash the server); not sent to the server"})
					outs[i] = outT{qerr: fmt.Errorf("not sent: filter panics"), q: c.Text, skipped: true}
					return
				}
			}
			q := base
			if c.Range != nil {
				q += fmt.Sprintf("range [\"%d\":\"%d\"] ", c.Range[0], c.Range[1])
			}
			q += "where " + c.Text + fmt.Sprintf(" limit %d", c.Page)
			got, qerr := queryAll(srv, q, c.Page)
			o := outT{qerr: qerr, q: q}
			for _, e := range got {
				o.got = append(o.got, evKey(e))
			}
			outs[i] = o
		}(i)
	}
	wg.Wait()
	// SPEC / MODEL
	var lines []string
	first := make([]int, len(cases))
	kinds := make([]string, len(cases)) // per case: parse-error | unsupported | supported | skipped (for e2eCallers)
	for i, c := range cases {
		exp, perr := parseExpr(c.Text)
		if perr != nil || exp == nil {
			first[i] = -1
			continue
		}
		tb.addExpr(exp)
	}
	lines = append(lines, tb.lines...)
	for i, c := range cases {
		if first[i] == -1 {
			continue
		}
		exp, _ := parseExpr(c.Text)
		first[i] = len(lines)
		lines = append(lines, "expr "+realAstString(exp))
		if c.Want != "" {
			lines = append(lines, "specexpr "+c.Want)
		} else {
			lines = append(lines, "specexpr "+realAstString(exp))
		}
		mn, mx := minTs, maxTs
		if c.Range != nil {
			mn, mx = c.Range[0], c.Range[1]
		}
		lines = append(lines, fmt.Sprintf("spec.filter %d %d %s", mn, mx, evList))
		lines = append(lines, fmt.Sprintf("fit.new %d %d %s", mn, mx, evList))
		lines = append(lines, "fit.drain")
	}
	ans, err := vh.Batch(args.Driver, lines)
	if err != nil {
		res.Fatal(args.Out, "driver: %v", err)
	}
	pick := func(a string) ([]string, bool) {
		if !strings.HasPrefix(a, "ok") {
			return nil, false
		}
		var r []string
		for _, f := range strings.Fields(a)[1:] {
			k, _ := strconv.Atoi(f)
			r = append(r, evKey(all[k]))
		}
		return r, true
	}
	for i, c := range cases {
		o := outs[i]
		if o.skipped {
			if !c.Retry {
				res.Dist(sec, "panics-not-sent")
			}
			continue
		}
		if o.skipped {
			kinds[i] = "skipped"
		} else if first[i] == -1 {
			kinds[i] = "parse-error"
		}
		if first[i] == -1 {
			res.Dist(sec, "parse-error")
			if o.qerr == nil {
				res.SpecFail(vh.SpecFailure{Section: "e2e", Kind: "accepted-unevaluable", Input: c, Impl: fmt.Sprintf("%d events", len(o.got)), Spec: "query error", What: "a query whose WHERE does not parse is answered"})
			}
			continue
		}
		exprAns := ans[first[i]]
		spec, supported := pick(ans[first[i]+2])
		mdl, _ := pick(ans[first[i]+4])
		mBuildOk := strings.HasPrefix(exprAns, "build=ok")
		key := ""
		if supported && len(spec) > 0 && len(spec) < len(all) {
			key = hashKey(c.Text+fmt.Sprint(c.Range), c.Page)
		}
		res.Eval(sec, key)
		if kinds[i] == "" {
			if supported {
				kinds[i] = "supported"
			} else {
				kinds[i] = "unsupported"
			}
		}
		switch {
		case !supported:
			res.Dist(sec, "unsupported")
			if o.qerr == nil {
				res.SpecFail(vh.SpecFailure{Section: "e2e", Kind: "accepted-unevaluable", Input: c, Impl: fmt.Sprintf("%d events", len(o.got)), Spec: "query error", Model: exprAns, ImplEqModel: mBuildOk,
					What: "a SELECT whose WHERE expression cannot be evaluated is answered instead of being rejected"})
			}
		case o.qerr != nil:
			res.SpecFail(vh.SpecFailure{Section: "e2e", Kind: "rejected-valid", Input: c, Impl: o.qerr.Error(), Spec: fmt.Sprintf("%d events", len(spec)), Model: exprAns, ImplEqModel: !mBuildOk,
				What: "a SELECT with a supported WHERE expression fails"})
		default:
			res.Dist(sec, "evaluated")
			g, s, m := strings.Join(o.got, " "), strings.Join(spec, " "), strings.Join(mdl, " ")
			if g != m {
				res.Mismatch(vh.Mismatch{Section: "e2e", Function: "SELECT … WHERE (fiterator over the merged cursor)", Input: c, Impl: g, Model: m})
			}
			if g != s {
				res.SpecFail(vh.SpecFailure{Section: "e2e", Kind: "wrong-result", Input: c, Impl: g, Spec: s, Model: m, ImplEqModel: g == m,
					What: "SELECT … WHERE e does not return exactly the events of the unfiltered result for which e holds, unaltered and in order"})
			}
		}
	}
	res.Sample(map[string]interface{}{"section": "e2e", "query": outs[len(outs)-1].q, "returned": len(outs[len(outs)-1].got), "of": len(all)})
	e2eRetry(srv, sec, cases, rng)
	e2eCallers(srv, sec, cases, kinds)
	e2eReuse(srv, sec, cases)
	e2eEarly(srv, sec)
	res.Done(sec)
}

// e2eRetry: a client that did not get the answer to page 2 of a filtered, server-held cursor sends the request for page 2
// again (same ReqId, the position of the end of page 1, which is OLDER than where the held cursor stands). Whatever the
// cursor buffered at its newer position must not leak into the retried page: every page is the corresponding slice of the
// filter (SPEC) of the unfiltered read of that partition.
// e2eCallers: the rejection clause seen from every caller of the WHERE builder (Props.C05Callers). For the texts of this run
// (all that do not parse or have no meaning, and as many supported ones): the pipe paths — pipe.Service.CreatePipe directly,
// the API's EnsurePipe through the RPC client, the CREATE PIPE statement through the admin RPC — must fail and leave no pipe of
// that name exactly when the text does not parse / is unsupported (a pipe with a nil or partial filter would copy every
// event), and succeed with the same filter text otherwise; and a SELECT over NO matching partition answers with the empty
// result (model: errNoSources is turned into the empty cursor before the filter is built) unless the text does not parse.
func e2eCallers(srv *lrsrv.Srv, sec *vh.Section, cases []e2eCase, kinds []string) {
	max := 60
	if args.Thorough {
		max = 400
	}
	type pick struct {
		c    e2eCase
		kind string
	}
	var picks []pick
	seen := map[string]bool{}
	nSup := 0
	for pass := 0; pass < 2; pass++ {
		for i, c := range cases {
			if i >= len(kinds) || kinds[i] == "" || kinds[i] == "skipped" || c.Retry || seen[c.Text] || strings.TrimSpace(c.Text) == "" {
				continue
			}
			if (pass == 0) == (kinds[i] == "supported") {
				continue // first pass: everything rejected; second pass: supported ones up to the budget
			}
			if kinds[i] == "supported" {
				if nSup >= max/2 {
					continue
				}
				nSup++
			}
			if len(picks) >= max {
				break
			}
			seen[c.Text] = true
			picks = append(picks, pick{c, kinds[i]})
		}
	}
	if len(cases) > 1 {
		// fixed texts: ones the parser rejects (the generated texts all parse) and unsupported ones of every kind
		for _, t := range []string{`msg contains`, `(msg contains "a"`, `msg contains "a" AND`, `msg contains "a" OR OR msg contains "b"`, `msg "a"`} {
			picks = append(picks, pick{e2eCase{Text: t, Page: 3}, "parse-error"})
		}
		for _, t := range []string{`msg like "["`, `fields:a like "a[b-"`, `nope = "x"`, `fields: = "x"`, `ts < "not a time"`, `ts = 5`, `msg = "a"`,
			`upper(msg, msg) contains "a"`, `title(msg) contains "a"`, `lower(ts) < 5`, `msg contains "a" AND (fields:a = "b" OR nope = "c")`} {
			picks = append(picks, pick{e2eCase{Text: t, Page: 3}, "unsupported"})
		}
	}
	ctx := context.Background()
	const src = `c05="p0"`
	for i, pk := range picks {
		c, rejected := pk.c, pk.kind != "supported"
		for via := 0; via < 3; via++ {
			if len(picks) > 1 && via != i%3 {
				continue // one path per text (all three when a single case is replayed)
			}
			name := fmt.Sprintf("c05pipe%dv%d", i, via)
			var cerr error
			viaName := ""
			switch via {
			case 0:
				viaName = "pipe.Service.CreatePipe"
				_, cerr = srv.Pipes.CreatePipe(pipe.Pipe{Name: name, TagsCond: src, FltCond: c.Text})
			case 1:
				viaName = "rpc EnsurePipe"
				var pr api.PipeCreateResult
				cerr = srv.Client.EnsurePipe(ctx, api.Pipe{Name: name, TagsCond: src, FilterCond: c.Text}, &pr)
				if cerr == nil {
					cerr = pr.Err
				}
			case 2:
				viaName = "CREATE PIPE statement"
				_, cerr = srv.Exec("create pipe " + name + " from " + src + " where " + c.Text)
			}
			pd, gerr := srv.Pipes.GetPipe(name)
			res.Eval(sec, "callers|"+viaName+"|"+c.Text)
			res.Dist(sec, "callers:"+viaName+":"+pk.kind)
			switch {
			case rejected && (cerr == nil || gerr == nil):
				res.SpecFail(vh.SpecFailure{Section: "e2e", Kind: "pipe-accepted-unevaluable", Input: c,
					Impl: fmt.Sprintf("%s: err=%v; pipe exists afterwards: %v", viaName, cerr, gerr == nil), Spec: "error, and no pipe of that name",
					What: "a pipe whose filter text " + map[bool]string{true: "does not parse", false: "cannot be evaluated"}[pk.kind == "parse-error"] + " is created (or the creation is acknowledged) instead of being rejected"})
			case !rejected && (cerr != nil || gerr != nil):
				res.SpecFail(vh.SpecFailure{Section: "e2e", Kind: "pipe-rejected-valid", Input: c,
					Impl: fmt.Sprintf("%s: err=%v get=%v", viaName, cerr, gerr), Spec: "pipe created", What: "a pipe with a supported filter is rejected"})
			case !rejected && via != 2 && pd.FltCond != c.Text:
				res.SpecFail(vh.SpecFailure{Section: "e2e", Kind: "pipe-filter-changed", Input: c, Impl: pd.FltCond, Spec: c.Text,
					What: "the created pipe carries another filter text than the one given"})
			}
			if gerr == nil {
				srv.Pipes.DeletePipe(name)
			}
		}
		// SELECT over no matching partition
		got, qerr := queryAll(srv, `select from c05="nosuch" where `+c.Text+" limit 5", 5)
		res.Dist(sec, "callers:no-sources:"+pk.kind)
		if pk.kind == "parse-error" {
			if qerr == nil {
				res.SpecFail(vh.SpecFailure{Section: "e2e", Kind: "accepted-unevaluable", Input: c, Impl: fmt.Sprintf("%d events", len(got)), Spec: "query error",
					What: "a query whose WHERE does not parse is answered (no matching partition)"})
			}
		} else if qerr != nil || len(got) != 0 {
			res.Mismatch(vh.Mismatch{Section: "e2e", Function: "provider.GetOrCreate over no matching partition (errNoSources -> empty cursor)", Input: c,
				Impl: fmt.Sprintf("err=%v events=%d", qerr, len(got)), Model: "page(empty cursor), no error"})
		}
	}
}

func e2eRetry(srv *lrsrv.Srv, sec *vh.Section, cases []e2eCase, rng *vh.Rng) {
	const src = `select from c05="p2" `
	all, err := queryAll(srv, src+"limit 1000", 1000)
	if err != nil || len(all) == 0 {
		res.Note("e2e retry: unfiltered read of the single partition failed: %v", err)
		return
	}
	tb := newTables()
	var sb strings.Builder
	fmt.Fprintf(&sb, "%d", len(all))
	for _, e := range all {
		f, _ := field.NewFieldsFromKVString(e.Fields)
		ev := event{Ts: e.Timestamp, Msg: e.Message, Fields: string(f)}
		tb.addEvent(ev)
		sb.WriteString(" " + ev.line())
	}
	// candidates: the explicit retry cases first (replay / corpus), then texts of this run
	var texts []e2eCase
	seen := map[string]bool{}
	for _, c := range cases {
		if c.Retry && !seen[c.Text] {
			seen[c.Text] = true
			texts = append(texts, c)
		}
	}
	onlyExplicit := len(cases) == 1 && cases[0].Retry
	if !onlyExplicit {
		for _, t := range []string{`lower(msg) contains "a"`, `upper(msg) prefix "A"`, `NOT upper(msg) = "AB"`, `NOT upper(fields:a) = "AB"`, `lower(fields:b) suffix "b"`,
			`msg like "?b" OR msg like "a?"`, `fields:a >= "a"`, `NOT msg = "zz"`, `ts >= 41 AND NOT fields:b = "ab"`, `msg contains "b" OR msg contains "a" OR msg contains "x"`} {
			if !seen[t] {
				seen[t] = true
				texts = append(texts, e2eCase{Text: t, Retry: true})
			}
		}
		for _, c := range cases {
			if len(texts) >= 60 {
				break
			}
			if !seen[c.Text] && c.Range == nil {
				seen[c.Text] = true
				texts = append(texts, e2eCase{Text: c.Text, Want: c.Want, Retry: true})
			}
		}
	}
	var lines []string
	first := make([]int, len(texts))
	exps := make([]*lql.Expression, len(texts))
	for i, c := range texts {
		exp, perr := parseExpr(c.Text)
		if perr != nil || exp == nil {
			first[i] = -1
			continue
		}
		exps[i] = exp
		tb.addExpr(exp)
	}
	lines = append(lines, tb.lines...)
	for i, c := range texts {
		if first[i] == -1 {
			continue
		}
		first[i] = len(lines)
		lines = append(lines, "expr "+realAstString(exps[i]))
		if c.Want != "" {
			lines = append(lines, "specexpr "+c.Want)
		} else {
			lines = append(lines, "specexpr "+realAstString(exps[i]))
		}
		lines = append(lines, fmt.Sprintf("spec.filter %d %d %s", minTs, maxTs, sb.String()))
	}
	ans, err := vh.Batch(args.Driver, lines)
	if err != nil {
		res.Fatal(args.Out, "driver: %v", err)
	}
	ran := 0
	for i, c := range texts {
		if first[i] == -1 {
			continue
		}
		a := ans[first[i]+2]
		if !strings.HasPrefix(a, "ok") {
			continue // unsupported: covered by the plain e2e comparison
		}
		var want []string
		for _, f := range strings.Fields(a)[1:] {
			k, _ := strconv.Atoi(f)
			want = append(want, evKey(all[k]))
		}
		if len(want) < 7 {
			continue // the scenario needs a matching event behind page 3 (and no page may hit the end: it would block WaitTimeout)
		}
		// pre-screen as in the plain comparison: a panicking filter must not reach the server
		if pmsg := vh.Recover(func() {
			f, berr := lql.BuildWhereExpFuncByExpression(exps[i])
			if berr == nil {
				for _, e := range all {
					fl, _ := field.NewFieldsFromKVString(e.Fields)
					f(&model.LogEvent{Timestamp: e.Timestamp, Msg: []byte(e.Message), Fields: fl})
				}
			}
		}); pmsg != "" {
			continue
		}
		ran++
		ask := func(rq api.QueryRequest) ([]string, api.QueryRequest, error) {
			var qr api.QueryResult
			if err := srv.Client.Query(context.Background(), &rq, &qr); err != nil {
				return nil, rq, err
			}
			if qr.Err != nil {
				return nil, rq, qr.Err
			}
			var ks []string
			for _, e := range qr.Events {
				ks = append(ks, evKey(e))
			}
			return ks, qr.NextQueryRequest, nil
		}
		q := src + "where " + c.Text
		p1, n1, e1 := ask(api.QueryRequest{Query: q, Limit: 2, WaitTimeout: 1})
		p2, _, e2 := ask(n1)
		p2r, n2r, e3 := ask(n1) // the same request again: same ReqId, the older position
		p3, _, e4 := ask(n2r)
		got := fmt.Sprintf("%v | %v | again %v | %v", p1, p2, p2r, p3)
		exp := fmt.Sprintf("%v | %v | again %v | %v", want[0:2], want[2:4], want[2:4], want[4:6])
		key := ""
		if e1 == nil && e2 == nil && e3 == nil && e4 == nil {
			key = "retry|" + c.Text
		}
		res.Eval(sec, key)
		res.Dist(sec, "retry-held-cursor")
		if e1 != nil || e2 != nil || e3 != nil || e4 != nil {
			res.SpecFail(vh.SpecFailure{Section: "e2e", Kind: "rejected-valid", Input: e2eCase{Text: c.Text, Want: c.Want, Retry: true}, Impl: fmt.Sprint(e1, e2, e3, e4), Spec: exp,
				What: "a page request of a held filtered cursor fails"})
			continue
		}
		if got != exp {
			res.SpecFail(vh.SpecFailure{Section: "e2e", Kind: "wrong-result", Input: e2eCase{Text: c.Text, Want: c.Want, Retry: true}, Impl: got, Spec: exp,
				What: "pages of a filtered cursor the server holds (WaitTimeout > 0), page 2 requested twice: the pages are not the corresponding slices of the matching events of the unfiltered read — an event the filter buffered at the newer position is delivered in the retried page (altered / skipped / duplicated events)"})
		}
	}
	res.Note("e2e retry: %d held-cursor retry scenarios run", ran)
}

// ---------------------------------------------------------------------------------------------
// corpus / replay

type recorded struct {
	Section string          `json:"section"`
	Input   json.RawMessage `json:"input"`
}

func loadRecorded(path string) (recorded, bool) {
	var r recorded
	if err := vh.ReadJSON(path, &r); err != nil || r.Section == "" {
		return r, false
	}
	return r, true
}

func whereFromRecorded(r recorded) (whereCase, bool) {
	var c whereCase
	if json.Unmarshal(r.Input, &c) != nil || c.Text == "" {
		return c, false
	}
	for i := range c.Events {
		c.Events[i].fill()
	}
	return c, true
}

func sectionCorpus() (e2eExtra []e2eCase) {
	sec := res.Section("corpus", "corpus", "minimised past failures and witnesses of repaired findings (F27: malformed LIKE pattern), replayed first through the where / e2e comparisons")
	var cases []whereCase
	for _, f := range vh.CorpusFiles(args.Corpus) {
		r, ok := loadRecorded(f)
		if !ok {
			res.Note("corpus: %s is not a recorded input", f)
			continue
		}
		switch r.Section {
		case "fiter":
			var c fiterCase
			if json.Unmarshal(r.Input, &c) == nil && len(c.Ops) > 0 {
				for i := range c.Events {
					c.Events[i].fill()
				}
				if l, im, ok := runFiter(c, sec); ok {
					if outs, err := vh.Batch(args.Driver, append([]string{"reset"}, l...)); err == nil {
						checkFiter(c, l, im, outs[1:])
						res.Eval(sec, "fiter|"+f)
					}
				}
			}
		case "tsorder":
			if c, ok := tsOrderFromRecorded(r.Input); ok {
				if c.Extra != "" {
					tsExtraCheck(sec, *c)
				} else {
					tsCheck(sec, *c, "corpus|"+f)
				}
			}
		case "where", "corpus":
			if c, ok := whereFromRecorded(r); ok {
				cases = append(cases, c)
				e2eExtra = append(e2eExtra, e2eCase{Text: c.Text, Want: c.WantAst, Page: 3})
			}
		case "e2e":
			var c e2eCase
			if json.Unmarshal(r.Input, &c) == nil && c.Text != "" {
				if c.Page <= 0 {
					c.Page = 3
				}
				e2eExtra = append(e2eExtra, c)
				cases = append(cases, whereCase{Text: c.Text, WantAst: c.Want})
			}
		}
	}
	runWhere("corpus", sec, cases, eventPool())
	res.Done(sec)
	return
}

func replay(path string) {
	r, ok := loadRecorded(path)
	if !ok {
		res.Fatal(args.Out, "replay: cannot read %s", path)
	}
	switch r.Section {
	case "where", "corpus":
		c, ok := whereFromRecorded(r)
		if !ok {
			res.Fatal(args.Out, "replay: bad where input")
		}
		sec := res.Section("where", "replay", "replay of one recorded text on its recorded events (or the standard pool)")
		runWhere("where", sec, []whereCase{c}, eventPool())
		exp, perr := parseExpr(c.Text)
		fmt.Printf("text: %s\nparse error: %v\n", c.Text, perr)
		if exp != nil {
			fmt.Printf("real AST:     %s\nintended AST: %s\n", realAstString(exp), c.WantAst)
			_, berr := lql.BuildWhereExpFuncByExpression(exp)
			fmt.Printf("build error: %v\n", berr)
		}
	case "e2e":
		var c e2eCase
		json.Unmarshal(r.Input, &c)
		if c.Page <= 0 {
			c.Page = 3
		}
		sectionE2E(vh.NewRng(args.Seed).Fork("replay"), []e2eCase{c})
	case "fiter":
		var c fiterCase
		json.Unmarshal(r.Input, &c)
		for i := range c.Events {
			c.Events[i].fill()
		}
		sec := res.Section("fiter", "replay", "replay of one recorded fiterator script")
		l, im, ok := runFiter(c, sec)
		if ok {
			outs, _ := vh.Batch(args.Driver, append([]string{"reset"}, l...))
			for i := range l {
				fmt.Printf("%-40.40s impl=%s model=%s\n", l[i], im[i], outs[i+1])
			}
			checkFiter(c, l, im, outs[1:])
		}
	case "tsorder":
		c, ok := tsOrderFromRecorded(r.Input)
		if !ok {
			res.Fatal(args.Out, "replay: bad tsorder input")
		}
		sectionTsOrder(vh.NewRng(args.Seed).Fork("tsorder"), c)
	case "casemap":
		var in map[string]string
		json.Unmarshal(r.Input, &in)
		str := string(vh.UnHx(in["s"]))
		fmt.Printf("s=%q ToUpper=%q ToLower=%q\n", str, strings.ToUpper(str), strings.ToLower(str))
		sectionCaseMap(vh.NewRng(args.Seed).Fork("casemap"))
	case "pathmatch":
		var in map[string]string
		json.Unmarshal(r.Input, &in)
		p, n := string(vh.UnHx(in["pattern"])), string(vh.UnHx(in["name"]))
		outs, _ := vh.Batch(args.Driver, []string{"match " + vh.HxS(p) + " " + vh.HxS(n)})
		so, _ := vh.Batch(args.Driver, []string{"specmatch " + vh.HxS(p) + " " + vh.HxS(n)})
		fmt.Printf("path.Match(%q, %q): impl=%s model=%s spec=%s probe(abc)=%s\n", p, n, goMatch(p, n), outs[0], so[0], goMatch(p, "abc"))
		sf := strings.Fields(so[0])
		flag := func(k string) bool {
			for _, kv := range sf {
				if kv == k+"=1" {
					return true
				}
			}
			return false
		}
		ascii := true
		for i := 0; i < len(n); i++ {
			ascii = ascii && n[i] < 0x80
		}
		if len(sf) > 0 && goMatch(p, n) != sf[0] && (!strings.Contains(p, "*") || flag("safe") || (flag("safeA") && ascii)) {
			res.SpecFail(vh.SpecFailure{Section: "pathmatch", Kind: "pattern-semantics", Input: in, Impl: goMatch(p, n), Spec: sf[0], What: "path.Match differs from the documented pattern language on a pattern without '*' or a star-safe pattern"})
		}
		if len(sf) > 1 && flag("plain") && strings.Contains(p, "*") && "g="+goMatch(p, n) != sf[1] {
			res.SpecFail(vh.SpecFailure{Section: "pathmatch", Kind: "leftmost-commit", Input: in, Impl: goMatch(p, n), Spec: sf[1], What: "path.Match differs from the leftmost-commit reading of '*'"})
		}
		if goMatch(p, n) != outs[0] {
			res.Mismatch(vh.Mismatch{Section: "pathmatch", Function: "path.Match", Input: in, Impl: goMatch(p, n), Model: outs[0]})
		}
		if goMatch(p, "abc") != "bad" && goMatch(p, n) == "bad" {
			res.SpecFail(vh.SpecFailure{Section: "pathmatch", Kind: "pattern-check-incomplete", Input: in, Impl: "bad on name", Spec: "evaluable", What: "a LIKE pattern that passes the builder's pre-test is malformed for another subject"})
		}
	case "fieldsvalue":
		var in map[string]string
		json.Unmarshal(r.Input, &in)
		f, n := string(vh.UnHx(in["fields"])), string(vh.UnHx(in["name"]))
		outs, _ := vh.Batch(args.Driver, []string{"value " + vh.HxS(f) + " " + vh.HxS(n)})
		impl := ""
		if p := vh.Recover(func() { impl = "ok " + vh.HxS(field.Fields(f).Value(n)) }); p != "" {
			impl = "panic"
		}
		fmt.Printf("Fields(%x).Value(%q): impl=%s model=%s\n", f, n, impl, outs[0])
		if !strings.HasPrefix(outs[0], impl+" spec=") {
			res.Mismatch(vh.Mismatch{Section: "fieldsvalue", Function: "field.Fields.Value", Input: in, Impl: impl, Model: outs[0]})
		}
	default:
		res.Note("replay: section %q has no single-input replay; re-run the check with the recorded seed", r.Section)
	}
	for _, m := range res.Mismatches {
		fmt.Printf("MISMATCH %s: impl=%s model=%s\n", m.Function, m.Impl, m.Model)
	}
	for _, f := range res.SpecFailures {
		fmt.Printf("SPEC-FAILURE %s: impl=%s spec=%s (%s)\n", f.Kind, f.Impl, f.Spec, f.What)
	}
	res.Write(args.Out)
}

func main() {
	args = vh.ParseArgs()
	res = vh.NewResult("C05", args)
	var dt lql.DateTime
	if err := dt.Capture([]string{absDate}); err != nil {
		res.Fatal(args.Out, "the absolute date literal does not parse: %v", err)
	}
	absNano = int64(dt)
	if !utf8.ValidString(absDate) {
		panic("unreachable")
	}
	if args.Replay != "" {
		replay(args.Replay)
		return
	}
	rng := vh.NewRng(args.Seed)
	// the result file is rewritten after every section: a defect that kills the process in a later section (a nil filter
	// called inside the in-process server) must not lose what the earlier sections found
	extra := sectionCorpus()
	res.Write(args.Out)
	sectionPathMatch(rng.Fork("pathmatch"))
	sectionCaseMap(rng.Fork("casemap"))
	res.Write(args.Out)
	sectionFieldsValue(rng.Fork("fieldsvalue"))
	res.Write(args.Out)
	sectionWhere(rng.Fork("where"))
	res.Write(args.Out)
	sectionTsOrder(rng.Fork("tsorder"), nil)
	res.Write(args.Out)
	sectionFiter(rng.Fork("fiter"))
	res.Write(args.Out)
	sectionE2E(rng.Fork("e2e"), extra)
	res.Write(args.Out)
}
