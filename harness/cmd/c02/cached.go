package main

import (
	"context"
	"fmt"
	"io"
	"os"
	"strconv"
	"strings"
	"sync"

	"github.com/logrange/logrange/api"
	"github.com/logrange/logrange/pkg/model"
	"github.com/logrange/range/pkg/records/chunk"
	"verifharness/internal/lrsrv"
	"verifharness/internal/vh"
)

// ---------------------------------------------------------------------------------------------
// cached: a server-held RANGE cursor (Limit > QueryMaxLimit makes the server keep it) continued by ReqId after appends

type cachedCase struct {
	ChunkSize int     `json:"chunk_size"`
	Lo        *int64  `json:"lo,omitempty"`
	Hi        *int64  `json:"hi,omitempty"`
	Steps     [][]seg `json:"steps"` // write Steps[0], open the cursor and read a page; then for every further step: write, continue the cursor
}

func runCachedCase(c cachedCase, section string, sec *vh.Section, verbose bool) {
	if len(c.Steps) == 0 {
		return
	}
	dir := lrsrv.NewDir()
	defer os.RemoveAll(dir)
	srv, err := lrsrv.Start(dir, lrsrv.Opts{MaxChunkSize: c.ChunkSize, NoRPC: true})
	if err != nil {
		res.Note("cached: %v", err)
		return
	}
	defer srv.Stop()
	r := &sysRun{h: history{ChunkSize: c.ChunkSize, Regime: "ties"}, srv: srv, ctx: context.Background(), sec: sec, section: section}
	rng := vh.NewRng(int64(c.ChunkSize))
	r.ask(fmt.Sprintf("rw.reset %d", c.ChunkSize), func(string) {})
	q := rangeQuery(c.Lo, c.Hi)
	elo, ehi, _, err := effectiveBounds(q, c.Lo, c.Hi)
	if err != nil {
		res.Note("cached: %v", err)
		return
	}
	var req *api.QueryRequest
	var all []int
	for i, st := range c.Steps {
		if !r.doWrite(op{Kind: "write", Segs: st}, rng) {
			return
		}
		if i == 0 {
			req = &api.QueryRequest{Query: q, Limit: 10001} // above QueryMaxLimit: the server caches the cursor
			r.ask(fmt.Sprintf("c.open %s %s", optS(elo), optS(ehi)), func(string) {})
		}
		qr, err := srv.Querier.Query(r.ctx, req)
		if err == io.EOF && qr != nil {
			err = nil
		}
		if err != nil || qr == nil {
			res.SpecFail(vh.SpecFailure{Section: section, Kind: "query-error", Input: c, Impl: fmt.Sprint(err), Spec: "page", What: "continuing a cached RANGE cursor failed"})
			return
		}
		var page []int
		for _, e := range qr.Events {
			page = append(page, seqOfMsg(e.Message))
		}
		all = append(all, page...)
		pageS := runsOf(page)
		in := cachedCase{ChunkSize: c.ChunkSize, Lo: c.Lo, Hi: c.Hi, Steps: c.Steps[:i+1]}
		step := i
		r.ask("c.page 10000", func(ans string) {
			if verbose {
				fmt.Printf("step %d: page impl=%s model=%s\n", step, short(pageS), short(ans))
			}
			if ans != pageS {
				res.Mismatch(vh.Mismatch{Section: section, Function: fmt.Sprintf("cached RANGE cursor, page %d (continued by ReqId after an append)", step), Input: in, Impl: short(pageS), Model: short(ans)})
			}
		})
		// SPEC after every page: everything delivered so far = filter of everything written so far (the cursor is at end of data)
		var spec []int
		for s, t := range r.allTs {
			if inB(t, elo, ehi) {
				spec = append(spec, s)
			}
		}
		key := ""
		if i > 0 && len(spec) > 0 {
			key = fmt.Sprintf("%p %d", r, i)
		}
		res.Eval(sec, key)
		res.Dist(sec, fmt.Sprintf("pages-so-far=%d", i+1))
		if runsOf(all) != runsOf(spec) {
			kind := "hidden-event"
			if len(all) > len(spec) {
				kind = "extra-event"
			}
			res.SpecFail(vh.SpecFailure{Section: section, Kind: kind, Input: in, Impl: short(runsOf(all)), Spec: short(runsOf(spec)),
				What: fmt.Sprintf("a cached RANGE [%s:%s] cursor continued by ReqId after %d appends delivered %d events in total, the filtered unbounded read has %d", optS(elo), optS(ehi), i, len(all), len(spec))})
			break
		}
		nr := qr.NextQueryRequest
		nr.Limit = 10001
		req = &nr
	}
	ans, err := vh.Batch(args.Driver, r.lines)
	if err != nil {
		res.Note("cached: driver: %v", err)
	}
	for i := range ans {
		r.checks[i](ans[i])
	}
}

func genCachedCase(rng *vh.Rng) cachedCase {
	c := cachedCase{ChunkSize: rng.PickI([]int{250000, 250000, 5020, 10000})}
	t := int64(1000)
	mk := func(n int) []seg {
		var ts []int64
		for i := 0; i < n; i++ {
			if rng.Chance(1, 3) {
				t += int64(rng.Intn(3))
			}
			ts = append(ts, t)
		}
		return compress(ts)
	}
	n1 := rng.PickI([]int{1, 10, 100, 300})
	c.Steps = append(c.Steps, mk(n1))
	last1 := t
	// the range starts above (mostly), at, or inside what the chunk holds when the cursor is opened
	switch rng.Intn(5) {
	case 0:
		c.Lo = i64p(last1)
	case 1:
		c.Lo = i64p(last1 - 1)
	default:
		c.Lo = i64p(last1 + int64(1+rng.Intn(4)))
	}
	t = last1 + int64(rng.Intn(3)) // the appended data may start below the range as well
	steps := 1 + rng.Intn(4)
	for i := 0; i < steps; i++ {
		c.Steps = append(c.Steps, mk(rng.PickI([]int{1, 10, 60, 249, 250, 300})))
		t += int64(rng.Intn(4))
	}
	if rng.Chance(1, 3) {
		c.Hi = i64p(*c.Lo + int64(rng.Intn(int(t-*c.Lo)+3)))
	}
	return c
}

func sectionCached(rng *vh.Rng) {
	sec := res.Section("cached", "system-correspondence",
		"a server-held cursor (Limit above QueryMaxLimit, continued with the returned NextQueryRequest/ReqId): the partition first holds 1…300 events that are mostly below the RANGE (lower bound above / at / just inside the stored data, upper bound absent or inside the later data), the cursor reads to end of data, then 1…4 appends of {1,10,60,249,250,300} monotone events go into the same chunk (chunk 250 000 B) or roll over (5 020 / 10 000 B) and the cursor is continued after each; every page vs the Lean model's persistent cursor (selector statuses kept across appends), the union of the pages vs the filtered write list (SPEC); non-trivial = a continued page with a non-empty specification answer")
	n := 24
	if args.Thorough {
		n = 160
	}
	cases := []cachedCase{
		// the plain shape: everything below the range, then in-range events appended to the same chunk
		{ChunkSize: 250000, Lo: i64p(2000), Steps: [][]seg{{{T: 1000, N: 300, D: 1}}, {{T: 2000, N: 10, D: 1}}, {{T: 2010, N: 5}}}},
	}
	for i := 0; i < n; i++ {
		cases = append(cases, genCachedCase(rng))
	}
	var wg sync.WaitGroup
	sem := make(chan struct{}, 8)
	for i := range cases {
		wg.Add(1)
		sem <- struct{}{}
		go func(i int) {
			defer wg.Done()
			defer func() { <-sem }()
			runCachedCase(cases[i], "cached", sec, false)
		}(i)
	}
	wg.Wait()
	for _, rc := range repositionCases() {
		runRepositionCase(rc, "cached", sec, false)
	}
	res.Sample(map[string]interface{}{"section": "cached", "case": cases[0]})
	res.Done(sec)
}

// ---------------------------------------------------------------------------------------------
// reposition: a server-held RANGE cursor (WaitTimeout > 0 makes the server keep it) that is asked — with the same ReqId — to
// continue from a position that is NOT the one it stands at, inside the chunk its iterator has open: a re-sent request (the
// answer was lost), a rewind to a saved position, a jump ahead. cursor.ApplyState → applyStatePos → JIterator.SetPos must move
// the OPEN chunk iterator. Every page vs SPEC (the next `limit` in-range events at or behind the position) and vs the model.

type repositionCase struct {
	N     int    `json:"n"` // records, ts = 1000 + i, one chunk
	Lo    *int64 `json:"lo,omitempty"`
	Hi    *int64 `json:"hi,omitempty"`
	Limit int    `json:"limit"`
	// after 4 plain pages: the steps, each "page:<k>" (re-send the request that followed page k; 0 = the first request's answer)
	// or "idx:<i>" (the saved position with the record index replaced by i)
	Steps []string `json:"steps"`
}

func runRepositionCase(c repositionCase, section string, sec *vh.Section, verbose bool) {
	dir := lrsrv.NewDir()
	defer os.RemoveAll(dir)
	srv, err := lrsrv.Start(dir, lrsrv.Opts{MaxChunkSize: 250000, NoRPC: true})
	if err != nil {
		res.Note("reposition: %v", err)
		return
	}
	defer srv.Stop()
	r := &sysRun{h: history{ChunkSize: 250000, Regime: "ties"}, srv: srv, ctx: context.Background(), sec: sec, section: section}
	rng := vh.NewRng(int64(c.N))
	r.ask("rw.reset 250000", func(string) {})
	if !r.doWrite(op{Kind: "write", Segs: []seg{{T: 1000, N: c.N, D: 1}}}, rng) {
		return
	}
	if len(r.chunks()) != 1 {
		res.Note("reposition: the records did not stay in one chunk")
		return
	}
	q := rangeQuery(c.Lo, c.Hi)
	elo, ehi, _, err := effectiveBounds(q, c.Lo, c.Hi)
	if err != nil {
		res.Note("reposition: %v", err)
		return
	}
	var spec []int // record index = sequence number (one chunk)
	for s, t := range r.allTs {
		if inB(t, elo, ehi) {
			spec = append(spec, s)
		}
	}
	r.ask(fmt.Sprintf("c.open %s %s", optS(elo), optS(ehi)), func(string) {})
	// expected page from a record index on
	from := func(idx int) []int {
		var out []int
		for _, s := range spec {
			if s >= idx && len(out) < c.Limit {
				out = append(out, s)
			}
		}
		return out
	}
	posIdx := func(pos string) (string, int, bool) { // "<journal>=<16 hex chunk id><8 hex index>"
		if len(pos) < 8 || strings.Contains(pos, ":") {
			return "", 0, false
		}
		v, err := strconv.ParseUint(pos[len(pos)-8:], 16, 32)
		return pos[:len(pos)-8], int(v), err == nil
	}
	req := &api.QueryRequest{Query: q, Limit: c.Limit, WaitTimeout: 1}
	var saved []api.QueryRequest // saved[k] = the request that follows page k
	stand := 0                   // record index the cursor stands at (model / SPEC)
	doPage := func(what string, rq *api.QueryRequest, startIdx int, setpos bool) bool {
		rqc := *rq
		qr, err := srv.Querier.Query(r.ctx, &rqc)
		if err == io.EOF && qr != nil {
			err = nil
		}
		if err != nil || qr == nil {
			res.SpecFail(vh.SpecFailure{Section: section, Kind: "query-error", Input: c, Impl: fmt.Sprint(err), Spec: "page", What: "reposition: " + what + " failed"})
			return false
		}
		var page []int
		for _, e := range qr.Events {
			page = append(page, seqOfMsg(e.Message))
		}
		want := from(startIdx)
		key := ""
		if setpos && len(want) > 0 {
			key = fmt.Sprintf("%p %s", r, what)
		}
		res.Eval(sec, key)
		res.Dist(sec, "reposition:"+strings.SplitN(what, ":", 2)[0])
		pageS := runsOf(page)
		if setpos {
			r.ask(fmt.Sprintf("r.setpos 10 %d", startIdx), func(string) {})
		}
		r.ask(fmt.Sprintf("c.page %d", c.Limit), func(ans string) {
			if verbose {
				fmt.Printf("%s: impl=%s model=%s spec=%s\n", what, short(pageS), short(ans), short(runsOf(want)))
			}
			if ans != pageS {
				res.Mismatch(vh.Mismatch{Section: section, Function: "cached RANGE cursor continued from another position inside the open chunk (cursor.ApplyState → JIterator.SetPos): " + what, Input: c, Impl: short(pageS), Model: short(ans)})
			}
		})
		if pageS != runsOf(want) {
			kind := "hidden-event"
			if len(page) > len(want) {
				kind = "extra-event"
			}
			for _, s := range page {
				if !inB(r.allTs[s], elo, ehi) {
					kind = "extra-event"
				}
			}
			res.SpecFail(vh.SpecFailure{Section: section, Kind: kind, Input: c, Impl: short(pageS), Spec: short(runsOf(want)),
				What: fmt.Sprintf("a cached RANGE [%s:%s] cursor (limit %d) asked by its ReqId to continue at record %d of the open chunk while it stood at record %d (%s) delivered %s; the filtered unbounded read from there gives %s", optS(elo), optS(ehi), c.Limit, startIdx, stand, what, short(pageS), short(runsOf(want)))})
			return false
		}
		saved = append(saved, qr.NextQueryRequest)
		if len(page) > 0 {
			stand = page[len(page)-1] + 1
		}
		nr := qr.NextQueryRequest
		req = &nr
		return true
	}
	// four plain pages
	starts := []int{0}
	for k := 0; k < 4; k++ {
		if !doPage(fmt.Sprintf("plain:%d", k), req, stand, false) {
			r.flush()
			return
		}
		starts = append(starts, stand)
	}
	for _, st := range c.Steps {
		kv := strings.SplitN(st, ":", 2)
		n, _ := strconv.Atoi(kv[1])
		switch kv[0] {
		case "page":
			if n >= len(saved) || n+1 >= len(starts) {
				continue
			}
			rq := saved[n]
			if !doPage(st, &rq, starts[n+1], true) {
				r.flush()
				return
			}
		case "idx":
			rq := *req
			pre, _, ok := posIdx(rq.Pos)
			if !ok {
				res.Note("reposition: unexpected position text %q", rq.Pos)
				r.flush()
				return
			}
			rq.Pos = fmt.Sprintf("%s%08X", pre, n)
			if !doPage(st, &rq, n, true) {
				r.flush()
				return
			}
		}
		starts = append(starts, stand)
	}
	r.flush()
}

// flush sends the collected model requests and runs the checks
func (r *sysRun) flush() {
	ans, err := vh.Batch(args.Driver, r.lines)
	if err != nil {
		res.Note("%s: driver: %v", r.section, err)
	}
	for i := range ans {
		r.checks[i](ans[i])
	}
}

func repositionCases() []repositionCase {
	return []repositionCase{
		// re-send an earlier request (rewind inside the open chunk), jump ahead to a saved later one, crafted positions earlier / later
		{N: 400, Lo: i64p(1050), Hi: i64p(1175), Limit: 20, Steps: []string{"page:0", "page:2", "page:1", "idx:60", "idx:170", "idx:0", "idx:172"}},
		{N: 400, Lo: i64p(1050), Limit: 7, Steps: []string{"page:1", "page:3", "idx:55", "idx:390", "idx:56"}},
		{N: 600, Hi: i64p(1100), Limit: 13, Steps: []string{"page:0", "idx:80", "idx:3", "page:2"}},
	}
}

// ---------------------------------------------------------------------------------------------
// flushrace: an index rebuild that runs while the last write's records are not confirmed yet (deterministic: long flush period)

type flushCase struct {
	ChunkSize int     `json:"chunk_size"`
	Steps     [][]seg `json:"steps"` // Steps[0] is written and confirmed; every further step is written and the chunks are force-rebuilt BEFORE its records are confirmed
	Seed      int64   `json:"seed"`
}

func runFlushCase(c flushCase, section string, sec *vh.Section, verbose bool) {
	if len(c.Steps) == 0 {
		return
	}
	dir := lrsrv.NewDir()
	defer os.RemoveAll(dir)
	srv, err := lrsrv.Start(dir, lrsrv.Opts{MaxChunkSize: c.ChunkSize, NoRPC: true, WriteFlushMs: 400})
	if err != nil {
		res.Note("flushrace: %v", err)
		return
	}
	defer srv.Stop()
	r := &sysRun{h: history{ChunkSize: c.ChunkSize, Regime: "ties"}, srv: srv, ctx: context.Background(), sec: sec, section: section, verbose: verbose}
	rng := vh.NewRng(c.Seed)
	r.ask(fmt.Sprintf("rw.reset %d", c.ChunkSize), func(string) {})
	if !r.doWrite(op{Kind: "write", Segs: c.Steps[0]}, rng) {
		return
	}
	for i := 1; i < len(c.Steps); i++ {
		ts := expand(c.Steps[i])
		evs := make([]model.LogEvent, len(ts))
		for k, t := range ts {
			evs[k] = model.LogEvent{Timestamp: t, Msg: []byte(fmt.Sprintf("%06d", len(r.allTs)+k))}
		}
		if err := srv.Parts.Write(r.ctx, tags, &wit{evs: evs}, true); err != nil {
			res.Note("flushrace: write: %v", err)
			return
		}
		// the records are written but (flush period 400 ms) not confirmed: a rebuild now reads only what was confirmed before
		cks := r.chunks()
		before := make([]uint32, len(cks))
		for k, ck := range cks {
			before[k] = ck.Count()
		}
		for _, ck := range cks {
			srv.TsIdx.RebuildIndex(r.ctx, r.src, ck, true)
		}
		overtaken := false
		for k, ck := range cks {
			if ck.Count() != before[k] {
				overtaken = true
			}
		}
		r.allTs = append(r.allTs, ts...)
		r.batches = append(r.batches, ts)
		r.full = nil
		if !r.waitFlushed() || !r.waitIdle() {
			res.Note("flushrace: records did not become readable")
			return
		}
		if overtaken {
			// the flush happened while the rebuilds ran: which of them saw the new records is unknown — only SPEC from here on
			res.Dist(sec, "flush-overtook-the-rebuild")
			r.asyncReb = true
		}
		cnts := make([]string, len(r.chunks()))
		for k := range cnts {
			cnts[k] = "-"
			if k < len(before) {
				cnts[k] = fmt.Sprint(before[k])
			}
		}
		r.done = append(r.done, op{Kind: "write", Segs: c.Steps[i]})
		r.ask("rw.write "+modelSpec(ts), r.linkCheck())
		r.ask("rw.autorebuild", r.linkCheck())
		r.ask("rw.rebuildcounts "+joinS(cnts), r.linkCheck())
		r.compareIndexState("rebuild before the last write was confirmed", rng)
		// queries aimed at the new records: at / above the hull the rebuild could have seen
		first, last := ts[0], ts[len(ts)-1]
		in := flushCase{ChunkSize: c.ChunkSize, Steps: c.Steps[:i+1], Seed: c.Seed}
		for _, qo := range []op{{Kind: "query", Lo: i64p(first)}, {Kind: "query", Lo: i64p(last), Hi: i64p(last)}, {Kind: "query", Lo: i64p(first), Hi: i64p(last), Page: 97}, {Kind: "query", Hi: i64p(first)}} {
			r.flushIn = &in
			r.doQuery(qo, false)
		}
		r.doSweep(op{Kind: "sweep", N: 6, Seed: c.Seed + int64(i)}, false)
	}
	ans, err := vh.Batch(args.Driver, r.lines)
	if err != nil {
		res.Note("flushrace: driver: %v", err)
	}
	for i := range ans {
		r.checks[i](ans[i])
	}
}

func joinS(xs []string) string {
	s := ""
	for i, x := range xs {
		if i > 0 {
			s += ","
		}
		s += x
	}
	return s
}

func sectionFlushRace(rng *vh.Rng) {
	sec := res.Section("flushrace", "system-correspondence",
		"deterministic overlap of an index rebuild with a write whose records are not confirmed yet (server with a 400 ms flush period): after a confirmed first batch every further batch (sizes {1,10,250,300}, monotone, positive and negative bases) is written and ALL chunks are force-rebuilt at once — the rebuild reads only the confirmed prefix — then the flush is awaited; hulls and index points vs the model (rebuild of the prefix, hull merged with update), RANGE queries at and above the new records (bounds = first/last new timestamp, ±sweep) vs SPEC and MODEL; non-trivial = as in section system")
	n := 5
	if args.Thorough {
		n = 24
	}
	var cases []flushCase
	cases = append(cases, flushCase{ChunkSize: 250000, Steps: [][]seg{{{T: 100, N: 300, D: 1}}, {{T: 500, N: 10, D: 1}}}, Seed: 1})
	for i := 0; i < n; i++ {
		c := flushCase{ChunkSize: rng.PickI([]int{250000, 250000, 10000}), Seed: int64(rng.Intn(1 << 30))}
		t := rng.PickI64([]int64{1000, 1000, -5000, 1 << 40})
		steps := 2 + rng.Intn(2)
		for s := 0; s < steps; s++ {
			nrec := rng.PickI([]int{1, 10, 250, 300})
			if s == 0 {
				nrec = rng.PickI([]int{10, 300, 600})
			}
			var ts []int64
			for k := 0; k < nrec; k++ {
				if rng.Chance(1, 2) {
					t += int64(rng.Intn(3))
				}
				ts = append(ts, t)
			}
			t += int64(1 + rng.Intn(5))
			c.Steps = append(c.Steps, compress(ts))
		}
		cases = append(cases, c)
	}
	var wg sync.WaitGroup
	sem := make(chan struct{}, 8)
	for i := range cases {
		wg.Add(1)
		sem <- struct{}{}
		go func(i int) {
			defer wg.Done()
			defer func() { <-sem }()
			runFlushCase(cases[i], "flushrace", sec, false)
		}(i)
	}
	wg.Wait()
	res.Done(sec)
}

var _ = chunk.Id(0)
