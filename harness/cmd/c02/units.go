package main

import (
	"context"
	"fmt"
	"math"
	"os"
	"strings"
	"sync"
	"time"

	"github.com/logrange/linker"
	"github.com/logrange/logrange/pkg/model"
	"github.com/logrange/logrange/pkg/partition"
	"github.com/logrange/logrange/pkg/tmindex"
	"github.com/logrange/range/pkg/records/chunk"
	"verifharness/internal/lrsrv"
	"verifharness/internal/vh"
)

// ---------------------------------------------------------------------------------------------
// tree: real ckindex block tree vs IdxTree model vs Points model; SPEC = soundness of grEq(t-1) / less(t)

// iv is one addInterval call: records First..Last carry the timestamps Lo (first record) and Hi (all others)
type iv struct {
	Lo    int64  `json:"lo"`
	First uint32 `json:"first"`
	Hi    int64  `json:"hi"`
	Last  uint32 `json:"last"`
}

type treeCase struct {
	Ivs    []iv    `json:"ivs"`
	Probes []int64 `json:"probes,omitempty"` // nil: probe {each point's ts, ±1} after the last add
	Every  int     `json:"every,omitempty"`  // checkpoint period (0 = only at the end)
}

func pointsStr(ivs [][2]tmindex.VerifPt) (string, []tmindex.VerifPt) {
	if len(ivs) == 0 {
		return "empty", nil
	}
	parts := []string{}
	pts := []tmindex.VerifPt{}
	contiguous := true
	for i, x := range ivs {
		if i == 0 {
			parts = append(parts, fmt.Sprintf("%d:%d", x[0].Ts, x[0].Idx))
			pts = append(pts, x[0])
		} else if ivs[i][0] != ivs[i-1][1] {
			contiguous = false
		}
		parts = append(parts, fmt.Sprintf("%d:%d", x[1].Ts, x[1].Idx))
		pts = append(pts, x[1])
	}
	pre := "c "
	if !contiguous {
		pre = "NC "
	}
	return pre + strings.Join(parts, ","), pts
}

func runTreeCase(c treeCase, section string, sec *vh.Section, verbose bool) {
	t := tmindex.VerifNewTree(20)
	defer t.Close()
	var lines []string
	var checks []func(string)
	ask := func(l string, f func(string)) { lines = append(lines, l); checks = append(checks, f) }
	ask("tree.reset", func(string) {})
	// concrete record timestamps: position -> ts
	var tsOf []int64
	appendOnly := true
	everDeep := false // the tree had more than one level at some point (a later merge may prune it back to one block)
	var maxHi int64 = math.MinInt64
	allMatches := tmindex.VerifErrAllMatches()
	for k, x := range c.Ivs {
		if x.Lo < maxHi {
			appendOnly = false
		}
		if x.Hi > maxHi {
			maxHi = x.Hi
		}
		for uint32(len(tsOf)) <= x.Last {
			tsOf = append(tsOf, x.Hi)
		}
		tsOf[x.First] = x.Lo
		err := t.Add(x.Lo, x.First, x.Hi, x.Last)
		exp := "ok"
		if err != nil {
			exp = "adderr"
		}
		in := treeCase{Ivs: c.Ivs[:k+1]}
		ask(fmt.Sprintf("tree.add %d %d %d %d", x.Lo, x.First, x.Hi, x.Last), func(ans string) {
			if ans != exp {
				res.Mismatch(vh.Mismatch{Section: section, Function: "ckindex.addInterval", Input: in, Impl: exp, Model: ans})
			}
		})
		if err != nil {
			break
		}
		if t.Level() > 0 {
			everDeep = true
		}
		last := k == len(c.Ivs)-1
		if !(last || (c.Every > 0 && k%c.Every == c.Every-1)) {
			continue
		}
		ivs, _ := t.Intervals()
		ps, pts := pointsStr(ivs)
		level := t.Level()
		ao := appendOnly
		single := !everDeep
		ask("tree.points", func(ans string) {
			if ans != ps {
				res.Mismatch(vh.Mismatch{Section: section, Function: "ckindex traversal after addInterval", Input: in, Impl: short(ps), Model: short(ans)})
			}
		})
		ask("itree.points", func(ans string) {
			flat := strings.TrimPrefix(strings.TrimPrefix(ps, "c "), "NC ")
			if ans != flat {
				res.Mismatch(vh.Mismatch{Section: section, Function: "ITree (inductive tree model of the tree theorems) vs the real tree's level-0 records", Input: in, Impl: short(flat), Model: short(ans)})
			}
		})
		ask("pts.points", func(ans string) {
			flat := strings.TrimPrefix(strings.TrimPrefix(ps, "c "), "NC ")
			if ans == flat {
				res.Dist(sec, "points=tree")
				return
			}
			if single || ao {
				res.Mismatch(vh.Mismatch{Section: section, Function: "Points.add vs the tree's level-0 records (single block or append-only)", Input: in, Impl: short(flat), Model: short(ans)})
			} else {
				res.Dist(sec, "points≠tree(depth>1, out-of-order)")
			}
		})
		probes := c.Probes
		if probes == nil || !last {
			set := map[int64]bool{}
			for _, p := range pts {
				set[p.Ts], set[p.Ts-1], set[p.Ts+1] = true, true, true
			}
			probes = probes[:0:0]
			for q := range set {
				probes = append(probes, q)
			}
			if len(probes) > 40 {
				probes = probes[:40] // map order: a random sample
			}
		}
		n := len(tsOf)
		snapshot := tsOf
		for _, q := range probes {
			q := q
			g, ge := t.GrEq(q)
			l, le := t.Less(q)
			gs, ls := fmt.Sprint(g), fmt.Sprint(l)
			if ge == allMatches {
				gs = "all"
			} else if ge != "" {
				gs = "err"
			}
			if le == allMatches {
				ls = "all"
			} else if le != "" {
				ls = "err"
			}
			key := ""
			if gs != "all" && ls != "all" {
				key = fmt.Sprintf("%d/%d/%d/%s/%s", len(pts), level, q, gs, ls)
			}
			res.Eval(sec, key)
			// SPEC: grEq(q) as the selector uses it (asked for bound-1): every position before the answer has ts <= q;
			// less(q): every position after the answer has ts > q
			lossG, lossL := -1, -1
			if gs != "all" && gs != "err" {
				for p := 0; p < int(g) && p < n; p++ {
					if snapshot[p] > q {
						lossG = p
						break
					}
				}
			}
			if ls != "all" && ls != "err" {
				for p := int(l) + 1; p < n; p++ {
					if snapshot[p] <= q {
						lossL = p
						break
					}
				}
			}
			ask(fmt.Sprintf("tree.probe %d", q), func(ans string) {
				f := map[string]string{}
				for _, kv := range strings.Fields(ans) {
					if i := strings.Index(kv, "="); i > 0 {
						f[kv[:i]] = kv[i+1:]
					}
				}
				eq := f["greq"] == gs && f["less"] == ls
				if !eq {
					res.Mismatch(vh.Mismatch{Section: section, Function: fmt.Sprintf("ckindex.grEq/less(%d)", q), Input: in, Impl: "greq=" + gs + " less=" + ls, Model: ans})
				}
				if f["igreq"] != gs || f["iless"] != ls || f["ilevel"] != fmt.Sprint(level) {
					res.Mismatch(vh.Mismatch{Section: section, Function: fmt.Sprintf("ITree.grEq/less/rootLevel(%d) vs the real tree", q), Input: in, Impl: fmt.Sprintf("greq=%s less=%s level=%d", gs, ls, level), Model: ans})
				}
				if (single || ao) && (f["pgreq"] != gs || f["pless"] != ls) {
					res.Mismatch(vh.Mismatch{Section: section, Function: fmt.Sprintf("Points.grEqPos/lessPos(%d) vs the tree (single block or append-only)", q), Input: in, Impl: "greq=" + gs + " less=" + ls, Model: ans})
				}
				if verbose {
					fmt.Printf("probe %d: impl greq=%s less=%s | model %s | first hidden position: greq-side %d, less-side %d\n", q, gs, ls, ans, lossG, lossL)
				}
				if lossG < 0 && lossL < 0 {
					return
				}
				// would the flat Points index have hidden it too?
				pointsLose := false
				if lossG >= 0 && f["pgreq"] != "all" {
					var pg int
					fmt.Sscan(f["pgreq"], &pg)
					pointsLose = pointsLose || lossG < pg
				}
				if lossL >= 0 && f["pless"] != "all" {
					var pl int
					fmt.Sscan(f["pless"], &pl)
					pointsLose = pointsLose || lossL > pl
				}
				finding := ""
				if eq && !ao {
					if !single && !pointsLose {
						finding = "F24"
					} else {
						finding = "F04"
					}
				}
				res.Dist(sec, "unsound-answer:"+finding)
				pos := lossG
				if pos < 0 {
					pos = lossL
				}
				res.SpecFail(vh.SpecFailure{Section: section, Kind: "hidden-event", Input: treeCase{Ivs: in.Ivs, Probes: []int64{q}}, Impl: "greq=" + gs + " less=" + ls,
					Spec: fmt.Sprintf("position %d (ts %d) must stay inside the window", pos, snapshot[pos]), Model: ans, ImplEqModel: eq, Finding: finding,
					What: fmt.Sprintf("index answer for bound %d excludes position %d whose timestamp %d is on the wanted side (tree level %d, %d points)", q, pos, snapshot[pos], level, len(pts))})
			})
		}
	}
	ans, err := vh.Batch(args.Driver, lines)
	if err != nil {
		res.Note("tree: driver: %v", err)
	}
	for i := range ans {
		checks[i](ans[i])
	}
}

func genTreeCase(rng *vh.Rng, n int, jitter int) treeCase {
	c := treeCase{Every: 23}
	ts := int64(1000)
	idx := uint32(0)
	if rng.Chance(1, 6) {
		ts = math.MinInt64 + 10
	}
	for k := 0; k < n; k++ {
		cnt := uint32(1 + rng.Intn(300))
		lo := ts
		switch jitter {
		case 1:
			if rng.Chance(1, 6) {
				lo = ts - int64(rng.Intn(50))
			}
		case 2:
			if rng.Chance(1, 4) {
				lo = ts - int64(rng.Intn(3000))
			}
		case 3:
			if rng.Chance(1, 10) {
				lo = ts - int64(rng.Intn(400))
			}
		}
		if lo > ts {
			lo = ts
		}
		hi := lo + int64(rng.Intn(20))
		if rng.Chance(1, 5) {
			hi = lo
		}
		c.Ivs = append(c.Ivs, iv{Lo: lo, First: idx, Hi: hi, Last: idx + cnt - 1})
		idx += cnt
		if hi > ts {
			ts = hi
		}
	}
	return c
}

func sectionTree(rng *vh.Rng) {
	sec := res.Section("tree", "unit-correspondence",
		"interval sequences of length 5…3600 (up to three tree levels) on the real ckindex tree (in-memory blocks, export) — append-only and three out-of-order regimes; after every 23rd addInterval and at the end: whole traversal vs IdxTree model, vs the flat Points model (must agree for a single block and for append-only sequences), grEq/less for up to 40 probe timestamps from {each point's ts, ±1} vs both models, and SPEC: no position on the wanted side of the bound lies outside the answer (records: first = p0.ts, others = p1.ts); non-trivial = both answers are real positions, distinct by (points, level, probe, answers)")
	sizes := []int{5, 45, 90, 200}
	trials := 24
	if args.Thorough {
		sizes = []int{5, 45, 90, 200, 1700, 3600}
		trials = 120
	}
	var cases []treeCase
	for i := 0; i < trials; i++ {
		c := genTreeCase(rng, sizes[i%len(sizes)], (i/len(sizes))%4)
		cases = append(cases, c)
		res.Dist(sec, fmt.Sprintf("regime=%d", (i/len(sizes))%4))
	}
	var wg sync.WaitGroup
	sem := make(chan struct{}, 12)
	for i := range cases {
		wg.Add(1)
		sem <- struct{}{}
		go func(i int) {
			defer wg.Done()
			defer func() { <-sem }()
			runTreeCase(cases[i], "tree", sec, false)
		}(i)
	}
	wg.Wait()
	res.Done(sec)
}

// ---------------------------------------------------------------------------------------------
// selector: checkPos* exhaustive, updatePoss over a scripted TsIndexer

type scriptedIdx struct {
	tmindex.TsIndexer
	g, l     string // ok:N | nf | oor | cor
	askedG   []int64
	askedL   []int64
	notFound error
}

func scriptedAns(a string, nf error) (uint32, error) {
	switch {
	case strings.HasPrefix(a, "ok:"):
		var n uint32
		fmt.Sscan(a[3:], &n)
		return n, nil
	case a == "oor":
		return 0, tmindex.ErrOutOfRange
	case a == "nf":
		return 0, nf
	}
	return 0, tmindex.ErrTmIndexCorrupted
}

func (s *scriptedIdx) GetPosForGreaterOrEqualTime(src string, cid chunk.Id, ts int64) (uint32, error) {
	s.askedG = append(s.askedG, ts)
	return scriptedAns(s.g, s.notFound)
}
func (s *scriptedIdx) GetPosForLessTime(src string, cid chunk.Id, ts int64) (uint32, error) {
	s.askedL = append(s.askedL, ts)
	return scriptedAns(s.l, s.notFound)
}

func sectionSelector(rng *vh.Rng) {
	sec := res.Section("selector", "unit-correspondence",
		"chkStatus.checkPosOrAdvance / checkPosOrReduce for every (minPos, maxPos, count, pos) over {0,1,2,3,5,MaxUint32-1,MaxUint32}^4 (exhaustive); chkSelector.updatePoss for every hull × range over a 7-value grid incl. both int64 extremes × index answers {position, out-of-range, corrupted, not-found}² through a scripted TsIndexer, checking the window, the number of rebuild requests and which timestamp the index was asked for (MinTs − 1 since fix 94ffdf8); non-trivial = every case")
	sec.Exhaustive = true
	vals := []uint32{0, 1, 2, 3, 5, math.MaxUint32 - 1, math.MaxUint32}
	var lines, impls []string
	var what []string
	for _, mn := range vals {
		for _, mx := range vals {
			for _, cnt := range vals {
				for _, pos := range vals {
					np, ok := partition.VerifCheckPosOrAdvance(mn, mx, cnt, pos)
					lines = append(lines, fmt.Sprintf("sel.adv %d %d %d %d", mn, mx, cnt, pos))
					impls = append(impls, fmt.Sprintf("%d %s", np, b2s(ok)))
					what = append(what, "chkStatus.checkPosOrAdvance")
					np, ok = partition.VerifCheckPosOrReduce(mn, mx, cnt, pos)
					lines = append(lines, fmt.Sprintf("sel.red %d %d %d %d", mn, mx, cnt, pos))
					impls = append(impls, fmt.Sprintf("%d %s", np, b2s(ok)))
					what = append(what, "chkStatus.checkPosOrReduce")
				}
			}
		}
	}
	grid := []int64{math.MinInt64, math.MinInt64 + 1, -1, 0, 5, math.MaxInt64 - 1, math.MaxInt64}
	answers := []string{"ok:0", "ok:3", "ok:4294967295", "oor", "cor", "nf"}
	nf := fmt.Errorf("not found")
	for _, hmin := range grid {
		for _, hmax := range grid {
			for _, rmin := range grid {
				for _, rmax := range grid {
					for _, g := range answers {
						for _, l := range answers {
							si := &scriptedIdx{g: g, l: l, notFound: nf}
							mn, mx, rb := partition.VerifUpdatePoss(model.TimeRange{MinTs: rmin, MaxTs: rmax}, "s", tmindex.RecordsInfo{Id: 1, MinTs: hmin, MaxTs: hmax}, si)
							lines = append(lines, fmt.Sprintf("sel.upd %d %d %d %d %s %s", rmin, rmax, hmin, hmax, g, l))
							impls = append(impls, fmt.Sprintf("%d %d %d %s %s", mn, mx, rb, askedS(si.askedG), askedS(si.askedL)))
							what = append(what, "chkSelector.updatePoss")
						}
					}
				}
			}
		}
	}
	ans, err := vh.Batch(args.Driver, lines)
	if err != nil {
		res.Fatal(args.Out, "selector: driver: %v", err)
	}
	for i := range ans {
		res.Eval(sec, lines[i])
		if ans[i] != impls[i] {
			res.Mismatch(vh.Mismatch{Section: "selector", Function: what[i], Input: lines[i], Impl: impls[i], Model: ans[i]})
		}
	}
	res.Done(sec)
}

func askedS(a []int64) string {
	if len(a) == 0 {
		return "-"
	}
	return fmt.Sprint(a[0])
}

func b2s(b bool) string {
	if b {
		return "1"
	}
	return "0"
}

// ---------------------------------------------------------------------------------------------
// cindex: real TsIndexer vs the CIndex model (OnWrite, look-ups, hull) + updatePoss window through the real index

// lateNote: an OnWrite notification held back in the cindex section
type lateNote struct {
	first, last uint32
	cid         int
	lo, hi      int64
}

func sectionCIndex(rng *vh.Rng) {
	sec := res.Section("cindex", "unit-correspondence",
		"the real tmindex.TsIndexer (own directory, exported API) fed with OnWrite sequences: batch sizes from {1,5,100,249,250,251,300,600,5001,5200} and random, chunk changes, first records > 0, monotone / jittered / zero and negative hulls; after every write 6 probes: GetPosForGreaterOrEqualTime, GetPosForLessTime, GetRecordsInfo and the updatePoss window for a range around the probe vs the Lean CIndex + Selector models; non-trivial = every write, distinct by its parameters")
	trials := 16
	if args.Thorough {
		trials = 120
	}
	type tr struct {
		lines, impls, what []string
	}
	outs := make([]tr, trials)
	var wg sync.WaitGroup
	sem := make(chan struct{}, 8)
	for t := 0; t < trials; t++ {
		wg.Add(1)
		sem <- struct{}{}
		go func(trial int, rnd *vh.Rng) {
			defer wg.Done()
			defer func() { <-sem }()
			dir := lrsrv.NewDir()
			defer os.RemoveAll(dir)
			ti := tmindex.NewTsIndexer()
			ctx, cancel := context.WithCancel(context.Background())
			inj := linker.New()
			inj.Register(linker.Component{Name: "", Value: &tmindex.TsIndexerConfig{Dir: dir}}, linker.Component{Name: "", Value: ti})
			if p := vh.Recover(func() { inj.Init(ctx) }); p != "" {
				res.Note("cindex: %s", p)
				cancel()
				return
			}
			defer func() { cancel(); inj.Shutdown() }()
			o := &outs[trial]
			add := func(l, im, w string) {
				o.lines = append(o.lines, l)
				o.impls = append(o.impls, im)
				o.what = append(o.what, w)
			}
			add("ci.reset", "ok", "reset")
			src := "s"
			cid := 1
			pos := uint32(0)
			ts := int64(1000)
			if trial%7 == 3 {
				pos = uint32(rnd.Intn(3))
			}
			mode := trial % 4
			var pending *lateNote
			nb := 20 + rnd.Intn(150)
			for b := 0; b < nb; b++ {
				cnt := uint32(rnd.PickI([]int{1, 5, 100, 249, 250, 251, 300, 600, 5001, 5200}))
				if rnd.Intn(3) > 0 {
					cnt = uint32(1 + rnd.Intn(400))
				}
				lo := ts
				switch mode {
				case 1:
					if rnd.Intn(5) == 0 {
						lo = ts - int64(rnd.Intn(60))
					}
				case 2:
					if rnd.Intn(3) == 0 {
						lo = ts - int64(rnd.Intn(2000))
					}
				case 3:
					lo = rnd.PickI64([]int64{0, -5, 3}) + ts*int64(rnd.Intn(2))
				}
				hi := lo + int64(rnd.Intn(30))
				if rnd.Intn(4) == 0 {
					hi = lo
				}
				deliver := func(first, last uint32, c int, lo, hi int64, late bool) {
					err := ti.OnWrite(src, first, last, tmindex.RecordsInfo{Id: chunk.Id(c), MinTs: lo, MaxTs: hi})
					exp := "ok"
					if e := errName(err); e != "" {
						exp = e
					}
					line := fmt.Sprintf("ci.write %d %d %d %d %d", first, last, c, lo, hi)
					res.Eval(sec, line)
					if late {
						res.Dist(sec, "write-late:"+exp)
					} else {
						res.Dist(sec, "write:"+exp)
					}
					add(line, exp, "cindex.onWrite")
				}
				if rnd.Intn(25) == 0 {
					if pending != nil {
						deliver(pending.first, pending.last, pending.cid, pending.lo, pending.hi, true)
						pending = nil
					}
					cid++
					pos = 0
					if rnd.Intn(5) == 0 {
						pos = 7
					}
				}
				first, last := pos, pos+cnt-1
				if trial%5 == 4 && pending == nil && pos > 0 && rnd.Intn(5) == 0 {
					// a notification that is overtaken by the ones of later batches (the index-level view of concurrent
					// writers): held back now, delivered after one or more later notifications of the same chunk
					pending = &lateNote{first, last, cid, lo, hi}
				} else {
					deliver(first, last, cid, lo, hi, false)
					if pending != nil && rnd.Intn(2) == 0 {
						deliver(pending.first, pending.last, pending.cid, pending.lo, pending.hi, true)
						pending = nil
					}
				}
				pos += cnt
				if hi > ts {
					ts = hi
				}
				for pr := 0; pr < 6; pr++ {
					c := 1 + rnd.Intn(cid+1)
					q := ts - int64(rnd.Intn(int(ts-900)+50)) + 20
					if rnd.Intn(3) == 0 {
						q = lo + int64(rnd.Intn(3)-1)
					}
					p, err := ti.GetPosForGreaterOrEqualTime(src, chunk.Id(c), q)
					exp := fmt.Sprintf("ok %d", p)
					if e := errName(err); e != "" {
						exp = e
					}
					res.Dist(sec, "greq:"+strings.Fields(exp)[0])
					add(fmt.Sprintf("ci.greq %d %d", c, q), exp, "cindex.getPosForGreaterOrEqualTime")
					p, err = ti.GetPosForLessTime(src, chunk.Id(c), q)
					exp = fmt.Sprintf("ok %d", p)
					if e := errName(err); e != "" {
						exp = e
					}
					res.Dist(sec, "less:"+strings.Fields(exp)[0])
					add(fmt.Sprintf("ci.less %d %d", c, q), exp, "cindex.getPosForLessTime")
					ri, err := ti.GetRecordsInfo(src, chunk.Id(c))
					exp = fmt.Sprintf("%d:%d", ri.MinTs, ri.MaxTs)
					if err != nil {
						exp = errName(err)
					}
					add(fmt.Sprintf("ci.info %d", c), exp, "cindex.getRecordsInfo")
					if err == nil {
						w := int64(rnd.Intn(40))
						mn, mx, rb := partition.VerifUpdatePoss(model.TimeRange{MinTs: q, MaxTs: q + w}, src, ri, ti)
						add(fmt.Sprintf("ci.upd %d %d %d", c, q, q+w), fmt.Sprintf("%d %d %d", mn, mx, rb), "chkSelector.updatePoss over the real index")
					}
				}
			}
		}(t, rng.Fork(fmt.Sprint("t", t)))
	}
	wg.Wait()
	for _, o := range outs {
		ans, err := vh.Batch(args.Driver, o.lines)
		if err != nil {
			res.Note("cindex: driver: %v", err)
		}
		for i := range ans {
			if ans[i] != o.impls[i] {
				res.Mismatch(vh.Mismatch{Section: "cindex", Function: o.what[i], Input: map[string]interface{}{"ops": tailLines(o.lines, i)}, Impl: o.impls[i], Model: ans[i]})
				break
			}
		}
	}
	res.Done(sec)
}

func tailLines(l []string, i int) []string {
	a := i - 12
	if a < 0 {
		a = 0
	}
	return l[a : i+1]
}

// ---------------------------------------------------------------------------------------------
// race (thorough): ranged readers next to a writer and forced rebuilds — SPEC only

func sectionRace(rng *vh.Rng) {
	sec := res.Section("race", "stress",
		"free-running: one writer appends monotone batches (sizes around 250) to a partition with small chunks while three readers run RANGE queries with bounds around recently written timestamps and a fourth goroutine forces index rebuilds through the asynchronous rebuilder; SPEC only: a result must contain every in-range event that was readable (confirmed) before the query started, nothing out of range, no duplicates, in stored order; non-trivial = the range cuts the data and at least one event was written during the query phase")
	rounds := 6
	for round := 0; round < rounds; round++ {
		dir := lrsrv.NewDir()
		srv, err := lrsrv.Start(dir, lrsrv.Opts{MaxChunkSize: rng.PickI([]int{5000, 10000, 50000})})
		if err != nil {
			res.Note("race: %v", err)
			os.RemoveAll(dir)
			continue
		}
		ctx := context.Background()
		var mu sync.Mutex
		var allTs []int64 // timestamps by sequence number, appended before the write call
		cur := int64(1000)
		stop := make(chan struct{})
		var wg sync.WaitGroup
		var batchStarts []int
		writeBatch := func(n int, r *vh.Rng) {
			mu.Lock()
			base := len(allTs)
			batchStarts = append(batchStarts, base)
			evs := make([]model.LogEvent, n)
			for i := range evs {
				if r.Chance(1, 3) {
					cur += int64(r.Intn(3))
				}
				allTs = append(allTs, cur)
				evs[i] = model.LogEvent{Timestamp: cur, Msg: []byte(fmt.Sprintf("%06d", base+i))}
			}
			mu.Unlock()
			if err := srv.Parts.Write(ctx, tags, &wit{evs: evs}, true); err != nil {
				res.Note("race: write: %v", err)
				return
			}
		}
		wr := rng.Fork(fmt.Sprint("w", round))
		writeBatch(600, wr)
		src, _, _ := srv.TIndex.GetOrCreateJournal(tags)
		srv.TIndex.Release(src)
		jrnl, _ := srv.Journals.GetOrCreate(ctx, src)
		wg.Add(1)
		go func() {
			defer wg.Done()
			for i := 0; i < 150; i++ {
				writeBatch(wr.PickI([]int{1, 30, 249, 250, 251, 500}), wr)
				time.Sleep(2 * time.Millisecond)
			}
			close(stop)
		}()
		wg.Add(1)
		go func(r *vh.Rng) {
			defer wg.Done()
			for {
				select {
				case <-stop:
					return
				default:
				}
				if jrnl != nil {
					cks, _ := jrnl.Chunks().Chunks(ctx)
					if len(cks) > 0 {
						srv.Parts.GetTmIndexRebuilder().RebuildIndex(src, cks[r.Intn(len(cks))].Id(), true)
					}
				}
				time.Sleep(3 * time.Millisecond)
			}
		}(rng.Fork(fmt.Sprint("rb", round)))
		for k := 0; k < 3; k++ {
			wg.Add(1)
			go func(r *vh.Rng) {
				defer wg.Done()
				run := &sysRun{srv: srv, ctx: ctx}
				for {
					select {
					case <-stop:
						return
					default:
					}
					// readable before the query starts = confirmed in the journal's chunks now (one sequential writer: the first conf events)
					conf := 0
					lastChunkStart := 0 // first event of the chunk that is the journal's last one when the query starts
					var chunkStarts []int
					if jrnl != nil {
						cks, _ := jrnl.Chunks().Chunks(ctx)
						for _, c := range cks {
							lastChunkStart = conf
							chunkStarts = append(chunkStarts, conf)
							conf += int(c.Count())
						}
					}
					if n := len(chunkStarts); n >= 3 {
						lastChunkStart = chunkStarts[n-3] // the newest three chunks: one Write call can open two chunks
					}
					mu.Lock()
					if conf > len(allTs) {
						conf = len(allTs)
					}
					snapshot := append([]int64{}, allTs[:conf]...)
					hiTs := cur
					recent := 0 // first event of the second-to-last Write call begun so far: its hull/index update may still be pending
					if len(batchStarts) >= 2 {
						recent = batchStarts[len(batchStarts)-2]
					}
					mu.Unlock()
					a := hiTs - int64(r.Intn(60))
					var lo, hi *int64
					switch r.Intn(3) {
					case 0:
						lo = i64p(a)
					case 1:
						lo, hi = i64p(a), i64p(a+int64(r.Intn(20)))
					default:
						lo, hi = i64p(a-int64(r.Intn(200))), i64p(a)
					}
					got, gts, qerr := run.runQuery(rangeQuery(lo, hi), r.PickI([]int{10000, 97, 1000}), false)
					mu.Lock()
					now := append([]int64{}, allTs...)
					mu.Unlock()
					in := map[string]interface{}{"round": round, "lo": lo, "hi": hi, "confirmed_before": conf}
					if qerr != "" {
						res.SpecFail(vh.SpecFailure{Section: "race", Kind: "query-error", Input: in, Impl: qerr, Spec: "answer", What: "ranged query failed next to a writer / rebuild: " + qerr})
						continue
					}
					have := map[int]bool{}
					bad := ""
					prev := -1
					for i, s := range got {
						if s < 0 || s >= len(now) || now[s] != gts[i] || !inB(gts[i], lo, hi) {
							bad = fmt.Sprintf("event #%d ts=%d is outside the range or unknown", s, gts[i])
						}
						if have[s] || s <= prev {
							bad = fmt.Sprintf("event #%d duplicated or out of order", s)
						}
						have[s] = true
						prev = s
					}
					missing := 0
					want := 0
					onlyRecent := true
					onlyLastChunk := true
					var missed []int
					for s, t := range snapshot {
						if inB(t, lo, hi) {
							want++
							if !have[s] {
								missing++
								missed = append(missed, s)
								if s < recent {
									onlyRecent = false
								}
								if s < lastChunkStart {
									onlyLastChunk = false
								}
							}
						}
					}
					key := ""
					if want > 0 && want < len(snapshot) && len(now) > len(snapshot) {
						key = fmt.Sprint(round, optS(lo), optS(hi), conf)
					}
					res.Eval(sec, key)
					if bad != "" {
						res.SpecFail(vh.SpecFailure{Section: "race", Kind: "extra-event", Input: in, Impl: short(runsOf(got)), Spec: "subset of the range, stored order", What: bad})
					} else if missing > 0 {
						finding := ""
						// both defects are repaired (a7caf30, d4bea54): a loss of one of their free-running classes is tagged with the old
						// id, the check then reports that the defect is back. F53's class (per chunk a PREFIX of the in-range events of one
						// of the newest chunks is hidden) is tested first: in a young chunk it can coincide with F46's (a SUFFIX of the
						// stream: only the last two Write calls)
						prefix, seenDelivered := onlyLastChunk, false
						nextChunk := 0
						for s := lastChunkStart; s < len(snapshot) && prefix; s++ {
							for nextChunk < len(chunkStarts) && chunkStarts[nextChunk] <= s {
								if chunkStarts[nextChunk] == s {
									seenDelivered = false // a new chunk starts: the prefix rule holds chunk by chunk
								}
								nextChunk++
							}
							if !inB(snapshot[s], lo, hi) {
								continue
							}
							if have[s] {
								seenDelivered = true
							} else if seenDelivered {
								prefix = false
							}
						}
						startsAtChunk := false
						for _, cs := range chunkStarts {
							if len(missed) > 0 && cs == missed[0] {
								startsAtChunk = true
							}
						}
						switch {
						case prefix && (startsAtChunk || !onlyRecent):
							finding = "F53"
						case onlyRecent:
							finding = "F46"
						}
						in["hidden_is_prefix_of_a_newest_chunk"] = prefix
						in["only_last_chunk"], in["last_chunk_start"], in["recent_start"] = onlyLastChunk, lastChunkStart, recent
						if len(missed) > 0 {
							in["missed"] = fmt.Sprint(missed[0], "…", missed[len(missed)-1])
						}
						res.SpecFail(vh.SpecFailure{Section: "race", Kind: "hidden-event", Input: in, Impl: short(runsOf(got)), Spec: fmt.Sprintf("%d events confirmed before the query are in range", want), Finding: finding, ImplEqModel: finding != "",
							What: fmt.Sprintf("RANGE [%s:%s] next to a writer and forced rebuilds hides %d of %d events that were readable before the query started (monotone data)", optS(lo), optS(hi), missing, want)})
					}
				}
			}(rng.Fork(fmt.Sprint("r", round, k)))
		}
		wg.Wait()
		for k := 0; k < 5000 && !srv.Parts.VerifRebuilderIdle(); k++ {
			time.Sleep(time.Millisecond)
		}
		srv.Stop()
		os.RemoveAll(dir)
	}
	res.Done(sec)
}

// sectionJIter is built in jiter.go
